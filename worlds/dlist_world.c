/* dlist world: C12 (doubly-linked list equals a reference sequence both ways) and the dlist part of C15 */
#include "cstl/dlist.h"
#define W_AUDIT_NEW_STATES_ONLY 1   /* the key holds the implementation's raw state AND the reference model, so the audit verdict is a function of the key */
#include "../engine/mc.h"
#include <sanitizer/asan_interface.h>
#include <limits.h>

#define PC12 P(0)
#define PC15 P(1)
static const char *w_name = "dlist";
static unsigned w_prop_bit(const char *id) { return !strcmp(id, "C12") ? PC12 : !strcmp(id, "C15") ? PC15 : 0; }

#define MAXN 8
#define MAXL 3
struct elem { long pad; int val; int idx; struct cstl_dlist_node n; long pad2; struct cstl_dlist_node n2; long tail; };
/* in a MIXED configuration the last list threads its elements through n2 (another offset): swap must carry the offset, concat across offsets is a documented no-op */
static int MIXED; static size_t m_off[MAXL];
#define ND(i, off) ((struct cstl_dlist_node *)((char *)&pool[i] + (off)))
static struct elem pool[MAXN];
static struct cstl_dlist L[MAXL];
static int N, NL;
static int vals[MAXN];
static int vcookie, vbad;       /* every visit / clear callback must receive the private pointer the caller passed */
static char cfgdesc[200];

/* model */
static int m_seq[MAXL][MAXN], m_len[MAXL];
static int m_where[MAXN];                 /* list index or -1 */

enum { O_PUSHF = 1, O_PUSHB, O_POPF, O_POPB, O_INS, O_ERASE, O_REV, O_SORT, O_CONCAT, O_SWAP, O_CLEAR, O_FE_ERASE_ALL, O_FE_ERASE_ONE };
#define OP(c, a, b, d) ((mc_op_t)((c) | ((a) << 8) | ((b) << 16) | ((d) << 24)))
#define OC(o) ((o) & 0xff)
#define OA(o) (((o) >> 8) & 0xff)
#define OB(o) (((o) >> 16) & 0xff)
#define OD(o) (((o) >> 24) & 0xff)

enum { K_CLEAR, K_CLEAR_NONEMPTY, K_FOREACH_ERASE, K_SORT_GT1, K_REVERSE_GT1, K_CONCAT_NONEMPTY, K_SWAP_ONE_EMPTY, K_POP_EMPTY };
static const char *w_counter_names[] = { "clear_applied", "clear_on_nonempty", "foreach_with_removal", "sort_len_gt1", "reverse_len_gt1",
                                          "concat_nonempty_source", "swap_with_one_empty", "pop_on_empty", NULL };

static int w_nconfigs(int thorough) { return thorough ? 9 : 3; }
static int USE_MACRO;
static void w_setup(int cfg, int thorough)
{
    int i, l, j, d;
    static const int v5[] = { 0, 1, 1, 2, 3 }, v6[] = { 2, 0, 1, 1, 3, 0 }, v4[] = { 1, 0, 1, 2 }, v7[] = { 2, 0, 1, 1, 3, 0, 2 }, v8[] = { 2, 0, 1, 1, 3, 0, 2, 3 };
    const int *v;
    MIXED = 0; USE_MACRO = cfg & 1;      /* odd configurations build the lists with CSTL_DLIST_INITIALIZER instead of the init function */
    if (!thorough && cfg == 2) { MIXED = 1; cfg = 0; }
    if (thorough && (cfg == 4 || cfg == 5)) { MIXED = 1; cfg = cfg == 4 ? 0 : 1; }
    if (!thorough) {
        if (cfg == 0) { NL = 2; N = 5; v = v5; } else { NL = 3; N = 4; v = v4; }
    } else {
        if (cfg == 0) { NL = 2; N = 5; v = v5; }
        else if (cfg == 1) { NL = 3; N = 4; v = v4; }
        else if (cfg == 2) { NL = 2; N = 6; v = v6; }
        else if (cfg == 6) { NL = 2; N = 7; v = v7; }
        else if (cfg == 7) { NL = 3; N = 6; v = v6; }
        else if (cfg == 8) { NL = 2; N = 8; v = v8; }
        else { NL = 3; N = 5; v = v5; }
    }
    for (i = 0; i < N; i++) vals[i] = v[i];
    snprintf(cfgdesc, sizeof cfgdesc, "%d lists, pool of %d elements, values with ties%s", NL, N, MIXED ? ", the last list uses a node member at another offset" : "");
    w_nops = 0;
    for (l = 0; l < NL; l++) for (i = 0; i < N; i++) { w_ops[w_nops++] = OP(O_PUSHF, l, i, 0); w_ops[w_nops++] = OP(O_PUSHB, l, i, 0); }
    for (l = 0; l < NL; l++) { w_ops[w_nops++] = OP(O_POPF, l, 0, 0); w_ops[w_nops++] = OP(O_POPB, l, 0, 0); }
    for (j = 0; j < N; j++) for (i = 0; i < N; i++) if (i != j) w_ops[w_nops++] = OP(O_INS, j, i, 0);
    for (j = 0; j < N; j++) w_ops[w_nops++] = OP(O_ERASE, j, 0, 0);
    for (l = 0; l < NL; l++) { w_ops[w_nops++] = OP(O_REV, l, 0, 0); w_ops[w_nops++] = OP(O_SORT, l, 0, 0); w_ops[w_nops++] = OP(O_CLEAR, l, 0, 0); }
    for (l = 0; l < NL; l++) for (j = 0; j < NL; j++) w_ops[w_nops++] = OP(O_CONCAT, l, j, 0);
    for (l = 0; l < NL; l++) for (j = l; j < NL; j++) w_ops[w_nops++] = OP(O_SWAP, l, j, 0);
    for (l = 0; l < NL; l++) for (d = 0; d < 2; d++) {
        w_ops[w_nops++] = OP(O_FE_ERASE_ALL, l, d, 0);
        for (j = 0; j < N; j++) w_ops[w_nops++] = OP(O_FE_ERASE_ONE, l, d, j);
    }
}
static const char *w_config_desc(void) { return cfgdesc; }

static void scrub_free(void);
static void w_init(void)
{
    int i, l;
    shim_reset(); vbad = 0;
    __asan_unpoison_memory_region(pool, sizeof pool);
    memset(pool, 0, sizeof pool);
    for (i = 0; i < N; i++) { pool[i].val = vals[i]; pool[i].idx = i; m_where[i] = -1; pool[i].pad = 0x1111; pool[i].tail = 0x2222; pool[i].pad2 = 0x3333; }
    for (l = 0; l < NL; l++) { m_off[l] = (MIXED && l == NL - 1) ? offsetof(struct elem, n2) : offsetof(struct elem, n); memset(&L[l], 0xA5, sizeof L[l]);
        if (!USE_MACRO) cstl_dlist_init(&L[l], m_off[l]);
        else if (m_off[l] == offsetof(struct elem, n2)) L[l] = (struct cstl_dlist)CSTL_DLIST_INITIALIZER(L[l], struct elem, n2);
        else L[l] = (struct cstl_dlist)CSTL_DLIST_INITIALIZER(L[l], struct elem, n);
        m_len[l] = 0; }
    scrub_free();
}

static int w_enabled(mc_op_t o)
{
    switch (OC(o)) {
    case O_PUSHF: case O_PUSHB: return m_where[OB(o)] < 0;
    case O_INS: return m_where[OA(o)] >= 0 && m_where[OB(o)] < 0;
    case O_ERASE: return m_where[OA(o)] >= 0;
    case O_FE_ERASE_ALL: return m_len[OA(o)] > 0;
    case O_FE_ERASE_ONE: return (int)OD(o) < m_len[OA(o)];
    default: return 1;
    }
}

static int idx_of(const void *e)
{
    uintptr_t d = (uintptr_t)e - (uintptr_t)pool;
    if ((uintptr_t)e < (uintptr_t)pool || d >= sizeof(struct elem) * (size_t)N || d % sizeof(struct elem)) return -1;
    return (int)(d / sizeof(struct elem));
}
static int sort_cookie, wrong_priv, find_key, find_roles_bad;
/* the comparison function of find: "comparing the user-supplied object with objects in the list" -- the sought object (here a bare key,
 * not an element) is the first argument, a list member the second */
static int cmp_find(const void *a, const void *b, void *p)
{
    if (a != (const void *)&find_key || p != (void *)&find_key) { find_roles_bad++; return 1; }
    return find_key - ((const struct elem *)b)->val;
}
static int cmp_elem(const void *a, const void *b, void *p)
{
    int d = ((const struct elem *)a)->val - ((const struct elem *)b)->val;
    if (p != (void *)&sort_cookie) wrong_priv++;
    if (MIXED) return d < 0 ? INT_MIN : d > 0 ? INT_MAX : 0;      /* the mixed configurations also use a comparator with extreme magnitudes */
    return d;
}

/* ---- callbacks ---- */
static int seen_seq[4 * MAXN + 8], seen_n, cb_stop_at, cb_guard;
static int cb_collect(void *e, void *p)
{
    if (p != (void *)&vcookie) vbad++;
    if (seen_n < 4 * MAXN + 8) seen_seq[seen_n] = idx_of(e);
    seen_n++;
    if (seen_n > 4 * MAXN) return 99;                      /* watchdog against link cycles */
    if (cb_stop_at >= 0 && seen_n == cb_stop_at + 1) return (cb_stop_at & 1) ? -(cb_stop_at + 1) : cb_stop_at + 1;      /* stop values of both signs */
    return 0;
}
static int clr_count[MAXN], clr_bad;
static void cb_clear(void *e, void *p)
{
    int i = idx_of(e);
    (void)p;
    if (i < 0) { clr_bad++; return; }
    clr_count[i]++;
    if (clr_count[i] == 1) __asan_poison_memory_region(&pool[i], sizeof pool[i]);
}
static int fe_list, fe_which, fe_visits;
static int cb_erase(void *e, void *p)
{
    if (p != (void *)&vcookie) vbad++;
    int i = idx_of(e);
    (void)p;
    if (fe_visits < 4 * MAXN + 8) seen_seq[fe_visits] = i;
    fe_visits++;
    if (fe_visits > 4 * MAXN) return 99;
    if (i >= 0 && (fe_which < 0 || fe_which == fe_visits - 1)) {
        cstl_dlist_erase(&L[fe_list], e);
        __asan_poison_memory_region(&pool[i], sizeof pool[i]);   /* "freed" */
    }
    return 0;
}

static void collect(int l, int dir, int stop_at, int *ab, int *res)
{
    static volatile int r;
    seen_n = 0; cb_stop_at = stop_at; cb_guard = 0;
    SHIM_CALL(*ab, r = cstl_dlist_foreach(&L[l], cb_collect, &vcookie, dir ? CSTL_DLIST_FOREACH_DIR_REV : CSTL_DLIST_FOREACH_DIR_FWD));
    *res = r;
}

/* adopt the implementation's order of list l into the model after checking it is a permutation */
static int same_multiset(const int *a, int na, const int *b, int nb)
{
    int cnt[MAXN] = { 0 }, i;
    if (na != nb) return 0;
    for (i = 0; i < na; i++) { if (a[i] < 0 || a[i] >= N) return 0; cnt[a[i]]++; }
    for (i = 0; i < nb; i++) cnt[b[i]]--;
    for (i = 0; i < N; i++) if (cnt[i]) return 0;
    return 1;
}

static void m_remove(int l, int pos)
{
    int k;
    m_where[m_seq[l][pos]] = -1;
    for (k = pos; k + 1 < m_len[l]; k++) m_seq[l][k] = m_seq[l][k + 1];
    m_len[l]--;
}
static void m_insert(int l, int pos, int i)
{
    int k;
    for (k = m_len[l]; k > pos; k--) m_seq[l][k] = m_seq[l][k - 1];
    m_seq[l][pos] = i; m_len[l]++; m_where[i] = l;
}
/* The node of an element that is in no list holds stale bytes: the API takes uninitialised nodes (the unit tests pass stack garbage).  Before every
 * operation every node that is not linked into a list is overwritten with plausible stale links - the address of the NEXT pool element's node - so
 * that (a) an insert that forgets to write a link is seen, and (b) what such nodes hold is a function of the state, which the key (member nodes
 * only) relies on. */
static void stale_fill(void *node, size_t sz, const void *target) { size_t k; for (k = 0; k + sizeof(void *) <= sz; k += sizeof(void *)) memcpy((char *)node + k, &target, sizeof target); }
static void scrub_free(void)
{
    int i;
    for (i = 0; i < N; i++) {
        struct elem *nx = &pool[(i + 1) % N]; int l = m_where[i];
        if (l < 0 || m_off[l] != offsetof(struct elem, n)) stale_fill(&pool[i].n, sizeof pool[i].n, &nx->n);
        if (l < 0 || m_off[l] != offsetof(struct elem, n2)) stale_fill(&pool[i].n2, sizeof pool[i].n2, &nx->n2);
    }
}
static int m_pos(int l, int i) { int k; for (k = 0; k < m_len[l]; k++) if (m_seq[l][k] == i) return k; return -1; }

static void w_apply(mc_op_t o)
{
    int a = OA(o), b = OB(o), d = OD(o), ab = 0, k;
    static void * volatile rp;
    scrub_free();
    switch (OC(o)) {
    case O_PUSHF:
        SHIM_CALL(ab, cstl_dlist_push_front(&L[a], &pool[b])); m_insert(a, 0, b); break;
    case O_PUSHB:
        SHIM_CALL(ab, cstl_dlist_push_back(&L[a], &pool[b])); m_insert(a, m_len[a], b); break;
    case O_POPF: case O_POPB: {
        int front = OC(o) == O_POPF, exp = -1;
        if (m_len[a] == 0) MC_COUNT(K_POP_EMPTY);
        if (front) SHIM_CALL(ab, rp = cstl_dlist_pop_front(&L[a])); else SHIM_CALL(ab, rp = cstl_dlist_pop_back(&L[a]));
        if (m_len[a] > 0) { exp = front ? m_seq[a][0] : m_seq[a][m_len[a] - 1]; m_remove(a, front ? 0 : m_len[a] - 1); }
        if (!ab) MC_CHECK(PC12, (exp < 0 && rp == NULL) || (exp >= 0 && rp == (void *)&pool[exp]),
                          "pop_%s(list %d) returned element %d, expected %d", front ? "front" : "back", a, rp ? idx_of(rp) : -1, exp);
        break;
    }
    case O_INS: {
        int l = m_where[a];
        SHIM_CALL(ab, cstl_dlist_insert(&L[l], &pool[a], &pool[b]));
        m_insert(l, m_pos(l, a) + 1, b);
        break;
    }
    case O_ERASE: {
        int l = m_where[a];
        SHIM_CALL(ab, cstl_dlist_erase(&L[l], &pool[a]));
        m_remove(l, m_pos(l, a));
        break;
    }
    case O_REV:
        if (m_len[a] > 1) MC_COUNT(K_REVERSE_GT1);
        SHIM_CALL(ab, cstl_dlist_reverse(&L[a]));
        for (k = 0; k < m_len[a] / 2; k++) { int t = m_seq[a][k]; m_seq[a][k] = m_seq[a][m_len[a] - 1 - k]; m_seq[a][m_len[a] - 1 - k] = t; }
        break;
    case O_SORT: {
        int r, ab2;
        if (m_len[a] > 1) MC_COUNT(K_SORT_GT1);
        wrong_priv = 0;
        SHIM_CALL(ab, cstl_dlist_sort(&L[a], cmp_elem, &sort_cookie));
        if (!ab) MC_CHECK(PC12, wrong_priv == 0, "sort called the comparison function %d times with a private pointer other than the caller's", wrong_priv);
        if (ab) break;
        collect(a, 0, -1, &ab2, &r);
        if (ab2) { ab = ab2; break; }
        MC_CHECK(PC12, same_multiset(seen_seq, seen_n, m_seq[a], m_len[a]), "sort(list %d) did not yield a permutation of the same %d elements (got %d)", a, m_len[a], seen_n);
        if (mc_viol_now || mc_branch_dead) break;
        for (k = 0; k + 1 < seen_n; k++) MC_CHECK(PC12, vals[seen_seq[k]] <= vals[seen_seq[k + 1]], "sort(list %d): element at %d (val %d) precedes smaller val %d", a, k, vals[seen_seq[k]], vals[seen_seq[k + 1]]);
        for (k = 0; k < seen_n && k < MAXN; k++) m_seq[a][k] = seen_seq[k];     /* order among ties is the implementation's choice */
        break;
    }
    case O_CONCAT:
        if (a != b && m_len[b] > 0) MC_COUNT(K_CONCAT_NONEMPTY);
        SHIM_CALL(ab, cstl_dlist_concat(&L[a], &L[b]));
        if (a != b && m_off[a] == m_off[b]) { while (m_len[b] > 0) { int i = m_seq[b][0]; m_remove(b, 0); m_insert(a, m_len[a], i); } }
        break;
    case O_SWAP: {
        int t[MAXN], tn;
        if ((m_len[a] == 0) != (m_len[b] == 0)) MC_COUNT(K_SWAP_ONE_EMPTY);
        SHIM_CALL(ab, cstl_dlist_swap(&L[a], &L[b]));
        if (a != b) {
            tn = m_len[a]; memcpy(t, m_seq[a], sizeof t);
            m_len[a] = m_len[b]; memcpy(m_seq[a], m_seq[b], sizeof t);
            m_len[b] = tn; memcpy(m_seq[b], t, sizeof t);
            for (k = 0; k < m_len[a]; k++) m_where[m_seq[a][k]] = a;
            for (k = 0; k < m_len[b]; k++) m_where[m_seq[b][k]] = b;
            { size_t t_ = m_off[a]; m_off[a] = m_off[b]; m_off[b] = t_; }
        }
        break;
    }
    case O_CLEAR: {
        int i;
        MC_COUNT(K_CLEAR); if (m_len[a] > 0) MC_COUNT(K_CLEAR_NONEMPTY);
        memset(clr_count, 0, sizeof clr_count); clr_bad = 0;
        SHIM_CALL(ab, cstl_dlist_clear(&L[a], cb_clear));
        __asan_unpoison_memory_region(pool, sizeof pool);
        if (!ab) {
            MC_CHECK(PC15 | PC12, clr_bad == 0, "clear(list %d) called back with a pointer that is no element", a);
            for (i = 0; i < N; i++) {
                int exp = m_where[i] == a;
                MC_CHECK(PC15 | PC12, clr_count[i] == exp, "clear(list %d): element %d handed over %d times, expected %d", a, i, clr_count[i], exp);
            }
            MC_CHECK(PC15 | PC12, cstl_dlist_size(&L[a]) == 0, "clear(list %d) left size %zu", a, cstl_dlist_size(&L[a]));
            /* "usable exactly like a freshly initialised one" is decided by the search itself: the cleared state is a state like any other (if its bytes equal the
             * initial state's it IS that state; if not it is expanded and audited on its own). A byte comparison with a fresh object would also compare members
             * a later version may add and leave alone in clear. */
        }
        while (m_len[a] > 0) m_remove(a, 0);
        break;
    }
    case O_FE_ERASE_ALL: case O_FE_ERASE_ONE: {
        int one = OC(o) == O_FE_ERASE_ONE, n0 = m_len[a];
        static volatile int r;
        MC_COUNT(K_FOREACH_ERASE);
        fe_list = a; fe_which = one ? d : -1; fe_visits = 0;
        SHIM_CALL(ab, r = cstl_dlist_foreach(&L[a], cb_erase, &vcookie, b ? CSTL_DLIST_FOREACH_DIR_REV : CSTL_DLIST_FOREACH_DIR_FWD));
        __asan_unpoison_memory_region(pool, sizeof pool);
        if (!ab) {
            MC_CHECK(PC12, r == 0, "foreach with removal returned %d although the visitor always returned 0", r);
            MC_CHECK(PC12, fe_visits == n0, "foreach(list %d, %s) removing the visited element made %d visits, list had %d", a, b ? "REV" : "FWD", fe_visits, n0);
            for (k = 0; k < fe_visits && k < n0; k++) {
                int exp = b ? m_seq[a][n0 - 1 - k] : m_seq[a][k];
                MC_CHECK(PC12, seen_seq[k] == exp, "foreach with removal: visit %d was element %d, expected %d", k, seen_seq[k], exp);
            }
        }
        if (one) m_remove(a, b ? n0 - 1 - d : d); else while (m_len[a] > 0) m_remove(a, 0);
        break;
    }
    }
    if (ab) MC_CHECK(PC12 | PC15, 0, "unexpected %s inside the library: %s", ab == 3 ? "non-termination (a library call still running after 3 s)" : ab == 2 ? "assertion failure" : "abort()", ab == 2 ? shim_assert_msg : "");
}

static void w_audit(void)
{
    int l, dir, j, k, ab, r;
    for (l = 0; l < NL; l++) {
        MC_CHECK(PC12, cstl_dlist_size(&L[l]) == (size_t)m_len[l], "size(list %d) = %zu, reference has %d", l, cstl_dlist_size(&L[l]), m_len[l]);
        {
            void *f = NULL, *bk = NULL;
            SHIM_CALL(ab, (f = cstl_dlist_front(&L[l]), bk = cstl_dlist_back(&L[l])));
            if (ab) { MC_CHECK(PC12, 0, "front/back aborted"); return; }
            MC_CHECK(PC12, f == (m_len[l] ? (void *)&pool[m_seq[l][0]] : NULL), "front(list %d) is element %d, reference says %d", l, f ? idx_of(f) : -1, m_len[l] ? m_seq[l][0] : -1);
            MC_CHECK(PC12, bk == (m_len[l] ? (void *)&pool[m_seq[l][m_len[l] - 1]] : NULL), "back(list %d) is element %d, reference says %d", l, bk ? idx_of(bk) : -1, m_len[l] ? m_seq[l][m_len[l] - 1] : -1);
        }
        for (dir = 0; dir < 2; dir++) {
            collect(l, dir, -1, &ab, &r);
            if (ab) { MC_CHECK(PC12, 0, "foreach aborted"); return; }
            MC_CHECK(PC12, r == 0, "foreach(list %d, %s) returned %d with an always-zero visitor", l, dir ? "REV" : "FWD", r);
            MC_CHECK(PC12, seen_n == m_len[l], "foreach(list %d, %s) visited %d elements, reference has %d", l, dir ? "REV" : "FWD", seen_n, m_len[l]);
            if (mc_branch_dead) return;
            for (k = 0; k < seen_n; k++) {
                int exp = dir ? m_seq[l][m_len[l] - 1 - k] : m_seq[l][k];
                MC_CHECK(PC12, seen_seq[k] == exp, "foreach(list %d, %s): position %d holds element %d, reference says %d", l, dir ? "REV" : "FWD", k, seen_seq[k], exp);
            }
            if (mc_branch_dead) return;
            for (j = 0; j < m_len[l]; j++) {
                collect(l, dir, j, &ab, &r);
                MC_CHECK(PC12, !ab && r == ((j & 1) ? -(j + 1) : j + 1) && seen_n == j + 1, "foreach(list %d, %s) with a visitor returning %d at visit %d: returned %d after %d visits", l, dir ? "REV" : "FWD", j + 1, j, r, seen_n);
            }
            /* find: first match in the chosen direction, for every value of the alphabet and one absent value */
            for (j = 0; j <= 4; j++) {
                void *f = NULL; int exp = -1;
                find_key = j; find_roles_bad = 0;
                SHIM_CALL(ab, f = cstl_dlist_find(&L[l], &find_key, cmp_find, &find_key, dir ? CSTL_DLIST_FOREACH_DIR_REV : CSTL_DLIST_FOREACH_DIR_FWD));
                MC_CHECK(PC12, find_roles_bad == 0, "find called the comparison function %d times with something other than (sought object, list member, caller's private pointer)", find_roles_bad);
                for (k = 0; k < m_len[l]; k++) { int i = dir ? m_seq[l][m_len[l] - 1 - k] : m_seq[l][k]; if (vals[i] == j) { exp = i; break; } }
                MC_CHECK(PC12, !ab && f == (exp >= 0 ? (void *)&pool[exp] : NULL), "find(list %d, value %d, %s) returned element %d, first match is %d", l, j, dir ? "REV" : "FWD", f ? idx_of(f) : -1, exp);
            }
        }
    }
    MC_CHECK(PC12, vbad == 0, "a visit callback received a private pointer other than the one the caller passed (%d calls)", vbad);
    for (k = 0; k < N; k++) MC_CHECK(PC12, pool[k].pad == 0x1111 && pool[k].tail == 0x2222 && pool[k].pad2 == 0x3333 && pool[k].val == vals[k], "element %d bytes outside its list node were modified", k);
}

/* names for the addresses found in the raw bytes of the list objects and of the member nodes: element index + offset, list index + offset */
static int lsym(uintptr_t v)
{
    if (v >= (uintptr_t)pool && v < (uintptr_t)(pool + N)) { size_t d = v - (uintptr_t)pool; KB_C('e'); KB_U(d / sizeof(struct elem)); KB_C('+'); KB_U(d % sizeof(struct elem)); return 1; }
    if (v >= (uintptr_t)L && v < (uintptr_t)(L + NL)) { size_t d = v - (uintptr_t)L; KB_C('H'); KB_U(d / sizeof L[0]); KB_C('+'); KB_U(d % sizeof L[0]); return 1; }
    return 0;
}
/* every byte of the list object and of the node of every member, members of the library's structs unnamed (a change may rename or reorder them) */
static void canon_one(int l)
{
    int k;
    KB_C('L'); KB_MEM(&L[l], sizeof L[l], lsym); KB_C('/'); KB_U(m_off[l]); KB_C('[');
    for (k = 0; k < m_len[l]; k++) { int i = m_seq[l][k]; KB_U((unsigned)i); KB_C('='); KB_MEM((const char *)&pool[i] + m_off[l], sizeof(struct cstl_dlist_node), lsym); KB_C(' '); }
    KB_C(']');
}
static void w_canon(void)
{
    int l, i;
    for (l = 0; l < NL; l++) canon_one(l);
    KB_C('v'); KB_U((unsigned)(vbad != 0));
    KB_C('m'); for (i = 0; i < N; i++) KB_I(m_where[i]);
    for (i = 0; i < N; i++) if (pool[i].pad != 0x1111 || pool[i].tail != 0x2222 || pool[i].pad2 != 0x3333 || pool[i].val != vals[i]) { KB_C('X'); KB_U((unsigned)i); }
}
/* C15: after clear the container must be field-for-field what cstl_*_init produces */
#if 0
static void check_fresh(int l)
{
    char got[256], fresh[256]; size_t save = mc_kbn, n1, n2; int sl = m_len[l];
    static struct cstl_dlist saved;
    mc_kbn = 0; m_len[l] = 0; canon_one(l); n1 = mc_kbn < 255 ? mc_kbn : 255; memcpy(got, mc_kb, n1); got[n1] = 0;
    saved = L[l]; cstl_dlist_init(&L[l], m_off[l]);
    mc_kbn = 0; canon_one(l); n2 = mc_kbn < 255 ? mc_kbn : 255; memcpy(fresh, mc_kb, n2); fresh[n2] = 0;
    L[l] = saved; m_len[l] = sl; mc_kbn = save;
    MC_CHECK(PC15, !strcmp(got, fresh), "after clear list %d is not like a freshly initialised one: fields %s, fresh %s", l, got, fresh);
}
#endif
static void w_opname(mc_op_t o, char *b, size_t n)
{
    static const char *nm[] = { "?", "push_front", "push_back", "pop_front", "pop_back", "insert_after", "erase", "reverse", "sort", "concat", "swap", "clear", "foreach_erase_all", "foreach_erase_kth" };
    switch (OC(o)) {
    case O_PUSHF: case O_PUSHB: snprintf(b, n, "%s(L%d,e%d)", nm[OC(o)], OA(o), OB(o)); break;
    case O_INS: snprintf(b, n, "insert(after e%d, e%d)", OA(o), OB(o)); break;
    case O_ERASE: snprintf(b, n, "erase(e%d)", OA(o)); break;
    case O_CONCAT: case O_SWAP: snprintf(b, n, "%s(L%d,L%d)", nm[OC(o)], OA(o), OB(o)); break;
    case O_FE_ERASE_ALL: snprintf(b, n, "foreach(L%d,%s,erase every visited)", OA(o), OB(o) ? "REV" : "FWD"); break;
    case O_FE_ERASE_ONE: snprintf(b, n, "foreach(L%d,%s,erase visit #%d)", OA(o), OB(o) ? "REV" : "FWD", OD(o)); break;
    default: snprintf(b, n, "%s(L%d)", nm[OC(o)], OA(o)); break;
    }
}
static int w_nontrivial(void) { int l, c = 0; for (l = 0; l < NL; l++) c += m_len[l] > 0; return c >= 1; }
