/* string world: C10 (strings equal a reference string after every edit and stay NUL-terminated); built twice: narrow and -DWIDE */
#include "cstl/string.h"
#define W_AUDIT_NEW_STATES_ONLY 1
#include "../engine/mc.h"
#include <wchar.h>

#ifdef WIDE
typedef wchar_t CH;
typedef struct cstl_wstring STR;
#define SF(n) cstl_wstring_##n
#define XCHR wcschr
#define XSTR wcsstr
#define XCMP wcscmp
#define XLEN wcslen
#define WNAME "wstring"
#else
typedef char CH;
typedef struct cstl_string STR;
#define SF(n) cstl_string_##n
#define XCHR strchr
#define XSTR strstr
#define XCMP strcmp
#define XLEN strlen
#define WNAME "string"
#endif

#define PC10 P(0)
static const char *w_name = WNAME;
static unsigned w_prop_bit(const char *id) { return !strcmp(id, "C10") ? PC10 : 0; }

#define MAXL 8
static int L;                          /* reference strings are at most L characters long */
static STR S[2];
static char cfgdesc[256];
static struct { CH c[MAXL + 2]; size_t n; } M[2];     /* reference: explicit length, may contain NULs (resize fills with NUL) */

/* literals */
static CH ch_a = 'a';                 /* the last configuration replaces 'a' by a character above 0x7f (narrow: 0xE9, negative as plain char; wide: U+0161) */
static const CH lit0_[][6] = { { 0 }, { 'a', 0 }, { 'a', 'b', 0 }, { 'b', 'a', 0 }, { 'b', 'a', 'b', 'a', 0 }, { 'a', 'a', 0 }, { 'b', 0 }, { 'c', 0 } };
#define NLIT_SET 5
static CH lit_[8][6];
static const char *litname[] = { "\"\"", "\"a\"", "\"ab\"", "\"ba\"", "\"baba\"", "\"aa\"", "\"b\"", "\"c\"" };

/* position and count arguments */
enum { P_0, P_1, P_SIZE_M1, P_SIZE, P_SIZE_P1, P_MAX_M1, P_MAX, NPOS };
static const char *posname[] = { "0", "1", "size-1", "size", "size+1", "SIZE_MAX-1", "SIZE_MAX" };
enum { C_0, C_1, C_2, C_SIZE, C_MAX, C_MAX_M1, C_MAX_MSIZE, C_MAX_MSIZE_P1, C_Q, C_Q_P1, C_MAX_MPOS, C_E_M1, C_E_M2, C_E_M1_MSIZE, NCNT };
static const char *cntname[] = { "0", "1", "2", "size", "SIZE_MAX", "SIZE_MAX-1", "SIZE_MAX-size", "SIZE_MAX-size+1", "SIZE_MAX/4", "SIZE_MAX/4+1", "SIZE_MAX-pos", "SIZE_MAX/sizeof(char_type)-1", "SIZE_MAX/sizeof(char_type)-2", "SIZE_MAX/sizeof(char_type)-1-size" };

enum { O_SET = 1, O_INS_CH, O_INS_STRN, O_INS_OBJ, O_APPEND_OBJ, O_APPEND_CH, O_APPEND_STR, O_ERASE, O_SUBSTR, O_RESIZE, O_RESERVE, O_SWAP, O_CLEAR,
       O_B_SET, O_B_CLEAR, O_B_RESIZE1, O_B_ERASEALL };
#define OP(c, a, b, d) ((mc_op_t)((c) | ((a) << 8) | ((b) << 16) | ((d) << 24)))
#define OC(o) ((o) & 0xff)
#define OA(o) (((o) >> 8) & 0xff)
#define OB(o) (((o) >> 16) & 0xff)
#define OD(o) (((o) >> 24) & 0xff)

enum { K_ABORT_POS, K_ABORT_GROWTH, K_CLAMPED, K_CLAMPED_HUGE, K_EMBEDDED_NUL, K_INS_OBJ_WITH_NUL, K_REALLOC, K_POS_EQ_SIZE_ERASE };
static const char *w_counter_names[] = { "documented_abort_position_beyond_end", "abort_growth_unsatisfiable", "count_truncated_to_available", "count_truncated_huge_or_all_ones",
                                          "states_with_embedded_nul", "insert_of_string_object_containing_nul", "growth_beyond_capacity", "erase_or_substr_at_pos_eq_size", NULL };

static int w_nconfigs(int thorough) { return thorough ? 4 : 3; }
static void w_setup(int cfg, int thorough)
{
    int p, c, k, ch;
    int alt = cfg == (thorough ? 3 : 2), i, j;
    L = thorough ? (cfg == 0 ? 6 : cfg == 1 ? 5 : 4) : (cfg == 0 ? 4 : 3);
    if (alt) L = thorough ? 4 : 3;
    ch_a = alt ? (sizeof(CH) == 1 ? (CH)0xE9 : (CH)0x0161) : (CH)'a';
    for (i = 0; i < 8; i++) for (j = 0; j < 6; j++) lit_[i][j] = lit0_[i][j] == 'a' ? ch_a : lit0_[i][j];
    snprintf(cfgdesc, sizeof cfgdesc, "cstl_%s: two string objects, characters {%s,b,NUL}, reference length <= %d, boundary positions and counts", WNAME, alt ? (sizeof(CH) == 1 ? "0xE9" : "U+0161") : "a", L);
    w_nops = 0;
    for (k = 0; k < NLIT_SET; k++) w_ops[w_nops++] = OP(O_SET, k, 0, 0);
    for (p = 0; p < NPOS; p++) for (c = 0; c < NCNT; c++) for (ch = 0; ch < 2; ch++) w_ops[w_nops++] = OP(O_INS_CH, p, c, ch);
    for (p = 0; p < NPOS; p++) for (k = 0; k < 3; k++) w_ops[w_nops++] = OP(O_INS_STRN, p, k, 0);        /* first k characters of "ab" */
    for (p = 0; p < NPOS; p++) w_ops[w_nops++] = OP(O_INS_OBJ, p, 0, 0);
    w_ops[w_nops++] = OP(O_APPEND_OBJ, 0, 0, 0);
    for (c = 0; c < NCNT; c++) w_ops[w_nops++] = OP(O_APPEND_CH, 0, c, 1);
    for (k = 1; k < 4; k++) w_ops[w_nops++] = OP(O_APPEND_STR, k, 0, 0);
    for (p = 0; p < NPOS; p++) for (c = 0; c < NCNT; c++) { w_ops[w_nops++] = OP(O_ERASE, p, c, 0); w_ops[w_nops++] = OP(O_SUBSTR, p, c, 0); }
    for (c = 0; c < NCNT; c++) { w_ops[w_nops++] = OP(O_RESIZE, 0, c, 0); w_ops[w_nops++] = OP(O_RESERVE, 0, c, 0); }
    w_ops[w_nops++] = OP(O_RESIZE, 0, 100, 0); w_ops[w_nops++] = OP(O_RESIZE, 0, 101, 0);                 /* size+1, 3 */
    w_ops[w_nops++] = OP(O_SWAP, 0, 0, 0); w_ops[w_nops++] = OP(O_SWAP, 1, 0, 0); w_ops[w_nops++] = OP(O_CLEAR, 0, 0, 0);
    w_ops[w_nops++] = OP(O_B_SET, 6, 0, 0); w_ops[w_nops++] = OP(O_B_SET, 2, 0, 0); w_ops[w_nops++] = OP(O_B_CLEAR, 0, 0, 0); w_ops[w_nops++] = OP(O_B_RESIZE1, 0, 0, 0); w_ops[w_nops++] = OP(O_B_ERASEALL, 0, 0, 0);
}
static const char *w_config_desc(void) { return cfgdesc; }

static void w_init(void)
{
    int k;
    shim_reset();
    for (k = 0; k < 2; k++) { memset(&S[k], 0xA5, sizeof S[k]); SF(init)(&S[k]); M[k].n = 0; memset(M[k].c, 0, sizeof M[k].c); }
}

static size_t posval(int p, size_t size)
{
    switch (p) { case P_0: return 0; case P_1: return 1; case P_SIZE_M1: return size - 1; case P_SIZE: return size; case P_SIZE_P1: return size + 1; case P_MAX_M1: return SIZE_MAX - 1; default: return SIZE_MAX; }
}
static size_t cntval(int c, size_t size, size_t pos)
{
    switch (c) {
    case C_0: return 0; case C_1: return 1; case C_2: return 2; case C_SIZE: return size; case C_MAX: return SIZE_MAX; case C_MAX_M1: return SIZE_MAX - 1;
    case C_MAX_MSIZE: return SIZE_MAX - size; case C_MAX_MSIZE_P1: return SIZE_MAX - size + 1; case C_Q: return SIZE_MAX / 4; case C_Q_P1: return SIZE_MAX / 4 + 1;
    case C_MAX_MPOS: return SIZE_MAX - pos;
    /* the largest character counts whose byte size (with the terminator and the vector's spare element) is about to stop being representable */
    case C_E_M1: return SIZE_MAX / sizeof(CH) - 1; case C_E_M2: return SIZE_MAX / sizeof(CH) - 2; case C_E_M1_MSIZE: return SIZE_MAX / sizeof(CH) - 1 - size;
    case 100: return size + 1; case 101: return 3;
    default: return 0;
    }
}
/* would a string of n characters (+ terminator, + the vector's scratch element) be allocatable? */
static int satisfiable(unsigned __int128 n) { return (n + 2) * sizeof(CH) <= SHIM_REFUSE_ABOVE; }

static int small_b(void) { return M[1].n <= 2; }
static int w_enabled(mc_op_t o)
{
    int code = OC(o); size_t size = M[0].n, pos, cnt;
    if (code >= O_B_SET) return 1;
    if (code == O_SWAP) return 1;
    if (!small_b()) return 0;                      /* while object B is long only swap and B's own operations are offered (keeps the product small) */
    switch (code) {
    case O_SET: return XLEN(lit_[OA(o)]) <= (size_t)L;
    case O_INS_CH: case O_APPEND_CH:
        pos = code == O_INS_CH ? posval(OA(o), size) : size; cnt = cntval(OB(o), size, pos);
        if (code == O_INS_CH && OA(o) == P_SIZE_M1 && size == 0) return 0;
        if (pos > size) return 1;                                  /* must abort */
        return !satisfiable((unsigned __int128)size + cnt) || size + cnt <= (size_t)L;
    case O_INS_STRN:
        pos = posval(OA(o), size); if (OA(o) == P_SIZE_M1 && size == 0) return 0;
        return pos > size || size + OB(o) <= (size_t)L;
    case O_INS_OBJ: pos = posval(OA(o), size); if (OA(o) == P_SIZE_M1 && size == 0) return 0; return pos > size || size + M[1].n <= (size_t)L;
    case O_APPEND_OBJ: return size + M[1].n <= (size_t)L;
    case O_APPEND_STR: return size + XLEN(lit_[OA(o)]) <= (size_t)L;
    case O_ERASE: case O_SUBSTR: return !(OA(o) == P_SIZE_M1 && size == 0);
    case O_RESIZE: cnt = cntval(OB(o), size, 0); return !satisfiable(cnt) || cnt <= (size_t)L;
    case O_RESERVE: cnt = cntval(OB(o), size, 0); return !satisfiable(cnt) || cnt <= (size_t)L + 1;
    default: return 1;
    }
}

static void m_insert(int k, size_t pos, const CH *src, size_t n)
{
    memmove(M[k].c + pos + n, M[k].c + pos, (M[k].n - pos) * sizeof(CH));
    memcpy(M[k].c + pos, src, n * sizeof(CH));
    M[k].n += n; M[k].c[M[k].n] = 0;
}

/* expectation for one call */
enum { E_OK, E_ABORT, E_EITHER };

static void w_apply(mc_op_t o)
{
    int code = OC(o), ab = 0, expect = E_OK, k;
    size_t size = M[0].n, pos = 0, cnt = 0;
    size_t cap0 = SF(capacity)(&S[0]);
    CH ch = OD(o) ? 'b' : ch_a;
    CH fill[MAXL + 2];
    switch (code) {
    case O_SET:
        SHIM_CALL(ab, SF(set_str)(&S[0], lit_[OA(o)]));
        M[0].n = 0; m_insert(0, 0, lit_[OA(o)], XLEN(lit_[OA(o)]));
        break;
    case O_INS_CH: case O_APPEND_CH:
        pos = code == O_INS_CH ? posval(OA(o), size) : size; cnt = cntval(OB(o), size, pos);
        if (pos > size) { expect = E_ABORT; MC_COUNT(K_ABORT_POS); }
        else if (!satisfiable((unsigned __int128)size + cnt)) { expect = E_ABORT; MC_COUNT(K_ABORT_GROWTH); }
        if (code == O_INS_CH) SHIM_CALL(ab, SF(insert_ch)(&S[0], pos, cnt, ch)); else SHIM_CALL(ab, SF(append_ch)(&S[0], cnt, ch));
        if (expect == E_OK) { for (k = 0; k < (int)cnt; k++) fill[k] = ch; m_insert(0, pos, fill, cnt); }
        break;
    case O_INS_STRN:
        pos = posval(OA(o), size); cnt = OB(o);
        if (pos > size) { expect = E_ABORT; MC_COUNT(K_ABORT_POS); }
        SHIM_CALL(ab, SF(insert_str_n)(&S[0], pos, lit_[2], cnt));
        if (expect == E_OK) m_insert(0, pos, lit_[2], cnt);
        break;
    case O_INS_OBJ: case O_APPEND_OBJ:
        pos = code == O_INS_OBJ ? posval(OA(o), size) : size;
        if (pos > size) { expect = E_ABORT; MC_COUNT(K_ABORT_POS); }
        for (k = 0; k < (int)M[1].n; k++) if (M[1].c[k] == 0) { MC_COUNT(K_INS_OBJ_WITH_NUL); break; }
        if (code == O_INS_OBJ) SHIM_CALL(ab, SF(insert)(&S[0], pos, &S[1])); else SHIM_CALL(ab, SF(append)(&S[0], &S[1]));
        if (expect == E_OK) m_insert(0, pos, M[1].c, M[1].n);
        break;
    case O_APPEND_STR:
        SHIM_CALL(ab, SF(append_str)(&S[0], lit_[OA(o)]));
        m_insert(0, size, lit_[OA(o)], XLEN(lit_[OA(o)]));
        break;
    case O_ERASE: case O_SUBSTR: {
        size_t eff;
        pos = posval(OA(o), size); cnt = cntval(OB(o), size, pos);
        if (pos > size) { expect = E_ABORT; MC_COUNT(K_ABORT_POS); }
        else if (pos == size) { expect = E_EITHER; MC_COUNT(K_POS_EQ_SIZE_ERASE); }     /* the documentation is silent: abort or the empty result are both accepted */
        eff = pos <= size ? (cnt > size - pos ? size - pos : cnt) : 0;
        if (pos < size && cnt > size - pos) { MC_COUNT(K_CLAMPED); if (cnt > SIZE_MAX / 8) MC_COUNT(K_CLAMPED_HUGE); }
        if (code == O_ERASE) SHIM_CALL(ab, SF(erase)(&S[0], pos, cnt)); else SHIM_CALL(ab, SF(substr)(&S[0], pos, cnt, &S[1]));
        if (ab == 0 && expect != E_ABORT) {
            if (code == O_ERASE) { memmove(M[0].c + pos, M[0].c + pos + eff, (size - pos - eff) * sizeof(CH)); M[0].n -= eff; M[0].c[M[0].n] = 0; }
            else { memcpy(M[1].c, M[0].c + pos, eff * sizeof(CH)); M[1].n = eff; M[1].c[eff] = 0; }
        }
        break;
    }
    case O_RESIZE:
        cnt = cntval(OB(o), size, 0);
        if (!satisfiable(cnt)) { expect = E_ABORT; MC_COUNT(K_ABORT_GROWTH); }
        SHIM_CALL(ab, SF(resize)(&S[0], cnt));
        if (expect == E_OK) { for (k = (int)size; k < (int)cnt; k++) M[0].c[k] = 0; M[0].n = cnt; M[0].c[cnt] = 0; }
        break;
    case O_RESERVE: {
        const CH *d0 = SF(data)(&S[0]); size_t c0 = SF(capacity)(&S[0]), n0 = SF(size)(&S[0]);
        cnt = cntval(OB(o), size, 0);
        SHIM_CALL(ab, SF(reserve)(&S[0], cnt));
        if (!ab && !satisfiable(cnt)) MC_CHECK(PC10, SF(data)(&S[0]) == d0 && SF(capacity)(&S[0]) == c0 && SF(size)(&S[0]) == n0, "reserve(%s) cannot be satisfied and must change nothing, but data/capacity changed", cntname[OB(o)]);
        break;
    }
    case O_SWAP: {
        CH t[MAXL + 2]; size_t tn = M[0].n;
        if (OA(o) == 1) { SHIM_CALL(ab, SF(swap)(&S[0], &S[0])); break; }       /* a string swapped with itself */
        SHIM_CALL(ab, SF(swap)(&S[0], &S[1]));
        memcpy(t, M[0].c, sizeof t); memcpy(M[0].c, M[1].c, sizeof t); memcpy(M[1].c, t, sizeof t); M[0].n = M[1].n; M[1].n = tn;
        break;
    }
    case O_CLEAR: SHIM_CALL(ab, SF(clear)(&S[0])); M[0].n = 0; M[0].c[0] = 0; break;
    case O_B_SET: SHIM_CALL(ab, SF(set_str)(&S[1], lit_[OA(o)])); M[1].n = 0; m_insert(1, 0, lit_[OA(o)], XLEN(lit_[OA(o)])); break;
    case O_B_CLEAR: SHIM_CALL(ab, SF(clear)(&S[1])); M[1].n = 0; M[1].c[0] = 0; break;
    case O_B_RESIZE1: SHIM_CALL(ab, SF(resize)(&S[1], 1)); if (M[1].n < 1) M[1].c[0] = 0; M[1].n = 1; M[1].c[1] = 0; break;
    case O_B_ERASEALL:
        if (M[1].n == 0) expect = E_EITHER;
        SHIM_CALL(ab, SF(erase)(&S[1], 0, SIZE_MAX));
        if (!ab) { M[1].n = 0; M[1].c[0] = 0; }
        break;
    }
    if (mc_checking && code < O_B_SET && cap0 < M[0].n) MC_COUNT(K_REALLOC);
    if (ab == 2) { MC_CHECK(PC10, 0, "assertion failure inside the library: %s", shim_assert_msg); return; }
    if (expect == E_ABORT) {
        char d[160]; w_opname(o, d, sizeof d);
        MC_CHECK(PC10, ab == 1, "%s must abort (%s) but returned", d, pos > size ? "position beyond the end" : "growth cannot be satisfied");
        if (ab == 1) mc_terminal = 1;
    } else if (expect == E_EITHER) {
        if (ab == 1) mc_terminal = 1;
    } else if (ab) {
        char d[160]; w_opname(o, d, sizeof d);
        MC_CHECK(PC10, 0, "%s aborted although position and size are in range", d);
    }
    if (mc_checking && !mc_terminal) MC_CHECK(PC10, shim_errors == 0, "the string passed a pointer to free()/realloc() that it does not own");
}

static void w_audit(void)
{
    int k, ab, i, j;
    for (k = 0; k < 2; k++) {
        STR *s = &S[k]; const CH *p; size_t n = M[k].n;
        int has_nul = 0;
        for (i = 0; i < (int)n; i++) if (M[k].c[i] == 0) has_nul = 1;
        if (has_nul && k == 0) MC_COUNT(K_EMBEDDED_NUL);
        MC_CHECK(PC10, SF(size)(s) == n, "string %d: size() = %zu, reference has %zu characters", k, SF(size)(s), n);
        if (mc_branch_dead) return;
        p = SF(str)(s);
        MC_CHECK(PC10, p != NULL, "str() returned NULL");
        if (p == NULL) return;
        if (n > 0) {
            shim_blk *b = shim_find(p);
            /* the characters live in storage the string owns: a live allocation of the library, or the string object itself (an implementation may keep short
             * strings inline; the statement speaks of "the string's storage") - in either case with room for size+1 characters */
            int inline_ok = (const char *)p >= (const char *)s && (const char *)p + (n + 1) * sizeof(CH) <= (const char *)s + sizeof *s;
            MC_CHECK(PC10, SF(data)(s) != NULL && (inline_ok || (b != NULL && (size_t)((const char *)p - (const char *)b->p) + (n + 1) * sizeof(CH) <= b->sz)), "string %d: str() does not point into storage of the string (a live allocation or the object itself) with room for size+1 characters", k);       /* where in its block the storage starts is the library's business */
            if (mc_branch_dead) return;
        }   /* an empty string may be represented by any readable NUL (the library's static nul or its own buffer) */
        for (i = 0; i < (int)n; i++) MC_CHECK(PC10, p[i] == M[k].c[i], "string %d: character %d is %d, reference has %d", k, i, (int)p[i], (int)M[k].c[i]);
        MC_CHECK(PC10, p[n] == 0, "string %d: str() is not NUL-terminated after its %zu characters (found %d)", k, n, (int)p[n]);
        if (mc_branch_dead) return;
        /* at() */
        {
            size_t idx[8]; int ni = 0;
            if (n > 0) { idx[ni++] = 0; idx[ni++] = n - 1; }
            idx[ni++] = n; idx[ni++] = n + 1; idx[ni++] = SIZE_MAX;
            if (sizeof(CH) > 1) { idx[ni++] = SIZE_MAX / sizeof(CH) + 1; idx[ni++] = SIZE_MAX / sizeof(CH) + 2; }      /* byte offset wraps to a small value */
            for (i = 0; i < ni; i++) {
                static CH * volatile e; e = NULL;
                SHIM_CALL(ab, e = SF(at)(s, idx[i]));
                if (idx[i] < n) MC_CHECK(PC10, ab == 0 && e == SF(data)(s) + idx[i], "string %d: at(%zu) with size %zu %s", k, idx[i], n, ab ? "aborted" : "returned a wrong address");
                else MC_CHECK(PC10, ab == 1, "string %d: at(%zu) with size %zu must abort", k, idx[i], n);
            }
        }
        /* finds: agree with the C library applied to the reference characters */
        for (j = 0; j < 4; j++) {
            size_t fpos = j == 0 ? 0 : j == 1 ? 1 : j == 2 ? n - 1 : n; int c, l;
            if (j == 2 && n == 0) continue;
            for (c = 0; c < 3; c++) {
                static volatile ssize_t r; const CH *f; CH want = c == 0 ? ch_a : (CH)("abc"[c]);
                SHIM_CALL(ab, r = SF(find_ch)(s, want, fpos));
                if (fpos >= n) { MC_CHECK(PC10, ab == 1, "string %d: find_ch at position %zu with size %zu must abort", k, fpos, n); continue; }
                f = XCHR(M[k].c + fpos, want);
                MC_CHECK(PC10, !ab && r == (f ? (ssize_t)(f - M[k].c) : -1), "string %d: find_ch('%c', %zu) = %zd, the C library finds %zd", k, "abc"[c], fpos, (ssize_t)r, f ? (ssize_t)(f - M[k].c) : (ssize_t)-1);
            }
            for (l = 0; l < 8; l++) {
                static volatile ssize_t r; const CH *f;
                SHIM_CALL(ab, r = SF(find_str)(s, lit_[l], fpos));
                if (fpos >= n) { MC_CHECK(PC10, ab == 1, "string %d: find_str at position %zu with size %zu must abort", k, fpos, n); continue; }
                f = XSTR(M[k].c + fpos, lit_[l]);
                MC_CHECK(PC10, !ab && r == (f ? (ssize_t)(f - M[k].c) : -1), "string %d: find_str(%s, %zu) = %zd, the C library finds %zd", k, litname[l], fpos, (ssize_t)r, f ? (ssize_t)(f - M[k].c) : (ssize_t)-1);
            }
        }
        for (j = 0; j < 8; j++) {
            int r = SF(compare_str)(s, lit_[j]), e = XCMP(M[k].c, lit_[j]);
            MC_CHECK(PC10, (r > 0) - (r < 0) == (e > 0) - (e < 0), "string %d: compare_str(%s) = %d, the C library says %d", k, litname[j], r, e);
        }
    }
    {
        int r = SF(compare)(&S[0], &S[1]), e = XCMP(M[0].c, M[1].c);
        MC_CHECK(PC10, (r > 0) - (r < 0) == (e > 0) - (e < 0), "compare(A,B) = %d, the C library says %d", r, e);
        if (M[0].n > 0) {
            static volatile ssize_t r2; const CH *f;
            SHIM_CALL(ab, r2 = SF(find)(&S[0], &S[1], 0));
            f = XSTR(M[0].c, M[1].c);
            MC_CHECK(PC10, !ab && r2 == (f ? (ssize_t)(f - M[0].c) : -1), "find(A,B,0) = %zd, the C library finds %zd", (ssize_t)r2, f ? (ssize_t)(f - M[0].c) : (ssize_t)-1);
        }
    }
    MC_CHECK(PC10, shim_nlive() <= 2, "%d live allocations for two strings", shim_nlive());
}

static void w_canon(void)
{
    int k; size_t i;
    for (k = 0; k < 2; k++) {
        KB_C('S'); KB_MEM(&S[k], sizeof S[k], NULL);      /* every byte of the object, members unnamed: the string is otherwise observed through its public functions only */
        KB_C('|'); KB_U(SF(size)(&S[k])); KB_C('/'); KB_U(SF(capacity)(&S[k])); KB_C(':');
        for (i = 0; i < M[k].n && i < MAXL + 1; i++) KB_C(M[k].c[i] == 0 ? '0' : (char)M[k].c[i]);
        KB_C('|');
        /* the implementation's own characters (bounded by its allocation), so that the key covers everything the audit reads */
        if (SF(data)(&S[k])) {
            const CH *p = SF(data)(&S[k]); shim_blk *b = shim_find(p); size_t off_ = b ? (size_t)((const char *)p - (const char *)b->p) : 0;
            for (i = 0; b && i < SF(size)(&S[k]) + 1 && i < MAXL + 2 && off_ + (i + 1) * sizeof(CH) <= b->sz; i++) { if (p[i] == 0) KB_C('0'); else if (p[i] == 'a' || p[i] == 'b') KB_C((char)p[i]); else { KB_C('#'); KB_U((unsigned long)p[i] & 0xffff); } }
        }
        KB_C(';');
    }
}
static void w_opname(mc_op_t o, char *b, size_t n)
{
    switch (OC(o)) {
    case O_SET: snprintf(b, n, "set_str(A,%s)", litname[OA(o)]); break;
    case O_INS_CH: snprintf(b, n, "insert_ch(A,pos=%s,cnt=%s,'%c')", posname[OA(o)], cntname[OB(o)], OD(o) ? 'b' : 'a'); break;
    case O_APPEND_CH: snprintf(b, n, "append_ch(A,cnt=%s,'b')", cntname[OB(o)]); break;
    case O_INS_STRN: snprintf(b, n, "insert_str_n(A,pos=%s,\"ab\",%d)", posname[OA(o)], OB(o)); break;
    case O_INS_OBJ: snprintf(b, n, "insert(A,pos=%s,B)", posname[OA(o)]); break;
    case O_APPEND_OBJ: snprintf(b, n, "append(A,B)"); break;
    case O_APPEND_STR: snprintf(b, n, "append_str(A,%s)", litname[OA(o)]); break;
    case O_ERASE: snprintf(b, n, "erase(A,pos=%s,n=%s)", posname[OA(o)], cntname[OB(o)]); break;
    case O_SUBSTR: snprintf(b, n, "substr(A,pos=%s,n=%s,->B)", posname[OA(o)], cntname[OB(o)]); break;
    case O_RESIZE: snprintf(b, n, "resize(A,%s)", OB(o) == 100 ? "size+1" : OB(o) == 101 ? "3" : cntname[OB(o)]); break;
    case O_RESERVE: snprintf(b, n, "reserve(A,%s)", cntname[OB(o)]); break;
    case O_SWAP: snprintf(b, n, OA(o) ? "swap(A,A)" : "swap(A,B)"); break;
    case O_CLEAR: snprintf(b, n, "clear(A)"); break;
    case O_B_SET: snprintf(b, n, "set_str(B,%s)", litname[OA(o)]); break;
    case O_B_CLEAR: snprintf(b, n, "clear(B)"); break;
    case O_B_RESIZE1: snprintf(b, n, "resize(B,1)"); break;
    default: snprintf(b, n, "erase(B,0,SIZE_MAX)"); break;
    }
}
static int w_nontrivial(void) { return M[0].n >= 2; }
