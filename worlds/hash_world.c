/* hash world: C03 (lookups exact during incremental rehash), C04 (enumeration and clear reach every element once),
 * C19 (rehash incremental, bounded, lands where requested).  The library source is unity-#included so that this
 * harness builds no matter how hash.h declares its helpers. */
#include "hash.c"
#define W_AUDIT_NEW_STATES_ONLY 1   /* the key holds the implementation's raw state AND the reference model, so the audit verdict is a function of the key */
#include "../engine/mc.h"
#include <sanitizer/asan_interface.h>

#define PC03 P(0)
#define PC04 P(1)
#define PC19 P(2)
#define PALL (PC03 | PC04 | PC19)
static const char *w_name = "hash";
static unsigned w_prop_bit(const char *id) { return !strcmp(id, "C03") ? PC03 : !strcmp(id, "C04") ? PC04 : !strcmp(id, "C19") ? PC19 : 0; }

#define MAXN 8
#define MAXB 16
#ifndef NOPRIV_DEPTH
#define NOPRIV_DEPTH 4
#endif
static int nopriv_hist[64], nopriv_n;      /* HASH_NOPRIV: the operation history is the key */
struct elem { long pad; int idx; struct cstl_hash_node hn; long pad2; struct cstl_hash_node hn2; long tail; };
/* the two table objects are initialised with DIFFERENT node offsets (hn / hn2): swap must carry the offset along with the table */
static size_t m_off[2];
#define NODE_OF(i, off) ((struct cstl_hash_node *)((char *)&pool[i] + (off)))
static struct elem pool[MAXN];
static int N, keys[MAXN], nalpha, alpha[MAXN + 1], maxdup;
static int NCOUNTS, counts[8], NF;
static char cfgdesc[256];
static int vcookie, vbad;       /* every visit callback must receive the private pointer the caller passed */
static struct cstl_hash TB[2];
static int cur;                               /* which object currently is "the table" (toggled by swap) */

/* instrumented hash functions */
enum { F_NULL = 0, F_H0, F_H1, F_H2, F_MUL };
static struct { size_t k, m; int f; } hlog[256];
static int nhlog;
static size_t h0(size_t k, size_t m) { if (nhlog < 256) { hlog[nhlog].k = k; hlog[nhlog].m = m; hlog[nhlog].f = F_H0; } nhlog++; return m ? k % m : 0; }
static size_t h1(size_t k, size_t m) { if (nhlog < 256) { hlog[nhlog].k = k; hlog[nhlog].m = m; hlog[nhlog].f = F_H1; } nhlog++; return m ? (k / 2 + 1) % m : 0; }
static size_t h2(size_t k, size_t m) { if (nhlog < 256) { hlog[nhlog].k = k; hlog[nhlog].m = m; hlog[nhlog].f = F_H2; } nhlog++; return m ? (m - 1 - k % m) : 0; }
static cstl_hash_func_t *fptr(int f) { return f == F_H0 ? h0 : f == F_H1 ? h1 : f == F_H2 ? h2 : NULL; }
static int fid(cstl_hash_func_t *f) { return f == NULL ? F_NULL : f == h0 ? F_H0 : f == h1 ? F_H1 : f == h2 ? F_H2 : f == cstl_hash_mul ? F_MUL : 9; }

/* model */
static int m_member[MAXN], m_count;
static int m_resized;                 /* the table has buckets */
static size_t m_nreq; static int m_freq;   /* most recently requested bucket count / function (F_MUL if none ever) */
static int m_forced_settled;
static int m_budget, m_since;          /* a pending rehash must finish within as many keyed operations as there were buckets: budget (or -1), operations so far */          /* a forced rehash (rehash()/foreach()) happened after the last effective resize request */

enum { O_INSERT = 1, O_ERASE, O_FIND, O_RESIZE, O_REHASH, O_SHRINK, O_SWAP, O_FOREACH, O_FOREACH_STOP, O_FOREACH_ERASE, O_CLEAR_CB, O_CLEAR_NULL, O_RESIZE0, O_FIND_RE, O_FOREACH_FIND };
#define OP(c, a, b) ((mc_op_t)((c) | ((a) << 8) | ((b) << 16)))
#define OC(o) ((o) & 0xff)
#define OA(o) (((o) >> 8) & 0xff)
#define OB(o) (((o) >> 16) & 0xff)
/* find modes (OB): 0 no visitor, 1 reject all, 2+j accept the j-th candidate */

enum { K_KEYED_PENDING, K_KEYED_SETTLED, K_FINISHING_OP, K_RESIZE_WHILE_PENDING, K_RESIZE_BACK, K_FIND_DUP_VISITOR, K_ERASE_NONMEMBER, K_FOREACH_PENDING, K_FOREACHC_PENDING_GROW,
       K_CLEAR_PENDING, K_CLEAR, K_FE_ERASE, K_GROW, K_SHRINK, K_FUNC_CHANGE, K_REENTRANT };
static const char *w_counter_names[] = { "keyed_ops_while_rehash_pending", "keyed_ops_settled", "keyed_ops_finishing_the_rehash", "resize_while_rehash_pending", "resize_back_to_current_geometry_while_pending",
    "find_with_visitor_on_duplicate_key", "erase_of_non_member", "foreach_while_pending", "foreach_const_audits_while_grow_pending", "clear_while_pending", "clear_applied", "foreach_erasing_visited",
    "resize_grow", "resize_shrink", "resize_function_change", "visitors_looking_up_in_the_same_table", NULL };

struct cfg { int n; int keys[MAXN]; int nc; int counts[8]; int nf; };
static const struct cfg quick_cfgs[] = {
    { 4, { 0, 1, 1, 5 }, 4, { 1, 2, 3, 4 }, 2 },
    { 4, { 0, 2, 3, 3 }, 3, { 2, 4, 8 }, 2 },
    { 3, { 1, 1, 6 }, 4, { 1, 2, 3, 5 }, 3 },
    { 5, { 0, 1, 2, 3, 1 }, 3, { 1, 2, 4 }, 1 },
};
static const struct cfg thorough_cfgs[] = {
    { 5, { 0, 1, 1, 2, 5 }, 4, { 1, 2, 3, 4 }, 2 },
    { 4, { 0, 2, 3, 3 }, 5, { 1, 2, 4, 6, 8 }, 2 },
    { 4, { 1, 1, 6, 4 }, 4, { 1, 2, 3, 5 }, 3 },
    { 6, { 0, 1, 2, 3, 1, 7 }, 3, { 1, 2, 4 }, 1 },
    { 5, { 3, 3, 3, 0, 9 }, 4, { 2, 3, 4, 8 }, 2 },
    { 4, { 0, 1, 1, 5 }, 6, { 1, 2, 3, 4, 5, 6 }, 2 },
};
static const struct cfg *cfgs(int thorough, int *n)
{
    if (thorough) { *n = (int)(sizeof thorough_cfgs / sizeof thorough_cfgs[0]); return thorough_cfgs; }
    *n = (int)(sizeof quick_cfgs / sizeof quick_cfgs[0]); return quick_cfgs;
}
static int w_nconfigs(int thorough) { int n; cfgs(thorough, &n); return n; }
static int USE_MACRO;      /* odd configurations build the tables with CSTL_HASH_INITIALIZER instead of cstl_hash_init() */
static void w_setup(int cfg, int thorough)
{
    USE_MACRO = cfg & 1;
    int n, i, j, k, f; char kb[64] = "", cb[64] = "";
    const struct cfg *c = &cfgs(thorough, &n)[cfg];
    N = c->n; NCOUNTS = c->nc; NF = c->nf;
    for (i = 0; i < N; i++) { keys[i] = c->keys[i]; sprintf(kb + strlen(kb), "%s%d", i ? "," : "", keys[i]); }
    for (i = 0; i < NCOUNTS; i++) { counts[i] = c->counts[i]; sprintf(cb + strlen(cb), "%s%d", i ? "," : "", counts[i]); }
    nalpha = 0; maxdup = 1;
    for (i = 0; i < N; i++) {
        int d = 0;
        for (k = 0; k < nalpha; k++) if (alpha[k] == keys[i]) break;
        if (k == nalpha) alpha[nalpha++] = keys[i];
        for (j = 0; j < N; j++) d += keys[j] == keys[i];
        if (d > maxdup) maxdup = d;
    }
    alpha[nalpha++] = 12;      /* an absent key */
    snprintf(cfgdesc, sizeof cfgdesc, "cstl_hash, %d elements with keys [%s], bucket counts {%s}, %d instrumented hash function(s) + NULL", N, kb, cb, NF);
    w_nops = 0;
    for (i = 0; i < N; i++) { w_ops[w_nops++] = OP(O_INSERT, i, 0); w_ops[w_nops++] = OP(O_ERASE, i, 0); }
    for (k = 0; k < nalpha; k++) { w_ops[w_nops++] = OP(O_FIND, k, 0); w_ops[w_nops++] = OP(O_FIND, k, 1); for (j = 0; j < maxdup; j++) w_ops[w_nops++] = OP(O_FIND, k, 2 + j); }
    for (i = 0; i < NCOUNTS; i++) for (f = 0; f <= NF; f++) w_ops[w_nops++] = OP(O_RESIZE, i, f);
    w_ops[w_nops++] = OP(O_RESIZE0, 0, 1);
    w_ops[w_nops++] = OP(O_REHASH, 0, 0); w_ops[w_nops++] = OP(O_SHRINK, 0, 0); w_ops[w_nops++] = OP(O_SWAP, 0, 0);
    w_ops[w_nops++] = OP(O_FOREACH, 0, 0);
    for (j = 0; j < N; j++) w_ops[w_nops++] = OP(O_FOREACH_STOP, j, 0);
    w_ops[w_nops++] = OP(O_FOREACH_ERASE, 255, 0);
    for (j = 0; j < N; j++) w_ops[w_nops++] = OP(O_FOREACH_ERASE, j, 0);
    w_ops[w_nops++] = OP(O_CLEAR_CB, 0, 0); w_ops[w_nops++] = OP(O_CLEAR_NULL, 0, 0);
}
static const char *w_config_desc(void) { return cfgdesc; }

static void w_init(void)
{
    int i, t;
    shim_reset(); vbad = 0;
    __asan_unpoison_memory_region(pool, sizeof pool);
    memset(pool, 0x5A, sizeof pool);
    for (i = 0; i < N; i++) { pool[i].idx = i; pool[i].pad = 0x1111; pool[i].tail = 0x2222; pool[i].pad2 = 0x3333; m_member[i] = 0;
#if !HASH_NOPRIV
        pool[i].hn.key = (size_t)keys[i]; pool[i].hn.next = NULL; pool[i].hn2.key = (size_t)keys[i]; pool[i].hn2.next = NULL;
#endif
    }
    nopriv_n = 0;
    m_count = 0; m_resized = 0; m_nreq = 0; m_freq = F_MUL; m_forced_settled = 1; cur = 0; m_budget = -1; m_since = 0;
    m_off[0] = offsetof(struct elem, hn); m_off[1] = offsetof(struct elem, hn2);
    for (t = 0; t < 2; t++) {
        memset(&TB[t], 0xA5, sizeof TB[t]);
        if (!USE_MACRO) cstl_hash_init(&TB[t], m_off[t]);
        else if (t) TB[t] = (struct cstl_hash)CSTL_HASH_INITIALIZER(struct elem, hn2); else TB[t] = (struct cstl_hash)CSTL_HASH_INITIALIZER(struct elem, hn);
    }
}
#define T (&TB[cur])

static int w_enabled(mc_op_t o)
{
#if HASH_NOPRIV
    if (nopriv_n >= NOPRIV_DEPTH) return 0;      /* history keys: every sequence up to this depth */
#endif
    switch (OC(o)) {
    case O_INSERT: return m_resized && !m_member[OA(o)];
    case O_ERASE: case O_FIND: return m_resized;              /* keyed operations need buckets */
    case O_FIND_RE: { int i, nk = 0; for (i = 0; i < N; i++) nk += m_member[i] && keys[i] == alpha[OA(o)]; return m_resized && nk >= 1; }
    case O_FOREACH_FIND: return m_resized && m_count >= 2;
    case O_FOREACH_STOP: return OA(o) < (unsigned)m_count;
    case O_FOREACH_ERASE: return OA(o) == 255 ? m_count > 0 : OA(o) < (unsigned)m_count;
    default: return 1;
    }
}

static int idx_of(const void *e)
{
    uintptr_t d = (uintptr_t)e - (uintptr_t)pool;
    if ((uintptr_t)e < (uintptr_t)pool || d >= sizeof(struct elem) * (size_t)N || d % sizeof(struct elem)) return -1;
    return (int)(d / sizeof(struct elem));
}
static int idx_of_node(const struct cstl_hash_node *n)
{
    int i = idx_of((const void *)((uintptr_t)n - offsetof(struct elem, hn)));
    return i >= 0 ? i : idx_of((const void *)((uintptr_t)n - offsetof(struct elem, hn2)));
}

/* ---- snapshot of the public struct: which bucket holds which node, dirty flags ---- */
/* HASH_NOPRIV=1: a build that names no private member of the table (used by the driver when the tree under test has renamed or re-encoded them).
 * The key degrades to the operation history (no state merging: every sequence up to the depth the deadline allows), the rehash accounting of C19 -
 * which is ABOUT those members - is off, and what remains is everything the public API shows: size, find of every key, both enumerations, load,
 * the logged consultations of the user hash functions, clear callbacks, the allocation layer and the sanitizer. */
#ifndef HASH_NOPRIV
#define HASH_NOPRIV 0
#endif
#if HASH_NOPRIV
#define H_PENDING(h) 0
#define H_BCOUNT(h) ((size_t)0)
#define H_FID_CUR(h) (-1)
#define H_FID_RH(h) (-1)
#else
#define H_PENDING(h) ((h)->bucket.rh.hash != NULL)
#define H_BCOUNT(h) ((h)->bucket.count)
#define H_FID_CUR(h) fid((h)->bucket.hash)
#define H_FID_RH(h) fid((h)->bucket.rh.hash)
#endif
struct snap { int pending; size_t count, rhcount, bound; int dirty[MAXB]; int bucket_of[MAXN]; int nnodes[MAXB]; int ndirty; int bad; };
static void take_snap(const struct cstl_hash *h, struct snap *s)
{
    size_t b; int i;
    memset(s, 0, sizeof *s);
    for (i = 0; i < MAXN; i++) s->bucket_of[i] = -1;
#if HASH_NOPRIV
    (void)h; (void)b;
#else
    s->pending = h->bucket.rh.hash != NULL;
    s->count = h->bucket.count; s->rhcount = s->pending ? h->bucket.rh.count : 0;
    s->bound = s->count > s->rhcount ? s->count : s->rhcount;
    if (h->bucket.at == NULL) { s->bound = 0; return; }
    if (s->bound > MAXB || s->bound > h->bucket.capacity) { s->bad = 1; s->bound = 0; return; }
    for (b = 0; b < s->bound; b++) {
        const struct cstl_hash_node *n = h->bucket.at[b].n; int steps = 0;
        s->dirty[b] = s->pending && b < s->count && h->bucket.at[b].cst != h->bucket.cst;
        s->ndirty += s->dirty[b];
        /* a chain ends at NULL or at any node that is not a pool element (an implementation may terminate chains with a sentinel node of its own);
         * what the library does with a link that leads nowhere sensible is judged by find, foreach and the sanitizer, not here */
        while (n != NULL && idx_of_node(n) >= 0 && steps++ <= N) {
            i = idx_of_node(n);
            if (s->bucket_of[i] < 0) s->bucket_of[i] = (int)b;
            s->nnodes[b]++;
            n = n->next;
        }
        if (steps > N) s->bad = 1;
    }
#endif
}

/* ---- callbacks ---- */
static int v_seq[4 * MAXN + 8], v_n, v_stop_at, v_accept_at;
static size_t v_key;
/* a visit function that looks other elements up in the SAME table while it is being called (v_nested).  NOT part of the verdict: the
 * unchanged library happens to tolerate it (both buckets of the key are cleaned before the walk begins, lookups unlink nothing), but
 * neither the statements of C03/C04 nor the header promise anything about visit functions that re-enter the table they are called
 * from, and a behaviour-preserving rewrite (control C03-qb: find searches the chain in place without cleaning it) does not tolerate it.
 * The operations that used this are no longer in the alphabet; the code is kept for experiments. */
static int v_nested, nested_bad, nested_calls;
static void nested_lookups(void)
{
    int k, i;
    for (k = 0; k < nalpha; k++) {
        const void *r = cstl_hash_find(T, (size_t)alpha[k], NULL, NULL); int exp = 0, ri = r ? idx_of(r) : -1;
        for (i = 0; i < N; i++) if (m_member[i] && keys[i] == alpha[k]) exp = 1;
        nested_calls++;
        if ((r != NULL) != exp || (r && (ri < 0 || !m_member[ri] || keys[ri] != alpha[k]))) nested_bad++;
    }
}
static int cb_find(const void *e, void *p)
{
    if (p != (void *)&vcookie) vbad++;
    if (v_n < 4 * MAXN + 8) v_seq[v_n] = idx_of(e);
    v_n++;
    if (v_n > 4 * MAXN) return 1;
    if (v_nested) nested_lookups();
    /* "nonzero: this one" -- acceptance is signalled with values of both signs */
    return (v_accept_at >= 0 && v_n == v_accept_at + 1) ? ((v_n & 1) ? -1 : 3) : 0;
}
static int cb_count_c(const void *e, void *p)
{
    if (p != (void *)&vcookie) vbad++;
    if (v_n < 4 * MAXN + 8) v_seq[v_n] = idx_of(e);
    v_n++;
    if (v_n > 4 * MAXN) return 9999;
    if (v_nested) nested_lookups();
    if (v_stop_at >= 0 && v_n == v_stop_at + 1) return (v_stop_at & 1) ? -(v_stop_at + 1) : v_stop_at + 1;      /* stop values of both signs */
    return 0;
}
static int cb_count(void *e, void *p) { return cb_count_c(e, p); }
static int fe_which;
static int cb_erase(void *e, void *p)
{
    int i = idx_of(e);
    if (p != (void *)&vcookie) vbad++;
    if (v_n < 4 * MAXN + 8) v_seq[v_n] = i;
    v_n++;
    if (v_n > 4 * MAXN) return 9999;
    if (i >= 0 && (fe_which == 255 || fe_which == v_n - 1)) {
        cstl_hash_erase(T, e);
        __asan_poison_memory_region(&pool[i], sizeof pool[i]);       /* erased and freed */
    }
    return 0;
}
static int clr_count[MAXN], clr_bad;
static void cb_clear(void *e, void *p)
{
    int i = idx_of(e);
    if (i < 0 || p != NULL) { clr_bad++; return; }
    clr_count[i]++;
    if (clr_count[i] == 1) __asan_poison_memory_region(&pool[i], sizeof pool[i]);
}

static void check_each_once(unsigned props, const char *what, int upto)
{
    int seen[MAXN] = { 0 }, j;
    for (j = 0; j < v_n && j < 4 * MAXN; j++) {
        MC_CHECK(props, v_seq[j] >= 0 && m_member[v_seq[j]], "%s: visit %d presents a pointer that is not a live element", what, j);
        if (v_seq[j] >= 0) seen[v_seq[j]]++;
    }
    for (j = 0; j < N; j++) {
        if (upto < 0) MC_CHECK(props, seen[j] == m_member[j], "%s visited element %d (key %d) %d times, expected %d", what, j, keys[j], seen[j], m_member[j]);
        else MC_CHECK(props, seen[j] <= m_member[j], "%s visited element %d %d times", what, j, seen[j]);
    }
}

static void canon_one(int t);
static int canon_hidden = 1;       /* serialise the members that only matter to a later rehash (state key: yes; comparison with a fresh object: no) */
static void check_fresh(unsigned props, int t, const char *when)
{
    char a[200], b[200]; size_t save = mc_kbn, n; static struct cstl_hash fresh, keep;
    canon_hidden = 0;
    mc_kbn = 0; canon_one(t); n = mc_kbn < 199 ? mc_kbn : 199; memcpy(a, mc_kb, n); a[n] = 0;
    /* serialise a freshly initialised object through the same function */
    keep = TB[t]; cstl_hash_init(&fresh, m_off[t]); TB[t] = fresh;
    mc_kbn = 0; canon_one(t); n = mc_kbn < 199 ? mc_kbn : 199; memcpy(b, mc_kb, n); b[n] = 0;
    TB[t] = keep; mc_kbn = save; canon_hidden = 1;
    MC_CHECK(props, !strcmp(a, b), "%s the table object is not like a freshly initialised one: %s vs fresh %s", when, a, b);
}

/* C04: "leaves the table empty and reusable after a fresh resize" -- behavioural probe run on the just-cleared object:
 * resize, insert every pool element, find each, enumerate, clear again; for the smallest and largest bucket count. */
static int probe_body(size_t n, int f)
{
    int i; const void *r; float ld;
    cstl_hash_resize(T, n, fptr(f));
    if (cstl_hash_size(T) != 0) return 1;
    for (i = 0; i < N; i++) cstl_hash_insert(T, (size_t)keys[i], &pool[i]);
    if (cstl_hash_size(T) != (size_t)N) return 2;
    for (i = 0; i < N; i++) { r = cstl_hash_find(T, (size_t)keys[i], NULL, NULL); if (r == NULL || keys[idx_of(r) < 0 ? 0 : idx_of(r)] != keys[i]) return 3; }
    v_n = 0; v_stop_at = -1;
    if (cstl_hash_foreach_const(T, cb_count_c, &vcookie) != 0 || v_n != N) return 4;
    ld = cstl_hash_load(T);
    if (ld != (float)N / (float)n) return 5;
    cstl_hash_clear(T, NULL);
    if (cstl_hash_size(T) != 0) return 6;
    return 0;
}
static void probe_reusable(void)
{
    int k, ab; static volatile int rc; static struct cstl_hash after_clear;
    /* the probe runs in checking passes only, and it leaves its traces in members the key now covers (sweep cursor, requested count): the search goes on
     * from the object exactly as clear() left it.  A cleared table owns no allocation, and the probe ends with a clear, so restoring the bytes is safe. */
    after_clear = *T;
    for (k = 0; k < 2; k++) {
        size_t n = (size_t)(k ? counts[NCOUNTS - 1] : counts[0]); int f = k ? F_H0 : (NF >= 2 ? F_H1 : F_H0);
        rc = -1;
        SHIM_CALL(ab, rc = probe_body(n, f));
        MC_CHECK(PC04, !ab, "after clear the table is not reusable: resize(%zu)+inserts+finds %s inside the library", n, ab == 2 ? "hit an assertion" : "called abort()");
        MC_CHECK(PC04, ab || rc == 0, "after clear the table is not reusable: resize(%zu), insert of %d elements, find, foreach_const, load, clear failed at step %d", n, N, rc);
        if (mc_branch_dead) return;
    }
    *T = after_clear;
}

/* one keyed operation: C19 accounting around the real call */
static struct snap pre, post;
static void keyed_pre(void) { take_snap(T, &pre); nhlog = 0; }
static void keyed_post(const char *what, int own_elem)
{
    int lookup = !strcmp(what, "find");
    int i, srcs[MAXB], nsrc = 0, cleaned = 0, cleaned_nodes = 0; size_t b;
#if HASH_NOPRIV
    (void)lookup; (void)i; (void)srcs; (void)nsrc; (void)cleaned; (void)cleaned_nodes; (void)b; (void)own_elem;
    return;
#endif
    take_snap(T, &post);
    MC_CHECK(PALL, !post.bad && !pre.bad, "bucket chains are corrupt (cycle or count beyond capacity)");
    if (post.bad || pre.bad) return;
    if (!pre.pending) {
        MC_COUNT(K_KEYED_SETTLED);
        /* (b) settled: exactly one consultation, with the requested geometry */
        if (m_freq != F_MUL) {
            MC_CHECK(PC19, lookup ? nhlog == 1 : nhlog >= 1, "%s with no rehash pending consulted the hash function %d times, expected exactly once", what, nhlog);
            if (nhlog >= 1) MC_CHECK(PC19, hlog[0].m == m_nreq && hlog[0].f == m_freq, "%s with no rehash pending hashed with table size %zu / function #%d; most recent request was %zu / function #%d", what, hlog[0].m, hlog[0].f, m_nreq, m_freq);
        } else MC_CHECK(PC19, nhlog == 0, "%s consulted a user hash function although none was ever requested", what);
        MC_CHECK(PC19, !post.pending, "%s started a rehash on its own", what);
        return;
    }
    MC_COUNT(K_KEYED_PENDING);
    if (!post.pending) MC_COUNT(K_FINISHING_OP);

    /* (c) pending: nodes that changed bucket came from at most three buckets; at least one dirty bucket cleaned or finished */
    for (i = 0; i < N; i++) {
        int k2;
        if (i == own_elem || pre.bucket_of[i] < 0 || post.bucket_of[i] < 0 || pre.bucket_of[i] == post.bucket_of[i]) continue;
        for (k2 = 0; k2 < nsrc; k2++) if (srcs[k2] == pre.bucket_of[i]) break;
        if (k2 == nsrc) srcs[nsrc++] = pre.bucket_of[i];
    }
    MC_CHECK(PC19, nsrc <= 3, "%s while a rehash is pending relocated nodes out of %d different buckets (limit 3)", what, nsrc);
    for (b = 0; b < pre.bound && b < MAXB; b++)
        if (pre.dirty[b] && (!post.pending || !post.dirty[b])) { cleaned++; cleaned_nodes += pre.nnodes[b]; }
    MC_CHECK(PC19, cleaned <= 3, "%s while a rehash is pending cleaned %d buckets in one operation (limit 3)", what, cleaned);
    MC_CHECK(PC19, !post.pending || cleaned >= 1, "%s while a rehash is pending did not advance the sweep (dirty buckets %d -> %d)", what, pre.ndirty, post.ndirty);
    /* (the number of hash consultations while pending is not bounded by the statement: a relocated node may land in a still-dirty bucket and be rehashed again) */
    if (post.pending) MC_CHECK(PC19, post.ndirty < pre.ndirty, "%s: number of dirty buckets did not fall (%d -> %d)", what, pre.ndirty, post.ndirty);
}

/* The node of an element that is not in the table holds stale bytes (the API takes uninitialised nodes): before every operation it gets a wrong key and a
 * plausible stale link (the next pool element's node), so that an insert relying on either being already set is seen and the content of such nodes is a
 * function of the state. */
#if HASH_NOPRIV
static void scrub_free(void) { int i; for (i = 0; i < N; i++) if (!m_member[i]) memset(&pool[i].hn, 0x5A, sizeof pool[i].hn); }
#else
static void scrub_free(void) { int i; for (i = 0; i < N; i++) if (!m_member[i]) { pool[i].hn.key = ~(size_t)keys[i]; pool[i].hn.next = &pool[(i + 1) % N].hn; } }
#endif
static void w_apply(mc_op_t o)
{
    int a = OA(o), b = OB(o), ab = 0, i;
    static void * volatile rp;
    static volatile int r;
    scrub_free();
    if (nopriv_n < 64) nopriv_hist[nopriv_n++] = (int)o;
    switch (OC(o)) {
    case O_INSERT:
        if (mc_checking) keyed_pre();
        SHIM_CALL(ab, cstl_hash_insert(T, (size_t)keys[a], &pool[a]));
        m_member[a] = 1; m_count++;
        if (!ab && mc_checking) keyed_post("insert", a);
        break;
    case O_ERASE:
        if (!m_member[a]) MC_COUNT(K_ERASE_NONMEMBER);
        if (mc_checking) keyed_pre();
        SHIM_CALL(ab, cstl_hash_erase(T, &pool[a]));
        if (m_member[a]) { m_member[a] = 0; m_count--; }
        if (!ab && mc_checking) keyed_post("erase", a);
        break;
    case O_FIND: case O_FIND_RE: {
        int k = alpha[a], nk = 0, j, re = OC(o) == O_FIND_RE;
        if (re) { b = 1; v_nested = 1; nested_bad = nested_calls = 0; MC_COUNT(K_REENTRANT); }
        for (i = 0; i < N; i++) if (m_member[i] && keys[i] == k) nk++;
        if (b >= 1 && nk > 1) MC_COUNT(K_FIND_DUP_VISITOR);
        v_n = 0; v_accept_at = b >= 2 ? b - 2 : -1; v_key = (size_t)k;
        if (mc_checking && !re) keyed_pre();
        SHIM_CALL(ab, rp = cstl_hash_find(T, (size_t)k, b == 0 ? NULL : cb_find, &vcookie));
        v_nested = 0;
        if (ab) break;
        if (mc_checking && !re) keyed_post("find", -1);
        if (re) MC_CHECK(PC03, nested_bad == 0, "%d of %d lookups made from inside find's visit function gave a wrong answer", nested_bad, nested_calls);
        i = rp ? idx_of(rp) : -1;
        if (b == 0) {
            MC_CHECK(PC03, (rp != NULL) == (nk > 0), "find(key %d) returned %s, but %d live element(s) carry that key", k, rp ? "an element" : "NULL", nk);
            if (rp) MC_CHECK(PC03, i >= 0 && m_member[i] && keys[i] == k, "find(key %d) returned element %d (key %d, %s)", k, i, i >= 0 ? keys[i] : -1, i >= 0 && m_member[i] ? "live" : "not in the table");
        } else {
            int seen[MAXN] = { 0 };
            for (j = 0; j < v_n && j < 4 * MAXN; j++) {
                int e = v_seq[j];
                MC_CHECK(PC03, e >= 0 && m_member[e] && keys[e] == k, "find(key %d) offered element %d (key %d, %s) to the visit function", k, e, e >= 0 ? keys[e] : -1, e >= 0 && m_member[e] ? "live" : "not in the table");
                if (e >= 0) { seen[e]++; MC_CHECK(PC03, seen[e] == 1, "find(key %d) offered element %d more than once", k, e); }
            }
            if (v_accept_at >= 0 && v_accept_at < nk) {
                MC_CHECK(PC03, v_n == v_accept_at + 1, "find(key %d) made %d offers although offer #%d was accepted", k, v_n, v_accept_at);
                MC_CHECK(PC03, rp != NULL && v_n >= 1 && i == v_seq[v_n - 1], "find(key %d) returned element %d, the visit function accepted element %d", k, i, v_n ? v_seq[v_n - 1] : -1);
            } else {
                MC_CHECK(PC03, v_n == nk, "find(key %d) with a visit function accepting none offered %d element(s), %d live element(s) carry that key", k, v_n, nk);
                MC_CHECK(PC03, rp == NULL, "find(key %d) returned an element although the visit function accepted none", k);
            }
        }
        break;
    }
    case O_RESIZE: case O_RESIZE0: {
        size_t n = OC(o) == O_RESIZE0 ? 0 : (size_t)counts[a]; int f = OC(o) == O_RESIZE0 ? F_H0 : b;
        struct snap s0; static volatile float ld;
        take_snap(T, &s0);
        if (n > 0 && m_resized) {
            int eff_f = f == F_NULL ? m_freq : f;
            if (s0.pending) { MC_COUNT(K_RESIZE_WHILE_PENDING); if (n == s0.count && (f == F_NULL || f == H_FID_CUR(T)) && (n != m_nreq || eff_f != m_freq)) MC_COUNT(K_RESIZE_BACK); }
            if (n > m_nreq) MC_COUNT(K_GROW); else if (n < m_nreq) MC_COUNT(K_SHRINK);
            if (eff_f != m_freq) MC_COUNT(K_FUNC_CHANGE);
        }
        nhlog = 0;
        SHIM_CALL(ab, cstl_hash_resize(T, n, fptr(f)));
        if (ab) break;
        if (n == 0) break;                                    /* documented: does nothing */
        {
            int newf = f != F_NULL ? f : m_freq;              /* NULL keeps the function most recently requested; cstl_hash_mul if none ever */
            if (!m_resized || n != m_nreq || newf != m_freq) { m_forced_settled = !m_resized; m_budget = H_PENDING(T) ? (int)H_BCOUNT(T) : -1; m_since = 0; }
            m_nreq = n; m_freq = newf; m_resized = 1;
        }
        SHIM_CALL(ab, ld = cstl_hash_load(T));
        if (ab) break;
        /* (a) immediately after a satisfiable resize request load == size / n */
        MC_CHECK(PC19, ld == (float)m_count / (float)m_nreq, "after resize(%zu) cstl_hash_load reports %g, expected size/n = %d/%zu", n, (double)ld, m_count, m_nreq);
        MC_CHECK(PC03, cstl_hash_size(T) == (size_t)m_count, "resize changed the reported size to %zu (reference %d)", cstl_hash_size(T), m_count);
        break;
    }
    case O_REHASH:
        SHIM_CALL(ab, cstl_hash_rehash(T));
        m_forced_settled = 1;
        if (!ab) MC_CHECK(PC19, !H_PENDING(T), "cstl_hash_rehash returned with the rehash still pending");
        break;
    case O_SHRINK:
        SHIM_CALL(ab, cstl_hash_shrink_to_fit(T));
        break;
    case O_SWAP:
        SHIM_CALL(ab, cstl_hash_swap(&TB[0], &TB[1]));
        cur = 1 - cur;
        { size_t t_ = m_off[0]; m_off[0] = m_off[1]; m_off[1] = t_; }
        if (!ab && mc_checking) check_fresh(PC03, 1 - cur, "after swap with a never-resized table,");
        break;
    case O_FOREACH: case O_FOREACH_STOP: case O_FOREACH_ERASE: case O_FOREACH_FIND: {
        int n0 = m_count, code = OC(o);
        if (code == O_FOREACH_FIND) { v_nested = 1; nested_bad = nested_calls = 0; MC_COUNT(K_REENTRANT); }
        if (H_PENDING(T)) MC_COUNT(K_FOREACH_PENDING);
        if (code == O_FOREACH_ERASE) MC_COUNT(K_FE_ERASE);
        v_n = 0; v_stop_at = code == O_FOREACH_STOP ? a : -1; fe_which = a;
        SHIM_CALL(ab, r = cstl_hash_foreach(T, code == O_FOREACH_ERASE ? cb_erase : cb_count, &vcookie));
        v_nested = 0;
        __asan_unpoison_memory_region(pool, sizeof pool);
        m_forced_settled = 1;
        if (ab) break;
        if (code == O_FOREACH_STOP) {
            MC_CHECK(PC04, r == ((a & 1) ? -(a + 1) : a + 1) && v_n == a + 1, "foreach with a visitor returning %d at visit #%d returned %d after %d visits", (a & 1) ? -(a + 1) : a + 1, a, r, v_n);
            check_each_once(PC04, "foreach (stopped early)", a);
        } else {
            MC_CHECK(PC04, r == 0, "foreach returned %d with an always-zero visitor", r);
            MC_CHECK(PC04, v_n == n0, "foreach%s made %d visits, the table holds %d elements", code == O_FOREACH_ERASE ? " (visitor erases the visited element)" : code == O_FOREACH_FIND ? " (visitor looks other elements up in the table)" : "", v_n, n0);
            if (code == O_FOREACH_FIND) MC_CHECK(PC04 | PC03, nested_bad == 0, "%d of %d lookups made from inside foreach's visit function gave a wrong answer", nested_bad, nested_calls);
            check_each_once(PC04, "foreach", -1);
        }
        if (code == O_FOREACH_ERASE && !mc_branch_dead) {
            if (a == 255) { for (i = 0; i < N; i++) m_member[i] = 0; m_count = 0; }
            else if (a < v_n && v_seq[a] >= 0 && m_member[v_seq[a]]) { m_member[v_seq[a]] = 0; m_count--; }
        }
        MC_CHECK(PC19 | PC04, !H_PENDING(T), "cstl_hash_foreach returned with the rehash still pending");
        break;
    }
    case O_CLEAR_CB: case O_CLEAR_NULL: {
        int cb = OC(o) == O_CLEAR_CB;
        MC_COUNT(K_CLEAR); if (H_PENDING(T)) MC_COUNT(K_CLEAR_PENDING);
        memset(clr_count, 0, sizeof clr_count); clr_bad = 0;
        SHIM_CALL(ab, cstl_hash_clear(T, cb ? cb_clear : NULL));
        __asan_unpoison_memory_region(pool, sizeof pool);
        if (ab) break;
        if (cb) {
            MC_CHECK(PC04, clr_bad == 0, "clear called back with a wrong element/private pointer");
            for (i = 0; i < N; i++) MC_CHECK(PC04, clr_count[i] == m_member[i], "clear handed element %d (key %d) to the callback %d times, expected %d", i, keys[i], clr_count[i], m_member[i]);
        }
        MC_CHECK(PC04 | PC03, cstl_hash_size(T) == 0, "clear left size %zu", cstl_hash_size(T));
        MC_CHECK(PC04, shim_nlive() == 0, "clear left %d allocation(s) of the table alive", shim_nlive());
        if (mc_checking && !mc_branch_dead) probe_reusable();
        for (i = 0; i < N; i++) m_member[i] = 0;
        m_count = 0; m_resized = 0; m_nreq = 0; m_freq = F_MUL; m_forced_settled = 1; m_budget = -1; m_since = 0;
        break;
    }
    }
    if (!ab) {
        /* bounded completion: a pending rehash must be over after as many keyed operations as the table had buckets when it started */
        int keyed = OC(o) == O_INSERT || OC(o) == O_ERASE || OC(o) == O_FIND || OC(o) == O_FIND_RE;
        if (keyed && m_budget >= 0) {
            m_since++;
            MC_CHECK(PC19, !H_PENDING(T) || m_since < m_budget, "the rehash is still pending after %d keyed operations although the table had only %d buckets when it started", m_since, m_budget);
        }
        if (!H_PENDING(T)) { m_budget = -1; m_since = 0; }
    }
    if (ab) MC_CHECK(PALL, 0, "unexpected %s inside the library: %s", ab == 3 ? "non-termination (a library call still running after 3 s)" : ab == 2 ? "assertion failure" : "abort()", ab == 2 ? shim_assert_msg : "");
    else if (mc_checking) {
        MC_CHECK(PALL, shim_errors == 0, "the table passed a pointer to free()/realloc() that it does not own");
        if (m_forced_settled && m_resized) MC_CHECK(PC19, !H_PENDING(T) || OC(o) == O_RESIZE, "a rehash is pending although it was forced to completion and no new geometry was requested");
    }
}

static void w_audit(void)
{
    int ab, j, k; static volatile int r; struct snap s;
    MC_CHECK(PC03, cstl_hash_size(T) == (size_t)m_count, "size = %zu, reference holds %d", cstl_hash_size(T), m_count);
    take_snap(T, &s);
    MC_CHECK(PALL, !s.bad, "bucket chains are corrupt (cycle or count beyond capacity)");
    if (s.bad) return;
    if (s.pending && s.rhcount > s.count) MC_COUNT(K_FOREACHC_PENDING_GROW);
    /* foreach_const is not a transition (it does not touch the table): evaluated in every state */
    v_n = 0; v_stop_at = -1;
    SHIM_CALL(ab, r = cstl_hash_foreach_const(T, cb_count_c, &vcookie));
    if (ab) { MC_CHECK(PC04, 0, "foreach_const aborted"); return; }
    MC_CHECK(PC04, r == 0, "foreach_const returned %d with an always-zero visitor", r);
    MC_CHECK(PC04, v_n == m_count, "foreach_const made %d visits, the table holds %d elements%s", v_n, m_count, s.pending ? " (rehash pending)" : "");
    check_each_once(PC04, "foreach_const", -1);
    if (mc_branch_dead) return;
    for (j = 0; j < m_count; j++) {
        v_n = 0; v_stop_at = j;
        SHIM_CALL(ab, r = cstl_hash_foreach_const(T, cb_count_c, &vcookie));
        MC_CHECK(PC04, !ab && r == ((j & 1) ? -(j + 1) : j + 1) && v_n == j + 1, "foreach_const with a visitor returning %d at visit #%d returned %d after %d visits", (j & 1) ? -(j + 1) : j + 1, j, r, v_n);
    }
    /* with no rehash pending a lookup does not touch the table, so foreach_const's visit function may look elements up */
    if (0 && !s.pending && m_resized && m_count >= 2 && !mc_branch_dead) {      /* not part of the verdict, see the note at nested_lookups() */
        v_n = 0; v_stop_at = -1; v_nested = 1; nested_bad = nested_calls = 0;
        SHIM_CALL(ab, r = cstl_hash_foreach_const(T, cb_count_c, &vcookie));
        v_nested = 0;
        MC_CHECK(PC04, !ab && r == 0 && v_n == m_count, "foreach_const whose visit function looks elements up (no rehash pending) made %d visits for %d elements", v_n, m_count);
        check_each_once(PC04, "foreach_const (visitor looks elements up)", -1);
        MC_CHECK(PC04 | PC03, nested_bad == 0, "%d of %d lookups made from inside foreach_const's visit function gave a wrong answer", nested_bad, nested_calls);
        if (mc_branch_dead) return;
    }
    /* the canonical model fields and the public struct agree about where the table is heading (needs the private members) */
    if (m_resized && !HASH_NOPRIV) {
        size_t heading = s.pending ? s.rhcount : s.count;
        MC_CHECK(PC19, heading == m_nreq, "the table is heading for %zu buckets, the most recent request was %zu", heading, m_nreq);
        if (m_freq != F_MUL) MC_CHECK(PC19, (s.pending ? H_FID_RH(T) : H_FID_CUR(T)) == m_freq, "the table is heading for hash function #%d, the most recent request was #%d", (s.pending ? H_FID_RH(T) : H_FID_CUR(T)), m_freq);
    }
    MC_CHECK(PC03 | PC04, vbad == 0, "a visit callback received a private pointer other than the one the caller passed (%d calls)", vbad);
    for (k = 0; k < N; k++) MC_CHECK(PC03, pool[k].pad == 0x1111 && pool[k].tail == 0x2222 && pool[k].idx == k && pool[k].pad2 == 0x3333
#if !HASH_NOPRIV
        && (!m_member[k] || pool[k].hn.key == (size_t)keys[k]) && pool[k].hn2.key == (size_t)keys[k]
#endif
        , "element %d: key or bytes outside its hash node were modified", k);
}

/* canonical key */
#if HASH_NOPRIV
static void canon_one(int t) { int k; KB_C('H'); KB_U((unsigned)t); if (t == 0) for (k = 0; k < nopriv_n; k++) { KB_U((unsigned)nopriv_hist[k]); KB_C('.'); } }
#else
static void canon_one(int t)
{
    const struct cstl_hash *h = &TB[t];
    struct snap s; size_t b;
    take_snap(h, &s);
    KB_C('T'); KB_C(h->bucket.at ? 'a' : '0'); KB_U(h->bucket.count); KB_C('/'); KB_U(h->bucket.capacity); KB_C('f'); KB_U((unsigned)fid(h->bucket.hash));
    KB_C('n'); KB_U(h->count); KB_C('o'); KB_U(h->off); KB_C(h->bucket.cst ? '+' : '-');       /* the table-wide clean bit survives clear: hidden state */
    if (s.pending) { KB_C('P'); KB_U(h->bucket.rh.count); KB_C('f'); KB_U((unsigned)fid(h->bucket.rh.hash)); KB_C('c'); KB_U(h->bucket.rh.clean); }
    /* the sweep cursor and the requested count survive the end of a rehash and clear(): hidden state a later resize may (wrongly) rely on -- the key must
     * not merge two tables that differ in them (seed C19-7d: the cursor is reset when a rehash ENDS instead of when one starts; after a clear in mid-rehash
     * the stale cursor makes the next rehash skip buckets).  Finer key only: sound for every implementation. */
    else if (canon_hidden) { KB_C('p'); KB_U(h->bucket.rh.count); KB_C('c'); KB_U(h->bucket.rh.clean); }
    if (s.bad) { KB_C('!'); return; }
    for (b = 0; b < s.bound; b++) {
        const struct cstl_hash_node *n = h->bucket.at[b].n; int steps = 0;
        KB_C('['); if (s.pending && b < s.count) KB_C(s.dirty[b] ? 'd' : 'c');
        else if (s.pending) KB_C(h->bucket.at[b].cst == h->bucket.cst ? 'c' : 'D');
        while (n != NULL && idx_of_node(n) >= 0 && steps++ <= N) { KB_U((unsigned)idx_of_node(n)); KB_C(','); n = n->next; }
        KB_C(']');
    }
}
#endif
static void w_canon(void)
{
    KB_C('v'); KB_U((unsigned)(vbad != 0)); KB_C('c'); KB_U((unsigned)cur); canon_one(0); canon_one(1); KB_C('O'); KB_U(m_off[0]); KB_C(','); KB_U(m_off[1]);
    KB_C('m'); KB_U(m_nreq); KB_C('f'); KB_U((unsigned)m_freq); KB_C(m_forced_settled ? 's' : 'u'); KB_C(m_resized ? 'R' : '-');
    { int i; for (i = 0; i < N; i++) KB_C(m_member[i] ? '1' : '0'); }
    { int i; for (i = 0; i < N; i++) if (pool[i].pad != 0x1111 || pool[i].tail != 0x2222 || pool[i].pad2 != 0x3333) { KB_C('X'); KB_U((unsigned)i); } }
    if (m_budget >= 0) { KB_C('B'); KB_U((unsigned)m_budget); KB_C('.'); KB_U((unsigned)m_since); }
}
static void w_opname(mc_op_t o, char *b, size_t n)
{
    static const char *fn[] = { "NULL", "h0", "h1", "h2" };
    switch (OC(o)) {
    case O_INSERT: snprintf(b, n, "insert(e%d key %d)", OA(o), keys[OA(o)]); break;
    case O_ERASE: snprintf(b, n, "erase(e%d key %d)", OA(o), keys[OA(o)]); break;
    case O_FIND: if (OB(o) == 0) snprintf(b, n, "find(key %d, no visitor)", alpha[OA(o)]); else if (OB(o) == 1) snprintf(b, n, "find(key %d, visitor rejects all)", alpha[OA(o)]); else snprintf(b, n, "find(key %d, visitor accepts offer #%d)", alpha[OA(o)], OB(o) - 2); break;
    case O_RESIZE: snprintf(b, n, "resize(%d,%s)", counts[OA(o)], fn[OB(o)]); break;
    case O_RESIZE0: snprintf(b, n, "resize(0,h0)"); break;
    case O_REHASH: snprintf(b, n, "rehash"); break;
    case O_SHRINK: snprintf(b, n, "shrink_to_fit"); break;
    case O_SWAP: snprintf(b, n, "swap(table, never-resized table)"); break;
    case O_FOREACH: snprintf(b, n, "foreach(count)"); break;
    case O_FOREACH_FIND: snprintf(b, n, "foreach(visitor looks every key up)"); break;
    case O_FIND_RE: snprintf(b, n, "find(key %d, visitor rejects all and looks every key up)", alpha[OA(o)]); break;
    case O_FOREACH_STOP: snprintf(b, n, "foreach(stop at visit #%d)", OA(o)); break;
    case O_FOREACH_ERASE: if (OA(o) == 255) snprintf(b, n, "foreach(erase+free every visited)"); else snprintf(b, n, "foreach(erase+free visit #%d)", OA(o)); break;
    case O_CLEAR_CB: snprintf(b, n, "clear(counting+poisoning callback)"); break;
    default: snprintf(b, n, "clear(NULL)"); break;
    }
}
static int w_nontrivial(void) { return H_PENDING(&TB[cur]); }
