/* vector world: C09 (a vector never reports size or capacity it has no storage for).
 * The vector is observed through its public functions only (size, capacity, data, at); the canonical key takes the object's raw bytes
 * without naming a field, so a library that renames or reorders its private members is judged the same way. */
#include "cstl/vector.h"
#include "../engine/mc.h"
#include <sanitizer/asan_interface.h>

#define PC09 P(0)
static const char *w_name = "vector";
static unsigned w_prop_bit(const char *id) { return !strcmp(id, "C09") ? PC09 : 0; }

#define MAXSZ 6                 /* sizes/capacities explored: 0..MAXSZ */
static struct cstl_vector V[2];
static size_t ES[2]; static int XT[2];
static char cfgdesc[256];
static int cur_cfg;      /* selects what the vector objects' storage holds before the init function runs (prefill) */

/* model: per object */
static struct { size_t es; int xt, ck; size_t size, cap; int vals[MAXSZ + 2]; } M[2];

enum { O_RESIZE = 1, O_RESERVE, O_SHRINK, O_CLEAR, O_SORT, O_REVERSE, O_SWAP };
/* size arguments: small absolute values, values relative to size/cap, values around SIZE_MAX and SIZE_MAX/es */
enum { A_0, A_1, A_2, A_3, A_5, A_SIZE_M1, A_SIZE_P1, A_CAP, A_CAP_P1, A_MAX, A_MAX_M1, A_DIV_M1, A_DIV, A_DIV_P1, A_HALFDIV_P1, A_GIB, A_NARGS };
static const char *argname[] = { "0", "1", "2", "3", "5", "size-1", "size+1", "cap", "cap+1", "SIZE_MAX", "SIZE_MAX-1", "SIZE_MAX/es-1", "SIZE_MAX/es", "SIZE_MAX/es+1", "(SIZE_MAX/es)/2+1", "2^30/es+1" };
#define OP(c, v, a) ((mc_op_t)((c) | ((v) << 8) | ((a) << 16)))
#define OC(o) ((o) & 0xff)
#define OV(o) (((o) >> 8) & 0xff)
#define OA(o) (((o) >> 16) & 0xff)

enum { K_RESERVE_UNSAT, K_RESIZE_UNSAT, K_REALLOC_KEEP, K_CTOR, K_DTOR, K_SWAP_DIFFERENT, K_SORT3, K_SHRINK_REAL };
static const char *w_counter_names[] = { "reserve_unsatisfiable", "resize_unsatisfiable_abort", "growth_with_live_elements_kept", "constructor_calls", "destructor_calls", "swap_of_unlike_vectors", "sort_of_3_or_more", "shrink_with_slack", NULL };

struct cfg { size_t es0; int xt0; size_t es1; int xt1; };
static const struct cfg quick_cfgs[] = { { 1, 0, 4, 1 }, { 8, 1, 24, 0 }, { 3, 0, 16, 1 }, { 2, 1, 64, 0 }, { 4, 0, 4, 0 }, { 12, 1, 12, 1 } };
static struct cfg thorough_tab[40]; static int thorough_n;
static int w_nconfigs(int thorough)
{
    if (!thorough) return (int)(sizeof quick_cfgs / sizeof quick_cfgs[0]);
    if (!thorough_n) { size_t e; for (e = 1; e <= 64; e += 2) { thorough_tab[thorough_n].es0 = e; thorough_tab[thorough_n].xt0 = (int)((e / 2) & 1); thorough_tab[thorough_n].es1 = e + 1; thorough_tab[thorough_n].xt1 = !((e / 2) & 1); thorough_n++; } }
    return thorough_n;
}
static void w_setup(int cfg, int thorough)
{
    int v, a; const struct cfg *c;
    w_nconfigs(thorough);
    c = thorough ? &thorough_tab[cfg] : &quick_cfgs[cfg]; cur_cfg = cfg;
    ES[0] = c->es0; XT[0] = c->xt0; ES[1] = c->es1; XT[1] = c->xt1;
    snprintf(cfgdesc, sizeof cfgdesc, "two vectors: %zu-byte elements %s constructor/destructor, %zu-byte elements %s; sizes 0..%d and the boundary arguments", ES[0], XT[0] ? "with" : "without", ES[1], XT[1] ? "with" : "without", MAXSZ);
    w_nops = 0;
    /* object 0 gets the whole alphabet; object 1 only a few operations -- swap exchanges the two objects completely, so both
     * element sizes / xtor settings are driven through the whole alphabet while the product of the two state spaces stays small */
    for (a = 0; a < A_NARGS; a++) { w_ops[w_nops++] = OP(O_RESIZE, 0, a); w_ops[w_nops++] = OP(O_RESERVE, 0, a); }
    w_ops[w_nops++] = OP(O_SHRINK, 0, 0); w_ops[w_nops++] = OP(O_CLEAR, 0, 0); w_ops[w_nops++] = OP(O_SORT, 0, 0); w_ops[w_nops++] = OP(O_REVERSE, 0, 0);
    w_ops[w_nops++] = OP(O_RESIZE, 1, A_0); w_ops[w_nops++] = OP(O_RESIZE, 1, A_2); w_ops[w_nops++] = OP(O_RESERVE, 1, A_3); w_ops[w_nops++] = OP(O_CLEAR, 1, 0);
    (void)v;
    w_ops[w_nops++] = OP(O_SWAP, 0, 0); w_ops[w_nops++] = OP(O_SWAP, 1, 0);      /* v == 1: swap(v0, v0) */
}
static const char *w_config_desc(void) { return cfgdesc; }

static unsigned char pat(int val, size_t j) { return j == 0 ? (unsigned char)val : (unsigned char)(0x40 + val * 16 + (int)(j % 13)); }
static void stamp(void *p, int val, size_t es) { size_t j; unsigned char *b = p; for (j = 0; j < es; j++) b[j] = pat(val, j); }
static int stamped(const void *p, int val, size_t es) { size_t j; const unsigned char *b = p; for (j = 0; j < es; j++) if (b[j] != pat(val, j)) return 0; return 1; }

/* constructor / destructor instrumentation */
static int xt_ctor_slots[64], xt_nctor, xt_dtor_slots[64], xt_ndtor, xt_bad;
static int xt_ctx[2];                     /* priv cookies: &xt_ctx[k] identifies the vector the xtors were given to at init */
static int slot_of(const void *obj, int *which)
{
    int v;
    for (v = 0; v < 2; v++) {
        uintptr_t b = (uintptr_t)cstl_vector_data(&V[v]), o = (uintptr_t)obj; size_t es = M[v].es;
        if (b && o >= b && o < b + (cstl_vector_capacity(&V[v]) + 1) * es && (o - b) % es == 0) { *which = v; return (int)((o - b) / es); }
    }
    return -1;
}
static void ctor(void *obj, void *priv)
{
    int v = -1, s = slot_of(obj, &v);
    if (++xt_nctor > 4096) shim_bail(3);                /* watchdog: a runaway construction loop */
    xt_nctor--;
    if (s < 0 || !M[v].xt || priv != (void *)&xt_ctx[M[v].ck]) { xt_bad++; xt_nctor++; return; }
    if (xt_nctor < 64) xt_ctor_slots[xt_nctor] = s;
    xt_nctor++;
    stamp(obj, s % 2, M[v].es);
}
static void dtor(void *obj, void *priv)
{
    int v = -1, s = slot_of(obj, &v);
    if (++xt_ndtor > 4096) shim_bail(3);
    xt_ndtor--;
    if (s < 0 || !M[v].xt || priv != (void *)&xt_ctx[M[v].ck]) { xt_bad++; xt_ndtor++; return; }
    if (xt_ndtor < 64) xt_dtor_slots[xt_ndtor] = s;
    xt_ndtor++;
}

/* what the storage held before the init function runs on it is an input (the init functions take uninitialised storage): bytes 0xA5, all zero, all ones,
 * and words that look like small counts -- what a struct that was a vector or a counter block leaves behind (seed C09-7f: a new private member that the
 * init functions forget to write and a fast path that trusts it when it is small).  The kind rotates with the configuration and the object. */
static void prefill(void *p, size_t n, int kind)
{
    size_t i, w; unsigned char *b = p;
    switch (kind % 5) {
    case 0: memset(p, 0xA5, n); break;
    case 1: w = 3; for (i = 0; i + sizeof w <= n; i += sizeof w) memcpy(b + i, &w, sizeof w); break;
    case 2: memset(p, 0, n); break;
    case 3: w = 6; for (i = 0; i + sizeof w <= n; i += sizeof w) memcpy(b + i, &w, sizeof w); break;
    default: memset(p, 0xFF, n); break;
    }
}
static void w_init(void)
{
    int v;
    shim_reset();
    for (v = 0; v < 2; v++) {
        prefill(&V[v], sizeof V[v], cur_cfg + v);
        if (XT[v]) cstl_vector_init_complex(&V[v], ES[v], ctor, dtor, &xt_ctx[v]); else cstl_vector_init(&V[v], ES[v]);
        M[v].es = ES[v]; M[v].xt = XT[v]; M[v].ck = v; M[v].size = 0; M[v].cap = 0;
    }
}

static size_t argval(int v, int a)
{
    size_t es = M[v].es;
    switch (a) {
    case A_0: return 0; case A_1: return 1; case A_2: return 2; case A_3: return 3; case A_5: return 5;
    case A_SIZE_M1: return M[v].size - 1; case A_SIZE_P1: return M[v].size + 1; case A_CAP: return M[v].cap; case A_CAP_P1: return M[v].cap + 1;
    case A_MAX: return SIZE_MAX; case A_MAX_M1: return SIZE_MAX - 1; case A_DIV_M1: return SIZE_MAX / es - 1; case A_DIV: return SIZE_MAX / es;
    case A_DIV_P1: return SIZE_MAX / es + 1; case A_HALFDIV_P1: return (SIZE_MAX / es) / 2 + 1; default: return SHIM_REFUSE_ABOVE / es + 1;
    }
}
/* can a buffer for n elements (+1 scratch element) be provided? exact arithmetic */
static int satisfiable(size_t n, size_t es)
{
    unsigned __int128 bytes = ((unsigned __int128)n + 1) * es;
    return bytes <= SHIM_REFUSE_ABOVE;
}
static int w_enabled(mc_op_t o)
{
    int v = OV(o), a = OA(o); size_t n;
    /* while object 1 holds more than two elements (it received them through swap) only swap and object 1's own operations are offered */
    if (v == 0 && OC(o) != O_SWAP && M[1].size > 2) return 0;
    if (OC(o) != O_RESIZE && OC(o) != O_RESERVE) return 1;
    if (a == A_SIZE_M1 && M[v].size == 0) return 0;
    n = argval(v, a);
    if (a <= A_CAP_P1 && n > MAXSZ) return 0;          /* keep the explored sizes finite */
    return 1;
}

static int cmp_first(const void *a, const void *b, void *p) { (void)p; return (int)*(const unsigned char *)a - (int)*(const unsigned char *)b; }

static void check_storage(int v, const char *when)
{
    struct cstl_vector *x = &V[v];
    size_t i;
    MC_CHECK(PC09, cstl_vector_size(x) == M[v].size, "%s: vector %d reports size %zu, reference %zu", when, v, cstl_vector_size(x), M[v].size);
    MC_CHECK(PC09, cstl_vector_capacity(x) >= cstl_vector_size(x), "%s: vector %d capacity %zu < size %zu", when, v, cstl_vector_capacity(x), cstl_vector_size(x));
    if (mc_branch_dead) return;
    if (cstl_vector_capacity(x) > 0 || cstl_vector_size(x) > 0) {
        shim_blk *b = shim_find(cstl_vector_data(x));
        unsigned __int128 need = ((unsigned __int128)cstl_vector_capacity(x) + 1) * M[v].es;
        MC_CHECK(PC09, b != NULL, "%s: vector %d (size %zu, capacity %zu) data pointer is not inside a live allocation", when, v, cstl_vector_size(x), cstl_vector_capacity(x));
        /* where in its block the element storage starts is the library's business (the scratch element may sit in front of it); the elements 0..capacity-1 must lie inside */
        if (b) MC_CHECK(PC09, (unsigned __int128)((const char *)cstl_vector_data(x) - (const char *)b->p) + (unsigned __int128)cstl_vector_capacity(x) * M[v].es <= b->sz, "%s: vector %d: capacity %zu reaches past the end of its allocation", when, v, cstl_vector_capacity(x));
        if (b) MC_CHECK(PC09, (unsigned __int128)b->sz >= need, "%s: vector %d reports capacity %zu but its allocation has %zu bytes (needs (capacity+1)*%zu)", when, v, cstl_vector_capacity(x), b->sz, M[v].es);
        if (mc_branch_dead) return;
        for (i = 0; i < M[v].size; i++)
            MC_CHECK(PC09, stamped((char *)cstl_vector_data(x) + i * M[v].es, M[v].vals[i], M[v].es), "%s: vector %d element %zu lost its bytes", when, v, i);
    }
}

static void w_apply(mc_op_t o)
{
    int v = OV(o), ab = 0; size_t n, i;
    struct cstl_vector *x = &V[v];
    switch (OC(o)) {
    case O_RESERVE: {
        const void *d0 = cstl_vector_data(x); size_t s0 = cstl_vector_size(x), c0 = cstl_vector_capacity(x); int sat;
        n = argval(v, OA(o)); sat = satisfiable(n, M[v].es);
        if (!sat) MC_COUNT(K_RESERVE_UNSAT);
        if (sat && n > M[v].cap && M[v].size > 0) MC_COUNT(K_REALLOC_KEEP);
        SHIM_CALL(ab, cstl_vector_reserve(x, n));
        if (ab) break;
        if (!sat || n <= M[v].cap) {
            MC_CHECK(PC09, cstl_vector_data(x) == d0 && cstl_vector_size(x) == s0 && cstl_vector_capacity(x) == c0, "reserve(%s=%zu) on vector %d (capacity %zu) should be a quiet no-op but changed data/size/capacity to %s/%zu/%zu",
                     argname[OA(o)], n, v, c0, cstl_vector_data(x) == d0 ? "(same)" : "another address", cstl_vector_size(x), cstl_vector_capacity(x));
        } else {
            MC_CHECK(PC09, cstl_vector_capacity(x) >= n, "reserve(%zu) on vector %d left capacity %zu", n, v, cstl_vector_capacity(x));
        }
        M[v].cap = cstl_vector_capacity(x);
        break;
    }
    case O_SHRINK:
        if (M[v].cap > M[v].size) MC_COUNT(K_SHRINK_REAL);
        SHIM_CALL(ab, cstl_vector_shrink_to_fit(x));
        if (ab) break;
        MC_CHECK(PC09, cstl_vector_capacity(x) <= M[v].cap, "shrink_to_fit raised the capacity of vector %d from %zu to %zu", v, M[v].cap, cstl_vector_capacity(x));
        M[v].cap = cstl_vector_capacity(x);
        break;
    case O_RESIZE: case O_CLEAR: {
        size_t old = M[v].size; int sat, k;
        n = OC(o) == O_CLEAR ? 0 : argval(v, OA(o)); sat = n <= M[v].cap || satisfiable(n, M[v].es);
        xt_nctor = xt_ndtor = xt_bad = 0;
        if (!sat) MC_COUNT(K_RESIZE_UNSAT);
        if (sat && n > M[v].cap && old > 0) MC_COUNT(K_REALLOC_KEEP);
        if (OC(o) == O_CLEAR) SHIM_CALL(ab, cstl_vector_clear(x)); else SHIM_CALL(ab, cstl_vector_resize(x, n));
        if (!sat) {
            MC_CHECK(PC09, ab == 1, "resize(%s=%zu) of vector %d (%zu-byte elements) cannot be satisfied and must abort, but it %s", argname[OA(o)], n, v, M[v].es, ab ? "hit an assertion" : "returned");
            if (ab == 1) { mc_terminal = 1; ab = 0; }
            break;
        }
        if (ab) break;
        /* elements entering [0,size): constructed once each (or stamped by the caller when there is no constructor) */
        if (!M[v].xt) MC_CHECK(PC09, xt_nctor == 0 && xt_ndtor == 0 && xt_bad == 0, "vector %d was initialised without constructor/destructor but %d calls were made", v, xt_nctor + xt_ndtor + xt_bad);
        if (M[v].xt) {
            size_t expc = n > old ? n - old : 0, expd = old > n ? old - n : 0; int seen[64] = { 0 };
            MC_CHECK(PC09, xt_bad == 0, "constructor/destructor called with a pointer outside the vector or a wrong private pointer");
            MC_CHECK(PC09, (size_t)xt_nctor == expc, "resize %zu -> %zu ran the constructor %d times, expected %zu", old, n, xt_nctor, expc);
            MC_CHECK(PC09, (size_t)xt_ndtor == expd, "resize %zu -> %zu ran the destructor %d times, expected %zu", old, n, xt_ndtor, expd);
            for (k = 0; k < xt_nctor && k < 64; k++) { int s = xt_ctor_slots[k]; MC_CHECK(PC09, (size_t)s >= old && (size_t)s < n && !seen[s], "constructor ran on slot %d (resize %zu -> %zu)%s", s, old, n, s < 64 && seen[s] ? " twice" : ""); if (s >= 0 && s < 64) seen[s] = 1; }
            memset(seen, 0, sizeof seen);
            for (k = 0; k < xt_ndtor && k < 64; k++) { int s = xt_dtor_slots[k]; MC_CHECK(PC09, (size_t)s >= n && (size_t)s < old && !seen[s], "destructor ran on slot %d (resize %zu -> %zu)%s", s, old, n, s < 64 && seen[s] ? " twice" : ""); if (s >= 0 && s < 64) seen[s] = 1; }
            if (mc_checking) { mc_counters[K_CTOR] += (unsigned long)xt_nctor; mc_counters[K_DTOR] += (unsigned long)xt_ndtor; }
        }
        if (OC(o) == O_CLEAR) MC_CHECK(PC09, cstl_vector_capacity(x) == 0 && cstl_vector_data(x) == NULL, "clear left capacity %zu / data %p", cstl_vector_capacity(x), cstl_vector_data(x));
        MC_CHECK(PC09, cstl_vector_size(x) == n, "resize(%zu) left size %zu", n, cstl_vector_size(x));
        if (mc_branch_dead) break;
        for (i = old; i < n; i++) {
            M[v].vals[i] = (int)(i % 2);
            if (!M[v].xt) { static void * volatile e; int ab2; SHIM_CALL(ab2, e = cstl_vector_at(x, i)); if (ab2) { MC_CHECK(PC09, 0, "at(%zu) aborted although the index is below size %zu", i, n); break; } stamp(e, (int)(i % 2), M[v].es); }
        }
        M[v].size = n; M[v].cap = cstl_vector_capacity(x);
        break;
    }
    case O_SORT: {
        int cnt[4] = { 0 }, k;
        if (M[v].size >= 3) MC_COUNT(K_SORT3);
        SHIM_CALL(ab, cstl_vector_sort(x, cmp_first, NULL));
        for (i = 0; i < M[v].size; i++) cnt[M[v].vals[i]]++;
        for (i = 0, k = 0; k < 4; k++) while (cnt[k]-- > 0) M[v].vals[i++] = k;
        break;
    }
    case O_REVERSE:
        SHIM_CALL(ab, cstl_vector_reverse(x));
        for (i = 0; i < M[v].size / 2; i++) { int t = M[v].vals[i]; M[v].vals[i] = M[v].vals[M[v].size - 1 - i]; M[v].vals[M[v].size - 1 - i] = t; }
        break;
    case O_SWAP: {
        struct { size_t es; int xt, ck; size_t size, cap; int vals[MAXSZ + 2]; } t;
        if (v == 1) { SHIM_CALL(ab, cstl_vector_swap(&V[0], &V[0])); break; }      /* swapping a vector with itself changes nothing */
        if (M[0].es != M[1].es || M[0].xt != M[1].xt) MC_COUNT(K_SWAP_DIFFERENT);
        SHIM_CALL(ab, cstl_vector_swap(&V[0], &V[1]));
        memcpy(&t, &M[0], sizeof t); memcpy(&M[0], &M[1], sizeof t); memcpy(&M[1], &t, sizeof t);
        break;
    }
    }
    if (ab) MC_CHECK(PC09, 0, "unexpected %s inside the library: %s", ab == 3 ? "runaway constructor/destructor loop (more than 4096 calls)" : ab == 3 ? "non-termination (a library call still running after 3 s)" : ab == 2 ? "assertion failure" : "abort()", ab == 2 ? shim_assert_msg : "");
    else if (mc_checking && !mc_terminal) MC_CHECK(PC09, shim_errors == 0, "the vector passed a pointer to free()/realloc() that it does not own");
}

static void w_audit(void)
{
    int v, k, ab;
    for (v = 0; v < 2; v++) {
        static const int which[] = { 0, 1, 2, 3, 4, 5, 6, 7 };
        check_storage(v, "state audit");
        if (mc_branch_dead) return;
        for (k = 0; k < 8; k++) {
            /* 5..7: indices whose byte offset i*element_size wraps around to a small value */
            size_t wrap = SIZE_MAX / M[v].es + 1;
            size_t i = which[k] == 0 ? 0 : which[k] == 1 ? M[v].size - 1 : which[k] == 2 ? M[v].size : which[k] == 3 ? M[v].size + 1 : which[k] == 4 ? SIZE_MAX : which[k] == 5 ? wrap : which[k] == 6 ? wrap + 1 : wrap + M[v].size - 1;
            if (which[k] >= 5 && (M[v].es == 1 || i < M[v].size)) continue;
            static void * volatile e;
            if (which[k] == 1 && M[v].size == 0) continue;
            e = NULL;
            SHIM_CALL(ab, e = cstl_vector_at(&V[v], i));
            if (i < M[v].size) {
                MC_CHECK(PC09, ab == 0, "at(%zu) aborted although size is %zu", i, M[v].size);
                if (!ab) MC_CHECK(PC09, e == (void *)((char *)cstl_vector_data(&V[v]) + i * M[v].es), "at(%zu) returned an address that is not data + i*element_size", i);
            } else MC_CHECK(PC09, ab == 1, "at(%zu) with size %zu must abort but %s", i, M[v].size, ab ? "hit an assertion" : "returned");
        }
    }
    MC_CHECK(PC09, shim_nlive() <= 2, "%d live allocations for two vectors", shim_nlive());
}

static void w_canon(void)
{
    int v; size_t i;
    for (v = 0; v < 2; v++) {
        KB_C('V'); KB_U(M[v].es); KB_C(M[v].xt ? 'x' : '-'); KB_U((unsigned)M[v].ck);
        KB_MEM(&V[v], sizeof V[v], NULL);                     /* every byte of the object, fields unnamed: hidden members are part of the state */
        KB_C('|'); KB_U(cstl_vector_size(&V[v])); KB_C('/'); KB_U(cstl_vector_capacity(&V[v])); KB_C(':');
        for (i = 0; i < M[v].size && i < MAXSZ + 2; i++) KB_U((unsigned)M[v].vals[i]);
    }
}
static void w_opname(mc_op_t o, char *b, size_t n)
{
    static const char *nm[] = { "?", "resize", "reserve", "shrink_to_fit", "clear", "sort", "reverse", "swap" };
    if (OC(o) == O_RESIZE || OC(o) == O_RESERVE) snprintf(b, n, "%s(v%d,%s)", nm[OC(o)], OV(o), argname[OA(o)]);
    else if (OC(o) == O_SWAP) snprintf(b, n, OV(o) ? "swap(v0,v0)" : "swap(v0,v1)");
    else snprintf(b, n, "%s(v%d)", nm[OC(o)], OV(o));
}
static int w_nontrivial(void) { return M[0].size + M[1].size >= 2 && (M[0].cap > M[0].size || M[1].cap > M[1].size); }
