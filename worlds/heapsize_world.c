/* C07 complement to the closure search: the heap locates its next free slot and its last element from the size alone (cstl_fls + bit path),
 * so size-dependent arithmetic is exercised over an ENUMERATED family of sizes far beyond what a closure can reach: every size 1..SMALL by
 * fill/drain, and every size up to 2^16+3 (thorough 2^17+3) along one long fill in which each size also sees a pop and a re-push; five
 * priority patterns; cstl_fls itself against a reference for every value below 2^22 and around every power of two. */
#define _GNU_SOURCE
#include "cstl/heap.h"
#include "../engine/shim.h"
#include <stdio.h>
#include <stdlib.h>
#include <string.h>
#include <stdarg.h>
#include <time.h>
#include <fcntl.h>
#include <unistd.h>
#include <sys/mman.h>

#define MAXE ((1u << 17) + 16)
struct elem { int prio; unsigned idx; struct cstl_heap_node hn; int in; };
static struct elem E[MAXE];
static struct cstl_heap H;
static int cnt[1024]; static unsigned held;
static char viols[4][80], violmsg[4][400]; static int nviol; static char curcase[80];
static unsigned long evals, nontriv;
static char *prog_buf;
static void progress_open(const char *path) { int fd = open(path, O_RDWR | O_CREAT | O_TRUNC, 0644); if (fd < 0 || ftruncate(fd, 4096) != 0) return; prog_buf = mmap(NULL, 4096, PROT_READ | PROT_WRITE, MAP_SHARED, fd, 0); if (prog_buf == MAP_FAILED) prog_buf = NULL; close(fd); }
static void fail(const char *fmt, ...) { va_list ap; if (nviol >= 4) return; snprintf(viols[nviol], sizeof viols[0], "%s", curcase); va_start(ap, fmt); vsnprintf(violmsg[nviol], sizeof violmsg[0], fmt, ap); va_end(ap); nviol++; }
static int cmp(const void *a, const void *b, void *p) { (void)p; return ((const struct elem *)a)->prio - ((const struct elem *)b)->prio; }
static int prio_of(int pattern, unsigned i, unsigned n)
{
    switch (pattern) {
    case 0: return (int)(i * 1000u / (n + 1));                 /* ascending (with ties) */
    case 1: return (int)((n - i) * 1000u / (n + 1));           /* descending */
    case 2: return 7;                                          /* constant */
    case 3: return (int)(i % 17);                              /* sawtooth */
    default: return (int)((i < n / 2 ? i : n - i) * 1000u / (n + 1));   /* organ pipe */
    }
}
static int refmax(void) { int p; for (p = 1023; p >= 0; p--) if (cnt[p]) return p; return -1; }
static int do_push(unsigned i)
{
    int ab;
    SHIM_CALL(ab, cstl_heap_push(&H, &E[i]));
    if (ab) { fail("push #%u (size %u) %s", i, held, ab == 2 ? shim_assert_msg : "aborted"); return -1; }
    E[i].in = 1; cnt[E[i].prio]++; held++; evals++;
    if (cstl_heap_size(&H) != held) { fail("after a push size() is %zu, %u elements are held", cstl_heap_size(&H), held); return -1; }
    return 0;
}
static long do_pop(void)
{
    int ab; static void * volatile r; struct elem *e;
    SHIM_CALL(ab, r = cstl_heap_pop(&H));
    evals++;
    if (ab) { fail("pop at size %u %s", held, ab == 2 ? shim_assert_msg : "aborted"); return -1; }
    if (held == 0) { if (r != NULL) fail("pop on an empty heap returned non-NULL"); return -2; }
    e = r;
    if (e == NULL || e < E || e >= E + MAXE || !e->in) { fail("pop at size %u returned %s", held, e ? "an element that is not in the heap" : "NULL"); return -1; }
    if (e->prio != refmax()) { fail("pop at size %u returned priority %d although priority %d is held", held, e->prio, refmax()); return -1; }
    e->in = 0; cnt[e->prio]--; held--;
    if (cstl_heap_size(&H) != held) { fail("after a pop size() is %zu, %u elements are held", cstl_heap_size(&H), held); return -1; }
    return (long)(e - E);
}
/* completeness: level-order slots 1..size are exactly the occupied ones */
static const struct cstl_bintree_node *slot(unsigned s)
{
    const struct cstl_bintree_node *n = H.bt.root; int top = 31, b;
    while (top > 0 && !(s >> top)) top--;
    for (b = top - 1; b >= 0 && n; b--) n = ((s >> b) & 1) ? n->r : n->l;
    return n;
}
static void completeness(void)
{
    unsigned s;
    for (s = 1; s <= held && nviol == 0; s++) if (slot(s) == NULL) fail("with %u elements the level-order slot %u is empty: the tree is not complete", held, s);
    for (s = held + 1; s <= 2 * held + 1 && nviol == 0; s++) if (slot(s) != NULL) fail("with %u elements slot %u beyond the size is occupied", held, s);
}
static void reset_heap(void) { memset(cnt, 0, sizeof cnt); held = 0; memset(&H, 0xA5, sizeof H); cstl_heap_init(&H, cmp, NULL, offsetof(struct elem, hn)); }

static void fill_drain(int pattern, unsigned n)
{
    unsigned i;
    snprintf(curcase, sizeof curcase, "fd:%d:%u", pattern, n);
    if (prog_buf) snprintf(prog_buf, 4000, "R %s\n", curcase);
    reset_heap();
    for (i = 0; i < n; i++) { E[i].prio = prio_of(pattern, i, n); E[i].idx = i; E[i].in = 0; if (do_push(i)) return; }
    if (n <= 64 || (n & (n - 1)) == 0 || ((n + 1) & n) == 0) completeness();
    for (i = 0; i < n && nviol == 0; i++) if (do_pop() < 0) return;
    if (do_pop() != -2 && nviol == 0) fail("the drained heap is not empty");
    nontriv++;
}
static void long_fill(int pattern, unsigned nmax)
{
    unsigned i;
    snprintf(curcase, sizeof curcase, "lf:%d:%u", pattern, nmax);
    reset_heap();
    for (i = 0; i < nmax && nviol == 0; i++) {
        long p;
        if (prog_buf && (i & 255) == 0) snprintf(prog_buf, 4000, "R %s\n", curcase);
        E[i].prio = prio_of(pattern, i, nmax); E[i].idx = i; E[i].in = 0;
        if (do_push(i)) return;
        /* every size sees a pop and a re-push of the popped element */
        p = do_pop(); if (p < 0) return;
        if (do_push((unsigned)p)) return;
        if (((held & (held - 1)) == 0 || ((held + 1) & held) == 0 || ((held - 1) & (held - 2)) == 0) && held >= 2) completeness();
        nontriv++;
    }
    while (held > 0 && nviol == 0) if (do_pop() < 0) return;
}
static int ref_fls(unsigned long x) { int i = -1; while (x) { i++; x >>= 1; } return i; }
static void fls_all(void)
{
    unsigned long x; int k;
    snprintf(curcase, sizeof curcase, "fls");
    for (x = 0; x < (1ul << 22) && nviol == 0; x++) { evals++; if (cstl_fls(x) != ref_fls(x)) fail("cstl_fls(%lu) = %d, the highest set bit is %d", x, cstl_fls(x), ref_fls(x)); }
    for (k = 1; k < 64 && nviol == 0; k++) for (x = (1ul << k) - 2; x <= (1ul << k) + 2 && x != 2; x++) { if (x < 3) continue; evals++; if (cstl_fls(x) != ref_fls(x)) fail("cstl_fls(%lu) = %d, the highest set bit is %d", x, cstl_fls(x), ref_fls(x)); }
    evals++; if (cstl_fls(~0ul) != 63) fail("cstl_fls(ULONG_MAX) = %d", cstl_fls(~0ul));
}
static double now(void) { struct timespec ts; clock_gettime(CLOCK_MONOTONIC, &ts); return ts.tv_sec + ts.tv_nsec * 1e-9; }

int main(int argc, char **argv)
{
    int i, cfg = 0, thorough = 0; const char *replay = NULL, *prop = NULL; double t0 = now(); unsigned n, small, big;
    setvbuf(stdout, NULL, _IOFBF, 1 << 16);
    shim_watchdog_start();
    for (i = 1; i < argc; i++) {
        if (!strcmp(argv[i], "--prop") && i + 1 < argc) prop = argv[++i];
        else if (!strcmp(argv[i], "--config") && i + 1 < argc) cfg = atoi(argv[++i]);
        else if (!strcmp(argv[i], "--thorough")) thorough = 1;
        else if (!strcmp(argv[i], "--replay") && i + 1 < argc) replay = argv[++i];
        else if (!strcmp(argv[i], "--progress") && i + 1 < argc) progress_open(argv[++i]);
        else if (!strcmp(argv[i], "--deadline") && i + 1 < argc) ++i;
        else if (!strcmp(argv[i], "--nconfigs")) { printf("6\n"); return 0; }
        else { fprintf(stderr, "bad arg %s\n", argv[i]); return 2; }
    }
    if (!prop || strcmp(prop, "C07")) { fprintf(stderr, "heapsize: property not served\n"); return 2; }
    small = thorough ? 1100 : 520; big = (thorough ? (1u << 17) : (1u << 16)) + 3;
    if (replay) {
        int pat; unsigned nn;
        if (!strcmp(replay, "fls")) fls_all();
        else if (sscanf(replay, "fd:%d:%u", &pat, &nn) == 2) fill_drain(pat, nn);
        else if (sscanf(replay, "lf:%d:%u", &pat, &nn) == 2) long_fill(pat, nn);
        else return 4;
        printf("case %s\n", replay);
        if (nviol) { printf("VIOLATED: %s\n", violmsg[0]); return 1; }
        printf("no violation\n"); return 0;
    }
    if (cfg == 5) fls_all();
    else {
        for (n = 1; n <= small && nviol == 0; n++) fill_drain(cfg, n);
        if (nviol == 0) long_fill(cfg, big);
    }
    printf("{\"world\":\"heapsize\",\"config\":%d,\"config_desc\":\"%s\",\"property\":\"C07\",\"thorough\":%d,\"evaluations\":%lu,\"states\":%lu,\"transitions\":%lu,\"nontrivial_states\":%lu,\"exhaustive\":%s,\"closure\":%s,\"wall_s\":%.3f,\"counters\":{},"
           "\"samples\":[\"%s\"],\"violations\":[",
           cfg, cfg == 5 ? "cstl_fls against a reference: every value below 2^22 and 2^k-2..2^k+2 for every k" : "enumerated heap sizes: fill/drain for every size 1..520 (thorough 1100) and one long fill to 2^16+3 (thorough 2^17+3) elements with a pop and re-push at every size; one priority pattern per configuration",
           thorough, evals, nontriv, evals, nontriv, nviol ? "false" : "true", nviol ? "false" : "true", now() - t0, cfg == 5 ? "cstl_fls(256) must be 8" : "pattern sawtooth: push 256 elements, pop (must be a maximum), push it back, ...");
    for (i = 0; i < nviol; i++) printf("%s{\"replay\":\"%s\",\"ops\":\"%s\",\"message\":\"%s\"}", i ? "," : "", viols[i], viols[i], violmsg[i]);
    printf("]}\n");
    return nviol ? 1 : 0;
}
