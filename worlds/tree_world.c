/* tree world: C01 (ordered trees hold the inserted-minus-erased multiset, in order), C02 (red-black rules), C15 (clear), for
 * cstl_bintree and cstl_rbtree (selected per configuration) */
#include "cstl/rbtree.h"
#ifndef TREE_PRIVATE
#define TREE_PRIVATE 1      /* 0 (the C01 and C15 checks): no private member of the library's structs is named; the red-black walk (C02) needs them */
#endif
#include <limits.h>
#define W_AUDIT_NEW_STATES_ONLY 1   /* the key holds the implementation's raw state AND the reference model, so the audit verdict is a function of the key */
#include "../engine/mc.h"
#include <sanitizer/asan_interface.h>

#define PC01 P(0)
#define PC02 P(1)
#define PC15 P(2)
static const char *w_name = "tree";
static unsigned w_prop_bit(const char *id) { return !strcmp(id, "C01") ? PC01 : !strcmp(id, "C02") ? PC02 : !strcmp(id, "C15") ? PC15 : 0; }

#define MAXN 14
struct elem { long pad; int key; int idx; struct cstl_rbtree_node rn; long tail; struct cstl_rbtree_node rn2; struct cstl_bintree_node bn1; long tail2; struct cstl_bintree_node bn2; };      /* rn2: where the OTHER tree object's elements would keep their node; never linked */
static struct elem pool[MAXN];
static int N, keys[MAXN], nkeys_alpha, key_alpha[MAXN + 2];
static int USE_MACRO;   /* odd configurations build the tree with CSTL_RBTREE_INITIALIZER / CSTL_BINTREE_INITIALIZER instead of the init function */
static int RB, CMPMODE;       /* 0 difference, 1 sign only, 2 reversed */
static int vcookie, vbad;       /* every visit / clear callback must receive the private pointer the caller passed */
static char cfgdesc[256];
static union { struct cstl_bintree bt; struct cstl_rbtree rb; } T[2];
static int only_prop02;

static int m_member[MAXN], m_count;

enum { O_INS = 1, O_INS_HINT, O_ERASE_KEY, O_ERASE_SELF, O_CLEAR, O_SWAPPAIR, O_SWAPSELF };
#define OP(c, a) ((mc_op_t)((c) | ((a) << 8)))
#define OC(o) ((o) & 0xff)
#define OA(o) (((o) >> 8) & 0xff)

enum { K_INS_HINT_EQ, K_ERASE_TWO_CHILD, K_ERASE_TWO_CHILD_DEEP, K_ERASE_ROOT, K_ERASE_ONE_CHILD, K_ERASE_LEAF, K_ERASE_ABSENT, K_CLEAR, K_CLEAR_NONEMPTY, K_DUP_PRESENT, K_EARLY_STOPS };
static const char *w_counter_names[] = { "hinted_insert_of_key_already_present", "erase_two_child_successor_is_child", "erase_two_child_successor_deeper", "erase_of_root",
                                          "erase_one_child", "erase_leaf", "erase_absent_key", "clear_applied", "clear_on_nonempty", "states_with_equal_keys_held", "early_stop_traversals", NULL };

/* configurations: kind x key pool x comparator */
struct cfg { int rb, n, cmp; const char *pool; };
static const struct cfg quick_cfgs[] = {
    { 0, 8, 0, "distinct" }, { 0, 7, 0, "paired" }, { 0, 6, 0, "allequal" }, { 0, 7, 1, "heavy" }, { 0, 7, 2, "distinct" }, { 0, 7, 1, "paired" },
    { 1, 11, 0, "distinct" }, { 1, 9, 0, "paired" }, { 1, 6, 0, "allequal" }, { 1, 7, 1, "heavy" }, { 1, 10, 2, "distinct" }, { 1, 8, 1, "paired" },
    { 0, 6, 3, "paired" }, { 1, 8, 3, "paired" },
};
static const struct cfg thorough_cfgs[] = {
    { 0, 11, 0, "distinct" }, { 0, 10, 0, "paired" }, { 0, 8, 0, "allequal" }, { 0, 9, 1, "heavy" }, { 0, 10, 2, "distinct" }, { 0, 10, 1, "paired" }, { 0, 9, 2, "heavy" },
    { 1, 13, 0, "distinct" }, { 1, 11, 0, "paired" }, { 1, 8, 0, "allequal" }, { 1, 9, 1, "heavy" }, { 1, 12, 2, "distinct" }, { 1, 11, 1, "paired" }, { 1, 9, 2, "heavy" }, { 1, 12, 1, "distinct" },
    { 0, 9, 3, "paired" }, { 1, 10, 3, "paired" }, { 1, 11, 3, "distinct" },
};
static const struct cfg *cfgs(int thorough, int *n)
{
    if (thorough) { *n = (int)(sizeof thorough_cfgs / sizeof thorough_cfgs[0]); return thorough_cfgs; }
    *n = (int)(sizeof quick_cfgs / sizeof quick_cfgs[0]); return quick_cfgs;
}
static int w_nconfigs(int thorough) { int n; cfgs(thorough, &n); return n; }

static void w_setup(int cfg, int thorough)
{
    int n, i, k;
    const struct cfg *c = &cfgs(thorough, &n)[cfg];
    RB = c->rb; N = c->n; CMPMODE = c->cmp; USE_MACRO = cfg & 1;
    for (i = 0; i < N; i++) {
        if (!strcmp(c->pool, "distinct")) keys[i] = (i * 5) % N;        /* a permutation: pool order is not key order */
        else if (!strcmp(c->pool, "paired")) keys[i] = i / 2;
        else if (!strcmp(c->pool, "allequal")) keys[i] = 1;
        else keys[i] = i == 0 ? 0 : (i == N - 1 ? 2 : 1);               /* heavy: 0,1,1,..,1,2 */
    }
    if (!strcmp(c->pool, "distinct") && N % 5 == 0) for (i = 0; i < N; i++) keys[i] = (i * 3) % N;
    nkeys_alpha = 0;
    for (i = 0; i < N; i++) { for (k = 0; k < nkeys_alpha; k++) if (key_alpha[k] == keys[i]) break; if (k == nkeys_alpha) key_alpha[nkeys_alpha++] = keys[i]; }
    key_alpha[nkeys_alpha++] = 99;      /* an absent key, greater than all */
    key_alpha[nkeys_alpha++] = -7;      /* an absent key, smaller than all */
    snprintf(cfgdesc, sizeof cfgdesc, "%s, pool of %d elements with %s keys, comparator %s", RB ? "cstl_rbtree" : "cstl_bintree", N, c->pool,
             CMPMODE == 0 ? "a-b" : CMPMODE == 1 ? "sign only" : CMPMODE == 2 ? "reversed" : "INT_MIN/0/INT_MAX");
    if (USE_MACRO) snprintf(cfgdesc + strlen(cfgdesc), sizeof cfgdesc - strlen(cfgdesc), ", object built with the static initialiser macro");
    w_nops = 0;
    for (i = 0; i < N; i++) { w_ops[w_nops++] = OP(O_INS, i); w_ops[w_nops++] = OP(O_INS_HINT, i); }
    for (k = 0; k < nkeys_alpha; k++) w_ops[w_nops++] = OP(O_ERASE_KEY, k);
    for (i = 0; i < N; i++) w_ops[w_nops++] = OP(O_ERASE_SELF, i);
    w_ops[w_nops++] = OP(O_CLEAR, 0);
    w_ops[w_nops++] = OP(O_SWAPPAIR, 0);
    w_ops[w_nops++] = OP(O_SWAPSELF, 0);
}
static const char *w_config_desc(void) { return cfgdesc; }

static unsigned long cmp_calls;
static int cookie[2], wrong_priv, wrong_cmp;     /* each tree object is initialised with its own comparator, private pointer and node offset */
static int cmp_elem(const void *a, const void *b, void *p)
{
    int d = ((const struct elem *)a)->key - ((const struct elem *)b)->key;
    cmp_calls++; if (p != (void *)&cookie[0]) wrong_priv++;
    if (CMPMODE == 1) return d < 0 ? -1 : d > 0;
    if (CMPMODE == 2) return -d;
    if (CMPMODE == 3) return d < 0 ? INT_MIN : d > 0 ? INT_MAX : 0;       /* extreme magnitudes: -result would overflow */
    return d;
}
/* the comparator of the second tree object (which never holds an element under its own configuration): opposite order */
static int cmp_other(const void *a, const void *b, void *p) { (void)p; wrong_cmp++; return ((const struct elem *)b)->key - ((const struct elem *)a)->key; }
static int korder(int ka, int kb) { int d = ka - kb; return CMPMODE == 2 ? -d : d; }

/* generic wrappers over the two tree kinds */
static void t_init(int t)
{
    memset(&T[t], 0xA5, sizeof T[t]);
    if (RB) cstl_rbtree_init(&T[t].rb, cmp_elem, &cookie[0], offsetof(struct elem, rn));
    else cstl_bintree_init(&T[t].bt, cmp_elem, &cookie[0], offsetof(struct elem, bn1));
}
/* the tree under test: odd configurations use the static initialiser (what DECLARE_CSTL_RBTREE / DECLARE_CSTL_BINTREE expand to) */
static void t_build(int t)
{
    if (!USE_MACRO) { t_init(t); return; }
    memset(&T[t], 0xA5, sizeof T[t]);
    if (RB) T[t].rb = (struct cstl_rbtree)CSTL_RBTREE_INITIALIZER(struct elem, rn, cmp_elem, &cookie[0]);
    else T[t].bt = (struct cstl_bintree)CSTL_BINTREE_INITIALIZER(struct elem, bn1, cmp_elem, &cookie[0]);
}
/* the second object is a tree of another kind: other comparator, other private pointer, node at another offset */
static void t_init_other(int t)
{
    memset(&T[t], 0xA5, sizeof T[t]);
    if (RB) cstl_rbtree_init(&T[t].rb, cmp_other, &cookie[1], offsetof(struct elem, rn2));
    else cstl_bintree_init(&T[t].bt, cmp_other, &cookie[1], offsetof(struct elem, bn2));
}
#if TREE_PRIVATE
static struct cstl_bintree *t_bt(int t) { return RB ? &T[t].rb.t : &T[t].bt; }
#endif
static size_t t_size(int t) { return RB ? cstl_rbtree_size(&T[t].rb) : cstl_bintree_size(&T[t].bt); }
static void t_insert(int t, void *e, void *p) { if (RB) cstl_rbtree_insert(&T[t].rb, e, p); else cstl_bintree_insert(&T[t].bt, e, p); }
static const void *t_find(int t, const void *e, const void **par) { return RB ? cstl_rbtree_find(&T[t].rb, e, par) : cstl_bintree_find(&T[t].bt, e, par); }
static void *t_erase(int t, const void *e) { return RB ? cstl_rbtree_erase(&T[t].rb, e) : cstl_bintree_erase(&T[t].bt, e); }
static void t_clear(int t, cstl_xtor_func_t *clr) { if (RB) cstl_rbtree_clear(&T[t].rb, clr, &vcookie); else cstl_bintree_clear(&T[t].bt, clr, &vcookie); }
static int t_foreach(int t, cstl_bintree_const_visit_func_t *v, void *p, int rev)
{
    cstl_bintree_foreach_dir_t d = rev ? CSTL_BINTREE_FOREACH_DIR_REV : CSTL_BINTREE_FOREACH_DIR_FWD;
    return RB ? cstl_rbtree_foreach(&T[t].rb, v, p, d) : cstl_bintree_foreach(&T[t].bt, v, p, d);
}
static void t_swap_self(void) { if (RB) cstl_rbtree_swap(&T[0].rb, &T[0].rb); else cstl_bintree_swap(&T[0].bt, &T[0].bt); }
static void t_swap(void) { if (RB) cstl_rbtree_swap(&T[0].rb, &T[1].rb); else cstl_bintree_swap(&T[0].bt, &T[1].bt); }

/* a third, constant tree of three elements of its own: visit callbacks of the tree under test walk it (a callback may use other containers) */
static union { struct cstl_bintree bt; struct cstl_rbtree rb; } AUX;
static struct elem auxpool[3];
static int auxcookie, auxvcookie, aux_bad, aux_walks;
static int cmp_aux(const void *a, const void *b, void *p) { if (p != (void *)&auxcookie) aux_bad++; return ((const struct elem *)a)->key - ((const struct elem *)b)->key; }
static void aux_build(void)
{
    int i;
    memset(&AUX, 0xA5, sizeof AUX); memset(auxpool, 0x5A, sizeof auxpool);
    if (RB) cstl_rbtree_init(&AUX.rb, cmp_aux, &auxcookie, offsetof(struct elem, rn2)); else cstl_bintree_init(&AUX.bt, cmp_aux, &auxcookie, offsetof(struct elem, bn2));
    for (i = 0; i < 3; i++) { auxpool[i].key = (i + 1) % 3; auxpool[i].idx = 100 + i; if (RB) cstl_rbtree_insert(&AUX.rb, &auxpool[i], NULL); else cstl_bintree_insert(&AUX.bt, &auxpool[i], NULL); }
}
static int aux_n, aux_stop, aux_last;
static int cb_aux(const void *e, cstl_bintree_visit_order_t ord, void *p)
{
    const struct elem *x = e;
    if (p != (void *)&auxvcookie || x < auxpool || x >= auxpool + 3) { aux_bad++; return 0; }
    if (ord == CSTL_BINTREE_VISIT_ORDER_MID || ord == CSTL_BINTREE_VISIT_ORDER_LEAF) { if (aux_last >= 0 && x->key < aux_last) aux_bad++; aux_last = x->key; aux_n++; if (aux_n == aux_stop) return 77; }
    return 0;
}
static void aux_walk(void)
{
    int r, stop = (aux_walks & 1) ? 2 : 0;     /* alternately a complete walk and one stopped at the second element */
    aux_n = 0; aux_stop = stop; aux_last = -1; aux_walks++;
    r = RB ? cstl_rbtree_foreach(&AUX.rb, cb_aux, &auxvcookie, CSTL_BINTREE_FOREACH_DIR_FWD) : cstl_bintree_foreach(&AUX.bt, cb_aux, &auxvcookie, CSTL_BINTREE_FOREACH_DIR_FWD);
    if (stop ? (r != 77 || aux_n != 2) : (r != 0 || aux_n != 3)) aux_bad++;
}

static void w_init(void)
{
    int i;
    shim_reset();
    aux_build(); aux_bad = 0; aux_walks = 0;
    __asan_unpoison_memory_region(pool, sizeof pool);
    memset(pool, 0x5A, sizeof pool);
    for (i = 0; i < N; i++) { pool[i].key = keys[i]; pool[i].idx = i; pool[i].pad = 0x1111; pool[i].tail = 0x2222; m_member[i] = 0; }
    m_count = 0; wrong_priv = wrong_cmp = 0; vbad = 0;
    t_build(0); t_init_other(1);
}

static int w_enabled(mc_op_t o)
{
    switch (OC(o)) {
    case O_INS: case O_INS_HINT: return !m_member[OA(o)];
    case O_ERASE_SELF: return m_member[OA(o)];
    default: return 1;
    }
}

static int idx_of(const void *e)
{
    uintptr_t d = (uintptr_t)e - (uintptr_t)pool;
    if ((uintptr_t)e < (uintptr_t)pool || d >= sizeof(struct elem) * (size_t)N || d % sizeof(struct elem)) return -1;
    return (int)(d / sizeof(struct elem));
}
#if TREE_PRIVATE
static struct elem *elem_of_bn(const struct cstl_bintree_node *bn)
{
    uintptr_t e = (uintptr_t)bn - (RB ? offsetof(struct elem, rn) + offsetof(struct cstl_rbtree_node, n) : offsetof(struct elem, bn1));
    int i = idx_of((void *)e);
    return i < 0 ? NULL : &pool[i];
}
#endif

/* ---- traversal recording ---- */
#define MAXV (3 * MAXN + 16)
static int v_idx[MAXV], v_ord[MAXV], v_n, v_stop_at;
static int cb_visit(const void *e, cstl_bintree_visit_order_t ord, void *p)
{
    if (p != (void *)&vcookie) vbad++;
    aux_walk();         /* the callback walks another tree before it looks at its own arguments' consequences */
    if (v_n < MAXV) { v_idx[v_n] = idx_of(e); v_ord[v_n] = (int)ord; }
    v_n++;
    if (v_n > 3 * MAXN + 8) return 9999;                 /* watchdog: link cycle */
    if (v_stop_at >= 0 && v_n == v_stop_at + 1) return (v_stop_at & 1) ? -(v_stop_at + 1) : v_stop_at + 1;      /* stop values of both signs */
    return 0;
}
static int clr_count[MAXN], clr_bad;
static void cb_clear(void *e, void *p)
{
    int i = idx_of(e);
    if (p != (void *)&vcookie) vbad++;
    if (i < 0) { clr_bad++; return; }
    clr_count[i]++;
    if (clr_count[i] == 1) __asan_poison_memory_region(&pool[i], sizeof pool[i]);     /* the callback "frees" the element */
}

/* classify the erase case from the raw structure before the call (diagnostic counters only) */
#if TREE_PRIVATE
static void classify_erase(const struct elem *e)
{
    const struct cstl_bintree_node *bn = RB ? &e->rn.n : &e->bn1;
    if (bn->p == NULL) MC_COUNT(K_ERASE_ROOT);
    if (bn->l && bn->r) { if (bn->r->l == NULL) MC_COUNT(K_ERASE_TWO_CHILD); else MC_COUNT(K_ERASE_TWO_CHILD_DEEP); }
    else if (bn->l || bn->r) MC_COUNT(K_ERASE_ONE_CHILD);
    else MC_COUNT(K_ERASE_LEAF);
}
#else
static void classify_erase(const struct elem *e) { (void)e; }
#endif

static void audit_tree(int t, unsigned props);
static void check_fresh(void);
static int untouched(const void *p, size_t n) { const unsigned char *b = p; while (n--) if (*b++ != 0x5A) return 0; return 1; }

/* The node of an element that is not in the tree holds stale bytes (the API takes uninitialised nodes).  Before every operation the node members of
 * every element outside the tree are put back to the 0x5A garbage the pool starts with: an insert that relies on a link or colour being already set
 * is seen, and what such nodes hold is a function of the state (the key covers the tree only). */
static void scrub_free(void)
{
    int i;
    for (i = 0; i < N; i++) if (!m_member[i]) { memset(&pool[i].rn, 0x5A, sizeof pool[i].rn); memset(&pool[i].bn1, 0x5A, sizeof pool[i].bn1); }
}
static void w_apply(mc_op_t o)
{
    int a = OA(o), ab = 0, i;
    static void * volatile rp;
    static const void * volatile par;
    scrub_free();
    switch (OC(o)) {
    case O_INS:
        SHIM_CALL(ab, t_insert(0, &pool[a], NULL));
        m_member[a] = 1; m_count++;
        break;
    case O_INS_HINT: {
        static const void * volatile f;
        int have_eq = 0;
        for (i = 0; i < N; i++) if (m_member[i] && keys[i] == keys[a]) have_eq = 1;
        if (have_eq) MC_COUNT(K_INS_HINT_EQ);
        SHIM_CALL(ab, (f = t_find(0, &pool[a], (const void **)&par), t_insert(0, &pool[a], (void *)par)));
        if (!ab) {
            MC_CHECK(PC01, (f != NULL) == have_eq, "find(key %d) before a hinted insert returned %s although an equal element %s held", keys[a], f ? "an element" : "NULL", have_eq ? "is" : "is not");
            MC_CHECK(PC01, par == NULL || (idx_of((void *)par) >= 0 && m_member[idx_of((void *)par)]), "find returned a parent hint that is not a held element");
        }
        m_member[a] = 1; m_count++;
        break;
    }
    case O_ERASE_KEY: case O_ERASE_SELF: {
        struct elem probe; const struct elem *pr; int k, exp_any = 0;
        if (OC(o) == O_ERASE_KEY) { memset(&probe, 0x77, sizeof probe); probe.key = key_alpha[a]; probe.idx = -1; pr = &probe; k = key_alpha[a]; }
        else { pr = &pool[a]; k = keys[a]; }
        for (i = 0; i < N; i++) if (m_member[i] && keys[i] == k) exp_any = 1;
        if (!exp_any) MC_COUNT(K_ERASE_ABSENT);
        if (mc_checking && exp_any) { const void *f = t_find(0, pr, NULL); if (f && idx_of(f) >= 0) classify_erase(f); }
        SHIM_CALL(ab, rp = t_erase(0, pr));
        if (ab) break;
        if (!exp_any) { MC_CHECK(PC01, rp == NULL, "erase(key %d) returned element %d although no element with that key is held", k, idx_of(rp)); break; }
        i = rp ? idx_of(rp) : -1;
        MC_CHECK(PC01, rp != NULL, "erase(key %d) returned NULL although an element with that key is held", k);
        if (rp == NULL) break;
        MC_CHECK(PC01, i >= 0 && m_member[i] && keys[i] == k, "erase(key %d) returned %s (element %d, key %d) which is not a held element comparing equal", k, i < 0 ? "a foreign pointer" : "an element", i, i >= 0 ? keys[i] : -1);
        if (i >= 0 && m_member[i]) { m_member[i] = 0; m_count--; }       /* which of several equal elements goes is the implementation's choice */
        break;
    }
    case O_CLEAR:
        MC_COUNT(K_CLEAR); if (m_count) MC_COUNT(K_CLEAR_NONEMPTY);
        memset(clr_count, 0, sizeof clr_count); clr_bad = 0;
        SHIM_CALL(ab, t_clear(0, cb_clear));
        __asan_unpoison_memory_region(pool, sizeof pool);
        if (!ab) {
            MC_CHECK(PC15 | PC01, clr_bad == 0 && vbad == 0, "clear called back with a pointer that is no element or with a wrong private pointer");
            for (i = 0; i < N; i++) MC_CHECK(PC15 | PC01, clr_count[i] == m_member[i], "clear: element %d handed over %d times, expected %d", i, clr_count[i], m_member[i]);
            MC_CHECK(PC15 | PC01, t_size(0) == 0, "clear left size %zu", t_size(0));
#if TREE_PRIVATE
            check_fresh();      /* field by field; without private names the search itself decides (the cleared state is expanded and audited like any other) */
#endif
        }
        for (i = 0; i < N; i++) m_member[i] = 0;
        m_count = 0;
        break;
    case O_SWAPSELF:
        /* swapping a tree object with itself changes nothing: it still takes an insert and an erase, and the audit that follows sees the same tree */
        SHIM_CALL(ab, t_swap_self());
        if (ab) break;
        MC_CHECK(PC01 | PC02, t_size(0) == (size_t)m_count, "after swap(T,T) size is %zu, %d elements are held", t_size(0), m_count);
        for (i = 0; i < N && m_member[i]; i++) ;
        if (i < N && !mc_branch_dead) {
            SHIM_CALL(ab, t_insert(0, &pool[i], NULL));
            if (ab) break;
            m_member[i] = 1; m_count++;
            MC_CHECK(PC01 | PC02, t_size(0) == (size_t)m_count && untouched(&pool[i].rn2, sizeof pool[i].rn2) && untouched(&pool[i].bn2, sizeof pool[i].bn2) && pool[i].pad == 0x1111 && pool[i].key == keys[i] && pool[i].tail == 0x2222,
                     "insert after swap(T,T): size %zu (expected %d) or the element was written outside the tree node the object was initialised with", t_size(0), m_count);
            SHIM_CALL(ab, rp = t_erase(0, &pool[i]));
            if (ab) break;
            { int j = rp ? idx_of(rp) : -1;
              MC_CHECK(PC01 | PC02, j >= 0 && m_member[j] && keys[j] == keys[i], "erase after swap(T,T) returned %s", rp ? "a pointer that is no held equal element" : "NULL");
              if (j >= 0 && m_member[j]) { m_member[j] = 0; m_count--; } }
        }
        break;
    case O_SWAPPAIR:
        /* swap with a second, empty tree object; the content must be fully usable from the other object; then swap back */
        SHIM_CALL(ab, t_swap());
        if (ab) break;
        if (mc_checking) {
            MC_CHECK(PC01, t_size(0) == 0, "after swap the formerly empty tree reports size %zu", t_size(0));
            audit_tree(1, PC01);
            MC_CHECK(PC01 | PC02, wrong_cmp == 0 && wrong_priv == 0, "after swap the tree object holding the content compares with the comparator/private pointer it was initialised with, not the ones that belong to the content (%d/%d calls)", wrong_cmp, wrong_priv);
        }
        /* the object that received the content is a complete tree: it takes an insert and an erase like the original (every member
         * of the tree object travels with the content: comparator, private pointer, both node offsets) */
        for (i = 0; i < N && m_member[i]; i++) ;
        if (i < N && !mc_branch_dead) {
            SHIM_CALL(ab, t_insert(1, &pool[i], NULL));
            if (ab) break;
            m_member[i] = 1; m_count++;
            if (mc_checking) MC_CHECK(PC01 | PC02, t_size(1) == (size_t)m_count, "insert into the tree object that received the content by swap: size %zu, expected %d", t_size(1), m_count);
            SHIM_CALL(ab, rp = t_erase(1, &pool[i]));
            if (ab) break;
            { int j = rp ? idx_of(rp) : -1;
              MC_CHECK(PC01 | PC02, j >= 0 && m_member[j] && keys[j] == keys[i], "erase from the tree object that received the content by swap returned %s", rp ? "a pointer that is no held equal element" : "NULL");
              if (j >= 0 && m_member[j]) { m_member[j] = 0; m_count--; } }
        }
        SHIM_CALL(ab, t_swap());
        break;
    }
    if (ab) MC_CHECK(PC01 | PC02 | PC15, 0, "unexpected %s inside the library: %s", ab == 3 ? "non-termination (a library call still running after 3 s)" : ab == 2 ? "assertion failure" : "abort()", ab == 2 ? shim_assert_msg : "");
}

/* ---- structural walk over the public struct (used for C02 and for the canonical key) ---- */
#if TREE_PRIVATE
static int st_nodes, st_bad;
static const char *st_why;
static int rb_walk(const struct cstl_bintree_node *bn, const struct cstl_bintree_node *parent, int depth)
{
    /* returns black height of the subtree, -1 on violation */
    const struct elem *e;
    int lh, rh, red;
    if (bn == NULL) return 1;
    e = elem_of_bn(bn);
    if (e == NULL) { st_bad = 1; st_why = "a link points outside the element pool"; return -1; }
    if (++st_nodes > N) { st_bad = 1; st_why = "more nodes reachable than elements exist (cycle)"; return -1; }
    if (bn->p != parent) { st_bad = 1; st_why = "a child's parent link does not point back at its parent"; return -1; }
    red = e->rn.c == CSTL_RBTREE_COLOR_R;
    if (RB) {
        if (e->rn.c != CSTL_RBTREE_COLOR_R && e->rn.c != CSTL_RBTREE_COLOR_B) { st_bad = 1; st_why = "node colour is neither red nor black"; return -1; }
        if (red && parent != NULL && elem_of_bn(parent)->rn.c == CSTL_RBTREE_COLOR_R) { st_bad = 1; st_why = "a red node has a red child"; return -1; }
    }
    lh = rb_walk(bn->l, bn, depth + 1); if (lh < 0) return -1;
    rh = rb_walk(bn->r, bn, depth + 1); if (rh < 0) return -1;
    if (RB && lh != rh) { st_bad = 1; st_why = "paths from a node down to missing children cross different numbers of black nodes"; return -1; }
    return lh + (red ? 0 : 1);
}

#endif
static void audit_tree(int t, unsigned props01)
{
    int rev, j, k, ab, vtotal = 0;
    static volatile int r;
    size_t sz = t_size(t);
    MC_CHECK(props01, sz == (size_t)m_count, "size = %zu, reference holds %d", sz, m_count);
    if (m_count) { int d = 0, i, j2; for (i = 0; i < N && !d; i++) for (j2 = i + 1; j2 < N; j2++) if (m_member[i] && m_member[j2] && keys[i] == keys[j2]) { d = 1; break; } if (d) MC_COUNT(K_DUP_PRESENT); }
    /* find, with and without the parent out-parameter */
    for (k = 0; k < nkeys_alpha; k++) {
        struct elem probe; static const void * volatile f1, * volatile f2, * volatile par;
        int exp = 0, i;
        memset(&probe, 0x33, sizeof probe); probe.key = key_alpha[k]; probe.idx = -1;
        for (i = 0; i < N; i++) if (m_member[i] && keys[i] == key_alpha[k]) exp = 1;
        par = (void *)&probe;
        SHIM_CALL(ab, (f1 = t_find(t, &probe, NULL), f2 = t_find(t, &probe, (const void **)&par)));
        if (ab) { MC_CHECK(props01, 0, "find aborted"); return; }
        for (i = 0; i < 2; i++) {
            const void *f = i ? f2 : f1; int fi = f ? idx_of(f) : -1;
            MC_CHECK(props01, (f != NULL) == exp, "find(key %d) returned %s, but the tree %s an element with that key", key_alpha[k], f ? "an element" : "NULL", exp ? "holds" : "does not hold");
            if (f) MC_CHECK(props01, fi >= 0 && m_member[fi] && keys[fi] == key_alpha[k], "find(key %d) returned element %d (key %d) which is not a held element comparing equal", key_alpha[k], fi, fi >= 0 ? keys[fi] : -1);
        }
        MC_CHECK(props01, par == NULL || (idx_of((void *)par) >= 0 && m_member[idx_of((void *)par)]), "find(key %d) reported a parent that is not a held element", key_alpha[k]);
    }
    if (mc_branch_dead) return;
    /* traversals */
    for (rev = 0; rev < 2; rev++) {
        int seen[MAXN], stage[MAXN], last = -1, count = 0;
        memset(seen, 0, sizeof seen); memset(stage, 0, sizeof stage);
        v_n = 0; v_stop_at = -1;
        SHIM_CALL(ab, r = t_foreach(t, cb_visit, &vcookie, rev));
        if (ab) { MC_CHECK(props01, 0, "foreach aborted"); return; }
        MC_CHECK(props01, r == 0, "foreach(%s) returned %d with an always-zero visitor (%d visits)", rev ? "REV" : "FWD", r, v_n);
        MC_CHECK(props01, aux_bad == 0, "a visit callback walked another, constant tree of three elements: that walk presented wrong elements, a wrong private pointer, a wrong count or a wrong result (%d anomalies)", aux_bad);
        if (mc_branch_dead) return;
        for (j = 0; j < v_n; j++) {
            int i = v_idx[j], o = v_ord[j];
            MC_CHECK(props01, i >= 0 && m_member[i], "foreach(%s) visit %d presents a pointer that is not a held element", rev ? "REV" : "FWD", j);
            if (mc_branch_dead) return;
            switch (o) {
            case CSTL_BINTREE_VISIT_ORDER_PRE: MC_CHECK(props01, stage[i] == 0, "element %d: PRE visit out of order", i); stage[i] = 1; break;
            case CSTL_BINTREE_VISIT_ORDER_MID: MC_CHECK(props01, stage[i] == 1, "element %d: MID visit without exactly one preceding PRE", i); stage[i] = 2; break;
            case CSTL_BINTREE_VISIT_ORDER_POST: MC_CHECK(props01, stage[i] == 2, "element %d: POST visit without preceding MID", i); stage[i] = 3; break;
            case CSTL_BINTREE_VISIT_ORDER_LEAF: MC_CHECK(props01, stage[i] == 0, "element %d: LEAF visit mixed with other visits", i); stage[i] = 4; break;
            default: MC_CHECK(props01, 0, "unknown visit order %d", o);
            }
            if (o == CSTL_BINTREE_VISIT_ORDER_MID || o == CSTL_BINTREE_VISIT_ORDER_LEAF) {
                seen[i]++; count++;
                if (last >= 0) {
                    int c = korder(keys[last], keys[i]);
                    MC_CHECK(props01, rev ? c >= 0 : c <= 0, "foreach(%s): element %d (key %d) presented after element %d (key %d): not in %s order", rev ? "REV" : "FWD", i, keys[i], last, keys[last], rev ? "non-increasing" : "non-decreasing");
                }
                last = i;
            }
        }
        for (j = 0; j < N; j++) {
            MC_CHECK(props01, seen[j] == m_member[j], "foreach(%s) presented element %d %d times (MID/LEAF), reference says %d", rev ? "REV" : "FWD", j, seen[j], m_member[j]);
            MC_CHECK(props01, !m_member[j] || stage[j] == 3 || stage[j] == 4, "foreach(%s): element %d did not receive a complete PRE/MID/POST or LEAF sequence", rev ? "REV" : "FWD", j);
        }
        if (mc_branch_dead) return;
        vtotal = v_n;
        /* early stop at every visit index (PRE, MID, POST and LEAF visits alike) */
        for (j = 0; j < vtotal; j++) {
            v_n = 0; v_stop_at = j;
            SHIM_CALL(ab, r = t_foreach(t, cb_visit, &vcookie, rev));
            MC_COUNT(K_EARLY_STOPS);
            MC_CHECK(props01, !ab && r == ((j & 1) ? -(j + 1) : j + 1) && v_n == j + 1, "foreach(%s) with a visitor returning %d at visit #%d returned %d after %d visits", rev ? "REV" : "FWD", (j & 1) ? -(j + 1) : j + 1, j, r, v_n);
            if (mc_branch_dead) return;
        }
    }
}

/* C02 through the public API alone (also the whole C02 verdict of this world when the build cannot name the private colour member): the visit orders of a
 * complete forward traversal determine the exact SHAPE of the tree (PRE x, left subtree, MID x, right subtree, POST x; LEAF x for a leaf).  A red-black
 * tree's shape must admit a colouring with a black root, no red node with a red child and equal black counts on every path - decided bottom-up over the set
 * of feasible (black height, colour) pairs per subtree - and the documented consequence is checked on cstl_rbtree_height. */
static int sh_pos, sh_n, sh_err;
/* returns a bit set: bit (2*h) = the subtree can be a valid red-black subtree of black height h with a BLACK root, bit (2*h+1) = with a RED root */
static unsigned long sh_parse(int *height)
{
    unsigned long L = 1ul, R = 1ul, out = 0; int hl = 0, hr = 0, h, x;         /* a missing child: black height 0, counts as black */
    if (sh_pos >= sh_n) { sh_err = 1; *height = 0; return 0; }
    x = v_idx[sh_pos];
    if (v_ord[sh_pos] == CSTL_BINTREE_VISIT_ORDER_LEAF) { sh_pos++; *height = 1; }
    else {
        if (v_ord[sh_pos] != CSTL_BINTREE_VISIT_ORDER_PRE) { sh_err = 1; *height = 0; return 0; }
        sh_pos++;
        if (sh_pos < sh_n && !(v_ord[sh_pos] == CSTL_BINTREE_VISIT_ORDER_MID && v_idx[sh_pos] == x)) L = sh_parse(&hl);
        if (sh_err || sh_pos >= sh_n || v_ord[sh_pos] != CSTL_BINTREE_VISIT_ORDER_MID || v_idx[sh_pos] != x) { sh_err = 1; *height = 0; return 0; }
        sh_pos++;
        if (sh_pos < sh_n && !(v_ord[sh_pos] == CSTL_BINTREE_VISIT_ORDER_POST && v_idx[sh_pos] == x)) R = sh_parse(&hr);
        if (sh_err || sh_pos >= sh_n || v_ord[sh_pos] != CSTL_BINTREE_VISIT_ORDER_POST || v_idx[sh_pos] != x) { sh_err = 1; *height = 0; return 0; }
        sh_pos++;
        *height = 1 + (hl > hr ? hl : hr);
    }
    for (h = 0; h < 30; h++) {
        int lb = (L >> (2 * h)) & 1, lr = (L >> (2 * h + 1)) & 1, rb = (R >> (2 * h)) & 1, rr = (R >> (2 * h + 1)) & 1;
        if ((lb || lr) && (rb || rr)) out |= 1ul << (2 * (h + 1));        /* this node black: children of black height h, any colour */
        if (lb && rb) out |= 1ul << (2 * h + 1);                          /* this node red: both children black, black height h */
    }
    return out;
}
static void rb_public_audit(void)
{
    int ab, h = 0, hh, blackroot = 0; unsigned long f; static volatile int r; size_t hmin = 0, hmax = 0;
    v_n = 0; v_stop_at = -1;
    SHIM_CALL(ab, r = t_foreach(0, cb_visit, &vcookie, 0));
    if (ab || r != 0 || v_n > MAXV) return;       /* judged by C01's audit */
    sh_pos = 0; sh_n = v_n; sh_err = 0;
    if (v_n == 0) { f = 1; } else f = sh_parse(&h);
    if (sh_err || sh_pos != sh_n) return;         /* not a well-formed visit sequence: C01's audit reports that */
    for (hh = 0; hh < 31; hh++) if ((f >> (2 * hh)) & 1) blackroot = 1;
    MC_CHECK(PC02, blackroot, "the shape of the tree (reconstructed from the visit orders of a forward traversal, %d elements, height %d) admits no red-black colouring with a black root: the rules cannot hold", m_count, h);
    SHIM_CALL(ab, cstl_rbtree_height(&T[0].rb, &hmin, &hmax));
    MC_CHECK(PC02, !ab, "cstl_rbtree_height aborted");
    if (ab) return;
    MC_CHECK(PC02, hmax == (size_t)h, "cstl_rbtree_height reports a longest path of %zu, the traversal shows a tree of height %d", hmax, h);
    MC_CHECK(PC02, hmax < 60 && ((size_t)1 << hmax) <= ((size_t)m_count + 1) * ((size_t)m_count + 1), "cstl_rbtree_height reports a longest path of %zu for %d elements, above 2*log2(n+1)", hmax, m_count);
}

static void w_audit(void)
{
    int k;
    /* the red-black rules are judged first and from the raw structure alone, so that a change which ALSO loses elements (a C01 matter) is still seen as the C02 violation it is */
#if TREE_PRIVATE
    if (RB) {
        const struct cstl_bintree *bt = t_bt(0);
        size_t hmin = 0, hmax = 0; int ab;
        st_nodes = 0; st_bad = 0; st_why = "";
        if (bt->root != NULL) {
            const struct elem *re = elem_of_bn(bt->root);
            if (re == NULL) { st_bad = 1; st_why = "root points outside the pool"; }
            else {
                if (re->rn.c != CSTL_RBTREE_COLOR_B) { st_bad = 1; st_why = "the root is red"; }
                if (!st_bad) rb_walk(bt->root, NULL, 0);
            }
        }
        MC_CHECK(PC02, !st_bad, "red-black rule broken: %s", st_why);
        MC_CHECK(PC02, st_bad || st_nodes == m_count, "%d nodes reachable from the root, %d elements held", st_nodes, m_count);
        if (!st_bad) {
            SHIM_CALL(ab, cstl_rbtree_height(&T[0].rb, &hmin, &hmax));
            MC_CHECK(PC02, !ab, "cstl_rbtree_height aborted");
            /* hmax <= 2*log2(n+1)  <=>  2^hmax <= (n+1)^2 */
            MC_CHECK(PC02, hmax < 60 && ((size_t)1 << hmax) <= ((size_t)m_count + 1) * ((size_t)m_count + 1),
                     "cstl_rbtree_height reports a longest path of %zu for %d elements, above 2*log2(n+1)", hmax, m_count);
            MC_CHECK(PC02, (m_count == 0) == (hmax == 0) && hmin <= hmax, "cstl_rbtree_height reports min %zu max %zu for %d elements", hmin, hmax, m_count);
        }
    }
#endif
    audit_tree(0, PC01);
    if (mc_branch_dead) return;
    if (RB) rb_public_audit();
    if (mc_branch_dead) return;
#if TREE_PRIVATE
    MC_CHECK(PC01, t_size(1) == 0 && t_bt(1)->root == NULL, "the second (empty) tree object was disturbed");
#else
    MC_CHECK(PC01, t_size(1) == 0, "the second (empty) tree object was disturbed");
#endif
    MC_CHECK(PC01 | PC15, vbad == 0, "a visit or clear callback received a private pointer other than the one the caller passed (%d calls)", vbad);
    MC_CHECK(PC01 | PC02, wrong_cmp == 0, "the comparison function of the OTHER (empty) tree object was called %d times: swap did not move the comparator with the content", wrong_cmp);
    MC_CHECK(PC01 | PC02, wrong_priv == 0, "the comparison function received a private pointer other than the one its tree was initialised with (%d calls)", wrong_priv);
    for (k = 0; k < N; k++) MC_CHECK(PC01 | PC02, pool[k].pad == 0x1111 && pool[k].tail == 0x2222 && pool[k].key == keys[k] && pool[k].idx == k && untouched(&pool[k].rn2, sizeof pool[k].rn2) && untouched(&pool[k].bn2, sizeof pool[k].bn2) && pool[k].tail2 == 0x5A5A5A5A5A5A5A5AL && (RB ? untouched(&pool[k].bn1, sizeof pool[k].bn1) : untouched(&pool[k].rn, sizeof pool[k].rn)), "element %d: bytes outside its tree node were modified", k);
}

#if TREE_PRIVATE
/* canonical key: preorder over the raw links with pool indices for addresses */
static int ck_nodes;
static void sym(const struct cstl_bintree_node *bn)
{
    const struct elem *e;
    if (bn == NULL) { KB_C('.'); return; }
    e = elem_of_bn(bn);
    if (e == NULL) { KB_C('?'); return; }
    KB_U((unsigned)e->idx);
}
static void ck(const struct cstl_bintree_node *bn)
{
    const struct elem *e;
    if (bn == NULL) { KB_C('.'); return; }
    e = elem_of_bn(bn);
    if (e == NULL) { KB_C('?'); return; }
    if (++ck_nodes > N + 1) { KB_C('!'); return; }
    KB_C('('); KB_U((unsigned)e->idx);
    if (RB) KB_C(e->rn.c == CSTL_RBTREE_COLOR_R ? 'r' : e->rn.c == CSTL_RBTREE_COLOR_B ? 'b' : 'x');
    KB_C('^'); sym(bn->p);
    ck(bn->l); ck(bn->r);
    KB_C(')');
}
static void canon_one(int t)
{
    { ck_nodes = 0; KB_C('T'); KB_U(t_bt(t)->size); KB_C('o'); KB_U(t_bt(t)->off); if (RB) { KB_C('/'); KB_U(T[t].rb.off); }
      KB_C(t_bt(t)->cmp.func == cmp_elem ? 'e' : t_bt(t)->cmp.func == cmp_other ? 'o' : '?'); KB_C(t_bt(t)->cmp.priv == (void *)&cookie[0] ? '0' : t_bt(t)->cmp.priv == (void *)&cookie[1] ? '1' : '?'); KB_C(':'); ck(t_bt(t)->root); }
}
#else
/* canonical key without naming a private member: every byte of the tree object and of the node of every held element, addresses named */
static int tsym(uintptr_t v)
{
    if (v >= (uintptr_t)pool && v < (uintptr_t)(pool + MAXN)) { size_t d = v - (uintptr_t)pool; KB_C('e'); KB_U(d / sizeof pool[0]); KB_C('+'); KB_U(d % sizeof pool[0]); return 1; }
    if (v >= (uintptr_t)T && v < (uintptr_t)(T + 2)) { size_t d = v - (uintptr_t)T; KB_C('T'); KB_U(d / sizeof T[0]); KB_C('+'); KB_U(d % sizeof T[0]); return 1; }
    if (v >= (uintptr_t)cookie && v < (uintptr_t)(cookie + 2)) { KB_C('K'); KB_U((v - (uintptr_t)cookie) / sizeof cookie[0]); return 1; }
    return 0;
}
static void canon_one(int t)
{
    int i;
    KB_C('T'); KB_MEM(&T[t], sizeof T[t], tsym); KB_C(':');
    if (t == 0) for (i = 0; i < N; i++) if (m_member[i]) { KB_U((unsigned)i); KB_C('='); if (RB) KB_MEM(&pool[i].rn, sizeof pool[i].rn, tsym); else KB_MEM(&pool[i].bn1, sizeof pool[i].bn1, tsym); KB_C(' '); }
}
#endif
static void w_canon(void) { int i; canon_one(0); canon_one(1); KB_C('m'); for (i = 0; i < N; i++) KB_C(m_member[i] ? '1' : '0'); for (i = 0; i < N; i++) if (pool[i].pad != 0x1111 || pool[i].tail != 0x2222 || pool[i].key != keys[i] || !untouched(&pool[i].rn2, sizeof pool[i].rn2) || !untouched(&pool[i].bn2, sizeof pool[i].bn2) || !(RB ? untouched(&pool[i].bn1, sizeof pool[i].bn1) : untouched(&pool[i].rn, sizeof pool[i].rn))) { KB_C('X'); KB_U((unsigned)i); } KB_C('w'); KB_U((unsigned)(vbad != 0)); KB_U((unsigned)(wrong_cmp != 0)); KB_U((unsigned)(wrong_priv != 0)); }
/* C15: after clear the tree object must be field-for-field like a never-used tree object of the same configuration */
static void check_fresh(void)
{
    char a[128], b[128]; size_t save = mc_kbn, n; int keep_m[MAXN];
    memcpy(keep_m, m_member, sizeof keep_m); memset(m_member, 0, sizeof m_member);      /* the object itself, not the (just handed over) elements */
    mc_kbn = 0; canon_one(0); n = mc_kbn < 127 ? mc_kbn : 127; memcpy(a, mc_kb, n); a[n] = 0;
    { char keep[sizeof T[1]]; memcpy(keep, &T[1], sizeof keep); t_init(1);       /* a never-used object of the same configuration */
      mc_kbn = 0; canon_one(1); n = mc_kbn < 127 ? mc_kbn : 127; memcpy(b, mc_kb, n); b[n] = 0;
      memcpy(&T[1], keep, sizeof keep); }
    mc_kbn = save; memcpy(m_member, keep_m, sizeof keep_m);
    MC_CHECK(PC15, !strcmp(a, b), "after clear the tree is not like a freshly initialised one: fields %s, fresh %s", a, b);
}

static void w_opname(mc_op_t o, char *b, size_t n)
{
    switch (OC(o)) {
    case O_INS: snprintf(b, n, "insert(e%d key %d)", OA(o), keys[OA(o)]); break;
    case O_INS_HINT: snprintf(b, n, "find(e%d,&p);insert(e%d key %d,p)", OA(o), OA(o), keys[OA(o)]); break;
    case O_ERASE_KEY: snprintf(b, n, "erase(probe key %d)", key_alpha[OA(o)]); break;
    case O_ERASE_SELF: snprintf(b, n, "erase(e%d key %d)", OA(o), keys[OA(o)]); break;
    case O_CLEAR: snprintf(b, n, "clear(poisoning callback)"); break;
    case O_SWAPPAIR: snprintf(b, n, "swap(T,empty);audit;swap back"); break;
    case O_SWAPSELF: snprintf(b, n, "swap(T,T);insert;erase"); break;
    default: snprintf(b, n, "?"); break;
    }
}
static int w_nontrivial(void) { return m_count >= 3; }
