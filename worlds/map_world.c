/* map world: C08 (one entry per key, never replaced or lost silently) and the map part of C15 */
#include "cstl/map.h"
#include <limits.h>
#define W_AUDIT_NEW_STATES_ONLY 1   /* the key holds the implementation's raw state AND the reference model, so the audit verdict is a function of the key */
#include "../engine/mc.h"
#include <sanitizer/asan_interface.h>

#define PC08 P(0)
#define PC15 P(1)
static const char *w_name = "map";
static unsigned w_prop_bit(const char *id) { return !strcmp(id, "C08") ? PC08 : !strcmp(id, "C15") ? PC15 : 0; }

#define MAXK 16
#define MAXV 3
struct kobj { long pad; int kv; int id; long tail; };
struct vtok { long pad; int id; long tail; };
static struct kobj K[MAXK];
static struct vtok V[MAXV];
static int NK, NV, NKV, kvals[MAXK], CMPMODE;
static int REENT;      /* the comparison function looks its arguments up in ANOTHER map, the clear callback clears (and refills) a third one */
static int INTKEY;     /* the map used as a set of small integers: keys are integers cast to pointers (0 included), value token 0 is the NULL pointer */
#define KP(k) (INTKEY ? (void *)(uintptr_t)kvals[k] : (void *)&K[k])
#define VP(v) ((INTKEY && (v) == 0) ? NULL : (void *)&V[v])
#define PROBE(pr, kv_) (INTKEY ? (void *)(uintptr_t)(kv_) : (void *)(pr))
static char cfgdesc[256];
static cstl_map_t M, M2;

/* model: per key value, the stored key object and value token (or -1) */
static int m_key[MAXK], m_val[MAXK], m_count;

enum { O_INSERT = 1, O_ERASE, O_ERASE_ITER, O_CLEAR_CB, O_CLEAR_NULL, O_INSERT_NOIT };
#define OP(c, a, b) ((mc_op_t)((c) | ((a) << 8) | ((b) << 16)))
#define OC(o) ((o) & 0xff)
#define OA(o) (((o) >> 8) & 0xff)
#define OB(o) (((o) >> 16) & 0xff)

enum { K_INS_EXISTING, K_INS_EXISTING_TWIN, K_ERASE_ABSENT, K_ERASE_PRESENT, K_CLEAR, K_CLEAR_NONEMPTY };
static const char *w_counter_names[] = { "insert_of_existing_key", "insert_of_existing_key_via_other_key_object", "erase_absent_key", "erase_present_key", "clear_applied", "clear_on_nonempty", NULL };

struct cfg { int nkv, twins, nv, cmp, reent, intkey; };
static const struct cfg quick_cfgs[] = { { 5, 2, 2, 0 }, { 4, 2, 3, 1 }, { 10, 0, 1, 0 }, { 6, 1, 2, 2 }, { 10, 0, 1, 2 }, { 8, 1, 1, 1 }, { 6, 1, 2, 3 }, { 5, 1, 2, 0, 1, 0 }, { 6, 0, 2, 0, 0, 1 } };
static const struct cfg thorough_cfgs[] = { { 6, 2, 2, 0 }, { 5, 2, 3, 1 }, { 12, 0, 1, 0 }, { 7, 1, 2, 2 }, { 10, 1, 1, 1 }, { 12, 0, 1, 2 }, { 7, 2, 2, 1 }, { 11, 0, 1, 1 }, { 9, 1, 1, 3 }, { 7, 1, 2, 1, 1, 0 }, { 9, 0, 2, 2, 0, 1 } };
static const struct cfg *cfgs(int thorough, int *n)
{
    if (thorough) { *n = (int)(sizeof thorough_cfgs / sizeof thorough_cfgs[0]); return thorough_cfgs; }
    *n = (int)(sizeof quick_cfgs / sizeof quick_cfgs[0]); return quick_cfgs;
}
static int w_nconfigs(int thorough) { int n; cfgs(thorough, &n); return n; }
static void w_setup(int cfg, int thorough)
{
    int n, i, v;
    const struct cfg *c = &cfgs(thorough, &n)[cfg];
    static const int perm[] = { 3, 0, 5, 1, 9, 4, 2, 7, 10, 6, 8, 11, 12 };
    NKV = c->nkv; NV = c->nv; CMPMODE = c->cmp; NK = 0; REENT = c->reent; INTKEY = c->intkey;
    for (i = 0; i < 13 && NK < NKV; i++) if (perm[i] < NKV) kvals[NK++] = perm[i];
    for (i = 0; i < c->twins; i++) kvals[NK++] = 1 + i;          /* second key objects comparing equal to keys 1, 2 */
    snprintf(cfgdesc, sizeof cfgdesc, "cstl_map, %d key values (+%d equal-comparing twin key objects), %d value tokens, comparator %s", NKV, c->twins, NV,
             CMPMODE == 0 ? "a-b" : CMPMODE == 1 ? "sign only" : CMPMODE == 2 ? "reversed" : "INT_MIN/0/INT_MAX");
    if (REENT) snprintf(cfgdesc + strlen(cfgdesc), sizeof cfgdesc - strlen(cfgdesc), "; comparator looks both keys up in a second map, clear callback clears and refills a third map");
    if (INTKEY) snprintf(cfgdesc + strlen(cfgdesc), sizeof cfgdesc - strlen(cfgdesc), "; keys are integers cast to pointers (0 = NULL included), value token 0 is NULL");
    w_nops = 0;
    for (i = 0; i < NK; i++) for (v = 0; v < NV; v++) w_ops[w_nops++] = OP(O_INSERT, i, v);
    for (i = 0; i < NK; i++) w_ops[w_nops++] = OP(O_INSERT_NOIT, i, 0);
    for (i = 0; i < NK; i++) w_ops[w_nops++] = OP(O_ERASE, i, 0);
    for (i = 0; i < NKV; i++) w_ops[w_nops++] = OP(O_ERASE_ITER, i, 0);
    w_ops[w_nops++] = OP(O_ERASE, 200, 0);   /* absent key value */
    w_ops[w_nops++] = OP(O_CLEAR_CB, 0, 0); w_ops[w_nops++] = OP(O_CLEAR_NULL, 0, 0);
}
static const char *w_config_desc(void) { return cfgdesc; }

static struct kobj absent_key;
/* the auxiliary maps of the re-entrant configuration */
static cstl_map_t MX, MY; static int aux_keys[3] = { 0, 1, 2 }, aux_vals[3], aux_cookie, reent_bad, reent_calls, aux_clr, aux_clr_bad, aux_live;
static int cmp_aux(const void *a, const void *b, void *p) { if (p != (void *)&aux_cookie) reent_bad++; return *(const int *)a - *(const int *)b; }
static void cb_aux_clear(void *it_, void *p) { cstl_map_iterator_t *it = it_; aux_clr++; if (p != (void *)&aux_vals[0] || (int *)it->key < aux_keys || (int *)it->key >= aux_keys + 3) aux_clr_bad++; }
static void aux_fill(cstl_map_t *m, int n) { int i; shim_next_tag = 0; for (i = 0; i < n; i++) cstl_map_insert(m, &aux_keys[(i * 2) % 3], &aux_vals[(i * 2) % 3], NULL); }
static int cmp_key(const void *a, const void *b, void *p)
{
    int d = INTKEY ? (int)(intptr_t)a - (int)(intptr_t)b : ((const struct kobj *)a)->kv - ((const struct kobj *)b)->kv;
    MC_CHECK(PC08, p == (void *)&CMPMODE, "comparator received a wrong private pointer");
    if (REENT) {       /* keys ordered with the help of a table kept in another map */
        cstl_map_iterator_t xi; int j;
        for (j = 0; j < 2; j++) {
            int kv = ((const struct kobj *)(j ? b : a))->kv, r = ((kv % 3) + 3) % 3;
            cstl_map_find(&MX, &aux_keys[r], &xi);
            if (xi.key != &aux_keys[r] || xi.val != &aux_vals[r]) reent_bad++;
            reent_calls++;
        }
    }
    if (CMPMODE == 1) return d < 0 ? -1 : d > 0;
    if (CMPMODE == 2) return -d;
    if (CMPMODE == 3) return d < 0 ? INT_MIN : d > 0 ? INT_MAX : 0;
    return d;
}
static void w_init(void)
{
    int i;
    shim_reset();
    __asan_unpoison_memory_region(K, sizeof K); __asan_unpoison_memory_region(V, sizeof V);
    memset(K, 0x5A, sizeof K); memset(V, 0x5A, sizeof V);
    for (i = 0; i < NK; i++) { K[i].kv = kvals[i]; K[i].id = i; K[i].pad = 0x1111; K[i].tail = 0x2222; }
    for (i = 0; i < NV; i++) { V[i].id = i; V[i].pad = 0x1111; V[i].tail = 0x2222; }
    for (i = 0; i < MAXK; i++) { m_key[i] = -1; m_val[i] = -1; }
    m_count = 0;
    absent_key.kv = 77; absent_key.id = -1;
    memset(&M, 0xA5, sizeof M);
    cstl_map_init(&M, cmp_key, &CMPMODE);
    memset(&M2, 0xA5, sizeof M2);
    cstl_map_init(&M2, cmp_key, &CMPMODE);
    reent_bad = reent_calls = 0; aux_live = 0; aux_clr_bad = 0;
    if (REENT) {
        shim_in_lib++;
        cstl_map_init(&MX, cmp_aux, &aux_cookie); aux_fill(&MX, 3);
        cstl_map_init(&MY, cmp_aux, &aux_cookie); aux_fill(&MY, 2);
        shim_in_lib--;
        aux_live = shim_nlive();
    }
}
static int kobj_of(mc_op_t o) { return OA(o); }
static int w_enabled(mc_op_t o)
{
    if (OC(o) == O_ERASE_ITER) return m_key[OA(o)] >= 0;    /* erase_iterator needs a valid iterator */
    return 1;
}
static int kid(const void *k) { uintptr_t d; int i_; if (INTKEY) { for (i_ = 0; i_ < NK; i_++) if ((uintptr_t)k == (uintptr_t)kvals[i_]) return i_; return -1; } d = (uintptr_t)k - (uintptr_t)K; if ((uintptr_t)k < (uintptr_t)K || d >= sizeof(struct kobj) * (size_t)NK || d % sizeof(struct kobj)) return -1; return (int)(d / sizeof(struct kobj)); }
static int vid(const void *v) { uintptr_t d; if (INTKEY && v == NULL) return 0; d = (uintptr_t)v - (uintptr_t)V; if ((uintptr_t)v < (uintptr_t)V || d >= sizeof(struct vtok) * (size_t)NV || d % sizeof(struct vtok)) return -1; return (int)(d / sizeof(struct vtok)); }

static int clr_k[MAXK], clr_v[MAXV], clr_bad, clr_calls;
static void cb_clear(void *it_, void *p)
{
    cstl_map_iterator_t *it = it_;
    int k = kid(it->key), v = vid(it->val);
    clr_calls++;
    if (p != (void *)&clr_calls || k < 0 || v < 0) { clr_bad++; return; }
    clr_k[k]++; clr_v[v]++;
    if (REENT) {       /* the entry owns a map of its own: clear it (with its own callback and private pointer) while being handed over, and build the next one */
        aux_clr = 0;
        cstl_map_clear(&MY, cb_aux_clear, &aux_vals[0]);
        if (aux_clr != 2 || cstl_map_size(&MY) != 0) aux_clr_bad++;
        aux_fill(&MY, 2);
    }
    /* the callback "frees" the key object; later reads by the library would be use-after-poison */
    if (clr_k[k] == 1 && !INTKEY) __asan_poison_memory_region(&K[k], sizeof K[k]);
}

static void ser_map(const cstl_map_t *m, char *out, size_t cap);
static void check_live_nodes(const char *when)
{
    /* how many allocations back the entries is the implementation's business; what is stated is that clear releases everything (checked at
     * clear, which is applied in every reachable state, so a node leaked by erase surfaces there) */
    MC_CHECK(PC08, shim_nlive() >= aux_live + (m_count > 0), "%s: the map holds %d live allocations for %d entries", when, shim_nlive() - aux_live, m_count);
    MC_CHECK(PC08, shim_errors == 0, "%s: the map passed a pointer to free() that it does not own (double or foreign free)", when);
}

static void w_apply(mc_op_t o)
{
    int ab = 0, i;
    static volatile int rc;
    static cstl_map_iterator_t it;
    const cstl_map_iterator_t *end = cstl_map_iterator_end(&M);
    switch (OC(o)) {
    case O_INSERT: case O_INSERT_NOIT: {
        int k = kobj_of(o), v = OC(o) == O_INSERT ? OB(o) : 0, kv = kvals[k], noit = OC(o) == O_INSERT_NOIT;
        memset(&it, 0x44, sizeof it);
        if (m_key[kv] >= 0) { MC_COUNT(K_INS_EXISTING); if (m_key[kv] != k) MC_COUNT(K_INS_EXISTING_TWIN); }
        shim_next_tag = kv + 1;          /* whatever the map allocates for this entry is named after the key value */
        SHIM_CALL(ab, rc = cstl_map_insert(&M, KP(k), VP(v), noit ? NULL : &it));
        shim_next_tag = 0;
        if (ab) break;
        if (m_key[kv] >= 0) {
            MC_CHECK(PC08, rc == 1, "insert of an existing key returned %d, expected 1", rc);
            if (!noit) MC_CHECK(PC08, it.key == KP(m_key[kv]) && it.val == VP(m_val[kv]) && !cstl_map_iterator_eq(&it, end),
                                "insert of existing key %d: iterator shows key object %d / value %d, the stored entry is key object %d / value %d", kv, kid(it.key), vid(it.val), m_key[kv], m_val[kv]);
        } else {
            MC_CHECK(PC08, rc == 0, "insert of a new key returned %d, expected 0", rc);
            if (!noit) MC_CHECK(PC08, it.key == KP(k) && it.val == VP(v) && !cstl_map_iterator_eq(&it, end), "insert of new key %d: iterator does not show the new entry", kv);
            m_key[kv] = k; m_val[kv] = v; m_count++;
        }
        break;
    }
    case O_ERASE: {
        int absent = OA(o) == 200, k = absent ? -1 : kobj_of(o), kv = absent ? -1 : kvals[k];
        memset(&it, 0x44, sizeof it);
        SHIM_CALL(ab, rc = cstl_map_erase(&M, absent ? PROBE(&absent_key, 77) : (void *)KP(k), &it));
        if (ab) break;
        if (!absent && m_key[kv] >= 0) {
            MC_COUNT(K_ERASE_PRESENT);
            MC_CHECK(PC08, rc == 0, "erase of a present key returned %d", rc);
            MC_CHECK(PC08, it.key == KP(m_key[kv]) && it.val == VP(m_val[kv]), "erase(key %d) reported key object %d / value %d, the stored entry was key object %d / value %d", kv, kid(it.key), vid(it.val), m_key[kv], m_val[kv]);
            m_key[kv] = -1; m_val[kv] = -1; m_count--;
        } else {
            MC_COUNT(K_ERASE_ABSENT);
            MC_CHECK(PC08, rc == -1, "erase of an absent key returned %d, expected -1", rc);
            MC_CHECK(PC08, cstl_map_iterator_eq(&it, end), "erase of an absent key did not yield the end iterator");
        }
        break;
    }
    case O_ERASE_ITER: {
        int kv = OA(o);
        struct kobj probe; probe.kv = kv; probe.id = -1;
        SHIM_CALL(ab, (cstl_map_find(&M, PROBE(&probe, kv), &it), cstl_map_erase_iterator(&M, &it)));
        if (ab) break;
        m_key[kv] = -1; m_val[kv] = -1; m_count--;
        break;
    }
    case O_CLEAR_CB: case O_CLEAR_NULL: {
        int cb = OC(o) == O_CLEAR_CB;
        MC_COUNT(K_CLEAR); if (m_count) MC_COUNT(K_CLEAR_NONEMPTY);
        memset(clr_k, 0, sizeof clr_k); memset(clr_v, 0, sizeof clr_v); clr_bad = 0; clr_calls = 0;
        SHIM_CALL(ab, cstl_map_clear(&M, cb ? cb_clear : NULL, &clr_calls));
        __asan_unpoison_memory_region(K, sizeof K);
        if (ab) break;
        if (cb) {
            int expv[MAXV] = { 0 };
            MC_CHECK(PC15 | PC08, clr_bad == 0, "clear called back with a wrong key/value/private pointer");
            MC_CHECK(PC15 | PC08, clr_calls == m_count, "clear made %d callbacks for %d entries", clr_calls, m_count);
            for (i = 0; i < NKV; i++) if (m_key[i] >= 0) expv[m_val[i]]++;
            for (i = 0; i < NK; i++) { int exp = m_key[kvals[i]] == i; MC_CHECK(PC15 | PC08, clr_k[i] == exp, "clear: key object %d passed to the callback %d times, expected %d", i, clr_k[i], exp); }
            for (i = 0; i < NV; i++) MC_CHECK(PC15 | PC08, clr_v[i] == expv[i], "clear: value token %d passed to the callback %d times, expected %d", i, clr_v[i], expv[i]);
        }
        MC_CHECK(PC15 | PC08, cstl_map_size(&M) == 0, "clear left size %zu", cstl_map_size(&M));
        MC_CHECK(PC15 | PC08, shim_nlive() == aux_live, "clear left %d map allocations alive", shim_nlive() - aux_live);
        if (REENT) MC_CHECK(PC15 | PC08, aux_clr_bad == 0 && reent_bad == 0, "a map cleared from inside the clear callback of another map got %d wrong callbacks / lookups from inside a comparison function gave %d wrong answers", aux_clr_bad, reent_bad);
        /* "usable like a freshly initialised one" is decided by the search: the cleared state is expanded and audited like any other */
        for (i = 0; i < MAXK; i++) { m_key[i] = -1; m_val[i] = -1; }
        m_count = 0;
        break;
    }
    }
    if (ab) MC_CHECK(PC08 | PC15, 0, "unexpected %s inside the library: %s", ab == 3 ? "non-termination (a library call still running after 3 s)" : ab == 2 ? "assertion failure" : "abort()", ab == 2 ? shim_assert_msg : "");
    else if (mc_checking) check_live_nodes("after the operation");
}

static void w_audit(void)
{
    int i, ab;
    const cstl_map_iterator_t *end = cstl_map_iterator_end(&M);
    MC_CHECK(PC08, cstl_map_size(&M) == (size_t)m_count, "size = %zu, reference holds %d entries", cstl_map_size(&M), m_count);
    for (i = 0; i <= NK; i++) {
        static cstl_map_iterator_t it;
        const void *probe = i < NK ? KP(i) : PROBE(&absent_key, 77);
        int kv = i < NK ? kvals[i] : -1;
        memset(&it, 0x44, sizeof it);
        SHIM_CALL(ab, cstl_map_find(&M, probe, &it));
        if (ab) { MC_CHECK(PC08, 0, "find aborted"); return; }
        if (kv >= 0 && m_key[kv] >= 0)
            MC_CHECK(PC08, !cstl_map_iterator_eq(&it, end) && it.key == KP(m_key[kv]) && it.val == VP(m_val[kv]),
                     "find(key %d via key object %d) yields key object %d / value %d, stored entry is key object %d / value %d", kv, i, kid(it.key), vid(it.val), m_key[kv], m_val[kv]);
        else
            MC_CHECK(PC08, cstl_map_iterator_eq(&it, end), "find of absent key %d did not yield the end iterator", kv);
    }
    if (REENT) MC_CHECK(PC08 | PC15, reent_bad == 0 && aux_clr_bad == 0, "%d of %d lookups in another map made from inside the comparison function gave a wrong answer (%d wrong callbacks of a nested clear)", reent_bad, reent_calls, aux_clr_bad);
    for (i = 0; i < NK; i++) MC_CHECK(PC08, K[i].pad == 0x1111 && K[i].tail == 0x2222 && K[i].kv == kvals[i], "key object %d was modified", i);
    for (i = 0; i < NV; i++) MC_CHECK(PC08, V[i].pad == 0x1111 && V[i].tail == 0x2222 && V[i].id == i, "value token %d was modified", i);
}

/* canonical key: every byte of the map object and of every block the map allocated (named after the key value whose insert allocated it), with
 * the addresses found in them replaced by names - no member of the library's private structs is mentioned, so a change may rename or reorder them.
 * The tree shape and the colours are in there (they are what the links and the colour words of the nodes say). */
static const cstl_map_t *g_mbase;
static int msym(uintptr_t v)
{
    shim_blk *b;
    if (g_mbase && v >= (uintptr_t)g_mbase && v < (uintptr_t)(g_mbase + 1)) { KB_C('M'); KB_C('+'); KB_U(v - (uintptr_t)g_mbase); return 1; }
    if (v >= (uintptr_t)K && v < (uintptr_t)(K + MAXK)) { size_t d = v - (uintptr_t)K; KB_C('K'); KB_U(d / sizeof K[0]); KB_C('+'); KB_U(d % sizeof K[0]); return 1; }
    if (v >= (uintptr_t)V && v < (uintptr_t)(V + MAXV)) { size_t d = v - (uintptr_t)V; KB_C('V'); KB_U(d / sizeof V[0]); KB_C('+'); KB_U(d % sizeof V[0]); return 1; }
    if (v == (uintptr_t)&CMPMODE) { KB_C('P'); return 1; }
    if (v > 0x10000 && (b = shim_find((const void *)v)) != NULL) { KB_C('N'); KB_I(b->tag); KB_C('+'); KB_U(v - (uintptr_t)b->p); return 1; }
    return 0;
}
static void ser_map(const cstl_map_t *m, char *out, size_t cap)
{
    size_t save = mc_kbn, n;
    mc_kbn = 0; g_mbase = m; KB_MEM(m, sizeof *m, msym);
    n = mc_kbn < cap - 1 ? mc_kbn : cap - 1; memcpy(out, mc_kb, n); out[n] = 0;
    mc_kbn = save; g_mbase = &M;
}
static void w_canon(void)
{
    int i, bi;
    g_mbase = &M;
    KB_C('M'); KB_U(cstl_map_size(&M)); KB_C(':'); KB_MEM(&M, sizeof M, msym); KB_C(';');
    for (i = 0; i < NKV; i++) {
        int any = 0;
        for (bi = 0; bi < shim_nblk; bi++) if (shim_blks[bi].live && shim_blks[bi].tag == i + 1) { if (!any) { KB_U((unsigned)i); KB_C('{'); any = 1; } else KB_C('|'); KB_MEM(shim_blks[bi].p, shim_blks[bi].sz, msym); }
        if (any) KB_C('}');
    }
    if (REENT) { KB_C('R'); KB_U((unsigned)(reent_bad != 0)); KB_U((unsigned)(aux_clr_bad != 0)); KB_U(cstl_map_size(&MX)); KB_U(cstl_map_size(&MY)); }
    KB_C('m'); for (i = 0; i < NKV; i++) { KB_I(m_key[i]); KB_C('/'); KB_I(m_val[i]); KB_C(' '); }
    for (i = 0; i < NK; i++) if (K[i].pad != 0x1111 || K[i].tail != 0x2222 || K[i].kv != kvals[i]) { KB_C('X'); KB_U((unsigned)i); }
    for (i = 0; i < NV; i++) if (V[i].pad != 0x1111 || V[i].tail != 0x2222) { KB_C('Y'); KB_U((unsigned)i); }
}
static void w_opname(mc_op_t o, char *b, size_t n)
{
    switch (OC(o)) {
    case O_INSERT: snprintf(b, n, "insert(K%d[key %d],V%d,&it)", OA(o), kvals[OA(o)], OB(o)); break;
    case O_INSERT_NOIT: snprintf(b, n, "insert(K%d[key %d],V0,NULL)", OA(o), kvals[OA(o)]); break;
    case O_ERASE: if (OA(o) == 200) snprintf(b, n, "erase(absent key)"); else snprintf(b, n, "erase(K%d[key %d])", OA(o), kvals[OA(o)]); break;
    case O_ERASE_ITER: snprintf(b, n, "find(key %d);erase_iterator", OA(o)); break;
    case O_CLEAR_CB: snprintf(b, n, "clear(counting+poisoning callback)"); break;
    default: snprintf(b, n, "clear(NULL)"); break;
    }
}
static int w_nontrivial(void) { return m_count >= 3; }
