/* pointer world: C05 (shared memory destroyed exactly once, exactly when its last owner lets go; unique pointers likewise) */
#include "cstl/memory.h"
#include "../engine/mc.h"

#define PC05 P(0)
#define PC20 P(1)      /* the converse half of C20: pointers moved only with the library's own functions never abort */
static const char *w_name = "ptr";
static unsigned w_prop_bit(const char *id) { return !strcmp(id, "C05") ? PC05 : !strcmp(id, "C20") ? PC20 : 0; }

#define NSP 5
#define NWP 3
#define NUP 2
#define MAXA 16
static cstl_shared_ptr_t SP[NSP];
static cstl_weak_ptr_t WP[NWP];
static cstl_unique_ptr_t UP[NUP];
static int MODE;                         /* 0: shared+weak pointers, 1: unique pointers */
static int NS, NW;
static int SELFW;                        /* the clear callback lets go of every weak pointer that refers to the allocation being cleared (an object holding a weak pointer to itself) */
static unsigned selfw_todo[16];
static char cfgdesc[200];

/* model */
struct alloc { int used; int owners, weaks; int mem_live, book_live; void *mem; int has_clr; int cookie; int born_op; };
static int opno;
static struct alloc AL[MAXA]; static int nAL;
static int m_sp[NSP], m_wp[NWP], m_up[NUP];

/* event log of one operation */
enum { E_CLEAR = 1, E_FREE_MEM, E_FREE_BOOK };
static struct { int kind, a; } got[32], exp_[32];
static int ngot, nexp;
static void expect(int kind, int a) { if (nexp < 32) { exp_[nexp].kind = kind; exp_[nexp].a = a; } nexp++; }

enum { O_SP_ALLOC = 1, O_SP_ALLOC0, O_SP_SHARE, O_SP_SWAP, O_SP_RESET, O_WP_FROM, O_WP_LOCK, O_WP_RESET, O_WP_SWAP,
       O_UP_ALLOC, O_UP_ALLOC_NOCLR, O_UP_ALLOC0, O_UP_RELEASE, O_UP_SWAP, O_UP_RESET, O_SP_ALLOC_HUGE, O_UP_ALLOC_HUGE };
#define OP(c, a, b) ((mc_op_t)((c) | ((a) << 8) | ((b) << 16)))
#define OC(o) ((o) & 0xff)
#define OA(o) (((o) >> 8) & 0xff)
#define OB(o) (((o) >> 16) & 0xff)

enum { K_LAST_OWNER, K_LAST_REF, K_LOCK_OK, K_LOCK_DEAD, K_LOCK_INTO_LAST_OWNER, K_RETARGET_OWNING, K_SHARE_FROM_EMPTY, K_WEAK_OUTLIVES, K_UP_RELEASE, K_UP_RESET_CLR, K_SELFW };
static const char *w_counter_names[] = { "last_owner_released", "last_reference_released_bookkeeping_freed", "lock_yields_owner", "lock_on_dead_allocation_fails", "lock_into_the_last_owner_of_the_same_allocation",
                                          "retarget_of_pointer_that_owns", "share_or_from_with_empty_source", "states_where_weak_outlives_owners", "unique_release", "unique_reset_with_clear", "weak_references_dropped_inside_the_clear_callback", NULL };

static int USE_MACRO;      /* odd configurations build the pointer objects with the CSTL_*_PTR_INITIALIZER macros instead of the init functions */
static int w_nconfigs(int thorough) { return thorough ? 6 : 4; }
static void w_setup(int cfg, int thorough)
{
    int i, j, w;
    SELFW = cfg == (thorough ? 4 : 3); USE_MACRO = cfg & 1;
    MODE = cfg == 1; NS = cfg >= 2 ? 4 : 3; NW = cfg == 3 ? 3 : 2;
    if (SELFW) { NS = thorough ? 4 : 3; NW = 2; }
    if (thorough && cfg == 5) { NS = 5; NW = 3; }
    w_nops = 0;
    if (!MODE) {
        snprintf(cfgdesc, sizeof cfgdesc, "%d shared + %d weak pointer objects, allocations with clear callback%s, alloc(0), share/lock into occupied pointers", NS, NW, SELFW ? " that resets the weak pointers referring to its own allocation" : "");
        for (i = 0; i < NS; i++) { w_ops[w_nops++] = OP(O_SP_ALLOC, i, 0); w_ops[w_nops++] = OP(O_SP_ALLOC0, i, 0); w_ops[w_nops++] = OP(O_SP_RESET, i, 0); }
        w_ops[w_nops++] = OP(O_SP_ALLOC_HUGE, 0, 0); w_ops[w_nops++] = OP(O_SP_ALLOC_HUGE, 1, 0);
        for (i = 0; i < NS; i++) for (j = 0; j < NS; j++) if (i != j) w_ops[w_nops++] = OP(O_SP_SHARE, i, j);
        for (i = 0; i < NS; i++) for (j = i; j < NS; j++) w_ops[w_nops++] = OP(O_SP_SWAP, i, j);       /* j == i: swapping a pointer with itself */
        for (w = 0; w < NW; w++) { for (i = 0; i < NS; i++) { w_ops[w_nops++] = OP(O_WP_FROM, w, i); w_ops[w_nops++] = OP(O_WP_LOCK, w, i); } w_ops[w_nops++] = OP(O_WP_RESET, w, 0); }
        w_ops[w_nops++] = OP(O_WP_SWAP, 0, 1); if (NW > 2) w_ops[w_nops++] = OP(O_WP_SWAP, 1, 2);
        w_ops[w_nops++] = OP(O_WP_SWAP, 0, 0);
    } else {
        snprintf(cfgdesc, sizeof cfgdesc, "%d unique pointer objects: alloc with/without clear callback, alloc(0), release, swap, reset", NUP);
        for (i = 0; i < NUP; i++) { w_ops[w_nops++] = OP(O_UP_ALLOC, i, 0); w_ops[w_nops++] = OP(O_UP_ALLOC_NOCLR, i, 0); w_ops[w_nops++] = OP(O_UP_ALLOC0, i, 0); w_ops[w_nops++] = OP(O_UP_RELEASE, i, 0); w_ops[w_nops++] = OP(O_UP_RELEASE, i, 1);       /* b == 1: release(up, NULL, NULL) */ w_ops[w_nops++] = OP(O_UP_RESET, i, 0); w_ops[w_nops++] = OP(O_UP_ALLOC_HUGE, i, 0); }
        w_ops[w_nops++] = OP(O_UP_SWAP, 0, 1);
        for (i = 0; i < NUP; i++) w_ops[w_nops++] = OP(O_UP_SWAP, i, i);      /* swapping a pointer with itself */
    }
}
static const char *w_config_desc(void) { return cfgdesc; }

static void w_init(void)
{
    int i;
    shim_reset();
    nAL = 0; memset(AL, 0, sizeof AL); opno = 0; memset(selfw_todo, 0, sizeof selfw_todo);
    for (i = 0; i < NSP; i++) { memset(&SP[i], 0xA5, sizeof SP[i]); if (USE_MACRO) SP[i] = (cstl_shared_ptr_t)CSTL_SHARED_PTR_INITIALIZER(SP[i]); else cstl_shared_ptr_init(&SP[i]); m_sp[i] = -1; }
    for (i = 0; i < NWP; i++) { memset(&WP[i], 0xA5, sizeof WP[i]); if (USE_MACRO) WP[i] = (cstl_weak_ptr_t)CSTL_WEAK_PTR_INITIALIZER(WP[i]); else cstl_weak_ptr_init(&WP[i]); m_wp[i] = -1; }
    for (i = 0; i < NUP; i++) { memset(&UP[i], 0xA5, sizeof UP[i]); if (USE_MACRO) UP[i] = (cstl_unique_ptr_t)CSTL_UNIQUE_PTR_INITIALIZER(UP[i]); else cstl_unique_ptr_init(&UP[i]); m_up[i] = -1; }
}

static int live_allocs(void) { int a, n = 0; for (a = 0; a < nAL; a++) n += AL[a].used && (AL[a].mem_live || AL[a].book_live); return n; }
static int w_enabled(mc_op_t o)
{
    switch (OC(o)) {
    case O_SP_ALLOC: case O_UP_ALLOC: case O_UP_ALLOC_NOCLR: return live_allocs() < MAXA - 2;
    default: return 1;
    }
}
static int new_alloc(void)
{
    int a;
    /* a slot is reused only if its allocation died in an EARLIER operation (its events are still being matched in this one) */
    for (a = 0; a < nAL; a++) if (!AL[a].used || (!AL[a].mem_live && !AL[a].book_live && AL[a].born_op != opno)) break;
    if (a == nAL) nAL++;
    memset(&AL[a], 0, sizeof AL[a]); AL[a].used = 1; AL[a].born_op = -1;
    return a;
}
/* allocation owning the block that contains p (by the tag the allocation layer gave it) */
static int alloc_of(const void *p) { shim_blk *b = shim_find(p); if (!b) b = shim_find_dead(p); return b ? b->tag : -1; }

static int cookies[4];
static void cb_clear(void *mem, void *priv)
{
    int a = alloc_of(mem);
    if (ngot < 32) { got[ngot].kind = E_CLEAR; got[ngot].a = a; }
    ngot++;
    if (a >= 0 && a < MAXA) {
        if (mem != AL[a].mem) { got[ngot - 1].a = -2; }
        if (MODE && priv != (void *)&cookies[AL[a].cookie]) got[ngot - 1].a = -3;
        if (!MODE && priv != NULL) got[ngot - 1].a = -3;
        if (shim_find(mem) == NULL) got[ngot - 1].a = -4;      /* callback on memory that is already freed */
        if (SELFW && !MODE) { int w; for (w = 0; w < NW; w++) if (selfw_todo[a] & (1u << w)) cstl_weak_ptr_reset(&WP[w]); selfw_todo[a] = 0; }
    }
}
/* translate the allocation layer's free events of this operation into the log */
static int evpos;
static void drain_free_events(void)
{
    for (; evpos < shim_nev; evpos++) {
        shim_ev *e = &shim_evs[evpos];
        if (e->kind == EV_FREE && e->blk >= 0) {
            shim_blk *b = &shim_blks[e->blk];
            int a = b->tag, kind;
            if (a == MAXA - 1) continue;          /* the half-built bookkeeping block of an allocation that could not be completed: allocated and freed within the operation */
            kind = (a >= 0 && a < MAXA && b->p == AL[a].mem) ? E_FREE_MEM : E_FREE_BOOK;
            if (ngot < 32) { got[ngot].kind = kind; got[ngot].a = a; }
            ngot++;
        }
    }
}

/* model steps, which also record the expected events */
static void m_sp_release(int a)          /* one owner of allocation a lets go */
{
    if (a < 0) return;
    if (--AL[a].owners == 0) {
        MC_COUNT(K_LAST_OWNER); if (AL[a].has_clr) expect(E_CLEAR, a);
        /* the callback drops the weak references to its own allocation: nothing is freed by that, the owner being reset still pins the bookkeeping */
        if (SELFW && AL[a].has_clr) { int w; selfw_todo[a] = 0; for (w = 0; w < NW; w++) if (m_wp[w] == a) { selfw_todo[a] |= 1u << w; m_wp[w] = -1; AL[a].weaks--; MC_COUNT(K_SELFW); } }
        expect(E_FREE_MEM, a); AL[a].mem_live = 0;
    }
    if (AL[a].owners + AL[a].weaks == 0) { MC_COUNT(K_LAST_REF); expect(E_FREE_BOOK, a); AL[a].book_live = 0; AL[a].born_op = opno; }
}
static void m_wp_release(int a)
{
    if (a < 0) return;
    AL[a].weaks--;
    if (AL[a].owners + AL[a].weaks == 0) { MC_COUNT(K_LAST_REF); expect(E_FREE_BOOK, a); AL[a].book_live = 0; AL[a].born_op = opno; }
}

static void w_apply(mc_op_t o)
{
    int a = OA(o), b = OB(o), ab = 0, k, na;
    nexp = 0; ngot = 0; shim_evclear(); evpos = 0; opno++;
    switch (OC(o)) {
    case O_SP_ALLOC: case O_SP_ALLOC0:
        if (m_sp[a] >= 0) MC_COUNT(K_RETARGET_OWNING);
        m_sp_release(m_sp[a]); m_sp[a] = -1;
        na = -1;
        if (OC(o) == O_SP_ALLOC) { na = new_alloc(); shim_next_tag = na; }
        SHIM_CALL(ab, cstl_shared_ptr_alloc(&SP[a], OC(o) == O_SP_ALLOC ? 24 : 0, cb_clear));
        if (na >= 0) { AL[na].owners = 1; AL[na].weaks = 0; AL[na].mem_live = AL[na].book_live = 1; AL[na].has_clr = 1; m_sp[a] = na; if (!ab) AL[na].mem = cstl_shared_ptr_get(&SP[a]); }
        break;
    case O_SP_ALLOC_HUGE:     /* a size that cannot be provided: the old target is released, the pointer ends up empty, nothing else happens */
        if (m_sp[a] >= 0) MC_COUNT(K_RETARGET_OWNING);
        m_sp_release(m_sp[a]); m_sp[a] = -1;
        shim_next_tag = MAXA - 1;
        SHIM_CALL(ab, cstl_shared_ptr_alloc(&SP[a], SIZE_MAX / 2, cb_clear));
        break;
    case O_SP_SHARE:          /* share(SP[a] -> SP[b]) */
        if (m_sp[b] >= 0) MC_COUNT(K_RETARGET_OWNING);
        if (m_sp[a] < 0) MC_COUNT(K_SHARE_FROM_EMPTY);
        m_sp_release(m_sp[b]); m_sp[b] = -1;
        SHIM_CALL(ab, cstl_shared_ptr_share(&SP[a], &SP[b]));
        if (m_sp[a] >= 0) { m_sp[b] = m_sp[a]; AL[m_sp[a]].owners++; }
        break;
    case O_SP_SWAP:
        SHIM_CALL(ab, cstl_shared_ptr_swap(&SP[a], &SP[b]));
        k = m_sp[a]; m_sp[a] = m_sp[b]; m_sp[b] = k;
        break;
    case O_SP_RESET:
        m_sp_release(m_sp[a]); m_sp[a] = -1;
        SHIM_CALL(ab, cstl_shared_ptr_reset(&SP[a]));
        break;
    case O_WP_FROM:           /* weak_from(WP[a], SP[b]) */
        if (m_sp[b] < 0) MC_COUNT(K_SHARE_FROM_EMPTY);
        m_wp_release(m_wp[a]); m_wp[a] = -1;
        SHIM_CALL(ab, cstl_weak_ptr_from(&WP[a], &SP[b]));
        if (m_sp[b] >= 0) { m_wp[a] = m_sp[b]; AL[m_sp[b]].weaks++; }
        break;
    case O_WP_LOCK:           /* lock(WP[a] -> SP[b]): the target is reset first, then it becomes an owner iff an owner still exists */
        if (m_sp[b] >= 0) MC_COUNT(K_RETARGET_OWNING);
        if (m_sp[b] >= 0 && m_sp[b] == m_wp[a] && AL[m_sp[b]].owners == 1) MC_COUNT(K_LOCK_INTO_LAST_OWNER);
        m_sp_release(m_sp[b]); m_sp[b] = -1;
        SHIM_CALL(ab, cstl_weak_ptr_lock(&WP[a], &SP[b]));
        if (m_wp[a] >= 0 && AL[m_wp[a]].owners > 0) { MC_COUNT(K_LOCK_OK); m_sp[b] = m_wp[a]; AL[m_wp[a]].owners++; }
        else if (m_wp[a] >= 0) MC_COUNT(K_LOCK_DEAD);
        break;
    case O_WP_RESET:
        m_wp_release(m_wp[a]); m_wp[a] = -1;
        SHIM_CALL(ab, cstl_weak_ptr_reset(&WP[a]));
        break;
    case O_WP_SWAP:
        SHIM_CALL(ab, cstl_weak_ptr_swap(&WP[a], &WP[b]));
        k = m_wp[a]; m_wp[a] = m_wp[b]; m_wp[b] = k;
        break;
    /* ---- unique pointers ---- */
    case O_UP_ALLOC: case O_UP_ALLOC_NOCLR: case O_UP_ALLOC0: {
        int clr = OC(o) == O_UP_ALLOC, zero = OC(o) == O_UP_ALLOC0, old = m_up[a];
        if (old >= 0) { MC_COUNT(K_RETARGET_OWNING); if (AL[old].has_clr) expect(E_CLEAR, old); expect(E_FREE_MEM, old); AL[old].mem_live = 0; AL[old].born_op = opno; m_up[a] = -1; }
        na = -1;
        if (!zero) { na = new_alloc(); shim_next_tag = na; AL[na].cookie = a; }
        SHIM_CALL(ab, cstl_unique_ptr_alloc(&UP[a], zero ? 0 : 16, clr ? cb_clear : NULL, &cookies[a]));
        if (na >= 0) { AL[na].mem_live = 1; AL[na].has_clr = clr; m_up[a] = na; if (!ab) AL[na].mem = cstl_unique_ptr_get(&UP[a]); }
        break;
    }
    case O_UP_ALLOC_HUGE: {
        int old = m_up[a];
        if (old >= 0) { if (AL[old].has_clr) expect(E_CLEAR, old); expect(E_FREE_MEM, old); AL[old].mem_live = 0; AL[old].born_op = opno; m_up[a] = -1; }
        shim_next_tag = MAXA - 1;
        SHIM_CALL(ab, cstl_unique_ptr_alloc(&UP[a], SIZE_MAX / 2, cb_clear, &cookies[a]));
        break;
    }
    case O_UP_RELEASE: {
        static cstl_xtor_func_t * volatile f; static void * volatile pv; static void * volatile p; int old = m_up[a];
        f = (cstl_xtor_func_t *)cb_clear; pv = (void *)&f; p = NULL;
        MC_COUNT(K_UP_RELEASE);
        if (b) SHIM_CALL(ab, p = cstl_unique_ptr_release(&UP[a], NULL, NULL)); else SHIM_CALL(ab, p = cstl_unique_ptr_release(&UP[a], (cstl_xtor_func_t **)&f, (void **)&pv));
        if (ab) break;
        if (b && old >= 0) { f = AL[old].has_clr ? (cstl_xtor_func_t *)cb_clear : NULL; pv = (void *)&cookies[AL[old].cookie]; }      /* nothing reported: the caller did not ask */
        if (old >= 0) {
            MC_CHECK(PC05, p == AL[old].mem, "release returned %p, the managed memory is %p", p, AL[old].mem);
            MC_CHECK(PC05, (f != NULL) == AL[old].has_clr && (!AL[old].has_clr || pv == (void *)&cookies[AL[old].cookie]), "release reported clear function %s / private pointer %s", f ? "set" : "NULL", pv == (void *)&cookies[AL[old].cookie] ? "right" : "wrong");
            /* the caller now owns the memory: free it through the tracked allocator (not an event of the library) */
            drain_free_events();
            shim_in_lib++; free(p); shim_in_lib--; evpos = shim_nev;
            AL[old].mem_live = 0; m_up[a] = -1;
        } else MC_CHECK(PC05, p == NULL, "release of an empty unique pointer returned %p", p);
        break;
    }
    case O_UP_SWAP:
        SHIM_CALL(ab, cstl_unique_ptr_swap(&UP[a], &UP[b]));
        k = m_up[a]; m_up[a] = m_up[b]; m_up[b] = k;
        break;
    case O_UP_RESET: {
        int old = m_up[a];
        if (old >= 0) { if (AL[old].has_clr) { expect(E_CLEAR, old); MC_COUNT(K_UP_RESET_CLR); } expect(E_FREE_MEM, old); AL[old].mem_live = 0; m_up[a] = -1; }
        SHIM_CALL(ab, cstl_unique_ptr_reset(&UP[a]));
        break;
    }
    }
    if (ab) { MC_CHECK(PC05 | PC20, 0, "unexpected %s inside the library on properly handled pointer objects: %s", ab == 3 ? "non-termination (a library call still running after 3 s)" : ab == 2 ? "assertion failure" : "abort()", ab == 2 ? shim_assert_msg : ""); return; }
    if (!mc_checking) return;
    drain_free_events();
    /* the events of this one operation -- clear(a), free(memory a), free(bookkeeping a) -- must be exactly the predicted ones, in order */
    {
        char gs[200] = "", es[200] = ""; static const char *kn[] = { "?", "clear", "free-mem", "free-book" };
        /* the clear callback and the release of the MANAGED memory are pinned per operation (which allocation, in which order).  The library's own
         * bookkeeping blocks are not matched event by event: when such a block is released within an operation, or whether it is handed on to the next
         * allocation of the same pointer instead, cannot be observed through the API; that none is released early, kept too long or leaked is decided by the
         * exact count of live blocks in every state (audit), by the allocation layer (double / foreign free) and by ASan (use after free). */
        for (k = 0; k < ngot && k < 12; k++) if (got[k].kind != E_FREE_BOOK) sprintf(gs + strlen(gs), "%s%s(%d)", gs[0] ? " " : "", kn[got[k].kind], got[k].a);
        for (k = 0; k < nexp && k < 12; k++) if (exp_[k].kind != E_FREE_BOOK) sprintf(es + strlen(es), "%s%s(%d)", es[0] ? " " : "", kn[exp_[k].kind], exp_[k].a);
        if (MODE) {
            MC_CHECK(PC05, !strcmp(gs, es), "destruction events of this operation were [%s], expected [%s] (negative ids: -2 wrong address, -3 wrong private pointer, -4 already freed)", gs, es);
        } else {
            /* shared: bookkeeping blocks are recognised as "not the managed block" */
            MC_CHECK(PC05, !strcmp(gs, es), "destruction events of this operation were [%s], expected [%s] (never earlier, never later; negative ids: -2 wrong address, -3 wrong private pointer, -4 already freed)", gs, es);
        }
    }
    MC_CHECK(PC05, shim_errors == 0, "a pointer was passed to free() that is not a live allocation (double or foreign free)");
}

static void w_audit(void)
{
    int i, j, a, ab, mem = 0, book = 0, weak_only = 0;
    for (a = 0; a < nAL; a++) if (AL[a].used) { mem += AL[a].mem_live; book += AL[a].book_live; if (AL[a].book_live && !AL[a].mem_live) weak_only = 1; }
    if (weak_only) MC_COUNT(K_WEAK_OUTLIVES);
    /* nothing leaked, nothing freed early: live blocks are exactly the managed blocks with owners and the bookkeeping blocks with references */
    MC_CHECK(PC05, shim_nlive() == mem + book, "%d allocations are alive; the reference model has %d managed block(s) with owners and %d bookkeeping block(s) with references", shim_nlive(), mem, book);
    if (!MODE) {
        for (i = 0; i < NS; i++) {
            static void * volatile g; static volatile int u;
            SHIM_CALL(ab, (g = cstl_shared_ptr_get(&SP[i]), u = cstl_shared_ptr_unique(&SP[i])));
            if (ab) { MC_CHECK(PC05 | PC20, 0, "get/unique aborted on a properly handled shared pointer"); return; }
            if (m_sp[i] < 0) { MC_CHECK(PC05, g == NULL, "shared pointer %d is empty but get() is %p", i, g); MC_CHECK(PC05, u, "unique() of an empty shared pointer is false"); }
            else {
                a = m_sp[i];
                MC_CHECK(PC05, g != NULL && g == AL[a].mem, "shared pointer %d: get() = %p, the managed memory of its allocation is %p", i, g, AL[a].mem);
                MC_CHECK(PC05, g == NULL || shim_find(g) != NULL, "shared pointer %d: get() points at memory that is already freed", i);
                MC_CHECK(PC05, (u != 0) == (AL[a].owners + AL[a].weaks == 1), "shared pointer %d: unique() = %d with %d owner(s) and %d weak reference(s)", i, u, AL[a].owners, AL[a].weaks);
                for (j = 0; j < i; j++) if (m_sp[j] == a) MC_CHECK(PC05, cstl_shared_ptr_get(&SP[j]) == g, "co-owners %d and %d report different addresses", j, i);
            }
        }
    } else {
        for (i = 0; i < NUP; i++) {
            static void * volatile g;
            SHIM_CALL(ab, g = cstl_unique_ptr_get(&UP[i]));
            if (ab) { MC_CHECK(PC05 | PC20, 0, "get aborted on a properly handled unique pointer"); return; }
            MC_CHECK(PC05, g == (m_up[i] >= 0 ? AL[m_up[i]].mem : NULL), "unique pointer %d: get() = %p, reference says %p", i, g, m_up[i] >= 0 ? AL[m_up[i]].mem : NULL);
            MC_CHECK(PC05, g == NULL || shim_find(g) != NULL, "unique pointer %d points at freed memory", i);
        }
    }
}

/* symbols for the words found in the library's bookkeeping blocks */
static int cls_of[MAXA];
static int ptr_sym(uintptr_t v)
{
    int a; shim_blk *b;
    if (v == (uintptr_t)cb_clear) { KB_C('F'); return 1; }
    if (v >= (uintptr_t)SP && v < (uintptr_t)(SP + NSP)) { size_t d = v - (uintptr_t)SP; KB_C('s'); KB_U(d / sizeof SP[0]); KB_C('+'); KB_U(d % sizeof SP[0]); return 1; }
    if (v >= (uintptr_t)WP && v < (uintptr_t)(WP + NWP)) { size_t d = v - (uintptr_t)WP; KB_C('w'); KB_U(d / sizeof WP[0]); KB_C('+'); KB_U(d % sizeof WP[0]); return 1; }
    if (v >= (uintptr_t)UP && v < (uintptr_t)(UP + NUP)) { size_t d = v - (uintptr_t)UP; KB_C('u'); KB_U(d / sizeof UP[0]); KB_C('+'); KB_U(d % sizeof UP[0]); return 1; }
    if (v >= (uintptr_t)cookies && v < (uintptr_t)(cookies + 4)) { KB_C('K'); KB_U((unsigned long)(v - (uintptr_t)cookies)); return 1; }
    if ((b = shim_find((const void *)v)) != NULL && b->tag >= 0 && b->tag < MAXA && cls_of[b->tag] >= 0) {
        a = b->tag; KB_C(b->p == AL[a].mem ? 'M' : 'B'); KB_U((unsigned)cls_of[a]); KB_C('+'); KB_U((unsigned long)(v - (uintptr_t)b->p)); return 1;
    }
    /* an address on the stack (seed C20-7d: swap through a guarded temporary leaves the second object's guard word pointing at the dead temporary): the
     * stack moves from run to run, a key holding the raw word cannot be replayed ("cannot decide").  All such words get one name: what the slot holds
     * is not a function of the state anyway, and the object's next use is judged by the abort oracle. */
    { volatile char here; uintptr_t h = (uintptr_t)&here; if (v > h - ((uintptr_t)8 << 20) && v < h + ((uintptr_t)8 << 20)) { KB_C('Y'); return 1; } }
    return 0;
}
/* canonical key: allocation classes renumbered by first appearance over the objects; per class owners/weaks/alive; raw guard words */
static void w_canon(void)
{
    int i, cls[MAXA], ncls = 0, k;
    const void *raw[NSP + NWP + NUP]; int nraw = 0;
    for (k = 0; k < MAXA; k++) cls[k] = -1;
#define CLS(a) do { if ((a) < 0) KB_C('-'); else { if (cls[a] < 0) cls[a] = ncls++; KB_U((unsigned)cls[a]); } } while (0)
#define RAW(p) do { const void *q = (p); int r; if (!q) KB_C('0'); else { for (r = 0; r < nraw; r++) if (raw[r] == q) break; if (r == nraw) raw[nraw++] = q; KB_C('a' + r); } } while (0)
    if (!MODE) {
        for (i = 0; i < NS; i++) { KB_C('S'); CLS(m_sp[i]); }
        for (i = 0; i < NW; i++) { KB_C('W'); CLS(m_wp[i]); }
        memcpy(cls_of, cls, sizeof cls_of);
        /* every byte of the pointer objects, members unnamed; addresses are named by allocation class / object index (ptr_sym) */
        for (i = 0; i < NS; i++) { KB_C('<'); KB_MEM(&SP[i], sizeof SP[i], ptr_sym); }
        for (i = 0; i < NW; i++) { KB_C('<'); KB_MEM(&WP[i], sizeof WP[i], ptr_sym); }
        for (k = 0; k < ncls; k++) {
            int a, bi;
            for (a = 0; a < MAXA; a++) if (cls[a] == k) {
                KB_C('|'); KB_U((unsigned)AL[a].owners); KB_C(','); KB_U((unsigned)AL[a].weaks); KB_C(AL[a].mem_live ? 'm' : '-');
                /* the library's own bookkeeping block for this allocation (reference counters, flag, inner unique pointer), addresses symbolised:
                 * hidden state such as a leaked count must make the state distinct */
                for (bi = 0; bi < shim_nblk; bi++) if (shim_blks[bi].live && shim_blks[bi].tag == a && shim_blks[bi].p != AL[a].mem) { KB_C('{'); KB_MEM(shim_blks[bi].p, shim_blks[bi].sz, ptr_sym); KB_C('}'); }
            }
        }
    } else {
        for (i = 0; i < NUP; i++) {
            KB_C('U'); CLS(m_up[i]); memcpy(cls_of, cls, sizeof cls_of); KB_C('<'); KB_MEM(&UP[i], sizeof UP[i], ptr_sym);
            if (m_up[i] >= 0) { KB_C(AL[m_up[i]].has_clr ? 'C' : 'n'); KB_U((unsigned)AL[m_up[i]].cookie); }
        }
    }
}
static void w_opname(mc_op_t o, char *b, size_t n)
{
    switch (OC(o)) {
    case O_SP_ALLOC: snprintf(b, n, "shared_alloc(sp%d,24,clr)", OA(o)); break;
    case O_SP_ALLOC0: snprintf(b, n, "shared_alloc(sp%d,0,clr)", OA(o)); break;
    case O_SP_ALLOC_HUGE: snprintf(b, n, "shared_alloc(sp%d,SIZE_MAX/2,clr)", OA(o)); break;
    case O_UP_ALLOC_HUGE: snprintf(b, n, "unique_alloc(up%d,SIZE_MAX/2,clr,priv%d)", OA(o), OA(o)); break;
    case O_SP_SHARE: snprintf(b, n, "share(sp%d->sp%d)", OA(o), OB(o)); break;
    case O_SP_SWAP: snprintf(b, n, "swap(sp%d,sp%d)", OA(o), OB(o)); break;
    case O_SP_RESET: snprintf(b, n, "reset(sp%d)", OA(o)); break;
    case O_WP_FROM: snprintf(b, n, "weak_from(wp%d,sp%d)", OA(o), OB(o)); break;
    case O_WP_LOCK: snprintf(b, n, "lock(wp%d->sp%d)", OA(o), OB(o)); break;
    case O_WP_RESET: snprintf(b, n, "weak_reset(wp%d)", OA(o)); break;
    case O_WP_SWAP: snprintf(b, n, "weak_swap(wp%d,wp%d)", OA(o), OB(o)); break;
    case O_UP_ALLOC: snprintf(b, n, "unique_alloc(up%d,16,clr,priv%d)", OA(o), OA(o)); break;
    case O_UP_ALLOC_NOCLR: snprintf(b, n, "unique_alloc(up%d,16,NULL)", OA(o)); break;
    case O_UP_ALLOC0: snprintf(b, n, "unique_alloc(up%d,0,clr)", OA(o)); break;
    case O_UP_RELEASE: snprintf(b, n, OB(o) ? "release(up%d,NULL,NULL)" : "release(up%d,&clr,&priv)", OA(o)); break;
    case O_UP_SWAP: snprintf(b, n, "unique_swap(up%d,up%d)", OA(o), OB(o)); break;
    default: snprintf(b, n, "unique_reset(up%d)", OA(o)); break;
    }
}
static int w_nontrivial(void) { int a; for (a = 0; a < nAL; a++) if (AL[a].used && AL[a].book_live && AL[a].owners + AL[a].weaks >= 2) return 1; return MODE && (m_up[0] >= 0 || m_up[1] >= 0); }
