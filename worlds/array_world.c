/* array world: C14 (array views never reach outside their buffer, which lives as long as any view) */
#include "cstl/array.h"
#define W_AUDIT_NEW_STATES_ONLY 1
#include "../engine/mc.h"

#define PC14 P(0)
#define PC20 P(1)      /* the converse half of C20: objects moved only with the library's own functions never abort */
static const char *w_name = "array";
static unsigned w_prop_bit(const char *id) { return !strcmp(id, "C14") ? PC14 : !strcmp(id, "C20") ? PC20 : 0; }

#define NOBJ 3
#define NEXT 2
#define MAXBUF 8
#define EXT_NM 4
static cstl_array_t A[NOBJ];
static unsigned char EXT[NEXT][EXT_NM * 8 + 16];
static size_t SZ_INT, SZ_EXT;
static char cfgdesc[256];

/* model */
struct mbuf { int live; int internal; int ext; size_t nm, sz; int refs; const void *data; int blk; };      /* blk: the allocation that holds the elements of an internal buffer */
static int gone_blk[16], ngone;      /* storage blocks of buffers whose last reference went away in the current operation */
static struct mbuf B[MAXBUF]; static int nB;
static struct { int buf; size_t off, len; } O[NOBJ];

enum { O_ALLOC = 1, O_SET, O_SLICE, O_UNSLICE, O_RESET, O_RELEASE };
enum { N_0, N_1, N_3, N_4, N_OVER, N_MAX, N_GIB, NNM };
static const char *nmname[] = { "0", "1", "3", "4", "SIZE_MAX/sz+1", "SIZE_MAX", "2^30/sz+1" };
enum { V_0, V_1, V_2, V_LEN_M1, V_LEN, V_LEN_P1, V_NM, V_NM_P1, V_MAX_M1, V_MAX, V_MAX_MOFF_P1, V_NM_MOFF, V_NM_MOFF_P1, NV };
static const char *vname[] = { "0", "1", "2", "len-1", "len", "len+1", "nm", "nm+1", "SIZE_MAX-1", "SIZE_MAX", "SIZE_MAX-off+1", "nm-off", "nm-off+1" };
#define OP(c, a, b, d, e) ((mc_op_t)((c) | ((a) << 4) | ((b) << 8) | ((d) << 16) | ((e) << 24)))
#define OC(o) ((o) & 0xf)
#define OA(o) (((o) >> 4) & 0xf)
#define OB(o) (((o) >> 8) & 0xff)
#define OD(o) (((o) >> 16) & 0xff)
#define OE(o) (((o) >> 24) & 0xff)

enum { K_REALLOC_SLICED, K_SLICE_INPLACE, K_SLICE_ABORT, K_SLICE_OPEN, K_ALLOC_UNREP, K_RELEASE_OK, K_RELEASE_SHARED, K_LAST_REF_DROP, K_SET_ON_SLICE };
static const char *w_counter_names[] = { "alloc_or_set_on_object_with_nonzero_offset", "slice_in_place", "slice_must_abort", "slice_past_len_inside_buffer_either_way", "alloc_unrepresentable_or_refused",
                                          "release_by_sole_user", "release_refused_shared_or_internal", "last_reference_dropped", "set_on_slice", NULL };

/* configurations: number of objects and how rich the alphabets are (the product of three unrestricted objects does not close in minutes) */
struct cfg { int nobj; size_t si, se; int nnm; int nms[NNM]; int next; int nbeg; int begs[8]; int nend; int ends[NV]; };
static const struct cfg quick_cfgs[] = {
    { 2, 4, 1, 7, { N_0, N_1, N_3, N_4, N_OVER, N_MAX, N_GIB }, 2, 6, { V_0, V_1, V_2, V_LEN, V_LEN_P1, V_MAX }, 13, { V_0, V_1, V_2, V_LEN_M1, V_LEN, V_LEN_P1, V_NM, V_NM_P1, V_MAX_M1, V_MAX, V_MAX_MOFF_P1, V_NM_MOFF, V_NM_MOFF_P1 } },
    { 2, 1, 8, 7, { N_0, N_1, N_3, N_4, N_OVER, N_MAX, N_GIB }, 2, 6, { V_0, V_1, V_2, V_LEN, V_LEN_P1, V_MAX }, 13, { V_0, V_1, V_2, V_LEN_M1, V_LEN, V_LEN_P1, V_NM, V_NM_P1, V_MAX_M1, V_MAX, V_MAX_MOFF_P1, V_NM_MOFF, V_NM_MOFF_P1 } },
    { 3, 8, 4, 3, { N_3, N_OVER, N_GIB }, 1, 2, { V_0, V_1 }, 6, { V_1, V_2, V_LEN, V_NM_MOFF, V_NM_MOFF_P1, V_MAX_MOFF_P1 } },
    { 3, 3, 2, 2, { N_4, N_MAX }, 1, 3, { V_0, V_2, V_LEN_P1 }, 5, { V_0, V_2, V_LEN_M1, V_NM, V_MAX } },
};
static const struct cfg thorough_cfgs[] = {
    { 2, 4, 1, 7, { N_0, N_1, N_3, N_4, N_OVER, N_MAX, N_GIB }, 2, 6, { V_0, V_1, V_2, V_LEN, V_LEN_P1, V_MAX }, 13, { V_0, V_1, V_2, V_LEN_M1, V_LEN, V_LEN_P1, V_NM, V_NM_P1, V_MAX_M1, V_MAX, V_MAX_MOFF_P1, V_NM_MOFF, V_NM_MOFF_P1 } },
    { 2, 1, 8, 7, { N_0, N_1, N_3, N_4, N_OVER, N_MAX, N_GIB }, 2, 6, { V_0, V_1, V_2, V_LEN, V_LEN_P1, V_MAX }, 13, { V_0, V_1, V_2, V_LEN_M1, V_LEN, V_LEN_P1, V_NM, V_NM_P1, V_MAX_M1, V_MAX, V_MAX_MOFF_P1, V_NM_MOFF, V_NM_MOFF_P1 } },
    { 2, 3, 2, 7, { N_0, N_1, N_3, N_4, N_OVER, N_MAX, N_GIB }, 2, 6, { V_0, V_1, V_2, V_LEN, V_LEN_P1, V_MAX }, 13, { V_0, V_1, V_2, V_LEN_M1, V_LEN, V_LEN_P1, V_NM, V_NM_P1, V_MAX_M1, V_MAX, V_MAX_MOFF_P1, V_NM_MOFF, V_NM_MOFF_P1 } },
    { 3, 8, 4, 4, { N_1, N_3, N_OVER, N_GIB }, 1, 3, { V_0, V_1, V_LEN }, 7, { V_1, V_2, V_LEN, V_NM, V_NM_MOFF, V_NM_MOFF_P1, V_MAX_MOFF_P1 } },
    { 3, 3, 2, 3, { N_0, N_4, N_MAX }, 2, 3, { V_0, V_2, V_LEN_P1 }, 6, { V_0, V_2, V_LEN_M1, V_NM, V_MAX, V_NM_P1 } },
    { 3, 2, 1, 2, { N_4, N_MAX }, 1, 4, { V_0, V_1, V_2, V_MAX }, 6, { V_1, V_2, V_LEN, V_LEN_P1, V_NM_MOFF_P1, V_MAX_M1 } },
};
static int NO;
static int w_nconfigs(int thorough) { return thorough ? (int)(sizeof thorough_cfgs / sizeof thorough_cfgs[0]) : (int)(sizeof quick_cfgs / sizeof quick_cfgs[0]); }
static int USE_MACRO;      /* odd configurations build the array objects with CSTL_ARRAY_INITIALIZER instead of cstl_array_init() */
static void w_setup(int cfg, int thorough)
{
    USE_MACRO = cfg & 1;
    int a, s, n, b, e;
    const struct cfg *c = thorough ? &thorough_cfgs[cfg] : &quick_cfgs[cfg];
    SZ_INT = c->si; SZ_EXT = c->se; NO = c->nobj;
    snprintf(cfgdesc, sizeof cfgdesc, "%d array objects, internal buffers of %zu-byte elements (%d element counts incl. unrepresentable), %d external buffer(s) of 4 %zu-byte elements, %d x %d slice bounds", NO, SZ_INT, c->nnm, c->next, SZ_EXT, c->nbeg, c->nend);
    w_nops = 0;
    for (a = 0; a < NO; a++) {
        for (n = 0; n < c->nnm; n++) w_ops[w_nops++] = OP(O_ALLOC, a, c->nms[n], 0, 0);
        for (e = 0; e < c->next; e++) w_ops[w_nops++] = OP(O_SET, a, e, 0, 0);
        for (s = 0; s < NO; s++) {
            for (b = 0; b < c->nbeg; b++) for (e = 0; e < c->nend; e++) w_ops[w_nops++] = OP(O_SLICE, a, s, c->begs[b], c->ends[e]);
            w_ops[w_nops++] = OP(O_UNSLICE, a, s, 0, 0);
        }
        w_ops[w_nops++] = OP(O_RESET, a, 0, 0, 0); w_ops[w_nops++] = OP(O_RELEASE, a, 0, 0, 0); w_ops[w_nops++] = OP(O_RELEASE, a, 1, 0, 0);       /* b == 1: no out-parameter */
    }
}
static const char *w_config_desc(void) { return cfgdesc; }

static void w_init(void)
{
    ngone = 0;
    int a;
    shim_reset();
    memset(EXT, 0xEE, sizeof EXT);
    nB = 0; memset(B, 0, sizeof B);
    for (a = 0; a < NO; a++) { memset(&A[a], 0xA5, sizeof A[a]); if (USE_MACRO) A[a] = (cstl_array_t)CSTL_ARRAY_INITIALIZER(A[a]); else cstl_array_init(&A[a]); O[a].buf = -1; O[a].off = O[a].len = 0; }
}

static size_t nmval(int n, size_t sz)
{
    switch (n) { case N_0: return 0; case N_1: return 1; case N_3: return 3; case N_4: return 4; case N_OVER: return SIZE_MAX / sz + 1; case N_MAX: return SIZE_MAX; default: return SHIM_REFUSE_ABOVE / sz + 1; }
}
static size_t vval(int v, int a)
{
    size_t len = O[a].len, off = O[a].off, nm = O[a].buf >= 0 ? B[O[a].buf].nm : 0;
    switch (v) {
    case V_0: return 0; case V_1: return 1; case V_2: return 2; case V_LEN_M1: return len - 1; case V_LEN: return len; case V_LEN_P1: return len + 1; case V_NM: return nm; case V_NM_P1: return nm + 1;
    case V_MAX_M1: return SIZE_MAX - 1; case V_MAX: return SIZE_MAX; case V_MAX_MOFF_P1: return SIZE_MAX - off + 1; case V_NM_MOFF: return nm - off; default: return nm - off + 1;
    }
}
/* the object is the only user of an external buffer: dropping that reference without release() is documented misuse */
/* (the header warns that an external buffer "must" be release()d, but the code never returns an external buffer to the heap: re-targeting or
 * resetting its last user only frees the descriptor, and the statement explicitly covers re-targeting -- so those histories are driven too) */
static int sole_ext(int a) { (void)a; return 0; }
static int ext_in_use(int e) { int b; for (b = 0; b < nB; b++) if (B[b].live && !B[b].internal && B[b].ext == e) return 1; return 0; }
static int live_bufs(void) { int b, n = 0; for (b = 0; b < nB; b++) n += B[b].live; return n; }

static int w_enabled(mc_op_t o)
{
    int a = OA(o), s = OB(o);
    switch (OC(o)) {
    case O_ALLOC: return !sole_ext(a) && (nB < MAXBUF);
    case O_SET: return !sole_ext(a) && nB < MAXBUF;      /* an external buffer may be described twice (two set calls on two objects): seed C14-7f */
    case O_SLICE:
        if (a != s && sole_ext(s)) return 0;
        if (OD(o) == V_LEN_M1 || OE(o) == V_LEN_M1) { if (O[a].len == 0) return 0; }
        return 1;
    case O_UNSLICE: return !(a != s && sole_ext(s));
    case O_RESET: return !sole_ext(a);
    default: return 1;
    }
}

static void m_drop(int a)
{
    int b = O[a].buf;
    if (b >= 0) { if (--B[b].refs == 0) { B[b].live = 0; MC_COUNT(K_LAST_REF_DROP); if (B[b].internal && B[b].blk >= 0 && B[b].nm * B[b].sz > 0 && ngone < 16) gone_blk[ngone++] = B[b].blk;      /* a buffer of zero bytes has no storage of its own to give back */ } }
    O[a].buf = -1; O[a].off = O[a].len = 0;
}
static int m_newbuf(int internal, int ext, size_t nm, size_t sz)
{
    int b, i;
    /* compact: reuse dead slots so that buffer numbering stays bounded */
    for (b = 0; b < nB; b++) if (!B[b].live) break;
    if (b == nB) nB++;
    B[b].live = 1; B[b].internal = internal; B[b].ext = ext; B[b].nm = nm; B[b].sz = sz; B[b].refs = 0; B[b].data = NULL; B[b].blk = -1;
    (void)i;
    return b;
}

static void check_accounting(const char *when)
{
    /* every live buffer descriptor is one bookkeeping block + one managed block; nothing else may be alive */
    /* the statement fixes WHEN the underlying allocation goes away, not how many blocks implement it: between one and two live blocks per
     * referenced buffer (today: bookkeeping block + descriptor/payload block), none when nothing is referenced */
    int g;
    MC_CHECK(PC14, shim_nlive() >= live_bufs(), "%s: %d allocations alive for %d buffer(s) still referenced (at least one per buffer; how many blocks a buffer uses is the library's business)", when, shim_nlive(), live_bufs());
    /* "released exactly once afterwards": the allocation that held the elements of a buffer must be gone as soon as no array object refers to the buffer
     * (the allocation layer reports a second release).  Bookkeeping the library keeps for itself - a cached control block, say - is not the buffer. */
    for (g = 0; g < ngone; g++) {
        /* ... unless the library has meanwhile made the same block the storage of a buffer that IS referenced (a re-allocation of an unshared
         * buffer of the same byte size may legally reuse the block instead of freeing and allocating) */
        int b2, reused = 0;
        for (b2 = 0; b2 < (int)(sizeof B / sizeof B[0]); b2++) if (B[b2].live && B[b2].internal && B[b2].blk == gone_blk[g]) reused = 1;
        if (reused) continue;
        MC_CHECK(PC14, !shim_blks[gone_blk[g]].live, "%s: the storage of a buffer that no array object refers to any more is still allocated (%zu bytes)", when, shim_blks[gone_blk[g]].sz);
    }
    MC_CHECK(PC14, shim_errors == 0, "%s: a pointer was passed to free() that is not a live allocation of the library (double or foreign free)", when);
}

static void w_apply(mc_op_t o)
{
    ngone = 0;
    int a = OA(o), ab = 0, code = OC(o);
    switch (code) {
    case O_ALLOC: {
        size_t nm = nmval(OB(o), SZ_INT);
        unsigned __int128 bytes = (unsigned __int128)nm * SZ_INT + 24;
        int ok = bytes <= SHIM_REFUSE_ABOVE;
        if (O[a].off > 0) MC_COUNT(K_REALLOC_SLICED);
        if (!ok) MC_COUNT(K_ALLOC_UNREP);
        SHIM_CALL(ab, cstl_array_alloc(&A[a], nm, SZ_INT));
        m_drop(a);
        if (ok) { int b = m_newbuf(1, -1, nm, SZ_INT); B[b].refs = 1; O[a].buf = b; O[a].off = 0; O[a].len = nm;
                  if (!ab) { const char *d = cstl_array_data(&A[a]); shim_blk *sb = d ? shim_find(d) : NULL; if (d && !sb) sb = shim_find(d - 1); B[b].blk = sb ? (int)(sb - shim_blks) : -1; } }
        if (!ab && !ok) MC_CHECK(PC14, cstl_array_size(&A[a]) == 0 && cstl_array_data(&A[a]) == NULL, "alloc(%s elements) cannot be provided and must leave the object empty, but size is %zu / data %p", nmname[OB(o)], cstl_array_size(&A[a]), cstl_array_data(&A[a]));
        break;
    }
    case O_SET: {
        int e = OB(o), b;
        if (O[a].off > 0) { MC_COUNT(K_REALLOC_SLICED); MC_COUNT(K_SET_ON_SLICE); }
        SHIM_CALL(ab, cstl_array_set(&A[a], EXT[e], EXT_NM, SZ_EXT));
        m_drop(a);
        b = m_newbuf(0, e, EXT_NM, SZ_EXT); B[b].refs = 1; O[a].buf = b; O[a].off = 0; O[a].len = EXT_NM;
        break;
    }
    case O_SLICE: {
        int s = OB(o); size_t beg = vval(OD(o), a), end = vval(OE(o), a);
        size_t nm = O[a].buf >= 0 ? B[O[a].buf].nm : 0, off = O[a].off, len = O[a].len;
        int must_abort, open = 0;
        /* exact arithmetic: the requested range is [off+beg, off+end) of a buffer of nm elements */
        must_abort = end < beg || (unsigned __int128)off + end > nm;
        if (O[a].buf < 0) { must_abort = !(beg == 0 && end == 0); open = (beg == 0 && end == 0); }     /* no buffer: only the empty range could be served; aborting is accepted too */
        else if (!must_abort && end > len) open = 1;       /* past the object's own length but inside the buffer: the statement leaves it open */
        if (a == s) MC_COUNT(K_SLICE_INPLACE);
        if (must_abort) MC_COUNT(K_SLICE_ABORT); else if (open) MC_COUNT(K_SLICE_OPEN);
        SHIM_CALL(ab, cstl_array_slice(&A[a], beg, end, &A[s]));
        if (ab == 2) break;
        if (must_abort) {
            MC_CHECK(PC14, ab == 1, "slice(beg=%s=%zu, end=%s=%zu) of an object with offset %zu, length %zu in a buffer of %zu elements must abort but returned", vname[OD(o)], beg, vname[OE(o)], end, off, len, nm);
            if (ab == 1) { mc_terminal = 1; ab = 0; }
            break;
        }
        if (ab == 1) {
            MC_CHECK(PC14 | PC20, open, "slice(beg=%s=%zu, end=%s=%zu) of an object with offset %zu, length %zu in a buffer of %zu elements is in range but aborted", vname[OD(o)], beg, vname[OE(o)], end, off, len, nm);
            if (open) mc_terminal = 1;
            ab = 0;
            break;
        }
        if (O[a].buf < 0) { if (a != s) m_drop(s); break; }        /* empty range of an empty object was accepted: target becomes/stays empty */
        if (a != s) { int b = O[a].buf; m_drop(s); O[s].buf = b; B[b].refs++; }
        O[s].off = off + beg; O[s].len = end - beg;
        break;
    }
    case O_UNSLICE: {
        int s = OB(o);      /* unslice(A[a] -> A[s]): A[s] refers to the whole buffer of A[a] */
        SHIM_CALL(ab, cstl_array_unslice(&A[a], &A[s]));
        if (O[a].buf < 0) {
            MC_CHECK(PC14, ab == 1 || ab == 2, "unslice of an object without a buffer returned");
            if (ab == 1) { mc_terminal = 1; ab = 0; }
            break;
        }
        if (ab) break;
        if (a != s) { int b = O[a].buf; m_drop(s); O[s].buf = b; B[b].refs++; }
        O[s].off = 0; O[s].len = B[O[s].buf].nm;
        break;
    }
    case O_RESET:
        SHIM_CALL(ab, cstl_array_reset(&A[a]));
        m_drop(a);
        break;
    case O_RELEASE: {
        static void * volatile out; int b = O[a].buf;
        out = (void *)&out;
        SHIM_CALL(ab, cstl_array_release(&A[a], OB(o) ? NULL : (void **)&out));
        if (ab) break;
        if (OB(o)) out = (b >= 0 && !B[b].internal && B[b].refs == 1) ? (void *)EXT[B[b].ext] : NULL;      /* "this parameter may be NULL": same effect, nothing reported */
        if (b >= 0 && !B[b].internal && B[b].refs == 1) {
            MC_COUNT(K_RELEASE_OK);
            MC_CHECK(PC14, out == (void *)EXT[B[b].ext], "release by the sole user of external buffer %d returned %p instead of the buffer", B[b].ext, out);
            m_drop(a);
        } else {
            if (b >= 0) MC_COUNT(K_RELEASE_SHARED);
            MC_CHECK(PC14, out == NULL, "release on %s returned a non-NULL pointer", b < 0 ? "an empty object" : B[b].internal ? "an internally allocated buffer" : "an external buffer that other objects still use");
        }
        break;
    }
    }
    if (ab) MC_CHECK(PC14 | PC20, 0, "unexpected %s inside the library: %s", ab == 3 ? "non-termination (a library call still running after 3 s)" : ab == 2 ? "assertion failure" : "abort()", ab == 2 ? shim_assert_msg : "");
    else if (mc_checking && !mc_terminal) check_accounting("after the operation");
}

static void w_audit(void)
{
    int a, k, ab;
    for (a = 0; a < NO; a++) {
        int b = O[a].buf; const unsigned char *data; size_t idx[8]; int ni = 0;
        static void * volatile e;
        MC_CHECK(PC14, cstl_array_size(&A[a]) == O[a].len, "object %d: size() = %zu, reference view has %zu elements", a, cstl_array_size(&A[a]), O[a].len);
        SHIM_CALL(ab, e = cstl_array_data(&A[a]));
        if (ab) { MC_CHECK(PC14 | PC20, 0, "object %d: data() aborted on a properly handled object", a); return; }
        data = e;
        if (b < 0) MC_CHECK(PC14, data == NULL, "object %d refers to no buffer but data() is %p", a, (void *)data);
        else {
            if (B[b].internal) {
                shim_blk *blk = shim_find(data) ? shim_find(data) : shim_find(data - 1);    /* a 0-element buffer starts one past its descriptor */
                MC_CHECK(PC14, blk != NULL && (uintptr_t)data + B[b].nm * B[b].sz <= (uintptr_t)blk->p + blk->sz, "object %d: the %zu x %zu-byte buffer is not inside a live allocation", a, B[b].nm, B[b].sz);
            } else MC_CHECK(PC14, data == EXT[B[b].ext], "object %d: data() is not the external buffer that was supplied", a);
            if (B[b].data == NULL) B[b].data = data;
        }
        if (mc_branch_dead) return;
        if (O[a].len > 0) { idx[ni++] = 0; idx[ni++] = O[a].len - 1; }
        idx[ni++] = O[a].len; idx[ni++] = SIZE_MAX;
        if (b >= 0 && B[b].sz > 1) idx[ni++] = SIZE_MAX / B[b].sz + 1;                    /* (off+i)*sz would wrap to a small offset */
        if (O[a].off > 0) idx[ni++] = SIZE_MAX - O[a].off + 1;                            /* off+i would wrap to 0 */
        for (k = 0; k < ni; k++) {
            e = NULL;
            SHIM_CALL(ab, e = cstl_array_at(&A[a], idx[k]));
            if (idx[k] < O[a].len) {
                const unsigned char *want = data + (O[a].off + idx[k]) * B[b].sz;
                MC_CHECK(PC14 | PC20, ab == 0, "object %d: at(%zu) aborted although the view has %zu elements", a, idx[k], O[a].len);
                if (!ab) MC_CHECK(PC14, e == (void *)want && want + B[b].sz <= data + B[b].nm * B[b].sz, "object %d (offset %zu, length %zu, buffer of %zu elements): at(%zu) is %td bytes from the buffer start, expected %td (inside %zu bytes)",
                                  a, O[a].off, O[a].len, B[b].nm, idx[k], (const unsigned char *)e - data, want - data, B[b].nm * B[b].sz);
            } else MC_CHECK(PC14, ab == 1, "object %d: at(%zu) with %zu elements in view must abort but %s", a, idx[k], O[a].len, ab ? "hit an assertion" : "returned");
        }
        if (mc_branch_dead) return;
    }
    check_accounting("state audit");
}

/* canonical key: every byte of the array objects and of every heap block reachable from them (descriptor, reference counters, elements' storage),
 * with no member of the library's structs mentioned by name; addresses become names: array object index + offset, external buffer + offset,
 * heap block class (numbered by first appearance) + offset */
static int blk_cls[SHIM_MAXBLK], blk_queue[64], blk_nq;
static int arr_sym(uintptr_t v)
{
    shim_blk *b;
    if (v >= (uintptr_t)EXT && v < (uintptr_t)EXT + sizeof EXT) { KB_C('E'); KB_U((unsigned long)(v - (uintptr_t)EXT)); return 1; }
    if (v >= (uintptr_t)A && v < (uintptr_t)(A + NOBJ)) { size_t d = v - (uintptr_t)A; KB_C('a'); KB_U(d / sizeof A[0]); KB_C('+'); KB_U(d % sizeof A[0]); return 1; }
    if (v > 0x10000 && ((b = shim_find((const void *)v)) != NULL || (b = shim_find((const void *)(v - 1))) != NULL)) {
        int bi = (int)(b - shim_blks);
        if (blk_cls[bi] < 0) { blk_cls[bi] = blk_nq; if (blk_nq < 64) blk_queue[blk_nq] = bi; blk_nq++; }
        KB_C('B'); KB_U((unsigned)blk_cls[bi]); KB_C('+'); KB_U((unsigned long)(v - (uintptr_t)b->p)); return 1;
    }
    return 0;
}
static void w_canon(void)
{
    int a, k;
    for (k = 0; k < shim_nblk && k < SHIM_MAXBLK; k++) blk_cls[k] = -1;
    blk_nq = 0;
    for (a = 0; a < NO; a++) {
        KB_C('A'); KB_MEM(&A[a], sizeof A[a], arr_sym);
        KB_C('M'); KB_U(O[a].off); KB_C('#'); KB_U(O[a].len); KB_C(O[a].buf >= 0 ? 'b' : '-');
        if (O[a].len > 0 && cstl_array_size(&A[a]) == O[a].len) {
            /* what the descriptor says (element size, base): distance of the first and last visible element from data() */
            static void * volatile e0, * volatile e1, * volatile d; int ab;
            SHIM_CALL(ab, (d = cstl_array_data(&A[a]), e0 = cstl_array_at(&A[a], 0), e1 = cstl_array_at(&A[a], O[a].len - 1)));
            if (ab) KB_C('!'); else { KB_C('@'); KB_I((char *)e0 - (char *)d); KB_C(','); KB_I((char *)e1 - (char *)d); }
        }
        if (O[a].buf >= 0) { KB_C(B[O[a].buf].internal ? 'i' : 'e'); if (!B[O[a].buf].internal) KB_U((unsigned)B[O[a].buf].ext); KB_C('n'); KB_U(B[O[a].buf].nm); KB_C('r'); KB_U((unsigned)B[O[a].buf].refs); }
    }
    /* the blocks, in order of first appearance (a block may name further blocks) */
    for (k = 0; k < blk_nq && k < 64; k++) { shim_blk *b = &shim_blks[blk_queue[k]]; KB_C('{'); KB_U(b->sz); KB_C(':'); KB_MEM(b->p, b->sz < 256 ? b->sz : 256, arr_sym); KB_C('}'); }
}
static void w_opname(mc_op_t o, char *b, size_t n)
{
    switch (OC(o)) {
    case O_ALLOC: snprintf(b, n, "alloc(a%d,%s,%zu)", OA(o), nmname[OB(o)], SZ_INT); break;
    case O_SET: snprintf(b, n, "set(a%d,ext%d,4,%zu)", OA(o), OB(o), SZ_EXT); break;
    case O_SLICE: snprintf(b, n, "slice(a%d,%s,%s,->a%d)", OA(o), vname[OD(o)], vname[OE(o)], OB(o)); break;
    case O_UNSLICE: snprintf(b, n, "unslice(a%d,->a%d)", OA(o), OB(o)); break;
    case O_RESET: snprintf(b, n, "reset(a%d)", OA(o)); break;
    default: snprintf(b, n, OB(o) ? "release(a%d,NULL)" : "release(a%d,&p)", OA(o)); break;
    }
}
static int w_nontrivial(void) { int a, c = 0; for (a = 0; a < NO; a++) c += O[a].off > 0; return c > 0; }
