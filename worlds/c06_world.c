/* C06 world: reference counting under every thread interleaving.  Scenario bodies run as coroutines under engine/sched.c;
 * src/memory.c is compiled unmodified with -fsanitize=thread (instrumentation only). */
#define _GNU_SOURCE
#include "cstl/memory.h"
#include "../engine/sched.h"
#include <stdio.h>
#include <stdlib.h>
#include <string.h>
#include <time.h>

enum { P_RESET_OWN, P_SHARE, P_LOCK, P_WEAKFROM, P_WEAKRESET, P_UNIQUE, P_REALLOC, NPOPS };
static const char *popname[] = { "reset(own)", "share(own->tmp);reset(tmp)", "lock(w->tmp);get;reset(tmp)", "weak_from(own->w2);weak_reset(w2)", "weak_reset(w)", "unique(own)", "alloc(own)" };
enum { OWN, TMP };

struct tl { cstl_shared_ptr_t own, tmp; cstl_weak_ptr_t w, w2; };
static struct world {
    struct tl t[SX_MAXT];
    cstl_shared_ptr_t main_sp;
    int hold[SX_MAXT][2]; unsigned holdgen[SX_MAXT][2];
    int cleared, mem_freed, book_freed;
    void *mem, *book;
    int lock_ok[SX_MAXT], lock_fail[SX_MAXT], uniq_true[SX_MAXT];
    int w_set[SX_MAXT];
    void *pmem[SX_MAXT]; int pallocs, pcleared;      /* allocations a thread made into its own owning pointer (alloc(own)): each is private to that thread */
} W;

/* the scenario being run */
static struct { int nthreads; int has_own[SX_MAXT], has_w[SX_MAXT]; int plen[SX_MAXT]; int prog[SX_MAXT][4]; } S;
static char sname[400];

static void holders_must_be_gone(const char *what)
{
    int t, s;
    for (t = 0; t < S.nthreads; t++) for (s = 0; s < 2; s++)
        if (W.hold[t][s]) sx_fail("%s while thread %d still holds an owning shared pointer (%s)", what, t, s == OWN ? "own" : "tmp");
}
static void on_clear(void *mem, void *priv)
{
    (void)priv;
    W.cleared++;
    if (mem != W.mem) sx_fail("clear callback called with %p, the managed memory is %p", mem, W.mem);
    if (W.cleared > 1) sx_fail("clear callback ran %d times", W.cleared);
    { const sx_block *b = sx_block_of(mem); if (!b || b->freed) sx_fail("clear callback ran on memory that is already freed"); }
    holders_must_be_gone("the managed memory was cleared");
}
static void on_clear_private(void *mem, void *priv)
{
    int t, hit = 0;
    (void)priv;
    W.pcleared++;
    if (mem == W.mem) sx_fail("the clear callback of a thread's private allocation was called with the shared managed memory");
    for (t = 0; t < S.nthreads; t++) if (W.pmem[t] == mem) { hit = 1; W.pmem[t] = NULL; }
    if (!hit) sx_fail("the clear callback of a private allocation was called with %p, which no thread's owning pointer manages (any more)", mem);
    { const sx_block *b = sx_block_of(mem); if (!b || b->freed) sx_fail("the clear callback of a private allocation ran on memory that is already freed"); }
}
static void on_free(const sx_block *b)
{
    if (b == sx_block_of(W.mem)) {      /* the block that holds the managed memory (wherever in it the memory starts) */ W.mem_freed++; if (!W.cleared) sx_fail("the managed memory was freed before its clear callback ran"); holders_must_be_gone("the managed memory was freed"); }
    else W.book_freed++;               /* any other block the library allocated is bookkeeping */
}

static void setup(void)
{
    int t;
    memset(&W, 0, sizeof W);
    sx_on_free = on_free;
    cstl_shared_ptr_init(&W.main_sp);
    for (t = 0; t < SX_MAXT; t++) { cstl_shared_ptr_init(&W.t[t].own); cstl_shared_ptr_init(&W.t[t].tmp); cstl_weak_ptr_init(&W.t[t].w); cstl_weak_ptr_init(&W.t[t].w2); }
    cstl_shared_ptr_alloc(&W.main_sp, 16, on_clear);
    W.mem = cstl_shared_ptr_get(&W.main_sp);
    memset(W.mem, 0x11, 16);
    for (t = 0; t < S.nthreads; t++) {
        if (S.has_own[t]) { cstl_shared_ptr_share(&W.main_sp, &W.t[t].own); W.hold[t][OWN] = 1; }
        if (S.has_w[t]) { cstl_weak_ptr_from(&W.t[t].w, &W.main_sp); W.w_set[t] = 1; }
    }
    cstl_shared_ptr_reset(&W.main_sp);
}

/* the thread's own probe of the managed memory: a liveness check, not a participant in race detection */
static void touch(int t, void *m)
{
    const sx_block *b = sx_block_of(m);
    if (m != W.mem) sx_fail("thread %d: an owning pointer reports address %p, the managed memory is %p", t, m, W.mem);
    else if (!b || b->freed) sx_fail("thread %d: a lock yielded an owner of memory that is already freed", t);
    else if (W.cleared) sx_fail("thread %d: a lock yielded an owner of memory whose clear callback has already run", t);
}
static void drop(int t, int slot, cstl_shared_ptr_t *sp)
{
    if (W.hold[t][slot]) { W.hold[t][slot] = 0; W.holdgen[t][slot]++; }
    cstl_shared_ptr_reset(sp);
}
static void body(int t)
{
    struct tl *L = &W.t[t]; int i;
    for (i = 0; i < S.plen[t]; i++) {
        switch (S.prog[t][i]) {
        case P_RESET_OWN: drop(t, OWN, &L->own); break;
        case P_SHARE:
            cstl_shared_ptr_share(&L->own, &L->tmp);
            if (W.pmem[t]) {      /* own manages the thread's private allocation now */
                if (cstl_shared_ptr_get(&L->tmp) != W.pmem[t]) sx_fail("thread %d: sharing its private allocation yields %p, it manages %p", t, cstl_shared_ptr_get(&L->tmp), W.pmem[t]);
                cstl_shared_ptr_reset(&L->tmp);
                break;
            }
            if (cstl_shared_ptr_get(&L->tmp) != NULL) { W.hold[t][TMP] = 1; touch(t, cstl_shared_ptr_get(&L->tmp)); }
            drop(t, TMP, &L->tmp);
            break;
        case P_LOCK: {
            int u, s, cover[SX_MAXT][2], was_cleared = W.cleared; void *m;
            for (u = 0; u < S.nthreads; u++) for (s = 0; s < 2; s++) cover[u][s] = (u != t && W.hold[u][s]) ? (int)W.holdgen[u][s] : -1;
            cstl_weak_ptr_lock(&L->w, &L->tmp);
            m = cstl_shared_ptr_get(&L->tmp);
            if (m != NULL) {
                W.lock_ok[t]++;
                if (was_cleared) sx_fail("thread %d: a lock invoked after the clear callback had run yielded an owner", t);
                touch(t, m);
                W.hold[t][TMP] = 1;
            } else {
                W.lock_fail[t]++;
                if (W.w_set[t])       /* the weak pointer refers to the shared memory (it was set up so and this thread has not reset it) */
                    for (u = 0; u < S.nthreads; u++) for (s = 0; s < 2; s++)
                        if (cover[u][s] >= 0 && W.hold[u][s] && (int)W.holdgen[u][s] == cover[u][s])
                            sx_fail("thread %d: lock returned no owner although thread %d held an owner during the whole call", t, u);
            }
            drop(t, TMP, &L->tmp);
            break;
        }
        case P_WEAKFROM: cstl_weak_ptr_from(&L->w2, &L->own); cstl_weak_ptr_reset(&L->w2); break;
        case P_WEAKRESET: W.w_set[t] = 0; cstl_weak_ptr_reset(&L->w); break;
        case P_UNIQUE:
            if (cstl_shared_ptr_unique(&L->own)) W.uniq_true[t]++;
            else if (W.pmem[t]) sx_fail("thread %d: the only owner of its private allocation is not unique", t);
            break;
        case P_REALLOC: {
            /* re-targeting: the thread lets go of whatever own manages and makes it manage a new allocation of its own.  The other owners of
             * the shared memory must be unaffected: the new memory must be a different, live block that nobody else sees. */
            void *m; const sx_block *b; int u;
            if (W.hold[t][OWN]) { W.hold[t][OWN] = 0; W.holdgen[t][OWN]++; }
            cstl_shared_ptr_alloc(&L->own, 40, on_clear_private);       /* another size than the shared memory: nothing invites the library to recycle that block */
            m = cstl_shared_ptr_get(&L->own);
            W.pallocs++;
            if (m == NULL) { sx_fail("thread %d: alloc(own) left the pointer empty although no allocation failed", t); break; }
            b = sx_block_of(m);
            if (!b || b->freed) sx_fail("thread %d: alloc(own) manages memory that is not a live allocation", t);
            if (m == W.mem && !W.mem_freed) sx_fail("thread %d: alloc(own) handed out the shared managed memory again although it has not been freed", t);
            for (u = 0; u < S.nthreads; u++) if (u != t && W.pmem[u] == m) sx_fail("thread %d: alloc(own) handed out the memory thread %d's private allocation occupies", t, u);
            W.pmem[t] = m;
            memset(m, 0x22, 40);
            break;
        }
        }
    }
    /* every thread finally lets go of everything it holds */
    drop(t, TMP, &L->tmp); drop(t, OWN, &L->own);
    cstl_weak_ptr_reset(&L->w2); cstl_weak_ptr_reset(&L->w);
}
static void at_end(void)
{
    int i;
    if (W.cleared != 1) sx_fail("at the end the clear callback has run %d times (expected exactly once)", W.cleared);
    if (W.mem_freed != 1) sx_fail("at the end the managed memory has been freed %d times (expected exactly once)", W.mem_freed);
    if (W.pcleared != W.pallocs) sx_fail("at the end %d private allocations were made and %d were cleared", W.pallocs, W.pcleared);
    for (i = 0; i < sx_nblocks(); i++) if (!sx_block_at(i)->freed) sx_fail("block #%d (%zu bytes) is still allocated after every pointer was reset", i, sx_block_at(i)->size);
}

/* ---------------- scenario enumeration ---------------- */
/* programs of length <= L over the NPOPS operations, numbered 0..nprog(L)-1 */
static int nprog(int L) { int n = 0, p = 1, l; for (l = 0; l <= L; l++) { n += p; p *= NPOPS; } return n; }
static void decode_prog(int id, int *len, int *ops)
{
    int l = 0, p = 1, i;
    while (id >= p) { id -= p; p *= NPOPS; l++; }
    *len = l;
    for (i = l - 1; i >= 0; i--) { ops[i] = id % NPOPS; id /= NPOPS; }
}
static const int cfg2[4][2][2] = { { { 1, 0 }, { 1, 0 } }, { { 1, 0 }, { 0, 1 } }, { { 1, 1 }, { 0, 1 } }, { { 1, 0 }, { 1, 1 } } };       /* [cfg][thread][own,w] */
static const int cfg3[4][3][2] = { { { 1, 0 }, { 0, 1 }, { 0, 1 } }, { { 1, 0 }, { 1, 0 }, { 0, 1 } }, { { 1, 1 }, { 0, 1 }, { 0, 1 } }, { { 1, 0 }, { 1, 1 }, { 0, 1 } } };
static const int cfg4[2][4][2] = { { { 1, 0 }, { 0, 1 }, { 0, 1 }, { 0, 1 } }, { { 1, 0 }, { 1, 0 }, { 0, 1 }, { 0, 1 } } };
static const int ops4[4] = { P_RESET_OWN, P_SHARE, P_LOCK, P_WEAKRESET };
static long skipped_heavy;
static int LA, LB, L3;                 /* program length bounds: 2-thread scenarios (thread A, thread B), 3-thread scenarios */
static long n2, n3, n3b, n4, ntotal; static int thorough;

static void count_scenarios(void)
{
    LA = thorough ? 3 : 2; LB = thorough ? 3 : 2; L3 = 1;
    n2 = 4L * nprog(LA) * nprog(LB);
    n3 = thorough ? 4L * nprog(1) * nprog(1) * nprog(2) : 4L * NPOPS * NPOPS * NPOPS;
    n3b = thorough ? 4L * 6 * 6 : 4L * 2;    /* 3 threads, the last-owner reset against two lockers with longer programs */
    n4 = thorough ? 2L * NPOPS * NPOPS * NPOPS * NPOPS : 2;
    ntotal = n2 + n3 + n3b + n4;
}
static void load_scenario(long id)
{
    int t, k; char *p = sname;
    memset(&S, 0, sizeof S);
    if (id < n2) {
        int c = (int)(id % 4), a, b; id /= 4; a = (int)(id % nprog(LA)); b = (int)(id / nprog(LA));
        S.nthreads = 2;
        for (t = 0; t < 2; t++) { S.has_own[t] = cfg2[c][t][0]; S.has_w[t] = cfg2[c][t][1]; }
        decode_prog(a, &S.plen[0], S.prog[0]); decode_prog(b, &S.plen[1], S.prog[1]);
    } else if (id < n2 + n3) {
        int c; id -= n2; c = (int)(id % 4); id /= 4;
        S.nthreads = 3;
        for (t = 0; t < 3; t++) { S.has_own[t] = cfg3[c][t][0]; S.has_w[t] = cfg3[c][t][1]; }
        if (!thorough) for (t = 0; t < 3; t++) { S.plen[t] = 1; S.prog[t][0] = (int)(id % NPOPS); id /= NPOPS; }
        else { decode_prog((int)(id % nprog(1)), &S.plen[0], S.prog[0]); id /= nprog(1); decode_prog((int)(id % nprog(1)), &S.plen[1], S.prog[1]); id /= nprog(1); decode_prog((int)id, &S.plen[2], S.prog[2]); }
    } else if (id < n2 + n3 + n3b) {
        int c; id -= n2 + n3; c = (int)(id % 4); id /= 4;
        S.nthreads = 3;
        for (t = 0; t < 3; t++) { S.has_own[t] = cfg3[c][t][0]; S.has_w[t] = cfg3[c][t][1]; }
        S.plen[0] = 1; S.prog[0][0] = P_RESET_OWN;
        if (!thorough) { for (t = 1; t < 3; t++) { S.plen[t] = 2; S.prog[t][0] = P_LOCK; S.prog[t][1] = id ? P_LOCK : P_WEAKRESET; } }
        else { for (t = 1; t < 3; t++) { S.plen[t] = 2; S.prog[t][0] = P_LOCK; S.prog[t][1] = (int)(id % 6); id /= 6; } }
    } else {
        int c; id -= n2 + n3 + n3b; c = (int)(id % 2); id /= 2;
        S.nthreads = 4;
        for (t = 0; t < 4; t++) { S.has_own[t] = cfg4[c][t][0]; S.has_w[t] = cfg4[c][t][1]; S.plen[t] = 1; }
        if (!thorough) { S.prog[0][0] = P_RESET_OWN; S.prog[1][0] = c ? P_RESET_OWN : P_LOCK; S.prog[2][0] = P_LOCK; S.prog[3][0] = c ? P_LOCK : P_WEAKRESET; }
        else for (t = 0; t < 4; t++) { S.prog[t][0] = (int)(id % NPOPS); id /= NPOPS; }
    }
    for (t = 0; t < S.nthreads; t++) {
        p += sprintf(p, "%sT%d[%s%s%s]{", t ? " || " : "", t, S.has_own[t] ? "owner" : "", S.has_own[t] && S.has_w[t] ? "+" : "", S.has_w[t] ? "weak" : "");
        for (k = 0; k < S.plen[t]; k++) p += sprintf(p, "%s%s", k ? "; " : "", popname[S.prog[t][k]]);
        p += sprintf(p, "}");
    }
}
static const sx_scenario SCN = { sname, 0, setup, body, at_end, &W, sizeof W };
static sx_scenario scn;

static void jstr(FILE *f, const char *s) { fputc('"', f); for (; *s; s++) { if (*s == '"' || *s == '\\') fputc('\\', f); if ((unsigned char)*s >= 0x20) fputc(*s, f); } fputc('"', f); }
static double now(void) { struct timespec ts; clock_gettime(CLOCK_MONOTONIC, &ts); return ts.tv_sec + ts.tv_nsec * 1e-9; }

int main(int argc, char **argv)
{
    int i, shard = 0, nshards = 16; const char *replay = NULL, *prop = NULL; double deadline = 0, t0 = now();
    unsigned long tot_states = 0, tot_trans = 0, tot_exec = 0, tot_complete = 0, tot_pruned = 0, scen = 0, multi_outcome = 0, maxdepth = 0, nonseq = 0, yields = 0, capped = 0, contended = 0;
    int exhaustive = 1; long id; static sx_violation v; int nviol = 0; long viol_id = -1;
    char samples[3][400]; int nsamples = 0;
    setvbuf(stdout, NULL, _IOFBF, 1 << 16);
    for (i = 1; i < argc; i++) {
        if (!strcmp(argv[i], "--prop") && i + 1 < argc) prop = argv[++i];
        else if (!strcmp(argv[i], "--config") && i + 1 < argc) shard = atoi(argv[++i]);
        else if (!strcmp(argv[i], "--thorough")) thorough = 1;
        else if (!strcmp(argv[i], "--replay") && i + 1 < argc) replay = argv[++i];
        else if (!strcmp(argv[i], "--progress") && i + 1 < argc) sx_progress_open(argv[++i]);
        else if (!strcmp(argv[i], "--deadline") && i + 1 < argc) deadline = atof(argv[++i]);
        else if (!strcmp(argv[i], "--nconfigs")) { printf("%d\n", nshards); return 0; }
        else { fprintf(stderr, "bad arg %s\n", argv[i]); return 2; }
    }
    if (!prop || (strcmp(prop, "C06") && strcmp(prop, "C20"))) { fprintf(stderr, "c06: property not served\n"); return 2; }
    sx_only_abort = !strcmp(prop, "C20");
    count_scenarios();
    scn = SCN;
    if (replay) {
        static int sched[SX_MAXSTEPS]; int n = 0, rc; const char *c = strchr(replay, ':');
        id = atol(replay); load_scenario(id); scn.nthreads = S.nthreads;
        if (c) for (c++; *c; ) { char *e; long x = strtol(c, &e, 10); if (e == c) break; sched[n++] = (int)x; c = *e == ',' ? e + 1 : e; }
        printf("scenario %ld: %s\n", id, sname);
        rc = sx_replay(&scn, sched, n, 1);
        printf(rc == 1 ? "VIOLATED: %s\n" : rc == 4 ? "DIVERGED: %s\n" : "no violation%s\n", rc ? sx_last_msg() : "");
        return rc;
    }
    for (id = shard; id < ntotal; id += nshards) {
        sx_stats st; int rc;
        memset(&st, 0, sizeof st);
        load_scenario(id); scn.nthreads = S.nthreads;
        /* alloc(own) is by far the longest operation (two allocations and their initialisation are all scheduling points).  It is explored in every
         * scenario of the quick family (2 threads with programs up to 2 x 2, 3 threads with one operation each); the additional families of the thorough tier
         * (a program of length 3, 3 threads with a program of length 2, 4 threads) are explored over the six other operations */
        if (thorough) {
            int t2, k2, heavy = 0, has = 0, maxlen = 0;
            for (t2 = 0; t2 < S.nthreads; t2++) { if (S.plen[t2] > maxlen) maxlen = S.plen[t2]; for (k2 = 0; k2 < S.plen[t2]; k2++) if (S.prog[t2][k2] == P_REALLOC) has = 1; }
            if (has && (maxlen >= 3 || (S.nthreads == 3 && maxlen >= 2) || S.nthreads >= 4)) heavy = 1;
            if (heavy) { skipped_heavy++; continue; }
        }
        { char pf[32]; snprintf(pf, sizeof pf, "%ld:", id); sx_progress_prefix(pf); }
        rc = sx_explore(&scn, &st, &v, deadline > 0 ? deadline - (now() - t0) : 0, -1);
        scen++; tot_states += st.states; tot_trans += st.transitions; tot_exec += st.executions; tot_complete += st.complete_executions; tot_pruned += st.pruned;
        if (st.outcomes > 1) multi_outcome++;
        if (st.yields_blocked) contended++;
        if (st.max_depth > maxdepth) maxdepth = st.max_depth;
        nonseq += st.nonseqcst_ops; yields += st.yields_blocked; capped += st.capped;
        if (nsamples < 3 && (scen == 1 || scen == 40 || scen == 400)) snprintf(samples[nsamples++], 400, "%s  (%lu states, %lu executions, %lu distinct outcomes)", sname, st.states, st.executions, st.outcomes);
        if (rc == 4) { fprintf(stderr, "NONDETERMINISM in scenario %ld (%s): %s\n", id, sname, v.msg); return 5; }
        if (rc == 1) { nviol = 1; viol_id = id; exhaustive = 0; break; }
        if (!st.exhaustive) exhaustive = 0;
        if (deadline > 0 && now() - t0 > deadline) { exhaustive = 0; break; }
    }
    printf("{\"world\":\"c06\",\"config\":%d,\"config_desc\":\"shard %d of %d over %ld scenarios (2 threads: programs up to length %d x %d over 6 operations x 4 reference configurations; 3 and 4 threads: see DESIGN)\","
           "\"property\":\"%s\",\"thorough\":%d,\"scenarios\":%lu,\"states\":%lu,\"transitions\":%lu,\"executions\":%lu,\"complete_executions\":%lu,\"pruned_executions\":%lu,"
           "\"nontrivial_states\":%lu,\"max_depth\":%lu,\"closure\":%s,\"wall_s\":%.3f,"
           "\"counters\":{\"scenarios_with_more_than_one_outcome\":%lu,\"scenarios_where_a_spinning_thread_was_blocked\":%lu,\"atomic_ops_weaker_than_seq_cst_by_scheduled_threads\":%lu,\"yield_steps\":%lu,\"executions_hitting_the_step_cap\":%lu},\"samples\":[",
           shard, shard, nshards, ntotal, LA, LB, prop, thorough, scen, tot_states, tot_trans, tot_exec, tot_complete, tot_pruned, tot_states, maxdepth, exhaustive ? "true" : "false", now() - t0,
           multi_outcome, contended, nonseq, yields, capped);
    for (i = 0; i < nsamples; i++) { if (i) printf(","); jstr(stdout, samples[i]); }
    printf("],\"violations\":[");
    if (nviol) {
        char rp[SX_MAXSTEPS * 3 + 32], *p = rp; int k;
        p += sprintf(p, "%ld:", viol_id);
        for (k = 0; k < v.n; k++) p += sprintf(p, "%s%d", k ? "," : "", v.sched[k]);
        printf("{\"replay\":"); jstr(stdout, rp); printf(",\"ops\":"); jstr(stdout, sname); printf(",\"message\":"); jstr(stdout, v.msg); printf("}");
    }
    printf("]}\n");
    return nviol ? 1 : 0;
}
