/* heap world: C07 (the heap always yields a maximum; the tree stays complete) and the heap part of C15 */
#include "cstl/heap.h"
#include <limits.h>
#define W_AUDIT_NEW_STATES_ONLY 1   /* the key holds the implementation's raw state AND the reference model, so the audit verdict is a function of the key */
#include "../engine/mc.h"
#include <sanitizer/asan_interface.h>

#define PC07 P(0)
#define PC15 P(1)
static const char *w_name = "heap";
static unsigned w_prop_bit(const char *id) { return !strcmp(id, "C07") ? PC07 : !strcmp(id, "C15") ? PC15 : 0; }

#define MAXN 12
struct elem { long pad; int prio; int idx; struct cstl_heap_node hn; long tail; struct cstl_heap_node hn2; };     /* hn2: where the OTHER heap object's elements would keep their node; never linked */
static struct elem pool[MAXN];
static int N, prios[MAXN], CMPMODE;
static char cfgdesc[256];
static struct cstl_heap H[2];
static int m_member[MAXN], m_count;

enum { O_PUSH = 1, O_POP, O_CLEAR, O_SWAPPAIR };
#define OP(c, a) ((mc_op_t)((c) | ((a) << 8)))
#define OC(o) ((o) & 0xff)
#define OA(o) (((o) >> 8) & 0xff)

enum { K_POP_EMPTY, K_POP_TIED_MAX, K_POP_SIFT, K_PUSH_NEW_MAX, K_CLEAR, K_CLEAR_NONEMPTY };
static const char *w_counter_names[] = { "pop_on_empty", "pop_with_tied_maxima", "pop_from_size_ge_4", "push_of_new_maximum", "clear_applied", "clear_on_nonempty", NULL };

struct cfg { int n, cmp; const char *pool; };
static const struct cfg quick_cfgs[] = { { 8, 0, "distinct" }, { 8, 0, "paired" }, { 7, 0, "allequal" }, { 8, 1, "distinct" }, { 7, 1, "paired" }, { 7, 2, "distinct" }, { 7, 1, "heavy" }, { 7, 3, "paired" } };
static const struct cfg thorough_cfgs[] = { { 10, 0, "distinct" }, { 10, 0, "paired" }, { 8, 0, "allequal" }, { 10, 1, "distinct" }, { 10, 1, "paired" }, { 9, 2, "distinct" }, { 9, 1, "heavy" }, { 9, 2, "paired" }, { 8, 1, "allequal" }, { 10, 3, "paired" }, { 10, 3, "distinct" } , { 12, 0, "distinct" }, { 12, 1, "paired" }, { 11, 2, "paired" }, { 11, 3, "distinct" } };
static const struct cfg *cfgs(int thorough, int *n)
{
    if (thorough) { *n = (int)(sizeof thorough_cfgs / sizeof thorough_cfgs[0]); return thorough_cfgs; }
    *n = (int)(sizeof quick_cfgs / sizeof quick_cfgs[0]); return quick_cfgs;
}
static int USE_MACRO;      /* odd configurations build the heap with CSTL_HEAP_INITIALIZER instead of cstl_heap_init() */
static int w_nconfigs(int thorough) { int n; cfgs(thorough, &n); return n; }
static void w_setup(int cfg, int thorough)
{
    int n, i;
    const struct cfg *c = &cfgs(thorough, &n)[cfg];
    N = c->n; CMPMODE = c->cmp; USE_MACRO = cfg & 1;
    for (i = 0; i < N; i++) {
        if (!strcmp(c->pool, "distinct")) prios[i] = (i * 3) % N == 0 && i ? N : (i * 3) % N;
        else if (!strcmp(c->pool, "paired")) prios[i] = i / 2;
        else if (!strcmp(c->pool, "allequal")) prios[i] = 4;
        else prios[i] = i == 0 ? 0 : (i == N - 1 ? 2 : 1);
    }
    if (!strcmp(c->pool, "distinct")) { static const int perm[] = { 5, 2, 8, 0, 9, 3, 7, 1, 6, 4, 11, 10 }; int k = 0; for (i = 0; i < 12 && k < N; i++) if (perm[i] < N) prios[k++] = perm[i]; }
    snprintf(cfgdesc, sizeof cfgdesc, "cstl_heap, pool of %d elements with %s priorities, comparator %s", N, c->pool, CMPMODE == 0 ? "a-b" : CMPMODE == 1 ? "sign only" : CMPMODE == 2 ? "reversed" : "INT_MIN/0/INT_MAX");
    if (USE_MACRO) snprintf(cfgdesc + strlen(cfgdesc), sizeof cfgdesc - strlen(cfgdesc), ", object built with CSTL_HEAP_INITIALIZER");
    w_nops = 0;
    for (i = 0; i < N; i++) w_ops[w_nops++] = OP(O_PUSH, i);
    w_ops[w_nops++] = OP(O_POP, 0); w_ops[w_nops++] = OP(O_CLEAR, 0); w_ops[w_nops++] = OP(O_SWAPPAIR, 0);
}
static const char *w_config_desc(void) { return cfgdesc; }

static int cookie[2], wrong_priv, wrong_cmp, init_mismatch;
static int cmp_elem(const void *a, const void *b, void *p)
{
    int d = ((const struct elem *)a)->prio - ((const struct elem *)b)->prio;
    if (p != (void *)&cookie[0]) wrong_priv++;
    if (CMPMODE == 1) return d < 0 ? -1 : d > 0;
    if (CMPMODE == 2) return -d;
    if (CMPMODE == 3) return d < 0 ? INT_MIN : d > 0 ? INT_MAX : 0;
    return d;
}
/* comparator of the second heap object, which never holds an element under its own configuration: opposite order */
static int cmp_other(const void *a, const void *b, void *p) { (void)p; wrong_cmp++; return ((const struct elem *)b)->prio - ((const struct elem *)a)->prio; }
static int korder(int a, int b) { int d = a - b; return CMPMODE == 2 ? -d : d; }

static void h_init(int t)
{
    memset(&H[t], 0xA5, sizeof H[t]);
    if (USE_MACRO) H[t] = (struct cstl_heap)CSTL_HEAP_INITIALIZER(struct elem, hn, cmp_elem, &cookie[0]);
    else cstl_heap_init(&H[t], cmp_elem, &cookie[0], offsetof(struct elem, hn));
}
static void w_init(void)
{
    int i, t;
    shim_reset();
    __asan_unpoison_memory_region(pool, sizeof pool);
    memset(pool, 0x5A, sizeof pool);
    for (i = 0; i < N; i++) { pool[i].prio = prios[i]; pool[i].idx = i; pool[i].pad = 0x1111; pool[i].tail = 0x2222; m_member[i] = 0; }
    m_count = 0; wrong_priv = wrong_cmp = init_mismatch = 0; (void)t;
    h_init(0);
    /* the second object is a heap of another kind: other comparator, other private pointer, node at another offset */
    memset(&H[1], 0xA5, sizeof H[1]); cstl_heap_init(&H[1], cmp_other, &cookie[1], offsetof(struct elem, hn2));
    /* the static initialiser and the init function must produce the same object */
    { struct cstl_heap a, b; memset(&a, 0, sizeof a); memset(&b, 0, sizeof b); cstl_heap_init(&a, cmp_elem, &cookie[0], offsetof(struct elem, hn));
      b = (struct cstl_heap)CSTL_HEAP_INITIALIZER(struct elem, hn, cmp_elem, &cookie[0]);
      init_mismatch = a.bt.root != b.bt.root || a.bt.size != b.bt.size || a.bt.off != b.bt.off || a.bt.cmp.func != b.bt.cmp.func || a.bt.cmp.priv != b.bt.cmp.priv; }
}
static int w_enabled(mc_op_t o) { return OC(o) == O_PUSH ? !m_member[OA(o)] : 1; }

static int idx_of(const void *e)
{
    uintptr_t d = (uintptr_t)e - (uintptr_t)pool;
    if ((uintptr_t)e < (uintptr_t)pool || d >= sizeof(struct elem) * (size_t)N || d % sizeof(struct elem)) return -1;
    return (int)(d / sizeof(struct elem));
}
static struct elem *elem_of_bn(const struct cstl_bintree_node *bn)
{
    int i = idx_of((void *)((uintptr_t)bn - offsetof(struct elem, hn) - offsetof(struct cstl_heap_node, bn)));      /* the tree node need not be the first member of the heap node */
    return i < 0 ? NULL : &pool[i];
}
static int clr_count[MAXN], clr_bad;
static void cb_clear(void *e, void *p)
{
    int i = idx_of(e);
    (void)p;
    if (i < 0) { clr_bad++; return; }
    clr_count[i]++;
    if (clr_count[i] == 1) __asan_poison_memory_region(&pool[i], sizeof pool[i]);
}
static int is_max(int i)
{
    int j;
    for (j = 0; j < N; j++) if (m_member[j] && korder(prios[i], prios[j]) < 0) return 0;
    return 1;
}
static void audit_heap(int t);
static void check_fresh(void);
static int untouched(const void *p, size_t n) { const unsigned char *b = p; while (n--) if (*b++ != 0x5A) return 0; return 1; }

/* The node of an element that is not in the heap holds stale bytes (the API takes uninitialised nodes): before every operation it is put back to the
 * 0x5A garbage the pool starts with, so that a push relying on a link being already set is seen and the content of such nodes is a function of the state. */
/* plain straight-line callers, compiled with the shipped optimisation level and without any barrier between the calls: what the headers promise about a
 * function (attributes included) must be true when an ordinary caller asks for the top element before and after a modification */
static const void *ga1, *ga2; static void *gpop; static size_t gs1, gs2;
static void __attribute__((noinline)) get_push_get(struct cstl_heap *h, void *e) { ga1 = cstl_heap_get(h); gs1 = cstl_heap_size(h); cstl_heap_push(h, e); ga2 = cstl_heap_get(h); gs2 = cstl_heap_size(h); }
static void __attribute__((noinline)) get_pop_get(struct cstl_heap *h) { ga1 = cstl_heap_get(h); gs1 = cstl_heap_size(h); gpop = cstl_heap_pop(h); ga2 = cstl_heap_get(h); gs2 = cstl_heap_size(h); }
static int is_max(int i);
static int gi(const void *e) { return e ? idx_of(e) : -1; }
static void scrub_free(void) { int i; for (i = 0; i < N; i++) if (!m_member[i]) memset(&pool[i].hn, 0x5A, sizeof pool[i].hn); }
static void w_apply(mc_op_t o)
{
    int a = OA(o), ab = 0, i;
    static void * volatile rp;
    scrub_free();
    switch (OC(o)) {
    case O_PUSH:
        if (is_max(a) && m_count) { int strictly = 1, j; for (j = 0; j < N; j++) if (m_member[j] && korder(prios[a], prios[j]) <= 0) strictly = 0; if (strictly) MC_COUNT(K_PUSH_NEW_MAX); }
        SHIM_CALL(ab, get_push_get(&H[0], &pool[a]));
        if (!ab) {
            MC_CHECK(PC07, m_count ? (gi(ga1) >= 0 && m_member[gi(ga1)] && is_max(gi(ga1))) : ga1 == NULL, "get before a push does not return a greatest held element (or NULL on the empty heap)");
            MC_CHECK(PC07, gs1 == (size_t)m_count && gs2 == (size_t)m_count + 1, "size around a push: %zu then %zu, %d elements were held", gs1, gs2, m_count);
        }
        m_member[a] = 1; m_count++;
        if (!ab) MC_CHECK(PC07, gi(ga2) >= 0 && m_member[gi(ga2)] && is_max(gi(ga2)), "get directly after a push (same caller, no barrier in between) does not return a greatest held element");
        break;
    case O_POP: {
        int nmax = 0;
        for (i = 0; i < N; i++) if (m_member[i] && is_max(i)) nmax++;
        if (!m_count) MC_COUNT(K_POP_EMPTY);
        if (nmax > 1) MC_COUNT(K_POP_TIED_MAX);
        if (m_count >= 4) MC_COUNT(K_POP_SIFT);
        SHIM_CALL(ab, get_pop_get(&H[0])); rp = gpop;
        if (ab) break;
        MC_CHECK(PC07, m_count ? (gi(ga1) >= 0 && m_member[gi(ga1)] && is_max(gi(ga1))) : ga1 == NULL, "get before a pop does not return a greatest held element (or NULL on the empty heap)");
        MC_CHECK(PC07, gs1 == (size_t)m_count && gs2 == (size_t)(m_count ? m_count - 1 : 0), "size around a pop: %zu then %zu, %d elements were held", gs1, gs2, m_count);
        if (!m_count) { MC_CHECK(PC07, rp == NULL, "pop on an empty heap returned a non-NULL pointer"); break; }
        i = rp ? idx_of(rp) : -1;
        MC_CHECK(PC07, rp != NULL && i >= 0 && m_member[i], "pop returned %s, not an element held by the heap", rp ? "a pointer" : "NULL");
        if (i >= 0 && m_member[i]) {
            MC_CHECK(PC07, is_max(i), "pop returned element %d (priority %d) although a greater element is held", i, prios[i]);
            m_member[i] = 0; m_count--;
            MC_CHECK(PC07, m_count ? (gi(ga2) >= 0 && m_member[gi(ga2)] && is_max(gi(ga2))) : ga2 == NULL, "get directly after a pop (same caller, no barrier in between) does not return a greatest held element (or NULL on the emptied heap)");
        }
        break;
    }
    case O_CLEAR:
        MC_COUNT(K_CLEAR); if (m_count) MC_COUNT(K_CLEAR_NONEMPTY);
        memset(clr_count, 0, sizeof clr_count); clr_bad = 0;
        SHIM_CALL(ab, cstl_heap_clear(&H[0], cb_clear));
        __asan_unpoison_memory_region(pool, sizeof pool);
        if (!ab) {
            MC_CHECK(PC15 | PC07, clr_bad == 0, "clear called back with a pointer that is no element");
            for (i = 0; i < N; i++) MC_CHECK(PC15 | PC07, clr_count[i] == m_member[i], "clear: element %d handed over %d times, expected %d", i, clr_count[i], m_member[i]);
            MC_CHECK(PC15 | PC07, cstl_heap_size(&H[0]) == 0, "clear left size %zu", cstl_heap_size(&H[0]));
            check_fresh();
        }
        for (i = 0; i < N; i++) m_member[i] = 0;
        m_count = 0;
        break;
    case O_SWAPPAIR:
        SHIM_CALL(ab, cstl_heap_swap(&H[0], &H[1]));
        if (ab) break;
        if (mc_checking) {
            MC_CHECK(PC07, cstl_heap_size(&H[0]) == 0 && cstl_heap_get(&H[0]) == NULL, "after swap the formerly empty heap is not empty"); audit_heap(1);
            MC_CHECK(PC07, wrong_cmp == 0 && wrong_priv == 0, "after swap the heap object holding the content compares with the comparator/private pointer it was initialised with, not the ones that belong to the content (%d/%d calls)", wrong_cmp, wrong_priv);
        }
        /* the object that received the content takes a push and a pop like the original */
        for (i = 0; i < N && m_member[i]; i++) ;
        if (i < N && !mc_branch_dead) {
            SHIM_CALL(ab, cstl_heap_push(&H[1], &pool[i]));
            if (ab) break;
            m_member[i] = 1; m_count++;
            SHIM_CALL(ab, rp = cstl_heap_pop(&H[1]));
            if (ab) break;
            i = rp ? idx_of(rp) : -1;
            MC_CHECK(PC07, i >= 0 && m_member[i] && is_max(i), "pop from the heap object that received the content by swap returned %s", i < 0 ? "no held element" : "an element that is not a maximum");
            if (i >= 0 && m_member[i]) { m_member[i] = 0; m_count--; }
        }
        SHIM_CALL(ab, cstl_heap_swap(&H[0], &H[1]));
        break;
    }
    if (ab) MC_CHECK(PC07 | PC15, 0, "unexpected %s inside the library: %s", ab == 3 ? "non-termination (a library call still running after 3 s)" : ab == 2 ? "assertion failure" : "abort()", ab == 2 ? shim_assert_msg : "");
}

/* completeness: node reachable by the level-order path of slot s (1-based) exists iff s <= size */
static const struct cstl_bintree_node *slot(const struct cstl_heap *h, unsigned s)
{
    const struct cstl_bintree_node *n = h->bt.root;
    unsigned b;
    int top = 31;
    while (top > 0 && !(s >> top)) top--;
    for (b = top; b-- > 0 && n != NULL;) { n = ((s >> b) & 1) ? n->r : n->l; if (n && !elem_of_bn(n)) return (void *)-1; }
    return n;
}
static void audit_heap(int t)
{
    const void *g; int ab, i; unsigned s;
    size_t sz = cstl_heap_size(&H[t]);
    MC_CHECK(PC07, sz == (size_t)m_count, "size = %zu, reference holds %d", sz, m_count);
    SHIM_CALL(ab, g = cstl_heap_get(&H[t]));
    if (ab) { MC_CHECK(PC07, 0, "get aborted"); return; }
    if (!m_count) MC_CHECK(PC07, g == NULL, "get on an empty heap returned non-NULL");
    else {
        i = g ? idx_of(g) : -1;
        MC_CHECK(PC07, i >= 0 && m_member[i], "get returned %s, not an element held by the heap", g ? "a pointer" : "NULL");
        if (i >= 0 && m_member[i]) MC_CHECK(PC07, is_max(i), "get returned element %d (priority %d) although a greater element is held", i, prios[i]);
    }
    if (mc_branch_dead) return;
    /* shape: slots 1..size occupied by distinct held elements with consistent parent links, slots size+1..2*size+1 empty */
    {
        int seen[MAXN]; memset(seen, 0, sizeof seen);
        for (s = 1; s <= (unsigned)m_count; s++) {
            const struct cstl_bintree_node *n = slot(&H[t], s), *par = s > 1 ? slot(&H[t], s / 2) : NULL;
            const struct elem *e = (n && n != (void *)-1) ? elem_of_bn(n) : NULL;
            MC_CHECK(PC07, e != NULL, "heap tree is not complete: level-order slot %u of %d is empty or points outside the pool", s, m_count);
            if (!e) return;
            MC_CHECK(PC07, m_member[e->idx] && !seen[e->idx], "slot %u holds element %d which is %s", s, e->idx, seen[e->idx] ? "also in another slot" : "not held");
            seen[e->idx] = 1;
            MC_CHECK(PC07, n->p == par, "slot %u: parent link does not point at slot %u", s, s / 2);
        }
        for (s = (unsigned)m_count + 1; s <= 2u * (unsigned)m_count + 1; s++)
            MC_CHECK(PC07, slot(&H[t], s) == NULL, "heap tree is not complete: slot %u beyond size %d is occupied", s, m_count);
    }
}
static void w_audit(void)
{
    int k;
    audit_heap(0);
    if (mc_branch_dead) return;
    MC_CHECK(PC07, cstl_heap_size(&H[1]) == 0 && H[1].bt.root == NULL, "the second (empty) heap object was disturbed");
    MC_CHECK(PC07, wrong_cmp == 0, "the comparison function of the OTHER (empty) heap object was called %d times: swap did not move the comparator with the content", wrong_cmp);
    MC_CHECK(PC07, wrong_priv == 0, "the comparison function received a private pointer other than the one its heap was set up with (%d calls)", wrong_priv);
    MC_CHECK(PC07, !init_mismatch, "CSTL_HEAP_INITIALIZER(TYPE, MEMB, CMP, PRIV) and cstl_heap_init(CMP, PRIV, offsetof(TYPE, MEMB)) produce different objects");
    for (k = 0; k < N; k++) MC_CHECK(PC07, pool[k].pad == 0x1111 && pool[k].tail == 0x2222 && pool[k].prio == prios[k] && pool[k].idx == k && untouched(&pool[k].hn2, sizeof pool[k].hn2), "element %d: bytes outside its heap node were modified", k);
}

static int ck_nodes;
static void sym(const struct cstl_bintree_node *bn)
{
    const struct elem *e;
    if (bn == NULL) { KB_C('.'); return; }
    e = elem_of_bn(bn);
    if (e == NULL) { KB_C('?'); return; }
    KB_U((unsigned)e->idx);
}
static void ck(const struct cstl_bintree_node *bn)
{
    const struct elem *e;
    if (bn == NULL) { KB_C('.'); return; }
    e = elem_of_bn(bn);
    if (e == NULL) { KB_C('?'); return; }
    if (++ck_nodes > N + 1) { KB_C('!'); return; }
    KB_C('('); KB_U((unsigned)e->idx); KB_C('^'); sym(bn->p);
    ck(bn->l); ck(bn->r);
    KB_C(')');
}
static void canon_one(int t)
{
    { ck_nodes = 0; KB_C('H'); KB_U(H[t].bt.size); KB_C('o'); KB_U(H[t].bt.off);
      KB_C(H[t].bt.cmp.func == cmp_elem ? 'e' : H[t].bt.cmp.func == cmp_other ? 'o' : '?'); KB_C(H[t].bt.cmp.priv == (void *)&cookie[0] ? '0' : H[t].bt.cmp.priv == (void *)&cookie[1] ? '1' : '?'); KB_C(':'); ck(H[t].bt.root); }
}
static void w_canon(void) { int i; canon_one(0); canon_one(1); KB_C('m'); for (i = 0; i < N; i++) KB_C(m_member[i] ? '1' : '0'); for (i = 0; i < N; i++) if (pool[i].pad != 0x1111 || pool[i].tail != 0x2222 || pool[i].prio != prios[i] || !untouched(&pool[i].hn2, sizeof pool[i].hn2)) { KB_C('X'); KB_U((unsigned)i); } KB_C('w'); KB_U((unsigned)(wrong_cmp != 0)); KB_U((unsigned)(wrong_priv != 0)); KB_U((unsigned)init_mismatch); }
static void check_fresh(void)
{
    char a[128], b[128]; size_t save = mc_kbn, n;
    mc_kbn = 0; canon_one(0); n = mc_kbn < 127 ? mc_kbn : 127; memcpy(a, mc_kb, n); a[n] = 0;
    { struct cstl_heap keep = H[1]; memset(&H[1], 0xA5, sizeof H[1]); cstl_heap_init(&H[1], cmp_elem, &cookie[0], offsetof(struct elem, hn));     /* a never-used object of the same configuration, built by the init function */
      mc_kbn = 0; canon_one(1); n = mc_kbn < 127 ? mc_kbn : 127; memcpy(b, mc_kb, n); b[n] = 0;
      H[1] = keep; }
    mc_kbn = save;
    MC_CHECK(PC15, !strcmp(a, b), "after clear the heap is not like a freshly initialised one: fields %s, fresh %s", a, b);
}
static void w_opname(mc_op_t o, char *b, size_t n)
{
    switch (OC(o)) {
    case O_PUSH: snprintf(b, n, "push(e%d prio %d)", OA(o), prios[OA(o)]); break;
    case O_POP: snprintf(b, n, "pop"); break;
    case O_CLEAR: snprintf(b, n, "clear(poisoning callback)"); break;
    default: snprintf(b, n, "swap(H,empty);audit;swap back"); break;
    }
}
static int w_nontrivial(void) { return m_count >= 3; }
