/* big_world.c -- complement to the closure searches: an ENUMERATED family of large deterministic histories, for behaviour that depends on
 * the NUMBER of elements / buckets rather than on a shape a small pool can reach (tree height at 1000+ nodes, tables of 1024+ buckets,
 * lists and maps of thousands of elements).  Not a sample: a fixed, listed set of (container, size, insertion order, erase order) cases,
 * every one executed completely against a reference.  Serves C01, C02, C03, C04, C05, C08, C09, C10, C12, C13, C14, C15, C19, C20 (the property selects the oracle). */
#define _GNU_SOURCE
#include "cstl/rbtree.h"
#include "cstl/map.h"
#include "cstl/dlist.h"
#include "cstl/slist.h"
#include "cstl/vector.h"
#include "cstl/string.h"
#include "cstl/memory.h"
#include "cstl/heap.h"
#include <sanitizer/asan_interface.h>
#include "cstl/array.h"
#include <wchar.h>
/* Private members of the library's structs are named only where a property is ABOUT them, and only in the build that serves that property:
 * BIG_RB (C02: colours and links) and BIG_HASHPRIV (C19: clean bits, sweep; hash.c is unity-#included there).  Every other build of this file
 * uses the public API alone, so a change that renames or reorders private members does not take the large cases of 14 properties down with it. */
#ifdef BIG_HASHPRIV
#include "hash.c"
#else
#include "cstl/hash.h"
#endif
#include "../engine/shim.h"
#include <stdio.h>
#include <stdlib.h>
#include <string.h>
#include <stdarg.h>
#include <time.h>
#include <fcntl.h>
#include <unistd.h>
#include <sys/mman.h>

#define MAXE 6000
static const char *PROP = "";
static int is(const char *p) { return !strcmp(PROP, p); }
static char viols[4][96], violmsg[4][500]; static int nviol; static char curcase[96];
static unsigned long evals, cases;
static char *prog_buf;
static void progress_open(const char *path) { int fd = open(path, O_RDWR | O_CREAT | O_TRUNC, 0644); if (fd < 0 || ftruncate(fd, 4096) != 0) return; prog_buf = mmap(NULL, 4096, PROT_READ | PROT_WRITE, MAP_SHARED, fd, 0); if (prog_buf == MAP_FAILED) prog_buf = NULL; close(fd); }
static void setcase(const char *fmt, ...) { va_list ap; va_start(ap, fmt); vsnprintf(curcase, sizeof curcase, fmt, ap); va_end(ap); if (prog_buf) snprintf(prog_buf, 4000, "R %s\n", curcase); cases++; }
static void fail(const char *fmt, ...) { va_list ap; if (nviol >= 4) return; snprintf(viols[nviol], sizeof viols[0], "%s", curcase); va_start(ap, fmt); vsnprintf(violmsg[nviol], sizeof violmsg[0], fmt, ap); va_end(ap); nviol++; }
#define CHECK(c, ...) do { if (!(c)) fail(__VA_ARGS__); } while (0)

/* orders: permutations of 0..n-1 */
static unsigned order_at(int ord, unsigned i, unsigned n)
{
    switch (ord) {
    case 0: return i;                                                  /* ascending */
    case 1: return n - 1 - i;                                          /* descending */
    case 2: return (i & 1) ? n - 1 - i / 2 : i / 2;                    /* outside-in zig-zag */
    case 3: return (unsigned)(((unsigned long)i * 7919u) % n);         /* stride (n is never a multiple of 7919) */
    default: return (i < n / 2) ? n / 2 - 1 - i : i;                   /* middle-out then up */
    }
}
static const char *ordname[] = { "ascending", "descending", "zig-zag", "stride-7919", "middle-out" };

/* ================= trees ================= */
struct telem { long pad; int key; struct cstl_rbtree_node rn; long tail; int in; };
static struct telem TE[MAXE];
static int tcmp(const void *a, const void *b, void *p) { (void)p; return (((const struct telem *)a)->key > ((const struct telem *)b)->key) - (((const struct telem *)a)->key < ((const struct telem *)b)->key); }
#ifdef BIG_RB
static int rb_check(const struct cstl_bintree_node *n, const struct cstl_bintree_node *par, int *cnt)
{
    const struct telem *e; int l, r, red;
    if (!n) return 1;
    e = (const void *)((const char *)n - offsetof(struct telem, rn) - offsetof(struct cstl_rbtree_node, n));
    if (e < TE || e >= TE + MAXE || ++*cnt > MAXE) return -1;
    if (n->p != par) return -2;
    red = e->rn.c == CSTL_RBTREE_COLOR_R;
    if (red && par) { const struct telem *pe = (const void *)((const char *)par - offsetof(struct telem, rn) - offsetof(struct cstl_rbtree_node, n)); if (pe->rn.c == CSTL_RBTREE_COLOR_R) return -3; }
    l = rb_check(n->l, n, cnt); if (l < 0) return l;
    r = rb_check(n->r, n, cnt); if (r < 0) return r;
    if (l != r) return -4;
    return l + !red;
}
#endif
static int tv_last, tv_count, tv_bad;
static int tvisit(const void *e, cstl_bintree_visit_order_t o, void *p)
{
    (void)p;
    if (o == CSTL_BINTREE_VISIT_ORDER_MID || o == CSTL_BINTREE_VISIT_ORDER_LEAF) { int k = ((const struct telem *)e)->key; if (k < tv_last) tv_bad++; tv_last = k; tv_count++; }
    return 0;
}
static void tree_case(int rb, unsigned n, int dup, int ins, int ers)
{
    union { struct cstl_bintree bt; struct cstl_rbtree rb; } T; unsigned i, held = 0; int ab = 0;
    setcase("tree:%d:%u:%d:%d:%d", rb, n, dup, ins, ers);
    if (rb) cstl_rbtree_init(&T.rb, tcmp, NULL, offsetof(struct telem, rn)); else cstl_bintree_init(&T.bt, tcmp, NULL, offsetof(struct telem, rn) + offsetof(struct cstl_rbtree_node, n));
    for (i = 0; i < n; i++) { TE[i].key = (int)(dup ? i / (unsigned)dup : i); TE[i].pad = 0x1111; TE[i].tail = 0x2222; TE[i].in = 0; }
    for (i = 0; i < n && !nviol; i++) {
        struct telem *e = &TE[order_at(ins, i, n)]; int chk;
        SHIM_CALL(ab, { if (rb) cstl_rbtree_insert(&T.rb, e, NULL); else cstl_bintree_insert(&T.bt, e, NULL); });
        if (ab) { fail("insert #%u aborted", i); return; }
        e->in = 1; held++; evals++;
        chk = (held & (held - 1)) == 0 || ((held + 1) & held) == 0 || held % 257 == 0 || i + 1 == n;
        if (chk) {
            size_t sz = rb ? cstl_rbtree_size(&T.rb) : cstl_bintree_size(&T.bt);
            if (is("C01")) CHECK(sz == held, "size %zu after %u inserts", sz, held);
#ifdef BIG_RB
            if (rb && is("C02")) {
                int cnt = 0, bh; size_t mn, mx; const struct cstl_bintree_node *root = T.rb.t.root;
                bh = rb_check(root, NULL, &cnt);
                CHECK(bh > 0 && cnt == (int)held, "red-black structure broken with %u elements (code %d, %d nodes reachable)", held, bh, cnt);
                if (root) { const struct telem *re = (const void *)((const char *)root - offsetof(struct telem, rn) - offsetof(struct cstl_rbtree_node, n)); CHECK(re->rn.c == CSTL_RBTREE_COLOR_B, "the root is red with %u elements", held); }
                cstl_rbtree_height(&T.rb, &mn, &mx);
                CHECK(mx < 63 && ((size_t)1 << mx) <= ((size_t)held + 1) * ((size_t)held + 1), "cstl_rbtree_height reports %zu for %u elements, above 2*log2(n+1)", mx, held);
            }
#endif
            if (is("C01")) {
                tv_last = -1; tv_count = 0; tv_bad = 0;
                if (rb) cstl_rbtree_foreach(&T.rb, tvisit, NULL, CSTL_BINTREE_FOREACH_DIR_FWD); else cstl_bintree_foreach(&T.bt, tvisit, NULL, CSTL_BINTREE_FOREACH_DIR_FWD);
                CHECK(tv_count == (int)held && tv_bad == 0, "traversal of %u elements presented %d, %d out of order", held, tv_count, tv_bad);
            }
        }
    }
    for (i = 0; i < n && !nviol; i++) {
        struct telem probe, *e = &TE[order_at(ers, i, n)]; void *r; int chk, others = 0; unsigned j;
        probe.key = e->key;
        SHIM_CALL(ab, r = rb ? cstl_rbtree_erase(&T.rb, &probe) : cstl_bintree_erase(&T.bt, &probe));
        if (ab) { fail("erase #%u aborted", i); return; }
        evals++;
        if (is("C01")) {
            struct telem *re = r;
            CHECK(re != NULL && re >= TE && re < TE + n && re->in && re->key == probe.key, "erase(key %d) with %u elements returned %s", probe.key, held, re ? "a wrong element" : "NULL");
            if (re && re >= TE && re < TE + n) re->in = 0;
        } else if (r) ((struct telem *)r)->in = 0;
        held--;
        chk = (held & (held - 1)) == 0 || ((held + 1) & held) == 0 || held % 257 == 0;
#ifdef BIG_RB
        if (chk && rb && is("C02")) { int cnt = 0, bh = rb_check(T.rb.t.root, NULL, &cnt); CHECK(bh > 0 && cnt == (int)held, "red-black structure broken after erasing down to %u elements (code %d)", held, bh); }
#endif
        if (chk && is("C01")) {
            const void *f = rb ? cstl_rbtree_find(&T.rb, &probe, NULL) : cstl_bintree_find(&T.bt, &probe, NULL);
            if (dup) for (j = 0; j < n; j++) others += TE[j].in && TE[j].key == probe.key;
            CHECK((f != NULL) == (others > 0), "find(key %d) after erase: %s, %d equal elements are still held", probe.key, f ? "found" : "not found", others);
            tv_last = -1; tv_count = 0; tv_bad = 0;
            if (rb) cstl_rbtree_foreach(&T.rb, tvisit, NULL, CSTL_BINTREE_FOREACH_DIR_FWD); else cstl_bintree_foreach(&T.bt, tvisit, NULL, CSTL_BINTREE_FOREACH_DIR_FWD);
            CHECK(tv_count == (int)held && tv_bad == 0, "traversal of %u elements presented %d, %d out of order", held, tv_count, tv_bad);
        }
    }
    for (i = 0; i < n; i++) CHECK(TE[i].pad == 0x1111 && TE[i].tail == 0x2222, "element %u: bytes next to its tree node were overwritten", i);
}

/* ================= map ================= */
static int icmp(const void *a, const void *b, void *p) { (void)p; return (*(const int *)a > *(const int *)b) - (*(const int *)a < *(const int *)b); }
static int mclr;
static void mclear(void *it, void *p) { (void)it; (void)p; mclr++; }
static void map_case(unsigned n, int ins, int ers)
{
    static int K[MAXE], V[MAXE]; cstl_map_t m; unsigned i, held = 0; cstl_map_iterator_t it; int rc;
    setcase("map:%u:%d:%d", n, ins, ers);
    shim_reset(); shim_in_lib++;
    cstl_map_init(&m, icmp, NULL);
    for (i = 0; i < n; i++) K[i] = (int)i;
    for (i = 0; i < n && !nviol; i++) {
        unsigned k = order_at(ins, i, n);
        rc = cstl_map_insert(&m, &K[k], &V[k], &it); evals++;
        CHECK(rc == 0 && it.key == &K[k] && it.val == &V[k], "insert of new key %u returned %d", k, rc);
        held++;
        if ((i & 63) == 0) { rc = cstl_map_insert(&m, &K[k], &V[0], &it); CHECK(rc == 1 && it.val == &V[k], "insert of existing key %u returned %d / replaced the value", k, rc); }
    }
    CHECK(cstl_map_size(&m) == held, "size %zu for %u entries", cstl_map_size(&m), held);
    for (i = 0; i < n && !nviol; i++) { cstl_map_find(&m, &K[i], &it); CHECK(it.key == &K[i] && it.val == &V[i], "find(%u) in a map of %u entries is wrong", i, n); }
    for (i = 0; i < n / 2 && !nviol; i++) {
        unsigned k = order_at(ers, i, n);
        rc = cstl_map_erase(&m, &K[k], &it); evals++;
        CHECK(rc == 0 && it.key == &K[k] && it.val == &V[k], "erase(%u) returned %d", k, rc);
        K[k] = -1 - (int)k; held--;        /* mark erased (the key object itself is no longer in the map) */
    }
    for (i = 0; i < n && !nviol; i++) { int probe = (int)i; cstl_map_find(&m, &probe, &it); CHECK(!cstl_map_iterator_eq(&it, cstl_map_iterator_end(&m)) == (K[i] >= 0), "after erasing half, find(%u) is %s", i, !cstl_map_iterator_eq(&it, cstl_map_iterator_end(&m)) ? "found" : "missing"); }
    CHECK(cstl_map_size(&m) == held, "size %zu for %u entries after erasing", cstl_map_size(&m), held);
    mclr = 0; cstl_map_clear(&m, mclear, NULL);
    CHECK(mclr == (int)held && shim_nlive() == 0 && cstl_map_size(&m) == 0, "clear made %d callbacks for %u entries, %d nodes left", mclr, held, shim_nlive());
    shim_in_lib = 0;
}

/* ================= hash ================= */
struct helem { int id; struct cstl_hash_node hn; long tail; int in; };
static struct helem HE[MAXE];
static unsigned long hcalls;
static size_t hh(size_t k, size_t m) { hcalls++; return (k * 2654435761u) % m; }
static int hcount;
static int hvisit(const void *e, void *p) { (void)p; hcount += ((const struct helem *)e)->in ? 1 : 1000000; return 0; }
static int hvisit_nc(void *e, void *p) { return hvisit(e, p); }
#ifdef BIG_HASHPRIV
static size_t hdirty(const struct cstl_hash *h) { size_t b, d = 0; if (h->bucket.rh.hash == NULL) return 0; for (b = 0; b < h->bucket.count; b++) d += h->bucket.at[b].cst != h->bucket.cst; return d; }
#define H_PENDING(h, ops, old) ((h).bucket.rh.hash != NULL)
#define H_COUNT_IS(h, n) ((h).bucket.count == (n))
#define H_COUNT_MSG(h) ((h).bucket.count)
#else
#define H_COUNT_IS(h, n) 1
#define H_COUNT_MSG(h) ((size_t)0)
#define H_PENDING(h, ops, old) ((ops) < (old))      /* without looking inside: as many keyed operations as there were buckets (C19 says the rehash is over by then) */
#endif
static void hash_case(unsigned n, size_t c0, size_t c1, size_t c2)
{
    struct cstl_hash h; unsigned i, held = 0, ops; int ab;
    setcase("hash:%u:%zu:%zu:%zu", n, c0, c1, c2);
    shim_reset(); shim_in_lib++;
    cstl_hash_init(&h, offsetof(struct helem, hn));
    cstl_hash_resize(&h, c0, hh);
    for (i = 0; i < n; i++) { HE[i].id = (int)i; HE[i].tail = 0x2222; HE[i].in = 1; cstl_hash_insert(&h, (size_t)i * 13, &HE[i]); held++; evals++; }
    {
        size_t steps[2], cur_n = c0; int s;      /* cur_n: the bucket count the table has (the last size it was asked for and has reached) */
        steps[0] = c1; steps[1] = c2;
        for (s = 0; s < 2 && !nviol; s++) {
            size_t old = cur_n; float ld;
            SHIM_CALL(ab, cstl_hash_resize(&h, steps[s], NULL)); if (ab) { fail("resize aborted"); break; }
            ld = cstl_hash_load(&h);
            if (is("C19")) CHECK(ld == (float)held / (float)steps[s], "after resize(%zu) of a table with %u elements load is %g", steps[s], held, (double)ld);
            if (is("C04")) { hcount = 0; cstl_hash_foreach_const(&h, hvisit, NULL); CHECK(hcount == (int)held, "foreach_const right after resize(%zu) visited %d of %u elements", steps[s], hcount, held); }
            /* keyed operations until the rehash is over: at most as many as there were buckets; each lookup exact */
            for (ops = 0; H_PENDING(h, ops, old) && !nviol; ops++) {
                unsigned k = (ops * 31u) % n; void *f; unsigned long c = hcalls;
#ifdef BIG_HASHPRIV
                size_t d0 = is("C19") ? hdirty(&h) : 0, d1;
#endif
                SHIM_CALL(ab, f = cstl_hash_find(&h, (size_t)k * 13, NULL, NULL)); evals++;
                if (ab) { fail("find aborted mid-rehash"); break; }
#ifdef BIG_HASHPRIV
                /* the work of one keyed operation does not depend on the size of the table: at most three buckets cleaned, at least one */
                if (is("C19")) { d1 = hdirty(&h); CHECK(d0 - d1 <= 3 && (d0 - d1 >= 1 || h.bucket.rh.hash == NULL), "one lookup while the rehash from %zu buckets is pending cleaned %zu buckets (allowed: at most 3, and at least 1 unless it completes the rehash)", old, d0 - d1); }
#endif
                if (is("C03")) CHECK(f == (HE[k].in ? (void *)&HE[k] : NULL), "find(%u) mid-rehash (%zu -> %zu buckets, operation %u) is wrong", k, old, steps[s], ops);
#ifdef BIG_HASHPRIV
                if (is("C19")) CHECK(ops < old, "the rehash from %zu buckets is still pending after %u keyed operations", old, ops + 1);
#endif
                (void)c;
                if ((ops & 127) == 5 && is("C04")) { hcount = 0; cstl_hash_foreach_const(&h, hvisit, NULL); CHECK(hcount == (int)held, "foreach_const mid-rehash visited %d of %u elements", hcount, held); }
                if ((ops % 3) == 1 && HE[k].in) { cstl_hash_erase(&h, &HE[k]); HE[k].in = 0; held--; }
            }
            if (is("C19")) { unsigned long c = hcalls; (void)cstl_hash_find(&h, 13, NULL, NULL); CHECK(hcalls - c == 1 && H_COUNT_IS(h, steps[s]), "after the rehash a lookup consulted the hash %lu times with %zu buckets (requested %zu)", hcalls - c, H_COUNT_MSG(h), steps[s]); }
            if (is("C03")) for (i = 0; i < n && !nviol; i++) { void *f = cstl_hash_find(&h, (size_t)i * 13, NULL, NULL); CHECK(f == (HE[i].in ? (void *)&HE[i] : NULL), "after the rehash to %zu buckets find(%u) is wrong", steps[s], i); }
            CHECK(cstl_hash_size(&h) == held || !is("C03"), "size %zu, %u elements held", cstl_hash_size(&h), held);
            cur_n = steps[s];
        }
    }
    if (is("C04")) { hcount = 0; cstl_hash_foreach(&h, hvisit_nc, NULL); CHECK(hcount == (int)held, "foreach visited %d of %u elements", hcount, held); }
    cstl_hash_clear(&h, NULL);
    shim_in_lib = 0;
    for (i = 0; i < n; i++) CHECK(HE[i].tail == 0x2222, "element %u: bytes next to its hash node were overwritten", i);
}

/* ================= lists ================= */
struct lelem { long pad; int val; struct cstl_dlist_node dn; struct cstl_slist_node sn; long tail; };
static struct lelem LE[MAXE];
static int lcmp(const void *a, const void *b, void *p) { (void)p; return ((const struct lelem *)a)->val - ((const struct lelem *)b)->val; }
static int lv_last, lv_count, lv_bad, lv_rev;
static int lvisit(void *e, void *p) { int v = ((struct lelem *)e)->val; (void)p; if (lv_count && (lv_rev ? v > lv_last : v < lv_last)) lv_bad++; lv_last = v; lv_count++; return lv_count > MAXE + 5; }
static void list_case(int dl, unsigned n, int ord)
{
    struct cstl_dlist D, D2; struct cstl_slist S, S2; unsigned i;
    setcase("list:%d:%u:%d", dl, n, ord);
    cstl_dlist_init(&D, offsetof(struct lelem, dn)); cstl_dlist_init(&D2, offsetof(struct lelem, dn));
    cstl_slist_init(&S, offsetof(struct lelem, sn)); cstl_slist_init(&S2, offsetof(struct lelem, sn));
    for (i = 0; i < n; i++) { struct lelem *e = &LE[i]; e->val = (int)(order_at(ord, i, n) % 1000); e->pad = 0x1111; e->tail = 0x2222; if (dl) { if (i & 1) cstl_dlist_push_back(&D, e); else cstl_dlist_push_back(&D2, e); } else { if (i & 1) cstl_slist_push_back(&S, e); else cstl_slist_push_back(&S2, e); } evals++; }
    if (dl) {
        cstl_dlist_concat(&D, &D2); CHECK(cstl_dlist_size(&D) == n && cstl_dlist_size(&D2) == 0, "concat: sizes %zu / %zu for %u elements", cstl_dlist_size(&D), cstl_dlist_size(&D2), n);
        cstl_dlist_sort(&D, lcmp, NULL);
        lv_count = lv_bad = 0; lv_rev = 0; cstl_dlist_foreach(&D, lvisit, NULL, CSTL_DLIST_FOREACH_DIR_FWD); CHECK(lv_count == (int)n && !lv_bad, "sorted list of %u: forward traversal saw %d elements, %d out of order", n, lv_count, lv_bad);
        lv_count = lv_bad = 0; lv_rev = 1; cstl_dlist_foreach(&D, lvisit, NULL, CSTL_DLIST_FOREACH_DIR_REV); CHECK(lv_count == (int)n && !lv_bad, "sorted list of %u: backward traversal saw %d elements, %d out of order", n, lv_count, lv_bad);
        cstl_dlist_reverse(&D);
        lv_count = lv_bad = 0; lv_rev = 1; cstl_dlist_foreach(&D, lvisit, NULL, CSTL_DLIST_FOREACH_DIR_FWD); CHECK(lv_count == (int)n && !lv_bad, "reversed list of %u: forward traversal saw %d elements, %d out of order", n, lv_count, lv_bad);
        for (i = 0; i < n && !nviol; i++) { void *e = (i & 1) ? cstl_dlist_pop_front(&D) : cstl_dlist_pop_back(&D); CHECK(e != NULL, "pop #%u of %u returned NULL", i, n); }
        CHECK(cstl_dlist_pop_front(&D) == NULL && cstl_dlist_size(&D) == 0, "drained list is not empty");
    } else {
        struct lelem extra; extra.val = 5000;
        cstl_slist_concat(&S, &S2); CHECK(cstl_slist_size(&S) == n && cstl_slist_size(&S2) == 0, "concat: sizes %zu / %zu for %u elements", cstl_slist_size(&S), cstl_slist_size(&S2), n);
        cstl_slist_sort(&S, lcmp, NULL);
        lv_count = lv_bad = 0; lv_rev = 0; cstl_slist_foreach(&S, lvisit, NULL); CHECK(lv_count == (int)n && !lv_bad, "sorted list of %u: traversal saw %d elements, %d out of order", n, lv_count, lv_bad);
        cstl_slist_push_back(&S, &extra); CHECK(cstl_slist_back(&S) == (void *)&extra, "push_back after sort did not append after the true last element");
        lv_count = lv_bad = 0; cstl_slist_foreach(&S, lvisit, NULL); CHECK(lv_count == (int)n + 1 && !lv_bad, "after sort+push_back traversal saw %d of %u elements", lv_count, n + 1);
        cstl_slist_reverse(&S); CHECK(cstl_slist_front(&S) == (void *)&extra, "reverse did not bring the last element to the front");
        lv_count = lv_bad = 0; lv_rev = 1; cstl_slist_foreach(&S, lvisit, NULL); CHECK(lv_count == (int)n + 1 && !lv_bad, "reversed list: traversal saw %d elements, %d out of order", lv_count, lv_bad);
        for (i = 0; i <= n && !nviol; i++) CHECK(cstl_slist_pop_front(&S) != NULL, "pop_front #%u returned NULL", i);
        CHECK(cstl_slist_pop_front(&S) == NULL && cstl_slist_size(&S) == 0, "drained list is not empty");
    }
    for (i = 0; i < n; i++) CHECK(LE[i].pad == 0x1111 && LE[i].tail == 0x2222, "element %u: bytes next to its list node were overwritten", i);
}

/* every case runs under the abort trap and the hang watchdog */
/* ================= clear on large containers (C15) ================= */
/* clear on containers whose SIZE or DEPTH no small pool reaches: a plain binary tree filled in ascending/descending order is a list of n levels
 * (65, 100, 1000, 3000 deep), a red-black tree / heap / map / list of thousands of elements.  The callback counts per element and poisons it. */
struct celem { long pad; int key; int cnt; struct cstl_rbtree_node rn; struct cstl_heap_node hn; struct cstl_dlist_node dn; struct cstl_slist_node sn; long tail; };
static struct celem CE[MAXE];
static int c_bad, c_calls; static int CK[MAXE], CV[MAXE], c_kcnt[MAXE];
static int ccmp(const void *a, const void *b, void *p) { (void)p; return (((const struct celem *)a)->key > ((const struct celem *)b)->key) - (((const struct celem *)a)->key < ((const struct celem *)b)->key); }
static int c_has_priv;
static void c_clear(void *e, void *p) { struct celem *c = e; c_calls++; if (c_has_priv && p != (void *)&c_bad) c_bad++; if (c < CE || c >= CE + MAXE) { c_bad++; return; } c->cnt++; __asan_poison_memory_region(c, sizeof *c); }
static void c_clear_map(void *it_, void *p) { cstl_map_iterator_t *it = it_; const int *k = it->key; c_calls++; if (p != (void *)&c_bad || k < CK || k >= CK + MAXE || it->val != (void *)&CV[k - CK]) { c_bad++; return; } c_kcnt[k - CK]++; }
static const char *ckind[] = { "bintree", "rbtree", "heap", "dlist", "slist", "map" };
static void clear_case(int kind, unsigned n, int ord)
{
    union { struct cstl_bintree bt; struct cstl_rbtree rb; struct cstl_heap h; struct cstl_dlist dl; struct cstl_slist sl; cstl_map_t m; } C; unsigned i, round; int ab;
    setcase("clear:%d:%u:%d", kind, n, ord);
    shim_reset();
    __asan_unpoison_memory_region(CE, sizeof CE);
    switch (kind) {
    case 0: cstl_bintree_init(&C.bt, ccmp, NULL, offsetof(struct celem, rn) + offsetof(struct cstl_rbtree_node, n)); break;
    case 1: cstl_rbtree_init(&C.rb, ccmp, NULL, offsetof(struct celem, rn)); break;
    case 2: cstl_heap_init(&C.h, ccmp, NULL, offsetof(struct celem, hn)); break;
    case 3: cstl_dlist_init(&C.dl, offsetof(struct celem, dn)); break;
    case 4: cstl_slist_init(&C.sl, offsetof(struct celem, sn)); break;
    default: cstl_map_init(&C.m, icmp, NULL); break;
    }
    /* round 0: n elements, clear; round 1: the cleared object is used again (a fresh fill of 5) and cleared again */
    for (round = 0; round < 2 && !nviol; round++) {
        unsigned m = round ? 5 : n; size_t sz = 0;
        for (i = 0; i < m; i++) { CE[i].key = (int)order_at(ord, i, m); CE[i].cnt = 0; CE[i].pad = 0x1111; CE[i].tail = 0x2222; CK[i] = CE[i].key; c_kcnt[i] = 0; }
        for (i = 0; i < m && !nviol; i++) {
            switch (kind) {
            case 0: SHIM_CALL(ab, cstl_bintree_insert(&C.bt, &CE[i], NULL)); break;
            case 1: SHIM_CALL(ab, cstl_rbtree_insert(&C.rb, &CE[i], NULL)); break;
            case 2: SHIM_CALL(ab, cstl_heap_push(&C.h, &CE[i])); break;
            case 3: SHIM_CALL(ab, cstl_dlist_push_back(&C.dl, &CE[i])); break;
            case 4: SHIM_CALL(ab, cstl_slist_push_back(&C.sl, &CE[i])); break;
            default: SHIM_CALL(ab, cstl_map_insert(&C.m, &CK[i], &CV[i], NULL)); break;
            }
            evals++;
            if (ab) { fail("%s: insert #%u aborted", ckind[kind], i); return; }
        }
        c_bad = c_calls = 0; c_has_priv = kind <= 1;      /* heap and list clear take no private pointer: what the callback receives there is not specified */
        switch (kind) {
        case 0: SHIM_CALL(ab, cstl_bintree_clear(&C.bt, c_clear, &c_bad)); sz = cstl_bintree_size(&C.bt); break;
        case 1: SHIM_CALL(ab, cstl_rbtree_clear(&C.rb, c_clear, &c_bad)); sz = cstl_rbtree_size(&C.rb); break;
        case 2: SHIM_CALL(ab, cstl_heap_clear(&C.h, c_clear)); sz = cstl_heap_size(&C.h); break;
        case 3: SHIM_CALL(ab, cstl_dlist_clear(&C.dl, c_clear)); sz = cstl_dlist_size(&C.dl); break;
        case 4: SHIM_CALL(ab, cstl_slist_clear(&C.sl, c_clear)); sz = cstl_slist_size(&C.sl); break;
        default: SHIM_CALL(ab, cstl_map_clear(&C.m, c_clear_map, &c_bad)); sz = cstl_map_size(&C.m); break;
        }
        __asan_unpoison_memory_region(CE, sizeof CE);
        evals++;
        if (ab) { fail("%s of %u elements: clear %s", ckind[kind], m, ab == 3 ? "did not terminate" : ab == 2 ? "hit an assertion" : "aborted"); return; }
        CHECK(c_calls == (int)m && c_bad == 0, "%s of %u elements (%s fill): clear made %d callbacks, %d of them with a wrong element/private pointer", ckind[kind], m, ordname[ord], c_calls, c_bad);
        for (i = 0; i < m && !nviol; i++) CHECK((kind == 5 ? c_kcnt[i] : CE[i].cnt) == 1, "%s of %u elements: element %u was handed to the clear callback %d times", ckind[kind], m, i, kind == 5 ? c_kcnt[i] : CE[i].cnt);
        CHECK(sz == 0, "%s: size %zu after clear", ckind[kind], sz);
        if (kind == 5) CHECK(shim_nlive() == 0, "map: %d allocations alive after clear", shim_nlive());
        for (i = 0; i < m; i++) CHECK(CE[i].pad == 0x1111 && CE[i].tail == 0x2222, "element %u: bytes next to its node were overwritten", i);
    }
}

/* ================= reference counts beyond 2^16 ================= */
/* A count of references is a number like any other size: 65535, 65536, 65537 and 70000 simultaneous owners / weak references / array
 * views of one allocation, created with the library's own share / weak_from / slice only, released in two orders. */
#define MAXR 70016
static cstl_shared_ptr_t RS[MAXR];
static cstl_array_t RA[MAXR];
static int r_clears; static void *r_cleared;
static void r_clear(void *p, void *q) { (void)q; r_clears++; r_cleared = p; }
static void refs_case(int kind, unsigned n, int ord)
{
    unsigned i; void *base; int ab; static volatile int u; static void * volatile g;
    setcase("refs:%d:%u:%d", kind, n, ord);
    shim_reset(); r_clears = 0; r_cleared = NULL;
    if (kind == 2) {
        for (i = 0; i < n; i++) cstl_array_init(&RA[i]);
        SHIM_CALL(ab, cstl_array_alloc(&RA[0], 8, 4)); if (ab) { fail("array alloc aborted"); return; }
        base = cstl_array_data(&RA[0]);
        for (i = 1; i < n && !nviol; i++) {
            SHIM_CALL(ab, cstl_array_slice(&RA[(i & 1) ? 0 : i - 1], 0, 8, &RA[i])); evals++;
            if (ab) { fail("creating view #%u of one buffer with cstl_array_slice %s", i + 1, ab == 2 ? "hit an assertion" : "aborted"); return; }
        }
        for (i = 0; i + 1 < n && !nviol; i++) {
            unsigned k = ord ? n - 1 - i : i, last = ord ? 0 : n - 1;
            SHIM_CALL(ab, cstl_array_reset(&RA[k])); evals++;
            if (ab) { fail("reset of view #%u aborted", k); return; }
            if (i < 4 || (i & 1023) == 0 || i + 5 > n) {
                SHIM_CALL(ab, g = cstl_array_at(&RA[last], 7));
                CHECK(!ab && g == (char *)base + 28 && shim_find(base) != NULL, "after %u of %u views were reset the buffer is gone or at() fails although a view still refers to it", i + 1, n);
            }
            CHECK(shim_nlive() >= 1, "after %u of %u views were reset no allocation is alive", i + 1, n);
        }
        SHIM_CALL(ab, cstl_array_reset(&RA[ord ? 0 : n - 1]));
        CHECK(!ab, "reset of the last view aborted");
        /* the buffer's own storage must be gone now (bookkeeping the library may keep for itself is not the buffer); C20 only asks that nothing aborts */
        if (!is("C20")) CHECK(shim_find(base) == NULL && shim_errors == 0, "after the last of %u views was reset the buffer's storage is still allocated / %d bad free()s", n, shim_errors);
        return;
    }
    for (i = 0; i < n; i++) cstl_shared_ptr_init(&RS[i]);
    SHIM_CALL(ab, cstl_shared_ptr_alloc(&RS[0], 48, r_clear)); if (ab) { fail("alloc aborted"); return; }
    base = cstl_shared_ptr_get(&RS[0]);
    for (i = 1; i < n && !nviol; i++) {
        if (kind == 0) SHIM_CALL(ab, cstl_shared_ptr_share(&RS[(i & 1) ? 0 : i - 1], &RS[i])); else SHIM_CALL(ab, cstl_weak_ptr_from(&RS[i], &RS[0]));
        evals++;
        if (ab) { fail("creating %s #%u of one allocation %s", kind ? "weak reference" : "owner", i + 1, ab == 2 ? "hit an assertion" : "aborted"); return; }
    }
    SHIM_CALL(ab, u = cstl_shared_ptr_unique(&RS[0])); CHECK(!ab && !u, "unique() is true with %u other references", n - 1);
    if (kind == 0) {
        for (i = 0; i + 1 < n && !nviol; i++) {
            unsigned k = ord ? n - 1 - i : i, last = ord ? 0 : n - 1;
            SHIM_CALL(ab, cstl_shared_ptr_reset(&RS[k])); evals++;
            if (ab) { fail("reset of owner #%u aborted", k); return; }
            CHECK(r_clears == 0 && shim_find(base) != NULL, "the managed memory was cleared/freed when owner %u of %u let go (%u owners remain)", i + 1, n, n - 1 - i);
            if (i < 4 || (i & 1023) == 0 || i + 5 > n) { SHIM_CALL(ab, g = cstl_shared_ptr_get(&RS[last])); CHECK(!ab && g == base, "get() of a remaining owner changed"); }
        }
        SHIM_CALL(ab, u = cstl_shared_ptr_unique(&RS[ord ? 0 : n - 1])); CHECK(!ab && u, "unique() is false for the only remaining owner");
        SHIM_CALL(ab, cstl_shared_ptr_reset(&RS[ord ? 0 : n - 1]));
        CHECK(!ab, "reset of the last owner aborted");
        if (!is("C20")) CHECK(r_clears == 1 && r_cleared == base && shim_nlive() == 0 && shim_errors == 0, "after the last of %u owners let go: %d clear calls, %d allocation(s) alive", n, r_clears, shim_nlive());
    } else {
        /* one owner, n-1 weak references: ord 0 releases the weak ones first, ord 1 the owner first */
        if (ord) { SHIM_CALL(ab, cstl_shared_ptr_reset(&RS[0])); CHECK(!ab && (is("C20") || (r_clears == 1 && shim_nlive() == 1)), "owner reset with %u weak references outstanding: %d clear calls, %d allocations alive (the bookkeeping must survive)", n - 1, r_clears, shim_nlive()); }
        for (i = 1; i < n && !nviol; i++) {
            SHIM_CALL(ab, cstl_weak_ptr_reset(&RS[i])); evals++;
            if (ab) { fail("reset of weak reference #%u aborted", i); return; }
            if (i + 1 < n && !is("C20")) CHECK(shim_nlive() == (ord ? 1 : 2) && r_clears == ord, "after %u of %u weak references were reset: %d allocation(s) alive, %d clear calls", i, n - 1, shim_nlive(), r_clears);
            if (!ord && i + 1 < n && (i < 4 || (i & 1023) == 0 || i + 5 > n)) { SHIM_CALL(ab, u = cstl_shared_ptr_unique(&RS[0])); CHECK(!ab && !u, "unique() is true while %u weak references remain", n - 1 - i); }
        }
        if (!ord) { SHIM_CALL(ab, u = cstl_shared_ptr_unique(&RS[0])); CHECK(!ab && u, "unique() is false after every weak reference was reset"); SHIM_CALL(ab, cstl_shared_ptr_reset(&RS[0])); }
        if (!is("C20")) CHECK(r_clears == 1 && shim_nlive() == 0 && shim_errors == 0, "at the end: %d clear calls, %d allocation(s) alive", r_clears, shim_nlive());
    }
}

#define GUARDED(CALL) do { int ab_; SHIM_CALL(ab_, CALL); shim_in_lib = 0; if (ab_) fail(ab_ == 3 ? "a library call did not terminate within 3 s" : ab_ == 2 ? "assertion failure inside the library: %s" : "abort() inside the library%s", ab_ == 2 ? shim_assert_msg : ""); } while (0)
/* ================= vector ================= */
static long vx_cons, vx_dest;
static void vcons(void *e, void *p) { (void)p; *(unsigned *)e = 0xC0DEu; vx_cons++; }
static void vdest(void *e, void *p) { (void)p; if (*(unsigned *)e == 0xDEADu) fail("destructor ran twice on the same element"); *(unsigned *)e = 0xDEADu; vx_dest++; }
static int ucmp(const void *a, const void *b, void *p) { (void)p; return (*(const unsigned *)a > *(const unsigned *)b) - (*(const unsigned *)a < *(const unsigned *)b); }
/* more elements than an int can count: 2^31 + 5 one-byte elements, never touched (no constructor), each of which must meet
 * the destructor exactly once (in any order) when the vector is cleared / shrunk.  The allocation goes to the real allocator (2 GiB of address space, not of
 * memory); the destructor reports progress to the hang watchdog. */
static unsigned long hv_calls, hv_bad; static const unsigned char *hv_base; static size_t hv_n, hv_keep; static unsigned char *hv_bits;
static void hv_dest(void *e, void *p)
{
    /* in whatever order the library tears elements down: each element that leaves, exactly once (one bit per element) */
    size_t i = (size_t)((const unsigned char *)e - hv_base);
    if ((const unsigned char *)e < hv_base || i >= hv_n || i < hv_keep || p != (void *)&hv_calls || (hv_bits[i >> 3] & (1u << (i & 7)))) hv_bad++;
    else hv_bits[i >> 3] |= (unsigned char)(1u << (i & 7));
    hv_calls++;
    if ((hv_calls & 0xFFFFF) == 0) shim_call_seq++;
}
static void hugevec_case(int how)
{
    cstl_vector_t v; int save = shim_in_lib; size_t n = ((size_t)1 << 31) + 5, keep = how ? 3 : 0;
    setcase("hugevec:%d", how);
    shim_in_lib = 0;                                   /* untracked: the request is above the harness's refusal line on purpose */
    cstl_vector_init_complex(&v, 1, NULL, hv_dest, &hv_calls);
    cstl_vector_reserve(&v, n);
    if (cstl_vector_capacity(&v) < n) { shim_in_lib = save; cases--; return; }      /* the machine cannot provide 2 GiB of address space: nothing to decide */
    cstl_vector_resize(&v, n);
    hv_base = cstl_vector_data(&v); hv_n = n; hv_keep = keep; hv_calls = 0; hv_bad = 0;
    hv_bits = __real_calloc(n / 8 + 1, 1);
    if (hv_bits == NULL) { cstl_vector_clear(&v); shim_in_lib = save; cases--; return; }
    CHECK(cstl_vector_size(&v) == n, "resize(2^31+5) left size %zu", cstl_vector_size(&v));
    if (how) cstl_vector_resize(&v, keep); else cstl_vector_clear(&v);
    evals += 2;
    CHECK(hv_calls == n - keep && hv_bad == 0, "%s of a vector of 2^31+5 elements ran the destructor %lu times (%lu of them on an element that stays, a second time on the same element, or with a wrong private pointer), %zu elements left the vector",
          how ? "resize(3)" : "clear", hv_calls, hv_bad, n - keep);
    CHECK(cstl_vector_size(&v) == keep, "size %zu afterwards", cstl_vector_size(&v));
    cstl_vector_clear(&v);
    __real_free(hv_bits); hv_bits = NULL;
    shim_in_lib = save;
}
static void vector_case(size_t es, int xt, int pattern)
{
    cstl_vector_t v; size_t size = 0, i, step; static const size_t targets[] = { 1, 7, 8, 9, 63, 64, 65, 255, 256, 257, 100, 1023, 1024, 1025, 3, 4095, 4096, 4097, 0, 5000, 2048, 2049, 1 };
    unsigned t;
    setcase("vector:%zu:%d:%d", es, xt, pattern);
    shim_reset(); shim_in_lib++;
    vx_cons = vx_dest = 0;
    if (xt) cstl_vector_init_complex(&v, es, vcons, vdest, NULL); else cstl_vector_init(&v, es);
    for (t = 0; t < sizeof targets / sizeof targets[0] && !nviol; t++) {
        size_t n = targets[t];
        if (pattern == 1 && (t & 1)) cstl_vector_reserve(&v, n + n / 2 + 3);
        if (pattern == 2 && (t % 3) == 2) cstl_vector_shrink_to_fit(&v);
        cstl_vector_resize(&v, n); evals++;
        CHECK(cstl_vector_size(&v) == n && cstl_vector_capacity(&v) >= n, "resize(%zu): size %zu capacity %zu", n, cstl_vector_size(&v), cstl_vector_capacity(&v));
        if (n) { shim_blk *b = shim_find(cstl_vector_data(&v)); CHECK(b && (size_t)((char *)cstl_vector_data(&v) - (char *)b->p) + cstl_vector_capacity(&v) * es <= b->sz && b->sz >= (cstl_vector_capacity(&v) + 1) * es, "capacity %zu of %zu-byte elements is not backed by the live allocation (%zu bytes)", cstl_vector_capacity(&v), es, b ? b->sz : 0); }
        /* elements that stayed in range keep their bytes; new ones are stamped by the caller (or the constructor) */
        for (i = 0; i < (size < n ? size : n) && !nviol; i++) { unsigned char *e = cstl_vector_at(&v, i); CHECK(e[es - 1] == (unsigned char)(i * 7 + 1) || xt, "element %zu lost its bytes across resize %zu -> %zu", i, size, n); if (nviol) break; }
        for (i = size; i < n; i++) { unsigned char *e = cstl_vector_at(&v, i); if (!xt) memset(e, (int)(unsigned char)(i * 7 + 1), es); else CHECK(*(unsigned *)e == 0xC0DEu, "element %zu was not constructed", i); }
        if (xt) CHECK(vx_cons - vx_dest == (long)n, "%ld constructed, %ld destroyed, %zu in the vector", vx_cons, vx_dest, n);
        size = n;
    }
    if (!xt && es >= sizeof(unsigned) && !nviol) {
        cstl_vector_resize(&v, 3000);
        for (i = 0; i < 3000; i++) *(unsigned *)cstl_vector_at(&v, i) = (unsigned)((i * 2654435761u) % 1000);
        cstl_vector_sort(&v, ucmp, NULL);
        for (i = 0; i + 1 < 3000 && !nviol; i++) CHECK(*(unsigned *)cstl_vector_at(&v, i) <= *(unsigned *)cstl_vector_at(&v, i + 1), "sort of 3000 elements: not sorted at %zu", i);
        cstl_vector_reverse(&v);
        for (i = 0; i + 1 < 3000 && !nviol; i++) CHECK(*(unsigned *)cstl_vector_at(&v, i) >= *(unsigned *)cstl_vector_at(&v, i + 1), "reverse of 3000 sorted elements: wrong at %zu", i);
        for (step = 0; step < 1000 && !nviol; step += 37) { unsigned probe = (unsigned)step; ssize_t r; cstl_vector_reverse(&v); r = cstl_vector_search(&v, &probe, ucmp, NULL); cstl_vector_reverse(&v); if (r >= 0) CHECK(*(unsigned *)cstl_vector_at(&v, 2999 - (size_t)r) == probe, "search(%u) returned an index holding another value", probe); }
    }
    cstl_vector_clear(&v);
    if (xt) CHECK(vx_cons == vx_dest, "after clear %ld constructed but %ld destroyed", vx_cons, vx_dest);
    CHECK(shim_nlive() == 0 && shim_errors == 0, "after clear %d allocations are alive / allocator misuse %u", shim_nlive(), shim_errors);
    shim_in_lib = 0;
}

/* ================= strings ================= */
#define BIGSTR(NAME, ST, PFX, CH, XLEN, XCMP, XSTR) \
static void NAME(int pattern) \
{ \
    static CH ref[8192], piece[64]; ST s, t; size_t n = 0, i, k; \
    setcase(#NAME ":%d", pattern); \
    shim_reset(); shim_in_lib++; \
    PFX##init(&s); PFX##init(&t); ref[0] = 0; \
    for (k = 0; k < 400 && !nviol; k++) { \
        size_t len = 1 + (k * 7 + (size_t)pattern * 3) % 23, pos = pattern == 0 ? n : pattern == 1 ? 0 : (k * 131) % (n + 1); \
        for (i = 0; i < len; i++) piece[i] = (CH)('a' + (k + i) % 26); piece[len] = 0; \
        if (k % 5 == 4) { PFX##insert_ch(&s, pos, len, piece[0]); for (i = 0; i < len; i++) piece[i] = piece[0]; } \
        else PFX##insert_str_n(&s, pos, piece, len); \
        memmove(ref + pos + len, ref + pos, (n - pos + 1) * sizeof(CH)); memcpy(ref + pos, piece, len * sizeof(CH)); n += len; evals++; \
        if (k % 9 == 8 && n > 40) { size_t ep = (k * 17) % (n - 30), el = 1 + k % 29; PFX##erase(&s, ep, el); memmove(ref + ep, ref + ep + el, (n - ep - el + 1) * sizeof(CH)); n -= el; } \
        if ((n & (n - 1)) == 0 || k % 16 == 0 || k == 399) { \
            CHECK(PFX##size(&s) == n && XLEN(PFX##str(&s)) == n && XCMP(PFX##str(&s), ref) == 0, "after %zu edits the string (%zu characters) differs from the reference", k + 1, n); \
            if (n > 10) { const CH *f = XSTR(ref + n / 3, piece); ssize_t r = PFX##find_str(&s, piece, n / 3); CHECK(r == (f ? (ssize_t)(f - ref) : -1), "find_str from %zu in a string of %zu characters returned %zd", n / 3, n, r); \
                PFX##substr(&s, n / 4, n / 2, &t); CHECK(PFX##size(&t) == n / 2 && memcmp(PFX##str(&t), ref + n / 4, (n / 2) * sizeof(CH)) == 0 && PFX##str(&t)[n / 2] == 0, "substr(%zu,%zu) of a %zu character string is wrong", n / 4, n / 2, n); } \
        } \
    } \
    PFX##erase(&s, 5, (size_t)-1); CHECK(PFX##size(&s) == 5 && PFX##str(&s)[5] == 0 && memcmp(PFX##str(&s), ref, 5 * sizeof(CH)) == 0, "erase(5, all-ones) of a long string did not leave its first 5 characters"); \
    PFX##clear(&s); PFX##clear(&t); \
    CHECK(shim_nlive() == 0 && shim_errors == 0, "after clear %d allocations are alive", shim_nlive()); \
    shim_in_lib = 0; \
}
BIGSTR(bigstring, cstl_string_t, cstl_string_, char, strlen, strcmp, strstr)
BIGSTR(bigwstring, cstl_wstring_t, cstl_wstring_, wchar_t, wcslen, wcscmp, wcsstr)

static double now(void) { struct timespec ts; clock_gettime(CLOCK_MONOTONIC, &ts); return ts.tv_sec + ts.tv_nsec * 1e-9; }
static void run_family(int thorough, const char *only)
{
    static const unsigned tn_q[] = { 100, 1000, 2049 }, tn_t[] = { 100, 1000, 2049, 5000 }; unsigned ni; int a, b;
    const unsigned *tn = thorough ? tn_t : tn_q; unsigned nn = thorough ? 4 : 3;
    if (is("C01") || is("C02")) for (ni = 0; ni < nn && !nviol; ni++) for (a = 0; a < 5 && !nviol; a++) for (b = 0; b < 5 && !nviol; b += (thorough ? 1 : 2)) {
        int rb; for (rb = is("C02") ? 1 : 0; rb < 2 && !nviol; rb++) { if (!rb && tn[ni] > 1000 && a < 2) continue;       /* a degenerate plain tree of thousands of nodes is a list: skip the quadratic cases */
            GUARDED(tree_case(rb, tn[ni], 0, a, b)); if (a == 3) GUARDED(tree_case(rb, tn[ni], 37, a, b)); }
    }
    if (is("C08")) for (ni = 0; ni < nn && !nviol; ni++) for (a = 0; a < 5 && !nviol; a++) GUARDED(map_case(tn[ni], a, (a + 2) % 5));
    if (is("C03") || is("C04") || is("C19")) {
        static const size_t geo[][3] = { { 16, 1024, 64 }, { 1024, 2048, 1024 }, { 7, 1031, 5 }, { 2048, 16, 4096 }, { 64, 64 * 3, 1 }, { 8192, 16384, 4096 }, { 16384, 64, 8192 } }; unsigned g;
        for (g = 0; g < 7 && !nviol; g++) { GUARDED(hash_case(3000, geo[g][0], geo[g][1], geo[g][2])); GUARDED(hash_case(4, geo[g][0], geo[g][1], geo[g][2])); GUARDED(hash_case(97, geo[g][0], geo[g][1], geo[g][2])); }
    }
    if (is("C15")) {
        static const unsigned cn[] = { 64, 65, 66, 100, 1000, 3000 }; unsigned r; int k, o;
        for (k = 0; k < 6 && !nviol; k++) for (r = 0; r < 6 && !nviol; r++) for (o = 0; o < 5 && !nviol; o++) { if (k && r < 3 && o > 1) continue; GUARDED(clear_case(k, cn[r], o)); }
    }
    if (is("C05") || is("C14") || is("C20")) {
        static const unsigned rn[] = { 65535, 65536, 65537, 70000 }; unsigned r; int k, o;
        for (r = 0; r < 4 && !nviol; r++) for (o = 0; o < 2 && !nviol; o++) for (k = 0; k < 3 && !nviol; k++) {
            if (is("C14") ? k != 2 : (is("C05") && k == 2)) continue;
            GUARDED(refs_case(k, rn[r], o));
        }
    }
    if (is("C09")) { GUARDED(hugevec_case(0)); if (thorough) GUARDED(hugevec_case(1)); }
    if (is("C09")) { static const size_t ess[] = { 1, 3, 4, 8, 24, 64 }; unsigned e; for (e = 0; e < 6 && !nviol; e++) for (a = 0; a < 3 && !nviol; a++) { GUARDED(vector_case(ess[e], 0, a)); if (ess[e] >= 4) GUARDED(vector_case(ess[e], 1, a)); } }
    if (is("C10")) for (a = 0; a < 3 && !nviol; a++) { GUARDED(bigstring(a)); GUARDED(bigwstring(a)); }
    if (is("C12") || is("C13")) for (ni = 0; ni < nn && !nviol; ni++) for (a = 0; a < 5 && !nviol; a++) GUARDED(list_case(is("C12"), tn[ni] == 2049 ? 4097 : tn[ni], a));
    (void)only;
}

int main(int argc, char **argv)
{
    int i, thorough = 0; const char *replay = NULL; double t0 = now();
    setvbuf(stdout, NULL, _IOFBF, 1 << 16);
    shim_watchdog_start();
    for (i = 1; i < argc; i++) {
        if (!strcmp(argv[i], "--prop") && i + 1 < argc) PROP = argv[++i];
        else if (!strcmp(argv[i], "--config") && i + 1 < argc) ++i;
        else if (!strcmp(argv[i], "--thorough")) thorough = 1;
        else if (!strcmp(argv[i], "--replay") && i + 1 < argc) replay = argv[++i];
        else if (!strcmp(argv[i], "--progress") && i + 1 < argc) progress_open(argv[++i]);
        else if (!strcmp(argv[i], "--deadline") && i + 1 < argc) ++i;
        else if (!strcmp(argv[i], "--nconfigs")) { printf("1\n"); return 0; }
        else { fprintf(stderr, "bad arg %s\n", argv[i]); return 2; }
    }
    if (!(is("C01") || is("C02") || is("C03") || is("C04") || is("C08") || is("C09") || is("C10") || is("C12") || is("C13") || is("C19") || is("C05") || is("C14") || is("C20") || is("C15"))) { fprintf(stderr, "big: property not served\n"); return 2; }
    if (replay) {
        int a, b, c, d; unsigned n; size_t x, y, z;
        if (sscanf(replay, "tree:%d:%u:%d:%d:%d", &a, &n, &b, &c, &d) == 5) GUARDED(tree_case(a, n, b, c, d));
        else if (sscanf(replay, "map:%u:%d:%d", &n, &a, &b) == 3) GUARDED(map_case(n, a, b));
        else if (sscanf(replay, "hash:%u:%zu:%zu:%zu", &n, &x, &y, &z) == 4) GUARDED(hash_case(n, x, y, z));
        else if (sscanf(replay, "list:%d:%u:%d", &a, &n, &b) == 3) GUARDED(list_case(a, n, b));
        else if (sscanf(replay, "vector:%zu:%d:%d", &x, &a, &b) == 3) GUARDED(vector_case(x, a, b));
        else if (sscanf(replay, "clear:%d:%u:%d", &a, &n, &b) == 3) GUARDED(clear_case(a, n, b));
        else if (sscanf(replay, "refs:%d:%u:%d", &a, &n, &b) == 3) GUARDED(refs_case(a, n, b));
        else if (sscanf(replay, "hugevec:%d", &a) == 1) GUARDED(hugevec_case(a));
        else if (sscanf(replay, "bigstring:%d", &a) == 1) GUARDED(bigstring(a));
        else if (sscanf(replay, "bigwstring:%d", &a) == 1) GUARDED(bigwstring(a));
        else return 4;
        printf("case %s\n", replay);
        if (nviol) { printf("VIOLATED: %s\n", violmsg[0]); return 1; }
        printf("no violation\n"); return 0;
    }
    run_family(thorough, NULL);
    printf("{\"world\":\"big\",\"config\":0,\"config_desc\":\"enumerated family of large deterministic histories (100 to 5000 elements, tables of up to 4096 buckets; insertion and erase orders %s, %s, %s, %s, %s)\",\"property\":\"%s\",\"thorough\":%d,"
           "\"evaluations\":%lu,\"states\":%lu,\"transitions\":%lu,\"nontrivial_states\":%lu,\"exhaustive\":%s,\"closure\":%s,\"wall_s\":%.3f,\"counters\":{\"large_cases\":%lu},\"samples\":[\"%s\"],\"violations\":[",
           ordname[0], ordname[1], ordname[2], ordname[3], ordname[4], PROP, thorough, evals, cases, evals, cases, nviol ? "false" : "true", nviol ? "false" : "true", now() - t0, cases, curcase);
    for (i = 0; i < nviol; i++) { const char *s; printf("%s{\"replay\":\"%s\",\"ops\":\"%s\",\"message\":\"", i ? "," : "", viols[i], viols[i]); for (s = violmsg[i]; *s; s++) { if (*s == '"' || *s == '\\') putchar('\\'); if ((unsigned char)*s >= 0x20) putchar(*s); } printf("\"}"); }
    printf("]}\n");
    return nviol ? 1 : 0;
}
