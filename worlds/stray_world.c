/* E5 confx for C20: every public function that takes a guarded / unique / shared / weak pointer or an array object, applied to a stray
 * bitwise copy in every argument position, object state and copy kind: the call must abort().  The same call on the original must work. */
#define _GNU_SOURCE
#include "cstl/memory.h"
#include "cstl/array.h"
#include "../engine/shim.h"
#include <stdio.h>
#include <stdlib.h>
#include <string.h>
#include <time.h>
#if __has_include("decls.h")
#include "decls.h"
#else
static const char *declared_fns[] = { NULL };
#endif

enum { KG, KU, KS, KW, KA, NKINDS };
static const char *kindname[] = { "guarded", "unique", "shared", "weak", "array" };
static const size_t kindsize[] = { sizeof(struct cstl_guarded_ptr), sizeof(cstl_unique_ptr_t), sizeof(cstl_shared_ptr_t), sizeof(cstl_weak_ptr_t), sizeof(cstl_array_t) };
static const char *statename[NKINDS][3] = { { "NULL pointer", "non-NULL pointer", NULL }, { "empty", "owning", NULL }, { "empty", "owning", "co-owned" }, { "empty", "weak to live memory", "weak to dead memory" }, { "empty", "whole", "slice" } };
static const int nstates[NKINDS] = { 2, 2, 3, 3, 3 };
enum { C_ASSIGN, C_MEMCPY, C_RELOCATE, NCOPY };
static const char *copyname[] = { "struct assignment", "memcpy", "relocation (copied, original storage scrubbed)" };

typedef union { struct cstl_guarded_ptr g; cstl_unique_ptr_t u; cstl_shared_ptr_t s; cstl_weak_ptr_t w; cstl_array_t a; unsigned char raw[64]; } obj_t;
static obj_t ORIG, STRAY, OTHER, HELP1, HELP2;
static int target_word;
static int ext_buf[8];

/* ---- entry points: x = the object under test (stray copy or original), o = a properly handled object of the needed kind ---- */
typedef void call_t(void *x, void *o);
static void * volatile sink; static volatile int isink;
static void g_get_const(void *x, void *o) { (void)o; sink = (void *)cstl_guarded_ptr_get_const(x); }
static void g_get(void *x, void *o) { (void)o; sink = cstl_guarded_ptr_get(x); }
static void g_copy_src(void *x, void *o) { cstl_guarded_ptr_copy(o, x); }
static void g_swap1(void *x, void *o) { cstl_guarded_ptr_swap(x, o); }
static void g_swap2(void *x, void *o) { cstl_guarded_ptr_swap(o, x); }
static void u_alloc(void *x, void *o) { (void)o; cstl_unique_ptr_alloc(x, 8, NULL, NULL); }
static void u_alloc_huge(void *x, void *o) { (void)o; cstl_unique_ptr_alloc(x, SIZE_MAX - 64, NULL, NULL); }      /* an allocation that cannot be satisfied: the old pointer is still let go of first */
static void u_swap_self(void *x, void *o) { (void)o; cstl_unique_ptr_swap(x, x); }
static void g_swap_self(void *x, void *o) { (void)o; cstl_guarded_ptr_swap(x, x); }
static void u_get_const(void *x, void *o) { (void)o; sink = (void *)cstl_unique_ptr_get_const(x); }
static void u_get(void *x, void *o) { (void)o; sink = cstl_unique_ptr_get(x); }
static void u_release(void *x, void *o) { cstl_xtor_func_t *f; void *p; (void)o; sink = cstl_unique_ptr_release(x, &f, &p); free((void *)sink); }
static void u_swap1(void *x, void *o) { cstl_unique_ptr_swap(x, o); }
static void u_swap2(void *x, void *o) { cstl_unique_ptr_swap(o, x); }
static void u_reset(void *x, void *o) { (void)o; cstl_unique_ptr_reset(x); }
static void s_alloc(void *x, void *o) { (void)o; cstl_shared_ptr_alloc(x, 8, NULL); }
static void s_alloc_huge(void *x, void *o) { (void)o; cstl_shared_ptr_alloc(x, SIZE_MAX - 64, NULL); }
static void s_share_self(void *x, void *o) { (void)o; cstl_shared_ptr_share(x, x); }       /* the stray copy in BOTH argument positions */
static void s_swap_self(void *x, void *o) { (void)o; cstl_shared_ptr_swap(x, x); }
static void w_swap_self(void *x, void *o) { (void)o; cstl_weak_ptr_swap(x, x); }
static void s_unique(void *x, void *o) { (void)o; isink = cstl_shared_ptr_unique(x); }
static void s_get_const(void *x, void *o) { (void)o; sink = (void *)cstl_shared_ptr_get_const(x); }
static void s_get(void *x, void *o) { (void)o; sink = cstl_shared_ptr_get(x); }
static void s_share_from(void *x, void *o) { cstl_shared_ptr_share(x, o); }
static void s_share_into(void *x, void *o) { cstl_shared_ptr_share(o, x); }
static void s_swap1(void *x, void *o) { cstl_shared_ptr_swap(x, o); }
static void s_swap2(void *x, void *o) { cstl_shared_ptr_swap(o, x); }
static void s_reset(void *x, void *o) { (void)o; cstl_shared_ptr_reset(x); }
static void w_from_into(void *x, void *o) { cstl_weak_ptr_from(x, o); }          /* x weak, o shared */
static void w_from_src(void *x, void *o) { cstl_weak_ptr_from(o, x); }           /* x shared, o weak */
static void w_lock_from(void *x, void *o) { cstl_weak_ptr_lock(x, o); }          /* x weak, o shared */
static void w_lock_into(void *x, void *o) { cstl_weak_ptr_lock(o, x); }          /* x shared, o weak */
static void w_swap1(void *x, void *o) { cstl_weak_ptr_swap(x, o); }
static void w_swap2(void *x, void *o) { cstl_weak_ptr_swap(o, x); }
static void w_reset(void *x, void *o) { (void)o; cstl_weak_ptr_reset(x); }
static void a_alloc(void *x, void *o) { (void)o; cstl_array_alloc(x, 4, 4); }
static void a_alloc_huge(void *x, void *o) { (void)o; cstl_array_alloc(x, SIZE_MAX / 8, 4); }
static void a_set(void *x, void *o) { (void)o; cstl_array_set(x, ext_buf, 8, sizeof(int)); }
static void a_release(void *x, void *o) { void *b; (void)o; cstl_array_release(x, &b); sink = b; }
static void a_data_const(void *x, void *o) { (void)o; sink = (void *)cstl_array_data_const(x); }
static void a_data(void *x, void *o) { (void)o; sink = cstl_array_data(x); }
static void a_at_const(void *x, void *o) { (void)o; sink = (void *)cstl_array_at_const(x, 0); }
static void a_at(void *x, void *o) { (void)o; sink = cstl_array_at(x, 0); }
static void a_slice_from(void *x, void *o) { cstl_array_slice(x, 0, 1, o); }
static void a_slice_into(void *x, void *o) { cstl_array_slice(o, 0, 1, x); }
static void a_slice_self(void *x, void *o) { (void)o; cstl_array_slice(x, 0, 1, x); }
static void a_unslice_from(void *x, void *o) { cstl_array_unslice(x, o); }
static void a_unslice_into(void *x, void *o) { cstl_array_unslice(o, x); }
static void a_unslice_self(void *x, void *o) { (void)o; cstl_array_unslice(x, x); }
static void a_reset(void *x, void *o) { (void)o; cstl_array_reset(x); }

/* orig_aborts_in_state: bitmask of states of x in which the call legitimately aborts even on the ORIGINAL (e.g. at(0) of an empty array) */
static struct entry { const char *fn; const char *pos; int kx, ko; call_t *call; unsigned orig_aborts; } TABLE[] = {
    { "cstl_guarded_ptr_get_const", "gp", KG, -1, g_get_const, 0 }, { "cstl_guarded_ptr_get", "gp", KG, -1, g_get, 0 },
    { "cstl_guarded_ptr_copy", "src", KG, KG, g_copy_src, 0 }, { "cstl_guarded_ptr_swap", "a", KG, KG, g_swap1, 0 }, { "cstl_guarded_ptr_swap", "b", KG, KG, g_swap2, 0 },
    { "cstl_unique_ptr_alloc", "up", KU, -1, u_alloc, 0 }, { "cstl_unique_ptr_get_const", "up", KU, -1, u_get_const, 0 }, { "cstl_unique_ptr_get", "up", KU, -1, u_get, 0 },
    { "cstl_unique_ptr_release", "up", KU, -1, u_release, 0 }, { "cstl_unique_ptr_swap", "up1", KU, KU, u_swap1, 0 }, { "cstl_unique_ptr_swap", "up2", KU, KU, u_swap2, 0 }, { "cstl_unique_ptr_reset", "up", KU, -1, u_reset, 0 },
    { "cstl_shared_ptr_alloc", "sp", KS, -1, s_alloc, 0 }, { "cstl_shared_ptr_unique", "sp", KS, -1, s_unique, 0 }, { "cstl_shared_ptr_get_const", "sp", KS, -1, s_get_const, 0 }, { "cstl_shared_ptr_get", "sp", KS, -1, s_get, 0 },
    { "cstl_shared_ptr_share", "ex", KS, KS, s_share_from, 0 }, { "cstl_shared_ptr_share", "n", KS, KS, s_share_into, 0 }, { "cstl_shared_ptr_swap", "sp1", KS, KS, s_swap1, 0 }, { "cstl_shared_ptr_swap", "sp2", KS, KS, s_swap2, 0 },
    { "cstl_shared_ptr_reset", "sp", KS, -1, s_reset, 0 },
    { "cstl_weak_ptr_from", "wp", KW, KS, w_from_into, 0 }, { "cstl_weak_ptr_from", "sp", KS, KW, w_from_src, 0 }, { "cstl_weak_ptr_lock", "wp", KW, KS, w_lock_from, 0 }, { "cstl_weak_ptr_lock", "sp", KS, KW, w_lock_into, 0 },
    { "cstl_weak_ptr_swap", "wp1", KW, KW, w_swap1, 0 }, { "cstl_weak_ptr_swap", "wp2", KW, KW, w_swap2, 0 }, { "cstl_weak_ptr_reset", "wp", KW, -1, w_reset, 0 },
    { "cstl_array_alloc", "a", KA, -1, a_alloc, 0 }, { "cstl_array_set", "a", KA, -1, a_set, 0 }, { "cstl_array_release", "a", KA, -1, a_release, 0 },
    { "cstl_array_data_const", "a", KA, -1, a_data_const, 0 }, { "cstl_array_data", "a", KA, -1, a_data, 0 }, { "cstl_array_at_const", "a", KA, -1, a_at_const, 1 }, { "cstl_array_at", "a", KA, -1, a_at, 1 },
    { "cstl_array_slice", "a", KA, KA, a_slice_from, 1 }, { "cstl_array_slice", "s", KA, KA, a_slice_into, 0 }, { "cstl_array_slice", "a==s", KA, -1, a_slice_self, 1 },
    { "cstl_array_unslice", "s", KA, KA, a_unslice_from, 1 }, { "cstl_array_unslice", "a", KA, KA, a_unslice_into, 0 }, { "cstl_array_unslice", "s==a", KA, -1, a_unslice_self, 1 },
    { "cstl_array_reset", "a", KA, -1, a_reset, 0 },
    /* the same entry points with an allocation that cannot be satisfied, and with the stray copy in both argument positions of a two-object call */
    { "cstl_unique_ptr_alloc", "up (request that cannot be satisfied)", KU, -1, u_alloc_huge, 0 }, { "cstl_shared_ptr_alloc", "sp (request that cannot be satisfied)", KS, -1, s_alloc_huge, 0 },
    { "cstl_array_alloc", "a (request that cannot be satisfied)", KA, -1, a_alloc_huge, 0 },
    { "cstl_shared_ptr_share", "ex==n", KS, -1, s_share_self, 0 }, { "cstl_guarded_ptr_swap", "a==b", KG, -1, g_swap_self, 0 }, { "cstl_unique_ptr_swap", "up1==up2", KU, -1, u_swap_self, 0 },
    { "cstl_shared_ptr_swap", "sp1==sp2", KS, -1, s_swap_self, 0 }, { "cstl_weak_ptr_swap", "wp1==wp2", KW, -1, w_swap_self, 0 },
};
#define NENT ((int)(sizeof TABLE / sizeof TABLE[0]))
/* declared entry points that deliberately do not abort on a stray copy (they only write the guard and thereby re-stamp it, or never touch the pointer) */
static const char *NON_ABORTING[] = { "cstl_guarded_ptr_set", "cstl_guarded_ptr_init", "cstl_unique_ptr_init", "cstl_shared_ptr_init", "cstl_weak_ptr_init", "cstl_array_init", "cstl_array_size", "cstl_guarded_ptr_copy:dst", NULL };

/* ---- object construction ---- */
static void init_obj(int kind, obj_t *x)
{
    memset(x, 0xA5, sizeof *x);
    switch (kind) {
    case KG: cstl_guarded_ptr_init(&x->g); break;
    case KU: cstl_unique_ptr_init(&x->u); break;
    case KS: cstl_shared_ptr_init(&x->s); break;
    case KW: cstl_weak_ptr_init(&x->w); break;
    default: cstl_array_init(&x->a); break;
    }
}
static void make(int kind, int state, obj_t *x)
{
    init_obj(kind, x); init_obj(KS, &HELP1); init_obj(KA, &HELP2);
    switch (kind) {
    case KG: if (state == 1) cstl_guarded_ptr_set(&x->g, &target_word); break;
    case KU: if (state == 1) cstl_unique_ptr_alloc(&x->u, 16, NULL, NULL); break;
    case KS:
        if (state >= 1) cstl_shared_ptr_alloc(&x->s, 16, NULL);
        if (state == 2) cstl_shared_ptr_share(&x->s, &HELP1.s);
        break;
    case KW:
        if (state >= 1) { cstl_shared_ptr_alloc(&HELP1.s, 16, NULL); cstl_weak_ptr_from(&x->w, &HELP1.s); }
        if (state == 2) cstl_shared_ptr_reset(&HELP1.s);
        break;
    default:
        if (state >= 1) cstl_array_alloc(&x->a, 6, 4);
        if (state == 2) { init_obj(KA, &HELP2); cstl_array_unslice(&x->a, &HELP2.a); cstl_array_slice(&x->a, 2, 5, &x->a); }
        break;
    }
}
/* the partner object of a two-object call, in each of ITS states: 0 empty, 1 owning / weak to live memory / whole array, 2 co-owned / weak to dead memory / slice */
static int g_ostate = 1;
static void make_other(int kind, obj_t *o)
{
    static obj_t keep, keep2;
    if (kind < 0) return;
    init_obj(kind, o);
    if (g_ostate == 0) return;
    if (g_ostate == 2) {
        switch (kind) {
        case KS: init_obj(KS, &keep2); cstl_shared_ptr_alloc(&o->s, 8, NULL); cstl_shared_ptr_share(&o->s, &keep2.s); return;
        case KW: init_obj(KS, &keep); cstl_shared_ptr_alloc(&keep.s, 8, NULL); cstl_weak_ptr_from(&o->w, &keep.s); cstl_shared_ptr_reset(&keep.s); return;
        case KA: cstl_array_alloc(&o->a, 6, 4); cstl_array_slice(&o->a, 1, 4, &o->a); return;
        default: break;        /* guarded and unique pointers have two states only */
        }
    }
    switch (kind) {
    case KG: cstl_guarded_ptr_set(&o->g, &ext_buf[0]); break;
    case KU: cstl_unique_ptr_alloc(&o->u, 8, NULL, NULL); break;
    case KS: cstl_shared_ptr_alloc(&o->s, 8, NULL); break;
    case KW: { static obj_t keep; init_obj(KS, &keep); cstl_shared_ptr_alloc(&keep.s, 8, NULL); cstl_weak_ptr_from(&o->w, &keep.s); break; }
    default: cstl_array_alloc(&o->a, 3, 4); break;
    }
}
static void stray_copy(int kind, int ck)
{
    memset(&STRAY, 0x5C, sizeof STRAY);
    switch (ck) {
    case C_ASSIGN:
        switch (kind) { case KG: STRAY.g = ORIG.g; break; case KU: STRAY.u = ORIG.u; break; case KS: STRAY.s = ORIG.s; break; case KW: STRAY.w = ORIG.w; break; default: STRAY.a = ORIG.a; break; }
        break;
    case C_MEMCPY: memcpy(&STRAY, &ORIG, kindsize[kind]); break;
    default: memcpy(&STRAY, &ORIG, kindsize[kind]); memset(&ORIG, 0xDD, sizeof ORIG); break;     /* the object was moved, e.g. by realloc of its container */
    }
}

static char viols[6][120], violmsg[6][500]; static int nviol;
static unsigned long points, points_orig;
static char *prog_buf;
#include <fcntl.h>
#include <unistd.h>
#include <sys/mman.h>
#include <stdarg.h>
static void progress_open(const char *path) { int fd = open(path, O_RDWR | O_CREAT | O_TRUNC, 0644); if (fd < 0 || ftruncate(fd, 4096) != 0) return; prog_buf = mmap(NULL, 4096, PROT_READ | PROT_WRITE, MAP_SHARED, fd, 0); if (prog_buf == MAP_FAILED) prog_buf = NULL; close(fd); }
static void violation(const char *rp, const char *fmt, ...) { va_list ap; if (nviol >= 6) return; snprintf(viols[nviol], sizeof viols[0], "%s", rp); va_start(ap, fmt); vsnprintf(violmsg[nviol], sizeof violmsg[0], fmt, ap); va_end(ap); nviol++; }

/* partner_is_orig: the second object of a two-object call is the ORIGINAL the stray copy was made from (e.g. s = a; slice(&a, .., &s)) */
static void one_point(int e, int state, int ck, int partner_is_orig, int verbose)
{
    struct entry *t = &TABLE[e]; int ab; char rp[64];
    if (partner_is_orig && (t->ko != t->kx || ck == C_RELOCATE)) return;
    if (g_ostate != 1 && (partner_is_orig || t->ko < 0 || (g_ostate == 2 && (t->ko == KG || t->ko == KU)))) return;
    snprintf(rp, sizeof rp, "%d:%d:%d:%d:%d", e, state, ck, partner_is_orig, g_ostate);
    if (prog_buf) snprintf(prog_buf, 4000, "R %s\n", rp);
    /* (1) the stray copy */
    shim_reset(); shim_in_lib++;
    make(t->kx, state, &ORIG); make_other(t->ko, &OTHER);
    stray_copy(t->kx, ck);
    SHIM_CALL(ab, t->call(&STRAY, partner_is_orig ? &ORIG : &OTHER));
    shim_in_lib = 0;
    points++;
    if (verbose) printf("%s(%s = stray copy by %s of a %s %s pointer/object%s): %s\n", t->fn, t->pos, copyname[ck], statename[t->kx][state], kindname[t->kx], partner_is_orig ? ", the other argument is the original" : "", ab == 1 ? "abort()" : ab ? "assertion" : "returned");
    if (ab != 1) violation(rp, "%s with %s being a stray copy (%s) of a %s %s object%s %s instead of aborting", t->fn, t->pos, copyname[ck], statename[t->kx][state], kindname[t->kx], partner_is_orig ? " and the other argument being the original it was copied from" : "", ab ? "hit an assertion" : "returned");
    if (partner_is_orig || g_ostate != 1) return;      /* other partner states: only the stray call is judged (the original call may have documented reasons of its own to abort) */
    /* (2) the same call on the original, properly handled object must work (unless the call aborts for a documented reason of its own) */
    if (ck != C_RELOCATE) {
        shim_reset(); shim_in_lib++;
        make(t->kx, state, &ORIG); make_other(t->ko, &OTHER);
        stray_copy(t->kx, ck);
        SHIM_CALL(ab, t->call(&ORIG, &OTHER));
        shim_in_lib = 0;
        points_orig++;
        if (verbose) printf("  same call on the original: %s\n", ab == 1 ? "abort()" : ab ? "assertion" : "returned");
        if (!(t->orig_aborts & (1u << state)) && ab) violation(rp, "%s on the ORIGINAL %s %s object (a stray copy exists elsewhere) aborted", t->fn, statename[t->kx][state], kindname[t->kx]);
    }
}
/* (3) the converse for destinations: the functions that (re)initialise an object -- *_init, guarded set, and the destination of guarded copy -- are
 * what a program uses on storage that holds no object yet (zero-filled, stale bytes, or the bytes of some object that was copied there).  They must not
 * abort whatever the storage holds, and the object they leave behind works. */
enum { F_G_INIT, F_G_SET, F_G_COPY_NULL, F_G_COPY_PTR, F_U_INIT, F_S_INIT, F_W_INIT, F_A_INIT, NFRESH };
static const char *freshname[] = { "cstl_guarded_ptr_init", "cstl_guarded_ptr_set", "cstl_guarded_ptr_copy(dst, src holding NULL)", "cstl_guarded_ptr_copy(dst, src holding a pointer)", "cstl_unique_ptr_init", "cstl_shared_ptr_init", "cstl_weak_ptr_init", "cstl_array_init" };
static const int freshkind[] = { KG, KG, KG, KG, KU, KS, KW, KA };
static const char *fillname[] = { "zero-filled storage", "storage filled with 0xA5", "storage filled with 0xFF", "storage holding the bytes of a live object of the same type" };
static unsigned long points_fresh;
static int fresh_fn, fresh_bad; static void *fresh_expect;
static void fresh_body(void)
{
    obj_t *x = &STRAY;
    switch (fresh_fn) {
    case F_G_INIT: cstl_guarded_ptr_init(&x->g); fresh_bad = cstl_guarded_ptr_get(&x->g) != NULL; break;
    case F_G_SET: cstl_guarded_ptr_set(&x->g, &target_word); fresh_bad = cstl_guarded_ptr_get(&x->g) != (void *)&target_word; break;
    case F_G_COPY_NULL: case F_G_COPY_PTR: cstl_guarded_ptr_copy(&x->g, &OTHER.g); fresh_bad = cstl_guarded_ptr_get(&x->g) != fresh_expect || cstl_guarded_ptr_get(&OTHER.g) != fresh_expect; break;
    case F_U_INIT: cstl_unique_ptr_init(&x->u); fresh_bad = cstl_unique_ptr_get(&x->u) != NULL; cstl_unique_ptr_alloc(&x->u, 8, NULL, NULL); fresh_bad |= cstl_unique_ptr_get(&x->u) == NULL; cstl_unique_ptr_reset(&x->u); break;
    case F_S_INIT: cstl_shared_ptr_init(&x->s); fresh_bad = cstl_shared_ptr_get(&x->s) != NULL; cstl_shared_ptr_alloc(&x->s, 8, NULL); fresh_bad |= cstl_shared_ptr_get(&x->s) == NULL; cstl_shared_ptr_reset(&x->s); break;
    case F_W_INIT: cstl_weak_ptr_init(&x->w); cstl_shared_ptr_alloc(&HELP1.s, 8, NULL); cstl_weak_ptr_from(&x->w, &HELP1.s); cstl_weak_ptr_reset(&x->w); cstl_shared_ptr_reset(&HELP1.s); break;
    default: cstl_array_init(&x->a); fresh_bad = cstl_array_size(&x->a) != 0; cstl_array_alloc(&x->a, 3, 4); fresh_bad |= cstl_array_size(&x->a) != 3 || cstl_array_data(&x->a) == NULL; cstl_array_reset(&x->a); break;
    }
}
static void fresh_point(int fn, int fill, int verbose)
{
    int ab, kind = freshkind[fn]; char rp[64];
    snprintf(rp, sizeof rp, "f:%d:%d", fn, fill);
    if (prog_buf) snprintf(prog_buf, 4000, "R %s\n", rp);
    shim_reset(); shim_in_lib++;
    init_obj(KS, &HELP1); init_obj(KG, &OTHER);
    if (fn == F_G_COPY_PTR) cstl_guarded_ptr_set(&OTHER.g, &target_word);
    fresh_expect = fn == F_G_COPY_PTR ? (void *)&target_word : NULL;
    if (fill == 3) { make(kind, 1, &ORIG); memset(&STRAY, 0x5C, sizeof STRAY); memcpy(&STRAY, &ORIG, kindsize[kind]); }
    else memset(&STRAY, fill == 0 ? 0x00 : fill == 1 ? 0xA5 : 0xFF, sizeof STRAY);
    fresh_fn = fn; fresh_bad = 0;
    SHIM_CALL(ab, fresh_body());
    shim_in_lib = 0;
    points_fresh++;
    if (verbose) printf("%s on %s, then ordinary use of the object: %s\n", freshname[fn], fillname[fill], ab == 1 ? "abort()" : ab ? "assertion" : fresh_bad ? "returned, object wrong" : "returned");
    if (ab) violation(rp, "%s applied to %s (no object there yet), followed by ordinary use of the new object, %s: these functions (re)initialise their destination whatever it holds", freshname[fn], fillname[fill], ab == 1 ? "aborted" : "hit an assertion");
    else if (fresh_bad) violation(rp, "%s applied to %s left an object that does not hold what it should", freshname[fn], fillname[fill]);
}
static double now(void) { struct timespec ts; clock_gettime(CLOCK_MONOTONIC, &ts); return ts.tv_sec + ts.tv_nsec * 1e-9; }

int main(int argc, char **argv)
{
    int i, e, st, ck; const char *replay = NULL, *prop = NULL; double t0 = now(); char gaps[1500] = ""; int ngaps = 0;
    setvbuf(stdout, NULL, _IOFBF, 1 << 16);
    shim_watchdog_start();
    for (i = 1; i < argc; i++) {
        if (!strcmp(argv[i], "--prop") && i + 1 < argc) prop = argv[++i];
        else if (!strcmp(argv[i], "--config") && i + 1 < argc) ++i;
        else if (!strcmp(argv[i], "--thorough")) ;
        else if (!strcmp(argv[i], "--replay") && i + 1 < argc) replay = argv[++i];
        else if (!strcmp(argv[i], "--progress") && i + 1 < argc) progress_open(argv[++i]);
        else if (!strcmp(argv[i], "--deadline") && i + 1 < argc) ++i;
        else if (!strcmp(argv[i], "--nconfigs")) { printf("1\n"); return 0; }
        else { fprintf(stderr, "bad arg %s\n", argv[i]); return 2; }
    }
    if (!prop || strcmp(prop, "C20")) { fprintf(stderr, "stray: property not served\n"); return 2; }
    if (replay) {
        int po = 0, ffn, ffill;
        if (sscanf(replay, "f:%d:%d", &ffn, &ffill) == 2) {
            if (ffn < 0 || ffn >= NFRESH || ffill < 0 || ffill > 3) return 4;
            fresh_point(ffn, ffill, 1);
            if (nviol) { printf("VIOLATED: %s\n", violmsg[0]); return 1; }
            printf("no violation\n"); return 0;
        }
        if (sscanf(replay, "%d:%d:%d:%d:%d", &e, &st, &ck, &po, &g_ostate) < 3 || e < 0 || e >= NENT || g_ostate < 0 || g_ostate > 2) return 4;
        one_point(e, st, ck, po, 1);
        if (nviol) { printf("VIOLATED: %s\n", violmsg[0]); return 1; }
        printf("no violation\n"); return 0;
    }
    for (e = 0; e < NENT && nviol < 6; e++) for (st = 0; st < nstates[TABLE[e].kx] && nviol < 6; st++) for (ck = 0; ck < NCOPY && nviol < 6; ck++) { g_ostate = 1; one_point(e, st, ck, 0, 0); one_point(e, st, ck, 1, 0); g_ostate = 0; one_point(e, st, ck, 0, 0); g_ostate = 2; one_point(e, st, ck, 0, 0); g_ostate = 1; }
    { int fn, fill; for (fn = 0; fn < NFRESH && nviol < 6; fn++) for (fill = 0; fill < 4 && nviol < 6; fill++) fresh_point(fn, fill, 0); }
    /* coverage cross-check against the declarations found by gcc -aux-info */
    for (i = 0; declared_fns[i]; i++) {
        int found = 0, k;
        for (e = 0; e < NENT; e++) if (!strcmp(TABLE[e].fn, declared_fns[i])) found = 1;
        for (k = 0; NON_ABORTING[k]; k++) if (!strcmp(NON_ABORTING[k], declared_fns[i])) found = 1;
        if (!found && strlen(gaps) < sizeof gaps - 80) { sprintf(gaps + strlen(gaps), "%s%s", ngaps ? " " : "", declared_fns[i]); ngaps++; }
    }
    printf("{\"world\":\"stray\",\"config\":0,\"config_desc\":\"%d (entry point, argument position) pairs x object states x {struct assignment, memcpy, relocation}\",\"property\":\"C20\",\"evaluations\":%lu,\"nontrivial_states\":%lu,"
           "\"exhaustive\":%s,\"closure\":%s,\"wall_s\":%.3f,\"counters\":{\"calls_on_stray_copies\":%lu,\"calls_on_the_original\":%lu,\"initialising_calls_on_storage_without_an_object\":%lu,\"declared_entry_points_seen_by_aux_info\":%d,\"declared_entry_points_not_in_the_table\":%d},"
           "\"detail\":\"declared but not covered: [%s]\",\"samples\":[\"cstl_weak_ptr_lock(sp = stray memcpy copy of a co-owned shared pointer) must abort; the same call on the original must return\",\"cstl_array_slice(s = relocated copy of a slice) must abort\"],\"violations\":[",
           NENT, points + points_orig + points_fresh, points, nviol ? "false" : "true", nviol ? "false" : "true", now() - t0, points, points_orig, points_fresh, i, ngaps, gaps);
    for (i = 0; i < nviol; i++) printf("%s{\"replay\":\"%s\",\"ops\":\"%s\",\"message\":\"%s\"}", i ? "," : "", viols[i], viols[i], violmsg[i]);
    printf("]}\n");
    return nviol ? 1 : 0;
}
