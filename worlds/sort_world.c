/* E4 inputx for C11: complete enumeration of all arrays up to length L over a 4-letter key alphabet, for every element size,
 * algorithm selector and entry point; every pivot the randomised variant can draw (rand() is owned by the harness). */
#define _GNU_SOURCE
#include "cstl/array.h"
#include "cstl/vector.h"
#include "../engine/shim.h"
#include <sanitizer/asan_interface.h>
#include <stdio.h>
#include <stdlib.h>
#include <string.h>
#include <stdarg.h>
#include <time.h>
#include <limits.h>

static const size_t SIZES[] = { 1, 2, 4, 8, 3, 12, 16, 24 };
static const int ALGOS[] = { CSTL_SORT_ALGORITHM_QUICK, CSTL_SORT_ALGORITHM_QUICK_R, CSTL_SORT_ALGORITHM_QUICK_M, CSTL_SORT_ALGORITHM_HEAP, -1, 4, 2897234 };
static const char *ALGONAME[] = { "QUICK", "QUICK_R", "QUICK_M", "HEAP", "-1", "4", "2897234" };
#define NALGO 7
static const unsigned char LETTER[4] = { 1, 3, 5, 7 };    /* keys; even values are absent probes in between */
#define MAXN 5000

static int failed; static char fail_msg[700];
static void fail(const char *fmt, ...) __attribute__((format(printf, 1, 2)));
static void fail(const char *fmt, ...) { va_list ap; if (failed) return; va_start(ap, fmt); vsnprintf(fail_msg, sizeof fail_msg, fmt, ap); va_end(ap); failed = 1; }

/* element: byte 0 = key, following bytes = identity tag (original index, little endian, repeated) */
static void mk_elem(unsigned char *e, size_t sz, unsigned key, unsigned idx) { size_t j; e[0] = (unsigned char)key; for (j = 1; j < sz; j++) e[j] = (unsigned char)((idx >> (8 * ((j - 1) % 2))) ^ (j > 2 ? 0x5a : 0)); }
static unsigned long cmp_calls, cmp_limit;
static unsigned char *g_arr; static size_t g_n, g_sz; static unsigned char *g_scratch;
static int g_scratch_any;      /* vector entry points: WHERE the vector keeps its one scratch element is its own business (behind the last slot, in front of the first);
                                * it must be addressable storage outside the vector's element slots 0..capacity-1 */
static size_t g_cap;
static int in_array(const void *p) { uintptr_t d = (uintptr_t)p - (uintptr_t)g_arr; return g_n && (uintptr_t)p >= (uintptr_t)g_arr && d < g_n * g_sz && d % g_sz == 0; }
static int cmp_key(const void *a, const void *b, void *priv)
{
    if (++cmp_calls > cmp_limit) shim_bail(3);                   /* watchdog: the sort/search does not terminate */
    if (priv != (void *)&cmp_calls) fail("comparison function received a wrong private pointer");
    if (!(in_array(a) || a == (void *)g_scratch || a == priv) || !(in_array(b) || b == (void *)g_scratch || b == priv)) {
        /* the probe of a search is passed as `a`; it lives outside the array and is registered through g_probe */
    }
    {
        int d = (int)*(const unsigned char *)a - (int)*(const unsigned char *)b;
        if (g_sz == 3 || g_sz == 12) return d < 0 ? INT_MIN : d > 0 ? INT_MAX : 0;      /* for two element sizes the comparator answers with extreme magnitudes */
        return d;
    }
}
static unsigned long swap_calls;
static int poisoned_scratch;
static void own_swap(void *a, void *b, void *t, size_t len)
{
    unsigned char tmp[32];
    swap_calls++;
    if (!in_array(a) || !in_array(b)) fail("swap callback received a pointer outside the array");
    if (t != (void *)g_scratch) fail("swap callback received a scratch pointer that is not the one the caller passed");
    if (len != g_sz || len > sizeof tmp) fail("swap callback received length %zu for %zu-byte elements", len, g_sz);
    if (failed) return;
    memcpy(tmp, a, len); memcpy(a, b, len); memcpy(b, tmp, len);       /* this callback ignores the scratch space, as the documentation allows */
}
static void chk_swap(void *a, void *b, void *t, size_t len)
{
    swap_calls++;
    if (!in_array(a) || !in_array(b)) fail("swap callback received a pointer outside the array (%p %p, array %p + %zu x %zu)", a, b, (void *)g_arr, g_n, g_sz);
    if (g_scratch_any) {
        const unsigned char *tt = t;
        if (t == NULL || __asan_region_is_poisoned(t, len) != NULL || (tt < g_arr + (g_cap > g_n ? g_cap : g_n) * g_sz && tt + len > g_arr)) fail("swap callback received a scratch pointer that is not usable storage outside the vector's element slots (0..capacity-1): the sort may touch the array and ONE scratch element only");
    } else if (t != (void *)g_scratch) fail("swap callback received a scratch pointer that is not the scratch element");
    if (len != g_sz) fail("swap callback received length %zu for %zu-byte elements", len, g_sz);
    if (failed) return;
    cstl_swap(a, b, t, len);
}

/* rand(): every call is a choice point */
static int rnd_choice[64], rnd_nchoice, rnd_calls, rnd_cap = 1 << 30;
static unsigned long rnd_abandoned;
/* A draw that picks the maximum at the end of a sub-array makes the library draw again for the same sub-array, so the tree of pivot
 * sequences has infinite branches (of probability zero).  Branches are abandoned -- not judged -- after rnd_cap draws: every sequence of
 * productive draws (at most n-1 of them) plus a bounded number of unproductive ones is still enumerated. */
static int my_rand(void) { int v = rnd_calls < rnd_nchoice ? rnd_choice[rnd_calls] : 0; if (++rnd_calls > rnd_cap) shim_bail(4); return v; }

static unsigned long cases, nontrivial, rand_sequences;
static char last_case[300];

/* run one sort and check it.  path 0: cstl_raw_array_sort on an exactly sized heap block, 1/2: __cstl_vector_sort with cap == size / cap > size */
static void one_sort(const unsigned char *keys, size_t n, size_t sz, int algo_i, int path, int use_chk_swap)
{
    static unsigned char orig[MAXN * 24];
    unsigned char *arr = NULL, *scratch = NULL; cstl_vector_t v; size_t i; int ab;
    cases++; if (n >= 2) nontrivial++;
    for (i = 0; i < n; i++) mk_elem(orig + i * sz, sz, keys[i], (unsigned)i);
    cmp_calls = 0; cmp_limit = 400 + 60 * n * n; swap_calls = 0; rnd_calls = 0;
    if (path == 0) {
        arr = malloc(n ? n * sz : 1); scratch = malloc(sz);
        if (n) memcpy(arr, orig, n * sz); else __asan_poison_memory_region(arr, 1);
        g_arr = arr; g_n = n; g_sz = sz; g_scratch = scratch; g_scratch_any = 0;
        if (use_chk_swap == 2) __asan_poison_memory_region(scratch, sz);       /* elements move only through the caller's swap function: the scratch space is the callback's business */
        /* 3: no scratch space at all (a swap function that needs none), and an allocator that has nothing to give: sorting is not an operation that may fail */
        if (use_chk_swap == 3) { g_scratch = NULL; shim_fail_plan(NULL, 0, 1); }
        SHIM_CALL(ab, cstl_raw_array_sort(arr, n, sz, cmp_key, &cmp_calls, use_chk_swap >= 2 ? own_swap : use_chk_swap ? chk_swap : cstl_swap, use_chk_swap == 3 ? NULL : scratch, (cstl_sort_algorithm_t)ALGOS[algo_i]));
        if (use_chk_swap == 3) shim_fail_plan(NULL, 0, 0);
        if (use_chk_swap == 2) __asan_unpoison_memory_region(scratch, sz);
    } else {
        cstl_vector_init(&v, sz);
        cstl_vector_resize(&v, n);
        if (path == 2) cstl_vector_reserve(&v, n + 3);
        if (n) memcpy(cstl_vector_data(&v), orig, n * sz);
        arr = cstl_vector_data(&v);
        g_arr = arr; g_n = n; g_sz = sz; g_scratch = NULL; g_scratch_any = 1; g_cap = cstl_vector_capacity(&v);
        SHIM_CALL(ab, __cstl_vector_sort(&v, cmp_key, &cmp_calls, use_chk_swap ? chk_swap : cstl_swap, (cstl_sort_algorithm_t)ALGOS[algo_i]));
        if (!ab && cstl_vector_data(&v) != (void *)arr) fail("the vector's buffer moved during sort");
    }
    if (ab == 4) { rnd_abandoned++; if (path == 0) { if (!n) __asan_unpoison_memory_region(arr, 1); free(arr); free(scratch); } else cstl_vector_clear(&v); return; }
    if (ab == 3) fail("no termination: more than %lu comparisons for %zu elements", cmp_limit, n);
    else if (ab) fail("%s inside the sort", ab == 2 ? shim_assert_msg : "abort()");
    if (!failed) {
        /* sorted, and a permutation of the very same elements (byte-identical, nothing lost or duplicated) */
        static unsigned char used[MAXN];
        memset(used, 0, n);
        for (i = 0; i + 1 < n && !failed; i++) if (arr[i * sz] > arr[(i + 1) * sz]) fail("not sorted: key %d at index %zu precedes key %d", arr[i * sz], i, arr[(i + 1) * sz]);
        for (i = 0; i < n && !failed; i++) {
            size_t j, hit = n;
            if (sz >= 3) { unsigned idx = (unsigned)arr[i * sz + 1] | ((unsigned)arr[i * sz + 2] << 8); if (idx < n && !used[idx] && memcmp(arr + i * sz, orig + idx * sz, sz) == 0) hit = idx; }
            else for (j = 0; j < n; j++) if (!used[j] && memcmp(arr + i * sz, orig + j * sz, sz) == 0) { hit = j; break; }
            if (hit == n) fail("output element %zu is not one of the (remaining) input elements: an element was lost, duplicated or altered", i); else used[hit] = 1;
        }
    }
    if (path == 0) { if (!n) __asan_unpoison_memory_region(arr, 1); free(arr); free(scratch); } else cstl_vector_clear(&v);
}

static void describe_case(const char *what, const unsigned char *keys, size_t n, size_t sz, int algo_i, int path, int chk)
{
    size_t i, p; p = (size_t)snprintf(last_case, sizeof last_case, "%s:%d:%zu:%d:%d:", what, algo_i, sz, path, chk);
    for (i = 0; i < n && i < 40 && p < sizeof last_case - 8; i++) last_case[p++] = (char)('0' + keys[i]);
    if (n > 40) p += (size_t)snprintf(last_case + p, sizeof last_case - p, "...(%zu)", n);
    last_case[p++] = ':';
    for (i = 0; (int)i < rnd_nchoice && p < sizeof last_case - 8; i++) p += (size_t)snprintf(last_case + p, sizeof last_case - p, "%s%d", i ? "," : "", rnd_choice[i]);
    last_case[p] = 0;
}

static char viols[6][400]; static char violmsg[6][700]; static int nviol;
static void record(void) { if (failed && nviol < 6) { snprintf(viols[nviol], 400, "%s", last_case); snprintf(violmsg[nviol], 700, "%s", fail_msg); nviol++; } failed = 0; }

/* all pivot sequences of the randomised quicksort: depth-first over the choice points */
static void sort_all_pivots(const unsigned char *keys, size_t n, size_t sz, int path)
{
    /* odometer over the choice points: run with the current choices (0 beyond them), extend to the calls actually made, then increment */
    int c[64], m = 0, k, p;
    rnd_cap = n <= 4 ? (int)n + 2 : (int)n;
    for (;;) {
        int ncalls;
        memcpy(rnd_choice, c, sizeof(int) * (size_t)m); rnd_nchoice = m;
        describe_case("sort", keys, n, sz, 1, path, 1);
        one_sort(keys, n, sz, 1, path, 1); rand_sequences++;
        ncalls = rnd_calls; if (ncalls > rnd_cap) ncalls = rnd_cap;
        record();
        if (nviol >= 6) break;
        for (k = m; k < ncalls; k++) c[k] = 0;
        m = ncalls;
        p = m - 1; while (p >= 0 && c[p] >= (int)n - 1) p--;
        if (p < 0) break;
        c[p]++; m = p + 1;
    }
    rnd_nchoice = 0; rnd_cap = 1 << 30;
}

static void searches(const unsigned char *keys, size_t n, size_t sz, int sorted)
{
    static unsigned char buf[MAXN * 24], rev[MAXN * 24]; unsigned char probe[24]; size_t i; int pr, ab; cstl_vector_t v;
    unsigned char *arr = malloc(n ? n * sz : 1), *scratch = malloc(sz);
    for (i = 0; i < n; i++) mk_elem(buf + i * sz, sz, keys[i], (unsigned)i);
    if (n) memcpy(arr, buf, n * sz); else __asan_poison_memory_region(arr, 1);
    g_arr = arr; g_n = n; g_sz = sz; g_scratch = scratch; g_scratch_any = 0;
    for (pr = 0; pr <= 8 && !failed; pr++) {
        static volatile ssize_t r; ssize_t first = -1; int exists = 0;
        mk_elem(probe, sz, (unsigned)pr, 999);
        for (i = 0; i < n; i++) if (keys[i] == pr) { exists = 1; if (first < 0) first = (ssize_t)i; }
        cases++; if (n >= 2) nontrivial++;
        cmp_calls = 0; cmp_limit = 64 + 4 * n;
        describe_case("find", keys, n, sz, pr, 0, 0);
        SHIM_CALL(ab, r = cstl_raw_array_find(arr, n, sz, probe, cmp_key, &cmp_calls));
        if (ab) fail("find: %s", ab == 3 ? "does not terminate" : "abort"); else if (r != first) fail("find(probe %d) returned %zd, the first equal element is at %zd", pr, (ssize_t)r, first);
        record();
        if (sorted) {
            cases++; cmp_calls = 0;
            describe_case("search", keys, n, sz, pr, 0, 0);
            SHIM_CALL(ab, r = cstl_raw_array_search(arr, n, sz, probe, cmp_key, &cmp_calls));
            if (ab) fail("binary search: %s", ab == 3 ? "does not terminate" : "abort");
            else if (exists ? (r < 0 || (size_t)r >= n || keys[r] != pr) : r != -1) fail("binary search(probe %d) returned %zd but an equal element %s", pr, (ssize_t)r, exists ? "exists elsewhere" : "does not exist");
            record();
        }
    }
    /* the probe may be one of the array's own elements (a caller asking "where is the first element equal to this one?") */
    for (i = 0; i < n && !failed; i++) {
        static volatile ssize_t r; ssize_t first = -1; size_t j;
        for (j = 0; j < n; j++) if (keys[j] == keys[i]) { first = (ssize_t)j; break; }
        cases++; cmp_calls = 0; cmp_limit = 64 + 4 * n;
        describe_case("findown", keys, n, sz, (int)i, 0, 0);
        SHIM_CALL(ab, r = cstl_raw_array_find(arr, n, sz, arr + i * sz, cmp_key, &cmp_calls));
        if (ab) fail("find with the array's own element %zu as probe: %s", i, ab == 3 ? "does not terminate" : "abort");
        else if (r != first) fail("find with the array's own element %zu as probe returned %zd, the first equal element is at %zd", i, (ssize_t)r, first);
        record();
        if (sorted) {
            cases++; cmp_calls = 0;
            describe_case("searchown", keys, n, sz, (int)i, 0, 0);
            SHIM_CALL(ab, r = cstl_raw_array_search(arr, n, sz, arr + i * sz, cmp_key, &cmp_calls));
            if (ab || r < 0 || (size_t)r >= n || keys[r] != keys[i]) fail("binary search with the array's own element %zu as probe returned %zd", i, (ssize_t)r);
            record();
        }
    }
    /* reverse: exact mirror, raw and through the vector */
    cases++;
    describe_case("reverse", keys, n, sz, 0, 0, 1);
    swap_calls = 0;
    SHIM_CALL(ab, cstl_raw_array_reverse(arr, n, sz, chk_swap, scratch));
    if (ab) fail("reverse aborted");
    for (i = 0; i < n && !failed; i++) if (memcmp(arr + i * sz, buf + (n - 1 - i) * sz, sz)) fail("reverse: element %zu is not the mirror image", i);
    record();
    cstl_vector_init(&v, sz); cstl_vector_resize(&v, n); if (n) memcpy(cstl_vector_data(&v), buf, n * sz);
    describe_case("reverse", keys, n, sz, 0, 1, 0);
    g_arr = cstl_vector_data(&v); g_scratch = NULL; g_scratch_any = 1; g_cap = cstl_vector_capacity(&v);
    SHIM_CALL(ab, cstl_vector_reverse(&v));
    if (ab) fail("vector reverse aborted");
    for (i = 0; i < n && !failed; i++) if (memcmp((unsigned char *)cstl_vector_data(&v) + i * sz, buf + (n - 1 - i) * sz, sz)) fail("vector reverse: element %zu is not the mirror image", i);
    if (!failed) {
        /* vector search/find must look at the first size() elements only: give the vector slack capacity and fill the dead slots with
         * keys that are smaller and larger than anything in the array */
        static volatile ssize_t r; int pr2, variant; cstl_vector_t w;
        for (variant = 0; variant < 2 && !failed; variant++) {
            size_t slack;
            cstl_vector_init(&w, sz); cstl_vector_resize(&w, n + 3);
            if (n) memcpy(cstl_vector_data(&w), buf, n * sz);
            for (slack = n; slack < n + 3; slack++) mk_elem((unsigned char *)cstl_vector_data(&w) + slack * sz, sz, variant ? 8u : 0u, 777);
            cstl_vector_resize(&w, n);                                   /* capacity stays n+3, the stale elements stay behind the end */
            for (pr2 = 0; pr2 <= 8 && !failed; pr2++) {
                ssize_t first = -1; int exists = 0;
                mk_elem(probe, sz, (unsigned)pr2, 999);
                for (i = 0; i < n; i++) if (keys[i] == pr2) { exists = 1; if (first < 0) first = (ssize_t)i; }
                cases++; cmp_calls = 0; cmp_limit = 64 + 4 * n;
                g_arr = cstl_vector_data(&w); g_n = n;
                SHIM_CALL(ab, r = cstl_vector_find(&w, probe, cmp_key, &cmp_calls));
                if (ab || r != first) fail("vector find(probe %d) on a vector with slack capacity returned %zd, the first equal element is at %zd", pr2, (ssize_t)r, first);
                if (sorted) {
                    SHIM_CALL(ab, r = cstl_vector_search(&w, probe, cmp_key, &cmp_calls));
                    if (ab || (exists ? (r < 0 || (size_t)r >= n || keys[r] != pr2) : r != -1)) fail("vector search(probe %d) on a vector with slack capacity returned %zd (size %zu) but an equal element %s", pr2, (ssize_t)r, n, exists ? "exists" : "does not exist");
                }
            }
            cstl_vector_clear(&w);
        }
    }
    if (sorted && n && !failed) {
        static volatile ssize_t r;
        SHIM_CALL(ab, cstl_vector_reverse(&v));
        mk_elem(probe, sz, keys[n / 2], 999); cmp_calls = 0; cmp_limit = 64 + 4 * n;
        SHIM_CALL(ab, r = cstl_vector_search(&v, probe, cmp_key, &cmp_calls));
        if (ab || r < 0 || keys[r] != keys[n / 2]) fail("vector search did not find a present key");
        SHIM_CALL(ab, r = cstl_vector_find(&v, probe, cmp_key, &cmp_calls));
        if (ab || r < 0 || keys[r] != keys[n / 2] || (r > 0 && keys[r - 1] == keys[n / 2])) fail("vector find did not return the first equal index");
    }
    record();
    cstl_vector_clear(&v);
    (void)rev;
    if (!n) __asan_unpoison_memory_region(arr, 1);
    free(arr); free(scratch);
}

static void do_array(const unsigned char *keys, size_t n, size_t sz, int randlen)
{
    int a, path, sorted = 1; size_t i;
    for (i = 0; i + 1 < n; i++) if (keys[i] > keys[i + 1]) sorted = 0;
    for (a = 0; a < NALGO && nviol < 6; a++) {
        if (a == 1) continue;
        for (path = 0; path < 3 && nviol < 6; path++) {
            if (a >= 4 && path == 2) continue;
            rnd_nchoice = 0;
            describe_case("sort", keys, n, sz, a, path, path != 1);
            one_sort(keys, n, sz, a, path, path != 1);
            record();
            if (path == 0 && a < 4) { describe_case("sort", keys, n, sz, a, 0, 2); one_sort(keys, n, sz, a, 0, 2); record(); describe_case("sort", keys, n, sz, a, 0, 3); one_sort(keys, n, sz, a, 0, 3); record(); }
        }
    }
    if (n >= 1) {
        /* rand() may return anything up to RAND_MAX: streams at the top of the range (the exhaustive enumeration below uses the values 0..n-1) */
        static const int top[4][8] = { { RAND_MAX, RAND_MAX, RAND_MAX, RAND_MAX, RAND_MAX, RAND_MAX, RAND_MAX, RAND_MAX }, { RAND_MAX, 0, RAND_MAX, 0, RAND_MAX, 0, RAND_MAX, 0 },
                                       { 0, RAND_MAX, 0, RAND_MAX, 0, RAND_MAX, 0, RAND_MAX }, { RAND_MAX - 1, RAND_MAX / 2, RAND_MAX - 1, RAND_MAX / 2 + 1, RAND_MAX, 1, RAND_MAX - 2, 3 } };
        int s3;
        rnd_cap = 3 * (int)n + 8;
        for (s3 = 0; s3 < 4 && nviol < 6; s3++) { memcpy(rnd_choice, top[s3], sizeof top[s3]); rnd_nchoice = 8; describe_case("sort", keys, n, sz, 1, 0, 1); one_sort(keys, n, sz, 1, 0, 1); record(); }
        rnd_nchoice = 0; rnd_cap = 1 << 30;
    }
    if ((int)n <= randlen) { sort_all_pivots(keys, n, sz, 0); if (n >= 3) sort_all_pivots(keys, n, sz, 1); }
    else {
        /* beyond the exhaustive pivot bound: three fixed pivot streams (first, last, alternating) */
        static const int streams[3][8] = { { 0 }, { 1 << 20, 1 << 20, 1 << 20, 1 << 20, 1 << 20, 1 << 20, 1 << 20, 1 << 20 }, { 0, 1 << 20, 1, 1 << 19, 2, 77, 3, 5 } };
        int s2;
        for (s2 = 0; s2 < 3 && nviol < 6; s2++) { memcpy(rnd_choice, streams[s2], sizeof streams[s2]); rnd_nchoice = 8; describe_case("sort", keys, n, sz, 1, 0, 1); one_sort(keys, n, sz, 1, 0, 1); record(); }
        rnd_nchoice = 0;
    }
    searches(keys, n, sz, sorted);
}

static int large_sizes = 2;
static char *prog_buf;
static void large_one(size_t sz, size_t n, int shape, int a)
{
    static unsigned char keys[MAXN]; size_t i;
    if (n > MAXN) return;
    {
        for (i = 0; i < n; i++) switch (shape) {
            case 0: keys[i] = (unsigned char)(i * 250 / n); break;                 /* sorted */
            case 1: keys[i] = (unsigned char)((n - 1 - i) * 250 / n); break;       /* reversed */
            case 2: keys[i] = 7; break;                                           /* constant */
            case 3: keys[i] = (unsigned char)((i * 7 + i / 3) % 2); break;        /* two-valued */
            case 4: keys[i] = (unsigned char)((i < n / 2 ? i : n - 1 - i) * 250 / n); break;   /* organ pipe */
            default: keys[i] = (unsigned char)(i % 17); break;                    /* sawtooth */
        }
        {
            rnd_nchoice = 0;
            /* shapes: 0 sorted, 1 reversed, 2 constant, 3 two-valued, 4 organ-pipe, 5 sawtooth */
            snprintf(last_case, sizeof last_case, "large:%d:%zu:%zu:%d", a, sz, n, shape);
            if (prog_buf) snprintf(prog_buf, 4000, "R %s\n", last_case);
            one_sort(keys, n, sz, a, 0, 1);
            cmp_limit = 400 + 60 * n * n;
            record();
        }
    }
}
static void large_inputs(size_t sz)
{
    static const size_t ns[] = { 1000, 4097, 72, 128, 200, 256, 1024 }; size_t ni; int shape, a;
    /* the two long lengths, and a few lengths that are multiples of 8 / powers of two just above the small-array bound */
    for (ni = 0; ni < 7; ni++) { if (ni == 1 && large_sizes < 2) continue; for (shape = 0; shape < 6 && nviol < 6; shape++) for (a = 0; a < 5 && nviol < 6; a++) large_one(sz, ns[ni], shape, a); }
}

static double now(void) { struct timespec ts; clock_gettime(CLOCK_MONOTONIC, &ts); return ts.tv_sec + ts.tv_nsec * 1e-9; }
#include <fcntl.h>
#include <unistd.h>
#include <sys/mman.h>
static void progress_open(const char *path) { int fd = open(path, O_RDWR | O_CREAT | O_TRUNC, 0644); if (fd < 0 || ftruncate(fd, 4096) != 0) return; prog_buf = mmap(NULL, 4096, PROT_READ | PROT_WRITE, MAP_SHARED, fd, 0); if (prog_buf == MAP_FAILED) prog_buf = NULL; close(fd); }

static void do_array(const unsigned char *keys, size_t n, size_t sz, int randlen);
static int replay_case(const char *rp)
{
    /* what:algo:size:path:chk:letters:rand  (large inputs: large:algo:size:n:shape -- re-run through large_inputs) */
    char what[16]; int a, path, chk; size_t sz; char letters[64] = "", rnd[200] = ""; unsigned char keys[64]; size_t n, i;
    if (!strncmp(rp, "large:", 6)) { size_t s2, n2; int sh2; if (sscanf(rp, "large:%d:%zu:%zu:%d", &a, &s2, &n2, &sh2) != 4) return 4; printf("case %s\n", rp); large_one(s2, n2, sh2, a); if (nviol) { printf("VIOLATED: %s\n  case %s\n", violmsg[0], viols[0]); return 1; } printf("no violation\n"); return 0; }
    if (sscanf(rp, "%15[^:]:%d:%zu:%d:%d:%63[^:]:%199s", what, &a, &sz, &path, &chk, letters, rnd) < 5) { if (sscanf(rp, "%15[^:]:%d:%zu:%d:%d::%199s", what, &a, &sz, &path, &chk, rnd) < 5) return 4; letters[0] = 0; }
    n = strlen(letters); for (i = 0; i < n; i++) keys[i] = (unsigned char)(letters[i] - '0');
    rnd_nchoice = 0; { char *p = rnd; while (*p) { char *e; long x = strtol(p, &e, 10); if (e == p) break; rnd_choice[rnd_nchoice++] = (int)x; p = *e == ',' ? e + 1 : e; } }
    printf("case %s\n", rp);
    if (!strcmp(what, "array")) do_array(keys, n, sz, 5);           /* the whole battery for this array (used when the exploring process died inside it) */
    else if (!strcmp(what, "sort")) { snprintf(last_case, sizeof last_case, "%s", rp); one_sort(keys, n, sz, a, path, chk); record(); }
    else { int sorted = 1; for (i = 0; i + 1 < n; i++) if (keys[i] > keys[i + 1]) sorted = 0; searches(keys, n, sz, sorted); }
    if (nviol) { printf("VIOLATED: %s\n", violmsg[0]); return 1; }
    printf("no violation\n");
    return 0;
}

int main(int argc, char **argv)
{
    int i, cfg = 0, thorough = 0, L, randlen; const char *replay = NULL, *prop = NULL; double t0 = now(); size_t sz, n;
    unsigned char keys[16]; unsigned long arrays = 0; char samples[3][300]; int nsamples = 0;
    setvbuf(stdout, NULL, _IOFBF, 1 << 16);
    shim_watchdog_start();
    shim_rand_fn = my_rand;
    for (i = 1; i < argc; i++) {
        if (!strcmp(argv[i], "--prop") && i + 1 < argc) prop = argv[++i];
        else if (!strcmp(argv[i], "--config") && i + 1 < argc) cfg = atoi(argv[++i]);
        else if (!strcmp(argv[i], "--thorough")) thorough = 1;
        else if (!strcmp(argv[i], "--replay") && i + 1 < argc) replay = argv[++i];
        else if (!strcmp(argv[i], "--progress") && i + 1 < argc) progress_open(argv[++i]);
        else if (!strcmp(argv[i], "--deadline") && i + 1 < argc) ++i;
        else if (!strcmp(argv[i], "--nconfigs")) { printf("8\n"); return 0; }
        else { fprintf(stderr, "bad arg %s\n", argv[i]); return 2; }
    }
    if (!prop || strcmp(prop, "C11")) { fprintf(stderr, "sortx: property not served\n"); return 2; }
    if (replay) return replay_case(replay);
    sz = SIZES[cfg]; L = thorough ? 9 : 7; randlen = thorough ? 6 : 5;
    for (n = 0; (int)n <= L && nviol < 6; n++) {
        unsigned long total = 1, id; size_t k;
        for (k = 0; k < n; k++) total *= 4;
        for (id = 0; id < total && nviol < 6; id++) {
            unsigned long x = id;
            for (k = 0; k < n; k++) { keys[k] = LETTER[x & 3]; x >>= 2; }
            arrays++;
            if (prog_buf) { describe_case("array", keys, n, sz, 0, 0, 0); snprintf(prog_buf, 4000, "R %s\n", last_case); }
            do_array(keys, n, sz, randlen);
            if (nsamples < 3 && (arrays == 300 || arrays == 5000 || arrays == 20000)) { describe_case("sort", keys, n, sz, 2, 0, 1); snprintf(samples[nsamples++], 300, "%s (what:selector:element size:entry point:checked swap:keys:pivot choices)", last_case); }
        }
    }
    large_sizes = thorough ? 2 : 1;          /* quick: the 1000-element adversarial inputs only */
    if (nviol < 6) large_inputs(sz);
    printf("{\"world\":\"sortx\",\"config\":%d,\"config_desc\":\"%zu-byte elements: every array of length 0..%d over 4 keys (%lu arrays) x 6 selectors x raw/vector entry points, all pivot sequences of QUICK_R up to length %d, find/search for 9 probes, reverse%s\","
           "\"property\":\"C11\",\"thorough\":%d,\"evaluations\":%lu,\"nontrivial_states\":%lu,\"exhaustive\":%s,\"closure\":%s,\"wall_s\":%.3f,\"counters\":{\"arrays\":%lu,\"randomised_pivot_sequences\":%lu,\"pivot_branches_abandoned_at_the_draw_cap\":%lu},\"samples\":[",
           cfg, sz, L, arrays, randlen, thorough ? ", large adversarial inputs (1000 and 4097 elements)" : ", large adversarial inputs (1000 elements)", thorough, cases, nontrivial, nviol ? "false" : "true", nviol ? "false" : "true", now() - t0, arrays, rand_sequences, rnd_abandoned);
    for (i = 0; i < nsamples; i++) printf("%s\"%s\"", i ? "," : "", samples[i]);
    printf("],\"violations\":[");
    for (i = 0; i < nviol; i++) { const char *s; printf("%s{\"replay\":\"%s\",\"ops\":\"%s\",\"message\":\"", i ? "," : "", viols[i], viols[i]); for (s = violmsg[i]; *s; s++) { if (*s == '"' || *s == '\\') putchar('\\'); if ((unsigned char)*s >= 0x20) putchar(*s); } printf("\"}"); }
    printf("]}\n");
    return nviol ? 1 : 0;
}
