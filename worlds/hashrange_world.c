/* E4/E5 for C17: (a) the built-in hash functions stay in [0, m) -- complete enumeration of keys and table sizes on the float grid;
 * (b) a caller-supplied hash that returns m or more makes the operation abort at once -- every call ordinal of every entry point
 * in every table state (settled / grow pending / shrink pending) x {m, m+1, SIZE_MAX, 2^8+i, 2^16+i, 2^32, 2^32+i, 2^63+i} (i = the in-range index).  hash.c is unity-#included. */
#define _GNU_SOURCE
#include "hash.c"
#include "../engine/shim.h"
#include <signal.h>
#include <stdio.h>
#include <string.h>
#include <stdarg.h>
#include <time.h>
#include <float.h>

static char viols[6][200], violmsg[6][500]; static int nviol;
static void violation(const char *rp, const char *fmt, ...) __attribute__((format(printf, 2, 3)));
static void violation(const char *rp, const char *fmt, ...)
{
    va_list ap;
    if (nviol >= 6) return;
    snprintf(viols[nviol], sizeof viols[0], "%s", rp);
    va_start(ap, fmt); vsnprintf(violmsg[nviol], sizeof violmsg[0], fmt, ap); va_end(ap);
    nviol++;
}
static unsigned long evals, nontriv;
static double now(void) { struct timespec ts; clock_gettime(CLOCK_MONOTONIC, &ts); return ts.tv_sec + ts.tv_nsec * 1e-9; }

/* ------------------------------------------------------------------ (a) ranges */
static const size_t MSET[] = { 1, 2, 3, 7, 16, 1000003, 16777215, 16777216, 16777217, 33554431, ((size_t)1 << 16), ((size_t)1 << 31), ((size_t)1 << 32) - 1, (size_t)1 << 32, ((size_t)1 << 32) + 1, (size_t)1 << 33, (size_t)3 << 32, ((size_t)1 << 40) + 5, ((size_t)1 << 53) + 1, (size_t)1 << 63, SIZE_MAX };
#define NMSET ((int)(sizeof MSET / sizeof MSET[0]))
static size_t worst_k[4]; static float worst_frac;
/* the evaluation in flight, for the crash path: a built-in hash that traps (division by zero, wild access) ends the process; the signal
 * handler / sanitizer hook publishes which evaluation it was, the driver replays it and reports the crash as the violation */
static volatile size_t fl_k, fl_m; static volatile int fl_which;      /* 1 mul, 2 div */
static char *prog_buf;
static void publish_inflight(void) { if (prog_buf && fl_which) snprintf(prog_buf, 200, "R %s:%zu:%zu\n", fl_which == 1 ? "mul" : "div", (size_t)fl_k, (size_t)fl_m); }
static void on_trap(int sig) { publish_inflight(); signal(sig, SIG_DFL); raise(sig); }
void __asan_on_error(void) { publish_inflight(); }
static inline void try_mul(size_t k, size_t m)
{
    fl_k = k; fl_m = m; fl_which = 1; __asm__ volatile("" : "+r"(k), "+r"(m) : : "memory");      /* the evaluation cannot be scheduled ahead of the marker */
    size_t r = cstl_hash_mul(k, m);
    evals++;
    if (r >= m) { char rp[100]; snprintf(rp, sizeof rp, "mul:%zu:%zu", k, m); violation(rp, "cstl_hash_mul(%zu, %zu) = %zu, which is not below the table size", k, m, r); }
}
static inline void try_div(size_t k, size_t m)
{
    fl_k = k; fl_m = m; fl_which = 2; __asm__ volatile("" : "+r"(k), "+r"(m) : : "memory");
    size_t r = cstl_hash_div(k, m);
    evals++;
    if (r >= m) { char rp[100]; snprintf(rp, sizeof rp, "div:%zu:%zu", k, m); violation(rp, "cstl_hash_div(%zu, %zu) = %zu, which is not below the table size", k, m, r); }
}
/* smallest integer that converts to the float value f (f >= 1, integral) */
static size_t smallest_rounding_to(float f)
{
    /* candidates: the exact value of f, and one above the midpoint to the previous float (round to nearest even) */
    double d = (double)f; float prev = nextafterf(f, 0.0f); double mid = ((double)prev + d) / 2.0;
    size_t c;
    if (d >= 18446744073709551616.0) return SIZE_MAX;
    if (mid < 1.0) return (size_t)d;
    c = (size_t)mid;                    /* floor(mid) */
    while ((float)c != f && c < (size_t)d) c++;
    return c;
}

static void ranges(int shard, int nshards, int thorough)
{
    /* 1. every key below 2^28 (thorough 2^32), no reduction, against three table sizes; all table sizes of MSET for a stride of keys */
    size_t kmax = thorough ? ((size_t)1 << 32) : ((size_t)1 << 28), k, chunk = kmax / (size_t)nshards, k0 = chunk * (size_t)shard, k1 = shard == nshards - 1 ? kmax : k0 + chunk;
    int mi; float f;
    for (k = k0; k < k1 && nviol < 6; k++) {
        try_mul(k, 16); try_mul(k, 1000003); try_mul(k, SIZE_MAX);
        if ((k & 1023) == 0) for (mi = 0; mi < NMSET; mi++) { try_mul(k, MSET[mi]); try_div(k, MSET[mi]); }
    }
    nontriv += k1 - k0;
    /* 2. one representative per single-precision value in [2^24, 2^64] (the multiplicative hash reads the key through (float)k): this shard's binades */
    for (mi = 24 + shard; mi < 64 && nviol < 6; mi += nshards) {
        float lo = ldexpf(1.0f, mi), hi = mi == 63 ? FLT_MAX : ldexpf(1.0f, mi + 1);
        for (f = lo; f < hi && nviol < 6; f = nextafterf(f, FLT_MAX)) {
            size_t kk = (double)f >= 18446744073709551616.0 ? SIZE_MAX : (size_t)(double)f;
            try_mul(kk, 16); try_mul(kk, SIZE_MAX); try_mul(kk - 1, 1000003); try_mul(kk + 1, 1000003);
            nontriv++;
            if ((double)f >= 18446744073709551616.0) break;
        }
    }
    /* 3. every single-precision value of (float)m in [1, 2^64] with the smallest m that rounds to it, against the keys whose fraction is largest
     *    (found by this run among all keys below 2^24) and smallest */
    {
        size_t kk; float best = -1.0f; static const float phi = 1.61803398875f;
        for (kk = 0; kk < ((size_t)1 << 24); kk++) { float M = phi * kk, fr = M - floorf(M); if (fr > best) { best = fr; worst_k[0] = kk; } }
        worst_frac = best; worst_k[1] = 1; worst_k[2] = 0; worst_k[3] = 987;
        for (mi = shard; mi < 64 && nviol < 6; mi += nshards) {
            float lo = ldexpf(1.0f, mi), hi = mi == 63 ? FLT_MAX : ldexpf(1.0f, mi + 1);
            unsigned long step = (thorough || mi <= 26) ? 1 : 64, cnt = 0;          /* quick: every value up to 2^27, every 64th value above */
            for (f = lo; f < hi && nviol < 6; f = nextafterf(f, FLT_MAX), cnt++) {
                size_t m;
                if ((double)f >= 18446744073709551616.0) break;
                if (cnt % step) continue;
                m = smallest_rounding_to(f);
                try_mul(worst_k[0], m); try_mul(worst_k[1], m); try_mul(worst_k[3], m); try_div(SIZE_MAX, m); try_div(m, m);
                if (m > 1) { try_mul(worst_k[0], m - 1); }
                nontriv++;
            }
        }
    }
    /* 4. the full product small keys x small table sizes, no reduction */
    {
        size_t mm, mlim = thorough ? 1024 : 64, klim = thorough ? ((size_t)1 << 23) : ((size_t)1 << 20);
        for (mm = 1 + (size_t)shard; mm <= mlim && nviol < 6; mm += (size_t)nshards) for (k = 0; k < klim; k++) { try_mul(k, mm); if ((k & 255) == 0) try_div(k, mm); }
    }
}

/* ------------------------------------------------------------------ (b) bad user hash */
struct elem { int id; struct cstl_hash_node hn; };
static struct elem E[16];
static int hcalls, bad_at, bad_kind, calls_after_bad;      /* bad_at: 1-based ordinal of the call (within the operation) that misbehaves; 0 = never */
static size_t uhash(size_t k, size_t m)
{
    hcalls++;
    if (bad_at && hcalls > bad_at) calls_after_bad++;
    if (bad_at && hcalls == bad_at) {
        size_t r = (k * 7 + 3) % m;       /* the in-range answer: the out-of-range values below agree with it in their low 8/16/32 bits */
        switch (bad_kind) {
        case 0: return m; case 1: return m + 1; case 2: return SIZE_MAX;
        case 3: return ((size_t)1 << 8) + r; case 4: return ((size_t)1 << 16) + r; case 5: return (size_t)1 << 32; case 6: return ((size_t)1 << 32) + r; default: return ((size_t)1 << 63) + r;
        }
    }
    return (k * 7 + 3) % m;
}
enum { S_SETTLED, S_GROW, S_SHRINK, NSTATES };
static const char *statename[] = { "settled", "grow pending", "shrink pending" };
enum { B_INSERT, B_FIND, B_FIND_ABSENT, B_ERASE, B_ERASE_NONMEMBER, B_REHASH, B_FOREACH, B_RESIZE, B_SHRINK, NBOPS };
static const char *bopname[] = { "insert", "find(present)", "find(absent)", "erase(member)", "erase(non-member)", "rehash", "foreach", "resize", "shrink_to_fit" };
static int cb_nop(void *e, void *p) { (void)e; (void)p; return 0; }
static struct cstl_hash H;
static void build(int state)
{
    int i;
    shim_reset();
    shim_in_lib++;                    /* the table's bucket array is tracked by the allocation layer from the start */
    cstl_hash_init(&H, offsetof(struct elem, hn));
    bad_at = 0; hcalls = 0;
    cstl_hash_resize(&H, 8, uhash);
    for (i = 0; i < 12; i++) { E[i].id = i; cstl_hash_insert(&H, (size_t)i * 3, &E[i]); }
    E[12].id = 12; E[12].hn.key = 36; E[13].id = 13; E[13].hn.key = 41;
    if (state == S_GROW) { cstl_hash_resize(&H, 16, NULL); cstl_hash_find(&H, 3, NULL, NULL); }
    if (state == S_SHRINK) { cstl_hash_resize(&H, 5, NULL); cstl_hash_find(&H, 3, NULL, NULL); }
    shim_in_lib = 0;
}
static void do_op(int op)
{
    switch (op) {
    case B_INSERT: cstl_hash_insert(&H, 36, &E[12]); break;
    case B_FIND: cstl_hash_find(&H, 15, NULL, NULL); break;
    case B_FIND_ABSENT: cstl_hash_find(&H, 1000, NULL, NULL); break;
    case B_ERASE: cstl_hash_erase(&H, &E[7]); break;
    case B_ERASE_NONMEMBER: cstl_hash_erase(&H, &E[13]); break;
    case B_REHASH: cstl_hash_rehash(&H); break;
    case B_FOREACH: cstl_hash_foreach(&H, cb_nop, NULL); break;
    case B_RESIZE: cstl_hash_resize(&H, 11, NULL); break;
    default: cstl_hash_shrink_to_fit(&H); break;
    }
}
static unsigned long badcases, badcases_triggered;
#define NKINDS 8
static const char *kindname[] = { "m", "m+1", "SIZE_MAX", "2^8 + the in-range index", "2^16 + the in-range index", "2^32", "2^32 + the in-range index", "2^63 + the in-range index" };
static void bad_one(int state, int op, int j, int kind, int verbose)
{
    int ab; char rp[100];
    snprintf(rp, sizeof rp, "bad:%d:%d:%d:%d", state, op, j, kind);
    build(state);
    hcalls = 0; calls_after_bad = 0; bad_at = j; bad_kind = kind;
    shim_in_lib++;
    SHIM_CALL(ab, do_op(op));
    shim_in_lib = 0;
    bad_at = 0;
    badcases++; evals++;
    if (verbose) printf("table %s, %s, hash call #%d of the operation returns %s: %s after %d hash calls (%d after the bad one)\n", statename[state], bopname[op], j, kindname[kind],
                        ab == 1 ? "abort()" : ab ? "assertion" : "returned", hcalls, calls_after_bad);
    if (hcalls < j) { shim_in_lib++; cstl_hash_clear(&H, NULL); shim_in_lib = 0; return; }           /* the operation makes fewer calls: nothing misbehaved */
    badcases_triggered++; nontriv++;
    if (ab != 1) violation(rp, "table %s: %s returned although the hash function's call #%d returned %s (a value of m or more must abort the operation)", statename[state], bopname[op], j, kindname[kind]);
    else if (calls_after_bad) violation(rp, "table %s: %s consulted the hash function %d more time(s) after it had returned an out-of-range value, before aborting", statename[state], bopname[op], calls_after_bad);
    /* (any access outside the bucket array is an AddressSanitizer report, which ends this process: the driver turns that into the violation) */
}
#include <fcntl.h>
#include <unistd.h>
#include <sys/mman.h>
static void progress_open(const char *path) { int fd = open(path, O_RDWR | O_CREAT | O_TRUNC, 0644); if (fd < 0 || ftruncate(fd, 4096) != 0) return; prog_buf = mmap(NULL, 4096, PROT_READ | PROT_WRITE, MAP_SHARED, fd, 0); if (prog_buf == MAP_FAILED) prog_buf = NULL; close(fd); }
/* (c) "a table using them can never abort": every life-cycle of a table that uses only the built-in hashes (explicitly, or by passing
 * NULL), enumerated to depth 5 over {resize to three sizes, insert, find, erase, rehash, foreach, shrink_to_fit, clear}, with keys up to
 * SIZE_MAX: no operation may end in abort() (or trap).  Keyed operations are only issued while the table has buckets. */
static unsigned long goodcases;
static const size_t gkeys[6] = { 0, 7, 3000000000u, (size_t)-1, ((size_t)1 << 63) + 5, 12 };
static int good_run(int fi, const int *ops, int n, int verbose)
{
    cstl_hash_func_t *f = fi == 0 ? NULL : fi == 1 ? cstl_hash_mul : cstl_hash_div;
    int i, ab = 0, resized = 0, used = 0;
    shim_reset();
    cstl_hash_init(&H, offsetof(struct elem, hn));
    for (i = 0; i < n && !ab; i++) {
        switch (ops[i]) {
        case 0: SHIM_CALL(ab, cstl_hash_resize(&H, 8, f)); resized = 1; break;
        case 1: SHIM_CALL(ab, cstl_hash_resize(&H, 16, NULL)); resized = 1; break;
        case 2: SHIM_CALL(ab, cstl_hash_resize(&H, 5, f)); resized = 1; break;
        case 3: if (resized && used < 6) { E[used].id = used; SHIM_CALL(ab, cstl_hash_insert(&H, gkeys[used], &E[used])); used++; } break;
        case 4: if (resized) SHIM_CALL(ab, (cstl_hash_find(&H, gkeys[0], NULL, NULL), cstl_hash_find(&H, gkeys[3], NULL, NULL), cstl_hash_find(&H, 99, NULL, NULL))); break;
        case 5: if (resized && used > 0) { SHIM_CALL(ab, cstl_hash_erase(&H, &E[used - 1])); } break;      /* erased elements are not re-used in this history */
        case 6: SHIM_CALL(ab, cstl_hash_rehash(&H)); break;
        case 7: SHIM_CALL(ab, cstl_hash_foreach(&H, cb_nop, NULL)); break;
        case 8: SHIM_CALL(ab, cstl_hash_shrink_to_fit(&H)); break;
        default: SHIM_CALL(ab, cstl_hash_clear(&H, NULL)); resized = 0; used = 6; break;      /* after clear the elements are gone; the object starts over */
        }
        if (verbose) printf("  op %d -> %s\n", ops[i], ab ? "ABORT" : "ok");
        if (ops[i] == 9 && !ab) used = 0;
    }
    if (!ab) { shim_in_lib++; cstl_hash_clear(&H, NULL); shim_in_lib = 0; }
    return ab ? i : 0;          /* 1-based index of the operation that aborted */
}
static void goodhash(void)
{
    int fi, len, ops[5], k; long code, total;
    for (fi = 0; fi < 3 && nviol < 6; fi++) for (len = 1; len <= 5 && nviol < 6; len++) {
        for (total = 1, k = 0; k < len; k++) total *= 10;
        for (code = 0; code < total && nviol < 6; code++) {
            long c = code; int bad; char rp[64];
            for (k = 0; k < len; k++) { ops[k] = (int)(c % 10); c /= 10; }
            if (ops[0] > 2) continue;                            /* a history starts with a resize */
            snprintf(rp, sizeof rp, "good:%d:%d:%ld", fi, len, code);
            if (prog_buf) snprintf(prog_buf, 200, "R %s\n", rp);
            fl_which = 0;
            bad = good_run(fi, ops, len, 0);
            goodcases++; evals++; nontriv++;
            if (bad) violation(rp, "a table that only ever used %s aborted in operation #%d of the history (0-2 resize to 8/16/5, 3 insert, 4 find, 5 erase, 6 rehash, 7 foreach, 8 shrink_to_fit, 9 clear)", fi == 0 ? "the default hash (NULL)" : fi == 1 ? "cstl_hash_mul" : "cstl_hash_div", bad);
        }
    }
}
static void badhash(void)
{
    int st, op, j, kind, n;
    for (st = 0; st < NSTATES && nviol < 6; st++) for (op = 0; op < NBOPS && nviol < 6; op++) {
        int ab;
        build(st); hcalls = 0; shim_in_lib++; SHIM_CALL(ab, do_op(op)); shim_in_lib = 0; n = hcalls;       /* clean run: how many calls does this operation make here */
        shim_in_lib++; cstl_hash_clear(&H, NULL); shim_in_lib = 0;
        for (j = 1; j <= n + 1 && nviol < 6; j++) for (kind = 0; kind < NKINDS && nviol < 6; kind++) {
            if (prog_buf) snprintf(prog_buf, 4000, "R bad:%d:%d:%d:%d\n", st, op, j, kind);
            bad_one(st, op, j, kind, 0);
        }
    }
}

int main(int argc, char **argv)
{
    int i, cfg = 0, thorough = 0, nshards = 16; const char *replay = NULL, *prop = NULL; double t0 = now();
    setvbuf(stdout, NULL, _IOFBF, 1 << 16);
    shim_watchdog_start();
    signal(SIGFPE, on_trap); signal(SIGILL, on_trap); signal(SIGBUS, on_trap);
    for (i = 1; i < argc; i++) {
        if (!strcmp(argv[i], "--prop") && i + 1 < argc) prop = argv[++i];
        else if (!strcmp(argv[i], "--config") && i + 1 < argc) cfg = atoi(argv[++i]);
        else if (!strcmp(argv[i], "--thorough")) thorough = 1;
        else if (!strcmp(argv[i], "--replay") && i + 1 < argc) replay = argv[++i];
        else if (!strcmp(argv[i], "--progress") && i + 1 < argc) progress_open(argv[++i]);
        else if (!strcmp(argv[i], "--deadline") && i + 1 < argc) ++i;
        else if (!strcmp(argv[i], "--nconfigs")) { printf("%d\n", nshards + 1); return 0; }
        else { fprintf(stderr, "bad arg %s\n", argv[i]); return 2; }
    }
    if (!prop || strcmp(prop, "C17")) { fprintf(stderr, "hashrange: property not served\n"); return 2; }
    if (replay) {
        if (!strncmp(replay, "good:", 5)) { int fi, len, k, ops[5]; long code; if (sscanf(replay, "good:%d:%d:%ld", &fi, &len, &code) != 3 || len > 5) return 4; for (k = 0; k < len; k++) { ops[k] = (int)(code % 10); code /= 10; } printf("case %s\n", replay); if (good_run(fi, ops, len, 1)) violation(replay, "a table that only ever used built-in hash functions aborted"); }
        else if (!strncmp(replay, "bad:", 4)) { int st, op, j, kind; if (sscanf(replay, "bad:%d:%d:%d:%d", &st, &op, &j, &kind) != 4) return 4; bad_one(st, op, j, kind, 1); }
        else { size_t k, m; char w[8]; if (sscanf(replay, "%3[a-z]:%zu:%zu", w, &k, &m) != 3) return 4; if (w[0] == 'm') { printf("cstl_hash_mul(%zu, %zu) = %zu\n", k, m, cstl_hash_mul(k, m)); try_mul(k, m); } else { printf("cstl_hash_div(%zu, %zu) = %zu\n", k, m, cstl_hash_div(k, m)); try_div(k, m); } }
        if (nviol) { printf("VIOLATED: %s\n", violmsg[0]); return 1; }
        printf("no violation\n"); return 0;
    }
    if (cfg < nshards) ranges(cfg, nshards, thorough); else { badhash(); goodhash(); }
    printf("{\"world\":\"hashrange\",\"config\":%d,\"config_desc\":\"%s\",\"property\":\"C17\",\"thorough\":%d,\"evaluations\":%lu,\"nontrivial_states\":%lu,\"exhaustive\":%s,\"closure\":%s,\"wall_s\":%.3f,"
           "\"counters\":{\"bad_hash_cases\":%lu,\"bad_hash_cases_in_which_the_bad_value_was_returned\":%lu,\"largest_fraction_key\":%zu},\"samples\":[\"%s\"],\"violations\":[",
           cfg, cfg < nshards ? thorough ? "built-in hashes: every key below 2^32, one key per single-precision value above (and its neighbours), every single-precision table size in [1,2^64] with the smallest m that rounds to it against the keys of extreme fraction, full product k<2^23 x m<=1024 (one shard of 16)" : "built-in hashes: every key below 2^28, one key per single-precision value above (and its neighbours), every single-precision table size up to 2^27 and every 64th above with the smallest m that rounds to it against the keys of extreme fraction, full product k<2^20 x m<=64 (one shard of 16)"
                              : "caller-supplied hash returning m, m+1, SIZE_MAX or an out-of-range value that agrees with the in-range index in its low 8/16/32/63 bits at every call ordinal of insert/find/erase/rehash/foreach/resize/shrink_to_fit in settled, grow-pending and shrink-pending tables",
           thorough, evals, nontriv, nviol ? "false" : "true", nviol ? "false" : "true", now() - t0, badcases, badcases_triggered, worst_k[0],
           cfg < nshards ? "cstl_hash_mul(k, m) for k = shard range and m in {16, 1000003, SIZE_MAX}; e.g. cstl_hash_mul(987, 33554431)" : "table grow pending, erase(member), hash call #2 returns m+1 -> must abort with no further hash call");
    for (i = 0; i < nviol; i++) { const char *s; printf("%s{\"replay\":\"%s\",\"ops\":\"%s\",\"message\":\"", i ? "," : "", viols[i], viols[i]); for (s = violmsg[i]; *s; s++) { if (*s == '"' || *s == '\\') putchar('\\'); if ((unsigned char)*s >= 0x20) putchar(*s); } printf("\"}"); }
    printf("]}\n");
    return nviol ? 1 : 0;
}
