/* E3 faultx: exhaustive allocation-fault enumeration (C16).  For each operation script every single allocation call failing,
 * every suffix of allocation calls failing, every pair (and every triple for short scripts) is executed; after each step the
 * container is compared with a reference model: either the normal result or -- only if a fault was injected in that step --
 * the documented failure, with the container holding exactly what it held before. */
#define _GNU_SOURCE
#include "cstl/map.h"
#include "cstl/vector.h"
#include "cstl/string.h"
#include "hash.c"      /* unity include: builds no matter how hash.h declares its helpers */
#include "cstl/memory.h"
#include "cstl/array.h"
#include "../engine/shim.h"
#include <stdio.h>
#include <stdlib.h>
#include <string.h>
#include <stdarg.h>
#include <time.h>
#include <wchar.h>

static int failed; static char fail_msg[600]; static int cur_step; static const char *cur_stepname = "";
static char trace[2048];
static void fail(const char *fmt, ...) __attribute__((format(printf, 1, 2)));
static void fail(const char *fmt, ...)
{
    va_list ap; char m[400];
    if (failed) return;
    va_start(ap, fmt); vsnprintf(m, sizeof m, fmt, ap); va_end(ap);
    snprintf(fail_msg, sizeof fail_msg, "step %d (%s): %s", cur_step, cur_stepname, m);
    failed = 1;
}
#define CHECK(c, ...) do { if (!(c)) fail(__VA_ARGS__); } while (0)
static unsigned long faults_before;
static int aborted_run;                       /* the script ended in a documented abort (process would be dead) */
static void step_begin(const char *name) { cur_step++; cur_stepname = name; faults_before = shim_faults_hit; }
static int fault_in_step(void) { return shim_faults_hit != faults_before; }
static void tr(const char *fmt, ...) { va_list ap; size_t n = strlen(trace); va_start(ap, fmt); if (n < sizeof trace - 80) vsnprintf(trace + n, sizeof trace - n, fmt, ap); va_end(ap); }

static void leak_audit(void)
{
    CHECK(shim_nleaked() == 0, "%d allocation(s) still alive after everything was cleared and not held by the library itself (leak)", shim_nleaked());      /* a block on a free list of the library is not a leak */
    CHECK(shim_errors == 0, "double free or free of a foreign pointer (flags %u)", shim_errors);
}

/* =============================== map =============================== */
static int cmp_int(const void *a, const void *b, void *p) { (void)p; return *(const int *)a - *(const int *)b; }
static int map_clr_calls;
static void map_clr(void *it, void *p) { (void)it; (void)p; map_clr_calls++; }
static void script_map(void)
{
    static int K[8] = { 5, 2, 8, 2, 9, 1, 7, 3 }, V[8];
    static const int seq[] = { 0, 1, 2, 3, 4, 5 };      /* K[3] duplicates K[1] */
    cstl_map_t m; int present[10] = { 0 }, owner[10], count = 0, i, ab;
    static volatile int rc; static cstl_map_iterator_t it;
    cstl_map_init(&m, cmp_int, NULL);
    for (i = 0; i < 6 && !failed; i++) {
        int k = K[seq[i]];
        step_begin("map insert");
        SHIM_CALL(ab, rc = cstl_map_insert(&m, &K[seq[i]], &V[seq[i]], &it));
        CHECK(!ab, "insert aborted");
        if (present[k]) CHECK(rc == 1 && it.key == &K[owner[k]], "insert of an existing key returned %d", rc);
        else if (rc == -1) { CHECK(fault_in_step(), "insert returned -1 without an allocation failure"); CHECK(cstl_map_iterator_eq(&it, cstl_map_iterator_end(&m)), "failed insert did not yield the end iterator"); tr("insert(%d)->-1 ", k); }
        else { CHECK(rc == 0 && it.key == &K[seq[i]] && it.val == &V[seq[i]], "insert of a new key returned %d", rc); present[k] = 1; owner[k] = seq[i]; count++; }
        CHECK(cstl_map_size(&m) == (size_t)count, "size %zu after insert, expected %d", cstl_map_size(&m), count);
        CHECK(shim_nlive() >= (count > 0), "%d live allocations for %d entries", shim_nlive(), count);
    }
    for (i = 0; i < 10 && !failed; i++) {
        int probe = i; step_begin("map find");
        cstl_map_find(&m, &probe, &it);
        CHECK(cstl_map_iterator_eq(&it, cstl_map_iterator_end(&m)) == !present[i], "find(%d) is wrong after the faulted inserts", i);
    }
    { int k = 2; step_begin("map erase"); SHIM_CALL(ab, rc = cstl_map_erase(&m, &k, &it)); CHECK(!ab && rc == (present[2] ? 0 : -1), "erase(2) returned %d", rc); if (present[2]) { present[2] = 0; count--; } }
    for (i = 6; i < 8 && !failed; i++) {
        int k = K[i];
        step_begin("map insert (after erase)");
        SHIM_CALL(ab, rc = cstl_map_insert(&m, &K[i], &V[i], NULL));
        if (rc == -1) CHECK(fault_in_step(), "insert returned -1 without an allocation failure");
        else { CHECK(!ab && rc == 0, "insert returned %d", rc); present[k] = 1; count++; }
        CHECK(cstl_map_size(&m) == (size_t)count, "size %zu, expected %d", cstl_map_size(&m), count);
    }
    step_begin("map clear"); map_clr_calls = 0;
    SHIM_CALL(ab, cstl_map_clear(&m, map_clr, NULL));
    CHECK(!ab && map_clr_calls == count && cstl_map_size(&m) == 0, "clear made %d callbacks for %d entries", map_clr_calls, count);
    leak_audit();
}

/* =============================== vector =============================== */
static int xt_cons, xt_dest;
static void v_cons(void *e, void *p) { (void)p; *(long *)e = 0x5150; xt_cons++; }
static void v_dest(void *e, void *p) { (void)p; if (*(long *)e == 0) fail("destructor ran on a never-constructed or already destroyed element"); *(long *)e = 0; xt_dest++; }
static int cmp_long(const void *a, const void *b, void *p) { (void)p; return (*(const long *)a > *(const long *)b) - (*(const long *)a < *(const long *)b); }
static void vec_check(cstl_vector_t *v, size_t size, const char *when)
{
    size_t i;
    CHECK(cstl_vector_size(v) == size, "%s: size %zu, expected %zu", when, cstl_vector_size(v), size);
    CHECK(cstl_vector_capacity(v) >= cstl_vector_size(v), "%s: capacity below size", when);
    if (cstl_vector_capacity(v) > 0) { shim_blk *b = shim_find(cstl_vector_data(v)); CHECK(b && (size_t)((char *)cstl_vector_data(v) - (char *)b->p) + cstl_vector_capacity(v) * sizeof(long) <= b->sz && b->sz >= (cstl_vector_capacity(v) + 1) * sizeof(long), "%s: capacity %zu is not backed by a live allocation", when, cstl_vector_capacity(v)); }
    for (i = 0; i < size && !failed; i++) CHECK(*(long *)cstl_vector_at(v, i) != 0, "%s: element %zu is not constructed", when, i);
    CHECK((size_t)(xt_cons - xt_dest) == size, "%s: %d constructed, %d destroyed, %zu in the vector", when, xt_cons, xt_dest, size);
}
static void script_vector(void)
{
    cstl_vector_t v; size_t size = 0, i; int ab, k;
    static const size_t sizes[] = { 3, 0, 5, 2, 12, 12, 4, 40, 1 };
    xt_cons = xt_dest = 0;
    cstl_vector_init_complex(&v, sizeof(long), v_cons, v_dest, NULL);
    for (k = 0; k < 9 && !failed && !aborted_run; k++) {
        const void *b_base = cstl_vector_data(&v); size_t b_cap = cstl_vector_capacity(&v), b_count = cstl_vector_size(&v);
        if (k == 1) { step_begin("vector reserve(8)"); SHIM_CALL(ab, cstl_vector_reserve(&v, 8)); CHECK(!ab, "reserve aborted"); if (cstl_vector_capacity(&v) < 8) { CHECK(fault_in_step(), "reserve failed without an allocation failure"); CHECK(cstl_vector_data(&v) == b_base && cstl_vector_capacity(&v) == b_cap && cstl_vector_size(&v) == b_count, "failed reserve changed the vector"); tr("reserve->noop "); } vec_check(&v, size, "after reserve"); continue; }
        if (k == 5) { step_begin("vector shrink_to_fit"); SHIM_CALL(ab, cstl_vector_shrink_to_fit(&v)); CHECK(!ab, "shrink aborted"); if (fault_in_step()) CHECK(cstl_vector_capacity(&v) == b_cap && cstl_vector_data(&v) == b_base, "failed shrink changed the vector"); vec_check(&v, size, "after shrink_to_fit"); for (i = 0; i < size; i++) *(long *)cstl_vector_at(&v, i) = (long)(100 - i); step_begin("vector sort"); SHIM_CALL(ab, cstl_vector_sort(&v, cmp_long, NULL)); CHECK(!ab, "sort aborted"); for (i = 0; i + 1 < size && !failed; i++) CHECK(*(long *)cstl_vector_at(&v, i) <= *(long *)cstl_vector_at(&v, i + 1), "not sorted"); continue; }
        step_begin("vector resize");
        SHIM_CALL(ab, cstl_vector_resize(&v, sizes[k]));
        if (ab == 1) {
            CHECK(fault_in_step(), "resize(%zu) aborted without an allocation failure", sizes[k]);
            CHECK(cstl_vector_data(&v) == b_base && cstl_vector_capacity(&v) == b_cap && cstl_vector_size(&v) == b_count, "at the abort the vector is not what it was before (size %zu->%zu cap %zu->%zu)", b_count, cstl_vector_size(&v), b_cap, cstl_vector_capacity(&v));
            vec_check(&v, size, "at the abort");
            tr("resize(%zu)->abort ", sizes[k]); aborted_run = 1; break;
        }
        CHECK(ab == 0, "assertion failure in resize: %s", shim_assert_msg);
        size = sizes[k];
        vec_check(&v, size, "after resize");
    }
    step_begin("vector clear");
    SHIM_CALL(ab, cstl_vector_clear(&v));
    CHECK(!ab && xt_cons == xt_dest, "clear: %d constructed but %d destroyed", xt_cons, xt_dest);
    leak_audit();
}

/* a vector / string that grew large and is cut down to a fraction: shrinking is not a growth, so whatever the library does with the storage
 * that became unused, a failing allocator must not cost the elements that stay */
static void script_bigvector(void)
{
    cstl_vector_t v; size_t size = 0; int ab, k;
    static const size_t sizes[] = { 300, 10, 70, 2, 130, 16, 0, 65, 1 };
    xt_cons = xt_dest = 0;
    cstl_vector_init_complex(&v, sizeof(long), v_cons, v_dest, NULL);
    for (k = 0; k < 9 && !failed && !aborted_run; k++) {
        size_t c0, s0;
        if (k == 4) { step_begin("bigvector shrink_to_fit"); SHIM_CALL(ab, cstl_vector_shrink_to_fit(&v)); CHECK(!ab, "shrink aborted"); vec_check(&v, size, "after shrink_to_fit"); }
        if (k == 7 || k == 2) {      /* reserve on a vector that holds storage but (k == 7) no element: a failure must leave storage and capacity alone */
            const void *d0 = cstl_vector_data(&v); size_t want = cstl_vector_capacity(&v) + 50;
            c0 = cstl_vector_capacity(&v);
            step_begin("bigvector reserve");
            SHIM_CALL(ab, cstl_vector_reserve(&v, want)); CHECK(!ab, "reserve aborted");
            if (cstl_vector_capacity(&v) < want) { CHECK(fault_in_step(), "reserve failed without an allocation failure"); CHECK(cstl_vector_data(&v) == d0 && cstl_vector_capacity(&v) == c0, "failed reserve changed the vector (capacity %zu -> %zu, storage %s)", c0, cstl_vector_capacity(&v), cstl_vector_data(&v) == d0 ? "kept" : "replaced or dropped"); tr("reserve->noop "); }
            vec_check(&v, size, "after reserve");
        }
        c0 = cstl_vector_capacity(&v); s0 = cstl_vector_size(&v);
        step_begin("bigvector resize");
        SHIM_CALL(ab, cstl_vector_resize(&v, sizes[k]));
        if (ab == 1) {
            CHECK(fault_in_step(), "resize(%zu) aborted without an allocation failure", sizes[k]);
            CHECK(sizes[k] > c0, "resize(%zu) within the capacity %zu aborted: only a growth may abort", sizes[k], c0);
            CHECK(cstl_vector_size(&v) == s0 && cstl_vector_capacity(&v) == c0, "at the abort the vector is not what it was before");
            vec_check(&v, size, "at the abort");
            tr("resize(%zu)->abort ", sizes[k]); aborted_run = 1; break;
        }
        CHECK(ab == 0, "resize(%zu) of a vector of %zu: %s", sizes[k], s0, ab == 2 ? shim_assert_msg : "did not return");
        size = sizes[k];
        vec_check(&v, size, "after resize");
    }
    step_begin("bigvector clear");
    SHIM_CALL(ab, cstl_vector_clear(&v));
    CHECK(!ab && xt_cons == xt_dest, "clear: %d constructed but %d destroyed", xt_cons, xt_dest);
    leak_audit();
}
static void script_bigstring(void)
{
    cstl_string_t a, b; int ab, k; char ref[400] = { 0 }; size_t i;
    static const char big[] = "0123456789abcdefghijklmnopqrstuvwxyzABCDEFGHIJKLMNOPQRSTUVWXYZ0123456789abcdefghijklmnopqrstuvwxyzABCDEFGHIJKLMNOPQRSTUVWXYZ0123456789abcdefghijklmnopqrstuvwxyzABCDEFGHIJKLMNOPQRSTUVWXYZ";
    cstl_string_init(&a); cstl_string_init(&b);
    for (k = 0; k < 7 && !failed && !aborted_run; k++) {
        char before[400]; size_t bsz = cstl_string_size(&a), c0 = cstl_string_capacity(&a), want = 0; memcpy(before, ref, sizeof before);
        step_begin("bigstring");
        switch (k) {
        case 0: SHIM_CALL(ab, cstl_string_set_str(&a, big)); if (!ab) strcpy(ref, big); want = strlen(big); break;
        case 1: SHIM_CALL(ab, cstl_string_erase(&a, 5, 170)); if (!ab) memmove(ref + 5, ref + 175, strlen(ref + 175) + 1); break;
        case 2: SHIM_CALL(ab, cstl_string_append_str(&a, "xy")); if (!ab) strcat(ref, "xy"); want = bsz + 2; break;
        case 3: SHIM_CALL(ab, cstl_string_substr(&a, 2, 6, &b)); want = (size_t)-1; break;      /* the second string grows */
        case 4: SHIM_CALL(ab, cstl_string_resize(&a, 3)); if (!ab) ref[3] = 0; break;
        case 5: SHIM_CALL(ab, cstl_string_insert_ch(&a, 1, 90, 'q')); if (!ab) { memmove(ref + 91, ref + 1, strlen(ref + 1) + 1); for (i = 0; i < 90; i++) ref[1 + i] = 'q'; } want = bsz + 90; break;
        default: SHIM_CALL(ab, cstl_string_resize(&a, 8)); if (!ab) ref[8] = 0; break;
        }
        if (ab == 1) {
            CHECK(fault_in_step(), "step %d aborted without an allocation failure", k);
            CHECK(want > c0, "step %d aborted although the result fits into the capacity %zu: only a growth may abort", k, c0);
            CHECK(cstl_string_size(&a) == bsz && (bsz == 0 || memcmp(cstl_string_str(&a), before, bsz + 1) == 0), "at the abort the string is not what it was before");
            tr("step%d->abort ", k); aborted_run = 1; break;
        }
        CHECK(ab == 0, "step %d: %s", k, ab == 2 ? shim_assert_msg : "did not return");
        if (failed) break;
        CHECK(cstl_string_size(&a) == strlen(ref) && strcmp(cstl_string_str(&a), ref) == 0, "string differs from the reference after step %d", k);
        if (k >= 3 && !failed) { CHECK(cstl_string_size(&b) == 6 && cstl_string_str(&b) != NULL && strlen(cstl_string_str(&b)) == 6, "second string is damaged after step %d", k); }      /* where a string keeps 6 characters (heap, inline) is its own business */
    }
    step_begin("bigstring clear");
    SHIM_CALL(ab, (cstl_string_clear(&a), cstl_string_clear(&b))); CHECK(!ab, "clear aborted");
    leak_audit();
}

/* =============================== strings =============================== */
#define STRING_SCRIPT(NAME, ST, PFX, CH, LIT, XLEN, XCMP) \
static void NAME(void) \
{ \
    ST a, b; int ab, k; CH ref[64] = { 0 }, ref2[64] = { 0 }; \
    PFX##init(&a); PFX##init(&b); \
    /* reserve on a string that has no storage yet: a failure must be a quiet no-op, and the string stays the empty string */ \
    step_begin(#NAME " reserve on fresh string"); \
    SHIM_CALL(ab, PFX##reserve(&a, 10)); CHECK(!ab, "reserve on a fresh string aborted"); \
    CHECK(PFX##size(&a) == 0 && PFX##str(&a)[0] == 0, "after reserve the fresh string is not the empty string"); \
    if (PFX##capacity(&a) < 10) { CHECK(fault_in_step(), "reserve failed without an allocation failure"); tr("reserve(fresh)->noop "); } \
    /* a second, larger reserve on the string that so far was only reserved (storage but no characters) */ \
    { size_t c1 = PFX##capacity(&a); step_begin(#NAME " second reserve on the still empty string"); \
      SHIM_CALL(ab, PFX##reserve(&a, 30)); CHECK(!ab, "second reserve aborted"); \
      CHECK(PFX##size(&a) == 0 && PFX##str(&a)[0] == 0, "after the second reserve the string is not the empty string"); \
      if (PFX##capacity(&a) < 30) { CHECK(fault_in_step(), "reserve failed without an allocation failure"); CHECK(PFX##capacity(&a) == c1, "failed reserve changed the capacity %zu -> %zu", c1, PFX##capacity(&a)); \
          if (c1 > 0) { SHIM_CALL(ab, PFX##append_str(&a, LIT("ab"))); CHECK(!ab || c1 < 2, "append within the capacity the string still reports aborted"); if (!ab) { CHECK(PFX##size(&a) == 2, "append within capacity lost"); SHIM_CALL(ab, PFX##resize(&a, 0)); } } } } \
    for (k = 0; k < 10 && !failed && !aborted_run; k++) { \
        CH before[64]; size_t bsz = PFX##size(&a), cb0 = 0; memcpy(before, ref, sizeof before); \
        step_begin(#NAME); \
        switch (k) { \
        case 0: SHIM_CALL(ab, PFX##set_str(&a, LIT("hello"))); if (!ab) memcpy(ref, LIT("hello"), 6 * sizeof(CH)); break; \
        case 1: SHIM_CALL(ab, PFX##append_str(&a, LIT(", world and more"))); if (!ab) memcpy(ref + XLEN(ref), LIT(", world and more"), 17 * sizeof(CH)); break; \
        case 2: SHIM_CALL(ab, PFX##insert_ch(&a, 5, 3, (CH)'!')); if (!ab) { memmove(ref + 8, ref + 5, (XLEN(ref + 5) + 1) * sizeof(CH)); ref[5] = ref[6] = ref[7] = (CH)'!'; } break; \
        case 3: { size_t c0 = PFX##capacity(&a); const void *d0 = PFX##data(&a); SHIM_CALL(ab, PFX##reserve(&a, 60)); if (!ab && PFX##capacity(&a) < 60) { CHECK(fault_in_step(), "reserve failed without an allocation failure"); CHECK(PFX##capacity(&a) == c0 && (const void *)PFX##data(&a) == d0, "failed reserve changed the string"); tr("reserve->noop "); } break; } \
        case 4: SHIM_CALL(ab, PFX##erase(&a, 2, 4)); if (!ab) memmove(ref + 2, ref + 6, (XLEN(ref + 6) + 1) * sizeof(CH)); break; \
        case 5: SHIM_CALL(ab, PFX##substr(&a, 1, 7, &b)); if (!ab) { memcpy(ref2, ref + 1, 7 * sizeof(CH)); ref2[7] = 0; } break; \
        case 6: SHIM_CALL(ab, PFX##append(&a, &b)); if (!ab) memcpy(ref + XLEN(ref), ref2, (XLEN(ref2) + 1) * sizeof(CH)); break; \
        case 7: /* into a destination that already holds something and has room for the result: no growth, so no reason to abort */ \
            cb0 = PFX##capacity(&b); SHIM_CALL(ab, PFX##substr(&a, 0, 3, &b)); if (!ab) { memcpy(ref2, ref, 3 * sizeof(CH)); ref2[3] = 0; } \
            if (ab == 1 && cb0 >= 3) CHECK(0, "substr of 3 characters into a destination with capacity %zu aborted: only a growth may abort", cb0); \
            break; \
        case 8: /* into a destination that holds something and must grow */ \
            SHIM_CALL(ab, PFX##substr(&a, 0, XLEN(ref), &b)); if (!ab) memcpy(ref2, ref, (XLEN(ref) + 1) * sizeof(CH)); break; \
        default: SHIM_CALL(ab, PFX##resize(&a, 40)); if (!ab) { size_t l = XLEN(ref); while (l < 40) ref[l++] = 0; ref[40] = 0; } break; \
        } \
        if (ab == 1) { \
            CHECK(fault_in_step(), "step %d aborted without an allocation failure", k); \
            CHECK(PFX##size(&b) == XLEN(ref2) && XCMP(PFX##str(&b), ref2) == 0, "at the abort the second string is not what it was before"); \
            CHECK(PFX##size(&a) == bsz && (bsz == 0 || memcmp(PFX##str(&a), before, (bsz + 1) * sizeof(CH)) == 0), "at the abort the string is not what it was before"); \
            tr("step%d->abort ", k); aborted_run = 1; break; \
        } \
        CHECK(ab == 0, "assertion failure: %s", shim_assert_msg); \
        (void)cb0; \
        if (k != 9) CHECK(PFX##size(&a) == XLEN(ref) && XCMP(PFX##str(&a), ref) == 0, "string differs from the reference after step %d", k); \
        else CHECK(PFX##size(&a) == 40 && memcmp(PFX##str(&a), ref, 41 * sizeof(CH)) == 0, "string differs from the reference after resize"); \
        CHECK(PFX##size(&b) == XLEN(ref2) && XCMP(PFX##str(&b), ref2) == 0, "second string differs from the reference after step %d", k); \
    } \
    step_begin("string clear"); \
    SHIM_CALL(ab, (PFX##clear(&a), PFX##clear(&b))); CHECK(!ab, "clear aborted"); \
    step_begin("reserve on cleared string"); \
    SHIM_CALL(ab, PFX##reserve(&a, 5)); CHECK(!ab && PFX##size(&a) == 0 && PFX##str(&a)[0] == 0, "reserve on a cleared string aborted or changed its content"); \
    SHIM_CALL(ab, PFX##clear(&a)); \
    leak_audit(); \
}
#define NLIT(x) x
#define WLIT(x) L##x
STRING_SCRIPT(script_string, cstl_string_t, cstl_string_, char, NLIT, strlen, strcmp)
STRING_SCRIPT(script_wstring, cstl_wstring_t, cstl_wstring_, wchar_t, WLIT, wcslen, wcscmp)

/* =============================== hash =============================== */
struct helem { int id; struct cstl_hash_node hn; };
static size_t hmod(size_t k, size_t m) { return k % m; }
static int h_clr_calls;
static void h_clr(void *e, void *p) { (void)e; (void)p; h_clr_calls++; }
static void hash_all_found(struct cstl_hash *h, struct helem *E, const int *in, int n, const char *when)
{
    int i, c = 0;
    for (i = 0; i < n && !failed; i++) {
        void *f = cstl_hash_find(h, (size_t)E[i].id * 7, NULL, NULL);
        CHECK((f == &E[i]) == (in[i] != 0), "%s: element %d %s", when, i, in[i] ? "is no longer found" : "is found although it was erased");
        c += in[i];
    }
    CHECK(cstl_hash_size(h) == (size_t)c, "%s: size %zu, expected %d", when, cstl_hash_size(h), c);
}
static void script_hash(void)
{
    struct cstl_hash h; static struct helem E[12]; int in[12] = { 0 }, i, ab, k, usable;
    static const size_t rs[] = { 4, 8, 16, 3, 32, 6 };
    cstl_hash_init(&h, offsetof(struct helem, hn));
    for (i = 0; i < 12; i++) E[i].id = i;
    step_begin("hash resize(4)");
    SHIM_CALL(ab, cstl_hash_resize(&h, 4, hmod)); CHECK(!ab, "first resize aborted");
    /* whether a resize took effect is read off cstl_hash_load (size / bucket count the table is heading for; 0/0 = NaN before the first successful resize):
     * how many allocations a resize makes, and what the private capacity is afterwards, is the library's business */
    { float l0 = cstl_hash_load(&h); usable = l0 == l0; }
    if (!usable) { CHECK(fault_in_step(), "first resize failed without an allocation failure"); tr("resize(4)->noop "); step_begin("hash resize(4) retry"); SHIM_CALL(ab, cstl_hash_resize(&h, 4, hmod)); { float l0 = cstl_hash_load(&h); usable = l0 == l0; } if (!usable) CHECK(fault_in_step(), "retry failed without an allocation failure"); }
    if (usable) {
        /* a table that has its buckets but holds nothing is asked for more buckets: a failure is a quiet no-op here too, and the table takes elements afterwards */
        step_begin("hash resize(6) on the sized but still empty table");
        SHIM_CALL(ab, cstl_hash_resize(&h, 6, hmod)); CHECK(!ab, "resize of the empty table aborted");
        CHECK(cstl_hash_size(&h) == 0 && cstl_hash_load(&h) == 0.0f, "resize of the empty table changed its size or load");
        if (fault_in_step()) tr("resize(6,empty)->fault ");
        hash_all_found(&h, E, in, 12, "after the resize of the empty table");
    }
    for (k = 0; k < 6 && !failed && usable; k++) {
        float ld, ld0;
        for (i = 2 * k; i < 2 * k + 2; i++) { step_begin("hash insert"); SHIM_CALL(ab, cstl_hash_insert(&h, (size_t)E[i].id * 7, &E[i])); CHECK(!ab, "insert aborted"); in[i] = 1; }
        if (k == 3) { step_begin("hash erase"); SHIM_CALL(ab, cstl_hash_erase(&h, &E[1])); CHECK(!ab, "erase aborted"); in[1] = 0; }
        hash_all_found(&h, E, in, 12, "before resize");
        ld0 = cstl_hash_load(&h);
        step_begin("hash resize");
        SHIM_CALL(ab, cstl_hash_resize(&h, rs[k], hmod)); CHECK(!ab, "resize aborted");
        ld = cstl_hash_load(&h);
        { int c = 0; for (i = 0; i < 12; i++) c += in[i];
          if (ld != (float)c / (float)rs[k]) {
              /* the request did not take effect. documented: quietly nothing happens, the table is undisturbed - and only an allocation failure is a reason */
              CHECK(fault_in_step(), "after resize(%zu) load is %g although no allocation failed", rs[k], (double)ld);
              CHECK(ld == ld0, "a resize that did not take effect changed where the table is heading (load %g -> %g)", (double)ld0, (double)ld);
              tr("resize(%zu)->noop ", rs[k]);
          } }
        hash_all_found(&h, E, in, 12, "after resize");
        if (k == 2 || k == 4) {
            float l1 = cstl_hash_load(&h);
            step_begin("hash shrink_to_fit"); SHIM_CALL(ab, cstl_hash_shrink_to_fit(&h)); CHECK(!ab, "shrink_to_fit aborted");
            CHECK(cstl_hash_load(&h) == l1, "shrink_to_fit changed where the table is heading");
            if (fault_in_step()) tr("shrink->noop ");
            hash_all_found(&h, E, in, 12, "after shrink_to_fit");
        }
    }
    if (usable) { step_begin("hash rehash+find"); SHIM_CALL(ab, cstl_hash_rehash(&h)); CHECK(!ab, "rehash aborted"); hash_all_found(&h, E, in, 12, "after forced rehash"); }
    step_begin("hash clear"); h_clr_calls = 0;
    { int c = 0; for (i = 0; i < 12; i++) c += in[i]; SHIM_CALL(ab, cstl_hash_clear(&h, h_clr)); CHECK(!ab && h_clr_calls == c, "clear made %d callbacks for %d elements", h_clr_calls, c); }
    leak_audit();
}

/* =============================== smart pointers =============================== */
static int p_clr_calls, p_clr_null;
static void p_clr(void *m, void *p) { (void)p; p_clr_calls++; if (m == NULL) p_clr_null++; }
static void script_memory(void)
{
    cstl_unique_ptr_t u; cstl_shared_ptr_t s1, s2; cstl_weak_ptr_t w; int ab, k, expect_clr = 0, cookie;
    cstl_unique_ptr_init(&u); cstl_shared_ptr_init(&s1); cstl_shared_ptr_init(&s2); cstl_weak_ptr_init(&w);
    p_clr_calls = p_clr_null = 0;
    for (k = 0; k < 3 && !failed; k++) {
        static cstl_xtor_func_t * volatile f; static void * volatile pv;
        step_begin("unique alloc");
        SHIM_CALL(ab, cstl_unique_ptr_alloc(&u, 32, p_clr, &cookie)); CHECK(!ab, "unique alloc aborted");
        if (cstl_unique_ptr_get(&u) == NULL) {
            CHECK(fault_in_step(), "unique alloc left the pointer empty without an allocation failure"); tr("ualloc->empty ");
            /* a failed allocation leaves the object empty: nothing to destroy, nothing to hand out */
            step_begin("unique release after failed alloc");
            f = (cstl_xtor_func_t *)p_clr; pv = &cookie;
            { void *r = cstl_unique_ptr_release(&u, (cstl_xtor_func_t **)&f, (void **)&pv); CHECK(r == NULL && f == NULL, "release of the empty pointer left by a failed alloc reports memory %p / clear function %s", r, f ? "set" : "NULL"); }
        } else { expect_clr++; memset(cstl_unique_ptr_get(&u), 1, 32); }
        if (k == 1) { step_begin("unique reset"); SHIM_CALL(ab, cstl_unique_ptr_reset(&u)); CHECK(!ab, "unique reset aborted"); }
        CHECK(p_clr_null == 0, "the clear function was called for a NULL block (after a failed allocation)");
    }
    step_begin("unique reset (final)"); SHIM_CALL(ab, cstl_unique_ptr_reset(&u));
    CHECK(!ab && p_clr_calls == expect_clr && p_clr_null == 0, "clear function ran %d times (%d on NULL) for %d successful allocations", p_clr_calls, p_clr_null, expect_clr);
    /* a unique pointer WITHOUT a clear function, re-targeted while it owns memory: whether the new allocation succeeds or fails, the old memory is gone
     * (released exactly once), and a failure leaves the object empty */
    { cstl_unique_ptr_t u2; int base; cstl_unique_ptr_init(&u2); base = shim_nlive();
      for (k = 0; k < 3 && !failed; k++) {
          step_begin("unique alloc without clear function");
          SHIM_CALL(ab, cstl_unique_ptr_alloc(&u2, k == 1 ? 80 : 16, NULL, NULL)); CHECK(!ab, "unique alloc (no clear function) aborted");
          if (cstl_unique_ptr_get(&u2) == NULL) { CHECK(fault_in_step(), "unique alloc left the pointer empty without an allocation failure"); tr("ualloc0->empty "); }
          else memset(cstl_unique_ptr_get(&u2), 2, k == 1 ? 80 : 16);
      }
      step_begin("unique reset (no clear function)"); SHIM_CALL(ab, cstl_unique_ptr_reset(&u2)); CHECK(!ab && cstl_unique_ptr_get(&u2) == NULL, "reset of the unique pointer aborted or left it owning memory"); (void)base;      /* what was leaked is decided by the audit at the end of the script */
    }
    p_clr_calls = 0; expect_clr = 0;
    for (k = 0; k < 3 && !failed; k++) {
        step_begin("shared alloc");
        SHIM_CALL(ab, cstl_shared_ptr_alloc(&s1, 24, p_clr)); CHECK(!ab, "shared alloc aborted");
        if (cstl_shared_ptr_get(&s1) == NULL) { CHECK(fault_in_step(), "shared alloc left the pointer empty without an allocation failure"); tr("salloc->empty "); CHECK(cstl_shared_ptr_unique(&s1), "empty pointer is not unique"); }
        else expect_clr++;
        step_begin("share/weak/lock");
        SHIM_CALL(ab, (cstl_shared_ptr_share(&s1, &s2), cstl_weak_ptr_from(&w, &s1), cstl_shared_ptr_reset(&s1), cstl_weak_ptr_lock(&w, &s1)));
        CHECK(!ab, "share/weak/lock aborted on properly handled pointers");
        CHECK(cstl_shared_ptr_get(&s1) == cstl_shared_ptr_get(&s2), "lock did not yield the shared memory");
        if (k == 1) { step_begin("reset all"); SHIM_CALL(ab, (cstl_shared_ptr_reset(&s1), cstl_shared_ptr_reset(&s2), cstl_weak_ptr_reset(&w))); CHECK(!ab && shim_nleaked() == 0, "%d blocks alive after resetting every pointer", shim_nlive()); }
    }
    step_begin("reset all (final)");
    SHIM_CALL(ab, (cstl_shared_ptr_reset(&s1), cstl_shared_ptr_reset(&s2), cstl_weak_ptr_reset(&w)));
    CHECK(!ab && p_clr_calls == expect_clr, "clear function ran %d times for %d successful shared allocations", p_clr_calls, expect_clr);
    leak_audit();
}

/* =============================== array =============================== */
static void arr_empty(cstl_array_t *a, const char *when)
{
    int ab; static void * volatile e;
    CHECK(cstl_array_size(a) == 0 && cstl_array_data(a) == NULL, "%s: a failed allocation must leave the object empty, but size is %zu / data %p", when, cstl_array_size(a), cstl_array_data(a));
    SHIM_CALL(ab, e = cstl_array_at(a, 0)); CHECK(ab == 1, "%s: at(0) on the empty object did not abort", when);
}
static void script_array(void)
{
    cstl_array_t a, s, t; static int ext[8]; int ab, k; static void * volatile out;
    cstl_array_init(&a); cstl_array_init(&s); cstl_array_init(&t);
    for (k = 0; k < 3 && !failed; k++) {
        int have;
        step_begin("array alloc");
        SHIM_CALL(ab, cstl_array_alloc(&a, 8, sizeof(int))); CHECK(!ab, "alloc aborted");
        have = cstl_array_data(&a) != NULL;
        if (!have) { CHECK(fault_in_step(), "alloc left the object empty without an allocation failure"); arr_empty(&a, "after failed alloc"); tr("alloc->empty "); }
        else CHECK(cstl_array_size(&a) == 8 && cstl_array_at(&a, 7) == (char *)cstl_array_data(&a) + 7 * sizeof(int), "alloc(8) gave a wrong view");
        if (have) {
            step_begin("array slice"); SHIM_CALL(ab, cstl_array_slice(&a, 2, 6, &s)); CHECK(!ab && cstl_array_size(&s) == 4 && cstl_array_at(&s, 0) == cstl_array_at(&a, 2), "slice [2,6) is wrong");
            step_begin("array slice in place"); SHIM_CALL(ab, cstl_array_slice(&a, 3, 8, &a)); CHECK(!ab && cstl_array_size(&a) == 5, "in-place slice is wrong");
        }
        /* re-target the (possibly sliced) object to an external buffer: needs an allocation */
        step_begin("array set");
        SHIM_CALL(ab, cstl_array_set(&a, ext, 8, sizeof(int))); CHECK(!ab, "set aborted");
        if (cstl_array_data(&a) == NULL) { CHECK(fault_in_step(), "set left the object empty without an allocation failure"); arr_empty(&a, "after failed set"); tr("set->empty "); }
        else {
            CHECK(cstl_array_size(&a) == 8 && cstl_array_at(&a, 0) == (void *)ext && cstl_array_at(&a, 7) == (void *)&ext[7], "set gave a wrong view (stale offset?)");
            step_begin("array unslice/release"); SHIM_CALL(ab, cstl_array_unslice(&a, &t)); CHECK(!ab && cstl_array_size(&t) == 8, "unslice wrong");
            out = NULL; SHIM_CALL(ab, cstl_array_release(&a, (void **)&out)); CHECK(!ab && out == NULL, "release handed the buffer out although another object uses it");
            SHIM_CALL(ab, cstl_array_reset(&t));
            out = NULL; SHIM_CALL(ab, cstl_array_release(&a, (void **)&out)); CHECK(!ab && out == (void *)ext && cstl_array_size(&a) == 0, "release by the sole user did not return the buffer");
        }
        if (have && cstl_array_data(&s)) { int ab2; static void * volatile e; SHIM_CALL(ab2, e = cstl_array_at(&s, 3)); CHECK(!ab2 && shim_find(e) != NULL, "the slice's buffer did not stay alive"); }
        step_begin("array reset"); SHIM_CALL(ab, (cstl_array_reset(&s), cstl_array_reset(&t))); CHECK(!ab, "reset aborted");
    }
    step_begin("array reset (final)"); SHIM_CALL(ab, (cstl_array_reset(&a), cstl_array_reset(&s), cstl_array_reset(&t)));
    leak_audit();
}

/* =============================== driver =============================== */
static struct { const char *name; void (*run)(void); int triples; } scripts[] = {
    { "map", script_map, 1 }, { "vector", script_vector, 1 }, { "string", script_string, 1 }, { "wstring", script_wstring, 1 },
    { "hash", script_hash, 1 }, { "memory", script_memory, 1 }, { "array", script_array, 1 }, { "bigvector", script_bigvector, 1 }, { "bigstring", script_bigstring, 1 },
};
#define NSCRIPTS ((int)(sizeof scripts / sizeof scripts[0]))

/* one run of script sc under a fault plan; returns number of faults actually injected */
static unsigned long total_calls;
static unsigned long run_plan(int sc, const unsigned long *ords, int n, unsigned long from)
{
    unsigned long hit;
    shim_reset(); failed = 0; fail_msg[0] = 0; cur_step = 0; aborted_run = 0; trace[0] = 0;
    shim_fail_plan(ords, n, from);
    {
        int ab;
        shim_in_lib++;              /* the scripts run entirely "inside the library" as far as allocation tracking is concerned */
        SHIM_CALL(ab, scripts[sc].run());
        shim_in_lib = 0;
        if (ab) fail("the library %s outside any operation that may fail that way: %s", ab == 2 ? "hit an assertion" : "called abort()", ab == 2 ? shim_assert_msg : "");
    }
    hit = shim_faults_hit; total_calls = shim_alloc_calls;
    return hit;
}
static void plan_str(char *out, size_t cap, int sc, const unsigned long *o, int n, unsigned long from)
{
    int i; size_t p = (size_t)snprintf(out, cap, "%d:", sc);
    if (from) { snprintf(out + p, cap - p, "s%lu", from); return; }
    for (i = 0; i < n; i++) p += (size_t)snprintf(out + p, cap - p, "%s%lu", i ? "," : "", o[i]);
    if (n == 0) snprintf(out + p, cap - p, "-");
}
#include <fcntl.h>
#include <unistd.h>
#include <sys/mman.h>
static char *prog_buf;
static void progress_open(const char *path)
{
    int fd = open(path, O_RDWR | O_CREAT | O_TRUNC, 0644);
    if (fd < 0 || ftruncate(fd, 4096) != 0) return;
    prog_buf = mmap(NULL, 4096, PROT_READ | PROT_WRITE, MAP_SHARED, fd, 0);
    if (prog_buf == MAP_FAILED) prog_buf = NULL;
    close(fd);
}
static double now(void) { struct timespec ts; clock_gettime(CLOCK_MONOTONIC, &ts); return ts.tv_sec + ts.tv_nsec * 1e-9; }

int main(int argc, char **argv)
{
    int i, sc = 0, thorough = 0; const char *replay = NULL, *prop = NULL; double t0 = now();
    unsigned long runs = 0, runs_faulted = 0, n0, a, b, c; unsigned long singles = 0, suffixes = 0, pairs = 0, triples = 0, quads = 0, aborted_runs = 0, d;
    char viol[8][900]; char violrp[8][128]; int nviol = 0; char samples[4][700]; int nsamples = 0; unsigned long o[32], subsets = 0;
    setvbuf(stdout, NULL, _IOFBF, 1 << 16);
    shim_watchdog_start();
    for (i = 1; i < argc; i++) {
        if (!strcmp(argv[i], "--prop") && i + 1 < argc) prop = argv[++i];
        else if (!strcmp(argv[i], "--config") && i + 1 < argc) sc = atoi(argv[++i]);
        else if (!strcmp(argv[i], "--thorough")) thorough = 1;
        else if (!strcmp(argv[i], "--replay") && i + 1 < argc) replay = argv[++i];
        else if (!strcmp(argv[i], "--progress") && i + 1 < argc) progress_open(argv[++i]);
        else if (!strcmp(argv[i], "--deadline") && i + 1 < argc) ++i;
        else if (!strcmp(argv[i], "--nconfigs")) { printf("%d\n", NSCRIPTS); return 0; }
        else { fprintf(stderr, "bad arg %s\n", argv[i]); return 2; }
    }
    if (!prop || strcmp(prop, "C16")) { fprintf(stderr, "faultx: property not served\n"); return 2; }
    if (replay) {
        int n = 0; unsigned long from = 0; const char *p = strchr(replay, ':');
        sc = atoi(replay);
        if (p && p[1] == 's') from = strtoul(p + 2, NULL, 10);
        else if (p) for (p++; *p && *p != '-'; ) { char *e; o[n++] = strtoul(p, &e, 10); if (e == p || n >= 30) break; p = *e == ',' ? e + 1 : e; }
        run_plan(sc, o, n, from);
        printf("script %s, failing allocation calls: %s\n  faults injected: %lu of %lu allocation calls; trace: %s\n", scripts[sc].name, replay, shim_faults_hit, total_calls, trace);
        if (failed) { printf("VIOLATED: %s\n", fail_msg); return 1; }
        printf("no violation\n"); return 0;
    }
#define RUN(N, FROM, COUNTER) do { unsigned long hit_; if (prog_buf) { prog_buf[0] = 'R'; prog_buf[1] = ' '; plan_str(prog_buf + 2, 120, sc, o, N, FROM); strcat(prog_buf, "\n"); } hit_ = run_plan(sc, o, N, FROM); runs++; if (hit_) { runs_faulted++; COUNTER++; if (aborted_run) aborted_runs++; } \
        if (nsamples < 4 && hit_ && (runs % 7) == 3) { char ps_[128]; plan_str(ps_, sizeof ps_, sc, o, N, FROM); snprintf(samples[nsamples++], 700, "script %s, failing allocation calls %s: %s", scripts[sc].name, ps_ + 2, trace[0] ? trace : "(every step completed normally or failed the documented way)"); } \
        if (failed && nviol < 8) { plan_str(violrp[nviol], 128, sc, o, N, FROM); snprintf(viol[nviol], 900, "%s", fail_msg); nviol++; } } while (0)
    o[0] = o[1] = o[2] = o[3] = 0;
    RUN(0, 0, singles); singles = 0; runs_faulted = 0;
    if (failed) goto report;
    n0 = total_calls;
    /* every single allocation call failing (the call ordinal is counted within that execution) */
    for (a = 1; a <= n0 + 4 && nviol < 8; a++) { o[0] = a; RUN(1, 0, singles); }
    /* every suffix failing */
    for (a = 1; a <= n0 + 1 && nviol < 8; a++) RUN(0, a, suffixes);
    /* every pair; every triple for short scripts (quick: triples only when the script makes at most 12 calls) */
    for (a = 1; a <= n0 + 2 && nviol < 8; a++) for (b = a + 1; b <= n0 + 4 && nviol < 8; b++) { o[0] = a; o[1] = b; RUN(2, 0, pairs); }
    if (scripts[sc].triples && (thorough || n0 <= 12))
        for (a = 1; a <= n0 + 1 && nviol < 8; a++) for (b = a + 1; b <= n0 + 2 && nviol < 8; b++) for (c = b + 1; c <= n0 + 4 && nviol < 8; c++) { o[0] = a; o[1] = b; o[2] = c; RUN(3, 0, triples); }
    /* thorough: every set of four failing calls as well */
    if (thorough)
        for (a = 1; a <= n0 + 1 && nviol < 8; a++) for (b = a + 1; b <= n0 + 2 && nviol < 8; b++) for (c = b + 1; c <= n0 + 3 && nviol < 8; c++) for (d = c + 1; d <= n0 + 4 && nviol < 8; d++) { o[0] = a; o[1] = b; o[2] = c; o[3] = d; RUN(4, 0, quads); }
    /* EVERY subset of failing calls among the first n0+3 ordinals, when that is at most 2^15 (thorough 2^20) runs: "whatever subset of the library's allocations fails" */
    if (n0 + 3 <= (thorough ? 20u : 15u)) {
        unsigned long mask, M = n0 + 3, k; int cnt;
        for (mask = 1; mask < (1ul << M) && nviol < 8; mask++) {
            for (cnt = 0, k = 0; k < M; k++) if (mask & (1ul << k)) o[cnt++] = k + 1;
            if (cnt <= 2) continue;                      /* singles and pairs are done above */
            RUN(cnt, 0, subsets);
        }
    }
report:
    printf("{\"world\":\"faultx\",\"config\":%d,\"config_desc\":\"script %s: %lu allocation calls when nothing fails\",\"property\":\"C16\",\"thorough\":%d,"
           "\"evaluations\":%lu,\"nontrivial_states\":%lu,\"exhaustive\":%s,\"closure\":%s,\"wall_s\":%.3f,"
           "\"counters\":{\"runs_with_single_fault\":%lu,\"runs_with_failing_suffix\":%lu,\"runs_with_two_faults\":%lu,\"runs_with_three_faults\":%lu,\"runs_with_four_faults\":%lu,\"runs_over_all_subsets_of_three_or_more\":%lu,\"runs_ending_in_documented_abort\":%lu},\"samples\":[",
           sc, scripts[sc].name, n0, thorough, runs, runs_faulted, nviol ? "false" : "true", nviol ? "false" : "true", now() - t0, singles, suffixes, pairs, triples, quads, subsets, aborted_runs);
    for (i = 0; i < nsamples; i++) { const char *s; if (i) printf(","); putchar('"'); for (s = samples[i]; *s; s++) { if (*s == '"' || *s == '\\') putchar('\\'); if ((unsigned char)*s >= 0x20) putchar(*s); } putchar('"'); }
    printf("],\"violations\":[");
    for (i = 0; i < nviol; i++) { const char *s; printf("%s{\"replay\":\"%s\",\"ops\":\"script %s with failing allocation calls %s\",\"message\":\"", i ? "," : "", violrp[i], scripts[sc].name, violrp[i] + 2); for (s = viol[i]; *s; s++) { if (*s == '"' || *s == '\\') putchar('\\'); if ((unsigned char)*s >= 0x20) putchar(*s); } printf("\"}"); }
    printf("]}\n");
    return nviol ? 1 : 0;
}
