#define _GNU_SOURCE
#include "shim.h"
#include <string.h>
#include <stdio.h>

jmp_buf shim_jb;
volatile int shim_armed, shim_aborted;
char shim_assert_msg[256];
volatile int shim_in_lib;  /* volatile: gcc knows malloc/free do not touch globals and would drop stores around them */
shim_blk shim_blks[SHIM_MAXBLK];
int shim_nblk;
shim_ev shim_evs[SHIM_MAXEV];
int shim_nev;
unsigned shim_errors;
unsigned long shim_alloc_calls, shim_faults_hit, shim_refused;
int shim_next_tag;
int (*shim_rand_fn)(void);

static unsigned long fail_ords[64];
static int fail_n;
static unsigned long fail_from;

static void ev(int kind, int blk, size_t sz)
{
    if (shim_nev < SHIM_MAXEV) {
        shim_evs[shim_nev].kind = kind; shim_evs[shim_nev].blk = blk; shim_evs[shim_nev].sz = sz;
        shim_nev++;
    }
}

void shim_evclear(void) { shim_nev = 0; }

/* The library's own static storage (a free list, a memo, a lock table kept at file scope) outlives the objects a history creates.  The driver
 * renames the .data / .bss sections of the library's objects (libdata, libdrl, libdr, libbss), the linker brackets them with __start_ / __stop_
 * symbols, and every reset puts them back to the image they had when the process started - so that "a history replayed on fresh objects" also
 * means a fresh library, and so that no static pointer survives into blocks this function is about to free. */
extern char __start_libbss[] __attribute__((weak)), __stop_libbss[] __attribute__((weak)), __start_libdata[] __attribute__((weak)), __stop_libdata[] __attribute__((weak));
extern char __start_libdrl[] __attribute__((weak)), __stop_libdrl[] __attribute__((weak)), __start_libdr[] __attribute__((weak)), __stop_libdr[] __attribute__((weak));
static struct { char *lo; size_t n; char *init; } shim_sr[4]; static int shim_nsr = -1;
__attribute__((no_sanitize_address, noinline)) static void shim_rawcopy(volatile char *d, const volatile char *s, size_t n) { while (n--) *d++ = *s++; }      /* the ranges contain sanitizer red zones between the objects */
static void shim_statics_reset(void)
{
    int i;
    if (shim_nsr < 0) {
        char *lo[4] = { __start_libbss, __start_libdata, __start_libdrl, __start_libdr }, *hi[4] = { __stop_libbss, __stop_libdata, __stop_libdrl, __stop_libdr };
        shim_nsr = 0;
        for (i = 0; i < 4; i++) if (lo[i] && hi[i] > lo[i]) {
            shim_sr[shim_nsr].lo = lo[i]; shim_sr[shim_nsr].n = (size_t)(hi[i] - lo[i]); shim_sr[shim_nsr].init = __real_malloc(shim_sr[shim_nsr].n);
            if (shim_sr[shim_nsr].init == NULL) continue;
            shim_rawcopy(shim_sr[shim_nsr].init, lo[i], shim_sr[shim_nsr].n); shim_nsr++;
        }
        return;
    }
    for (i = 0; i < shim_nsr; i++) shim_rawcopy(shim_sr[i].lo, shim_sr[i].init, shim_sr[i].n);
}
void shim_reset(void)
{
    int i;
    int save = shim_in_lib;
    shim_in_lib = 0;
    shim_statics_reset();
    for (i = 0; i < shim_nblk; i++) {
        if (shim_blks[i].live) { __real_free(shim_blks[i].p); }
    }
    shim_in_lib = save;
    shim_nblk = 0; shim_nev = 0; shim_errors = 0;
    shim_alloc_calls = 0; shim_faults_hit = 0; shim_refused = 0;
    fail_n = 0; fail_from = 0; shim_next_tag = 0;
    shim_armed = 0; shim_aborted = 0;
}

int shim_nlive(void)
{
    int i, n = 0;
    for (i = 0; i < shim_nblk; i++) n += shim_blks[i].live;
    return n;
}

/* Live blocks that nothing in the library's own static storage leads to.  A block the library keeps on a file-scope free list or in a cache is still
 * owned by the library and will be reused; it is not a leak.  Conservative marking: every pointer-sized word of the static sections, and of every block
 * reached so far, that holds an address inside a live block marks that block. */
static shim_blk *find_at(const void *p, int live, int exact);
__attribute__((no_sanitize_address)) int shim_nleaked(void)
{
    static unsigned char mark[SHIM_MAXBLK]; static int work[SHIM_MAXBLK]; int nw = 0, i, n = 0, r, nsr = shim_nsr < 0 ? 0 : shim_nsr;
    if (shim_nblk > SHIM_MAXBLK) return shim_nlive();
    for (i = 0; i < shim_nblk; i++) mark[i] = 0;
    for (r = 0; r < nsr + nw; r++) {
        const char *lo; size_t len, k;
        if (r < nsr) { lo = shim_sr[r].lo; len = shim_sr[r].n; }
        else { shim_blk *b = &shim_blks[work[r - nsr]]; lo = b->p; len = b->sz; }
        for (k = 0; k + sizeof(void *) <= len; k += sizeof(void *)) {
            void *w; shim_blk *t;
            __builtin_memcpy(&w, lo + k, sizeof w);
            if (w == NULL) continue;
            t = find_at(w, 1, 0);
            if (t != NULL && !mark[t - shim_blks]) { mark[t - shim_blks] = 1; work[nw++] = (int)(t - shim_blks); }
        }
    }
    for (i = 0; i < shim_nblk; i++) n += shim_blks[i].live && !mark[i];
    return n;
}

size_t shim_live_bytes(void)
{
    int i; size_t n = 0;
    for (i = 0; i < shim_nblk; i++) if (shim_blks[i].live) n += shim_blks[i].sz;
    return n;
}

static shim_blk *find_at(const void *p, int live, int exact)
{
    int i;
    for (i = shim_nblk - 1; i >= 0; i--) {
        shim_blk *b = &shim_blks[i];
        if (b->live != live) continue;
        if (exact ? (b->p == p)
                  : ((uintptr_t)p >= (uintptr_t)b->p && (uintptr_t)p < (uintptr_t)b->p + (b->sz ? b->sz : 1)))
            return b;
    }
    return NULL;
}
shim_blk *shim_find(const void *p) { return find_at(p, 1, 0); }
shim_blk *shim_find_dead(const void *p) { return find_at(p, 0, 0); }

void shim_fail_plan(const unsigned long *ords, int n, unsigned long from)
{
    int i;
    fail_n = n > 64 ? 64 : n;
    for (i = 0; i < fail_n; i++) fail_ords[i] = ords[i];
    fail_from = from;
}

static int should_fail(size_t sz)
{
    int i;
    shim_alloc_calls++;
    if (sz > SHIM_REFUSE_ABOVE) { shim_refused++; return 1; }
    if (fail_from && shim_alloc_calls >= fail_from) { shim_faults_hit++; return 1; }
    for (i = 0; i < fail_n; i++) if (fail_ords[i] == shim_alloc_calls) { shim_faults_hit++; return 1; }
    return 0;
}

static void *track(void *p, size_t sz)
{
    shim_blk *b;
    if (p == NULL) return NULL;
    if (shim_nblk >= SHIM_MAXBLK) { shim_errors |= 4; return p; }
    b = &shim_blks[shim_nblk];
    b->p = p; b->sz = sz; b->ord = (unsigned)shim_alloc_calls; b->live = 1; b->tag = shim_next_tag;
    ev(EV_MALLOC, shim_nblk, sz);
    shim_nblk++;
    return p;
}

void *__wrap_malloc(size_t sz)
{
    if (!shim_in_lib) return __real_malloc(sz);
    if (should_fail(sz)) { ev(EV_ALLOC_FAILED, -1, sz); return NULL; }
    return track(__real_malloc(sz), sz);
}

void *__wrap_calloc(size_t n, size_t sz)
{
    if (!shim_in_lib) return __real_calloc(n, sz);
    if (sz && n > (size_t)-1 / sz) { shim_alloc_calls++; shim_refused++; ev(EV_ALLOC_FAILED, -1, (size_t)-1); return NULL; }
    if (should_fail(n * sz)) { ev(EV_ALLOC_FAILED, -1, n * sz); return NULL; }
    return track(__real_calloc(n, sz), n * sz);
}

void *__wrap_realloc(void *old, size_t sz)
{
    shim_blk *b;
    void *p;
    if (!shim_in_lib) return __real_realloc(old, sz);
    if (old == NULL) {
        if (should_fail(sz)) { ev(EV_ALLOC_FAILED, -1, sz); return NULL; }
        return track(__real_malloc(sz), sz);
    }
    b = find_at(old, 1, 1);
    if (b == NULL) {
        shim_alloc_calls++;
        if (find_at(old, 0, 1)) { shim_errors |= 2; ev(EV_DOUBLE_FREE, -1, sz); }
        else { shim_errors |= 1; ev(EV_BAD_FREE, -1, sz); }
        return NULL;
    }
    if (should_fail(sz)) { ev(EV_ALLOC_FAILED, (int)(b - shim_blks), sz); return NULL; }
    if (sz == 0) {
        /* realloc(p, 0): glibc frees and returns NULL; keep that behaviour visible */
        __real_free(old); b->live = 0; ev(EV_FREE, (int)(b - shim_blks), 0);
        return NULL;
    }
    p = __real_realloc(old, sz);
    if (p != NULL) { b->p = p; b->sz = sz; ev(EV_REALLOC, (int)(b - shim_blks), sz); }
    return p;
}

void __wrap_free(void *p)
{
    shim_blk *b;
    if (!shim_in_lib) { __real_free(p); return; }
    if (p == NULL) return;
    b = find_at(p, 1, 1);
    if (b == NULL) {
        if (find_at(p, 0, 1)) { shim_errors |= 2; ev(EV_DOUBLE_FREE, -1, 0); }
        else { shim_errors |= 1; ev(EV_BAD_FREE, -1, 0); }
        return; /* never handed to the real allocator */
    }
    b->live = 0;
    ev(EV_FREE, (int)(b - shim_blks), b->sz);
    __real_free(p);
}

void shim_bail(int code)
{
    if (shim_armed) { shim_aborted = code; longjmp(shim_jb, code); }
    __real_abort();
}

void __wrap_abort(void)
{
    if (shim_armed) { shim_aborted = 1; longjmp(shim_jb, 1); }
    __real_abort();
}

void __wrap___assert_fail(const char *expr, const char *file, unsigned line, const char *func)
{
    snprintf(shim_assert_msg, sizeof shim_assert_msg, "%s:%u: %s: assertion `%s' failed", file, line, func, expr);
    if (shim_armed) { shim_aborted = 2; longjmp(shim_jb, 2); }
    fprintf(stderr, "%s\n", shim_assert_msg);
    __real_abort();
}

/* ---- hang watchdog ---- */
#include <signal.h>
#include <sys/time.h>
volatile unsigned long shim_call_seq;
static unsigned long wd_last_seq; static int wd_same;
static void wd_tick(int sig)
{
    (void)sig;
    if (!shim_armed) { wd_same = 0; return; }
    if (shim_call_seq == wd_last_seq) wd_same++; else { wd_last_seq = shim_call_seq; wd_same = 0; }
    if (wd_same >= 3) {
        sigset_t m;
        wd_same = 0;
        sigemptyset(&m); sigaddset(&m, SIGALRM); sigprocmask(SIG_UNBLOCK, &m, NULL);
        shim_aborted = 3;
        longjmp(shim_jb, 3);           /* the library call in flight does not terminate */
    }
}
void shim_watchdog_start(void)
{
    struct sigaction sa; struct itimerval it;
    memset(&sa, 0, sizeof sa); sa.sa_handler = wd_tick; sigemptyset(&sa.sa_mask); sa.sa_flags = SA_NODEFER;
    sigaction(SIGALRM, &sa, NULL);
    it.it_interval.tv_sec = 1; it.it_interval.tv_usec = 0; it.it_value = it.it_interval;
    setitimer(ITIMER_REAL, &it, NULL);
}

int __wrap_rand(void)
{
    if (shim_rand_fn) return shim_rand_fn();
    return __real_rand();
}
