/* mc.h -- E1: explicit-state breadth-first closure search over the REAL library code.
 *
 * A "world" (one C file per container family) defines the functions listed below and then
 * #includes this header, which supplies main().  A state is the operation history that first
 * reached it; it is re-created by replaying that history on a fresh object (live intrusive C
 * objects do not copy).  States are deduplicated by a canonical key the world serialises from the
 * real data structure.  Every transition calls the real library function and the world's
 * reference model and compares them (per-property oracles via MC_CHECK).
 *
 * World interface:
 *   static const char *w_name;
 *   static int  w_nconfigs(int thorough);
 *   static void w_setup(int cfg, int thorough);     fills w_ops[] / w_nops, prints nothing
 *   static const char *w_config_desc(void);         after w_setup
 *   static void w_init(void);                       fresh implementation objects + fresh model
 *   static int  w_enabled(mc_op_t op);              on the current model state
 *   static void w_apply(mc_op_t op);                real call + model + oracles; may set mc_terminal
 *   static void w_audit(void);                      all non-mutating queries, full state audit
 *   static void w_canon(void);                      KB_* appends to the key buffer
 *   static void w_opname(mc_op_t op, char *b, size_t n);
 *   static int  w_nontrivial(void);                 is the interesting mechanism active in this state
 *   static const char *w_counter_names[]; (NULL terminated)   MC_COUNT(i) bumps counter i
 */
#ifndef VERIF_MC_H
#define VERIF_MC_H
#include "shim.h"
#include <stdio.h>
#include <stdlib.h>
#include <string.h>
#include <stdarg.h>
#include <time.h>
#include <fcntl.h>
#include <unistd.h>
#include <sys/mman.h>

typedef unsigned int mc_op_t;
#define MC_MAXOPS   4096
#define MC_MAXDEPTH 256
#define MC_MAXVIOL  6
#define MC_MAXCOUNTERS 32

/* property bits */
#define P(n) (1u << (n))

static mc_op_t w_ops[MC_MAXOPS];
static int w_nops;

static unsigned mc_selected;          /* property bit(s) whose oracle raises a violation */
static int mc_checking;               /* oracles active (off while replaying a prefix) */
static int mc_terminal;               /* the op legitimately ended the process (documented abort) */
static int mc_branch_dead;            /* an oracle failed in the current w_apply / w_audit call: the world's own control flow stops evaluating (guards);
                                       * a failure of ANOTHER property's oracle never prunes the search - the history is extended as if nothing had been seen,
                                       * so a change that breaks two properties is still reported by the check of the second one */
static int mc_viol_now;               /* a selected oracle failed in the current transition */
static char mc_viol_msg[1024];
static unsigned long mc_other_fail;
static unsigned long mc_counters[MC_MAXCOUNTERS];
#define MC_COUNT(i) do { if (mc_checking) mc_counters[i]++; } while (0)

/* key buffer */
static char mc_kb[8192];
static size_t mc_kbn;
static inline void KB_C(char c) { if (mc_kbn < sizeof mc_kb - 1) mc_kb[mc_kbn++] = c; }
static inline void KB_S(const char *s) { while (*s) KB_C(*s++); }
static inline void KB_U(unsigned long v)
{
    char t[24]; int n = 0;
    if (v == 0) { KB_C('0'); return; }
    while (v) { t[n++] = (char)('0' + v % 10); v /= 10; }
    while (n) KB_C(t[--n]);
}
static inline void KB_I(long v) { if (v < 0) { KB_C('-'); KB_U((unsigned long)-v); } else KB_U((unsigned long)v); }

/* KB_MEM: serialise n bytes of library-owned memory into the key, word by word, with every address replaced by a symbol
 * (heap addresses differ from replay to replay): sym() names the words the world knows (its own objects, callbacks, blocks);
 * other pointers into tracked blocks become L<tag>+off / D (freed block); anything else is data and printed as is. */
typedef int (*mc_symfn)(uintptr_t v);
extern char __executable_start, _end;
struct mc_dlinfo { const char *fname; void *fbase; const char *sname; void *saddr; };
extern int mc_dladdr(const void *, struct mc_dlinfo *) __asm__("dladdr");
static void KB_X(unsigned long v) { static const char hx[] = "0123456789abcdef"; int i, st = 0; for (i = 60; i >= 0; i -= 4) { int d = (int)((v >> i) & 15); if (d || st || i == 0) { KB_C(hx[d]); st = 1; } } }
static void KB_MEM(const void *p, size_t n, mc_symfn sym)
{
    size_t i;
    for (i = 0; i + sizeof(uintptr_t) <= n; i += sizeof(uintptr_t)) {
        uintptr_t v; shim_blk *b;
        memcpy(&v, (const char *)p + i, sizeof v);
        KB_C('.');
        if (v == 0) { KB_C('0'); continue; }
        if (sym && sym(v)) continue;
        if ((b = shim_find((const void *)v)) != NULL || (v > 0x10000 && (b = shim_find((const void *)(v - 1))) != NULL)) { KB_C('L'); KB_I(b->tag); KB_C('+'); KB_U((unsigned long)(v - (uintptr_t)b->p)); continue; }
        if (v > 0x10000 && shim_find_dead((const void *)v) != NULL) { KB_C('D'); continue; }
        /* an address inside the program image or a shared object (a callback the library stored, a static object): position-independent
         * executables load at a different base in every process, so name it by image offset or two replays of one history would differ */
        if (v >= (uintptr_t)&__executable_start && v < (uintptr_t)&_end) { KB_C('X'); KB_X(v - (uintptr_t)&__executable_start); continue; }
        if (v > 0x100000000ul) { struct mc_dlinfo di; if (mc_dladdr((const void *)v, &di) && di.fbase) { KB_C('S'); KB_X(v - (uintptr_t)di.fbase); continue; } }
        KB_X(v);
    }
    for (; i < n; i++) { KB_C(':'); KB_X(((const unsigned char *)p)[i]); }
}

static void mc_failv(unsigned props, const char *fmt, va_list ap)
{
    if (!mc_checking) return;
    if (props & mc_selected) {
        if (!mc_viol_now) {
            vsnprintf(mc_viol_msg, sizeof mc_viol_msg, fmt, ap);
            mc_viol_now = 1;
        }
    } else {
        mc_other_fail++;
    }
    mc_branch_dead = 1;
}
static void mc_fail(unsigned props, const char *fmt, ...) __attribute__((format(printf, 2, 3)));
static void mc_fail(unsigned props, const char *fmt, ...)
{
    va_list ap; va_start(ap, fmt); mc_failv(props, fmt, ap); va_end(ap);
}
#define MC_CHECK(props, cond, ...) do { if (!(cond)) mc_fail((props), __VA_ARGS__); } while (0)

/* ---- world forward declarations ---- */
static const char *w_name;
static int  w_nconfigs(int thorough);
static void w_setup(int cfg, int thorough);
static const char *w_config_desc(void);
static void w_init(void);
static int  w_enabled(mc_op_t op);
static void w_apply(mc_op_t op);
static void w_audit(void);
static void w_canon(void);
static void w_opname(mc_op_t op, char *b, size_t n);
static int  w_nontrivial(void);
static const char *w_counter_names[];
static unsigned w_prop_bit(const char *id);   /* maps "C12" to its bit, 0 if not served */

/* ---- state store ---- */
typedef struct { int parent; mc_op_t op; unsigned short depth; unsigned char nontrivial; unsigned keyoff; unsigned keylen; } mc_state;
static mc_state *mc_states; static size_t mc_nstates, mc_capstates;
static char *mc_keys; static size_t mc_nkeys, mc_capkeys;
static int *mc_tab; static size_t mc_tabsz;

static unsigned long mc_hash(const char *s, size_t n)
{
    unsigned long h = 1469598103934665603UL; size_t i;
    for (i = 0; i < n; i++) { h ^= (unsigned char)s[i]; h *= 1099511628211UL; }
    return h ^ (h >> 29);
}
static void mc_tab_grow(void)
{
    size_t i, nsz = mc_tabsz ? mc_tabsz * 2 : (1u << 16);
    int *nt = __real_malloc(nsz * sizeof *nt);
    for (i = 0; i < nsz; i++) nt[i] = -1;
    for (i = 0; i < mc_nstates; i++) {
        size_t h = mc_hash(mc_keys + mc_states[i].keyoff, mc_states[i].keylen) & (nsz - 1);
        while (nt[h] >= 0) h = (h + 1) & (nsz - 1);
        nt[h] = (int)i;
    }
    __real_free(mc_tab); mc_tab = nt; mc_tabsz = nsz;
}
/* returns index of existing state or -1 after inserting a new one */
static int mc_intern(int parent, mc_op_t op, unsigned depth, int nontrivial)
{
    size_t h;
    if ((mc_nstates + 1) * 2 > mc_tabsz) mc_tab_grow();
    h = mc_hash(mc_kb, mc_kbn) & (mc_tabsz - 1);
    while (mc_tab[h] >= 0) {
        mc_state *s = &mc_states[mc_tab[h]];
        if (s->keylen == mc_kbn && memcmp(mc_keys + s->keyoff, mc_kb, mc_kbn) == 0) return mc_tab[h];
        h = (h + 1) & (mc_tabsz - 1);
    }
    if (mc_nstates == mc_capstates) {
        mc_capstates = mc_capstates ? mc_capstates * 2 : 4096;
        mc_states = __real_realloc(mc_states, mc_capstates * sizeof *mc_states);
    }
    if (mc_nkeys + mc_kbn > mc_capkeys) {
        mc_capkeys = mc_capkeys ? mc_capkeys * 2 : (1u << 20);
        while (mc_nkeys + mc_kbn > mc_capkeys) mc_capkeys *= 2;
        mc_keys = __real_realloc(mc_keys, mc_capkeys);
    }
    memcpy(mc_keys + mc_nkeys, mc_kb, mc_kbn);
    mc_states[mc_nstates].parent = parent; mc_states[mc_nstates].op = op;
    mc_states[mc_nstates].depth = (unsigned short)depth; mc_states[mc_nstates].nontrivial = (unsigned char)nontrivial;
    mc_states[mc_nstates].keyoff = (unsigned)mc_nkeys; mc_states[mc_nstates].keylen = (unsigned)mc_kbn;
    mc_nkeys += mc_kbn;
    mc_tab[h] = (int)mc_nstates;
    mc_nstates++;
    return -1;
}
static int mc_history(int st, mc_op_t *out)
{
    int n = mc_states[st].depth, i = n;
    while (st > 0) { out[--i] = mc_states[st].op; st = mc_states[st].parent; }
    return n;
}

/* ---- progress region: the history in flight, readable by the driver if this process dies ---- */
static char *mc_progress; static size_t mc_progress_sz = 4096;
static void mc_progress_open(const char *path)
{
    int fd = open(path, O_RDWR | O_CREAT | O_TRUNC, 0644);
    if (fd < 0 || ftruncate(fd, (off_t)mc_progress_sz) != 0) { perror("progress"); exit(2); }
    mc_progress = mmap(NULL, mc_progress_sz, PROT_READ | PROT_WRITE, MAP_SHARED, fd, 0);
    if (mc_progress == MAP_FAILED) { perror("mmap"); exit(2); }
    close(fd);
}
static void mc_progress_set(const mc_op_t *h, int n, int have_op, mc_op_t op)
{
    char *p; int i;
    if (!mc_progress) return;
    p = mc_progress;
    p += sprintf(p, "H");
    for (i = 0; i < n && p < mc_progress + mc_progress_sz - 64; i++) p += sprintf(p, " %u", h[i]);
    if (have_op) p += sprintf(p, " %u", op);
    sprintf(p, "\n");
}

static void mc_json_str(FILE *f, const char *s)
{
    fputc('"', f);
    for (; *s; s++) {
        if (*s == '"' || *s == '\\') { fputc('\\', f); fputc(*s, f); }
        else if ((unsigned char)*s < 0x20) fprintf(f, "\\u%04x", *s);
        else fputc(*s, f);
    }
    fputc('"', f);
}
static void mc_describe(const mc_op_t *h, int n, char *out, size_t cap)
{
    int i; size_t o = 0; char t[160];
    out[0] = 0;
    for (i = 0; i < n; i++) {
        w_opname(h[i], t, sizeof t);
        o += (size_t)snprintf(out + o, o < cap ? cap - o : 0, "%s%s", i ? "; " : "", t);
        if (o >= cap) break;
    }
}
static double mc_now(void) { struct timespec ts; clock_gettime(CLOCK_MONOTONIC, &ts); return ts.tv_sec + ts.tv_nsec * 1e-9; }

/* replay a prefix silently */
static void mc_replay_prefix(const mc_op_t *h, int n)
{
    int i, save = mc_checking;
    mc_checking = 0;
    mc_branch_dead = 0; mc_viol_now = 0;          /* flags of an earlier transition must not leak into the world's control flow */
    w_init();
    for (i = 0; i < n; i++) { mc_terminal = 0; w_apply(h[i]); }
    mc_checking = save;
}

typedef struct { mc_op_t h[MC_MAXDEPTH]; int n; char msg[1024]; } mc_viol;
static mc_viol mc_viols[MC_MAXVIOL]; static int mc_nviols;

static int mc_parse_hist(const char *s, mc_op_t *h)
{
    int n = 0;
    while (*s) {
        char *e; unsigned long v;
        while (*s == ',' || *s == ' ') s++;
        if (!*s) break;
        v = strtoul(s, &e, 10);
        if (e == s) break;
        if (n < MC_MAXDEPTH) h[n++] = (mc_op_t)v;
        s = e;
    }
    return n;
}

static int mc_do_replay(const char *hist)
{
    static mc_op_t h[MC_MAXDEPTH];
    int n = mc_parse_hist(hist, h), i, rc = 0;
    char t[200];
    mc_checking = 1;
    w_init();
    w_audit();
    for (i = 0; i < n; i++) {
        w_opname(h[i], t, sizeof t);
        mc_progress_set(h, i, 1, h[i]);
        mc_terminal = 0; mc_viol_now = 0; mc_branch_dead = 0;
        if (!w_enabled(h[i])) { printf("step %d: %s -- not enabled in the model (history diverged)\n", i, t); return 4; }
        w_apply(h[i]);
        if (mc_branch_dead && !mc_viol_now) mc_branch_dead = 0;          /* another property's oracle: not this check's business, go on (as the search does) */
        if (!mc_terminal && !mc_viol_now) w_audit();
        mc_kbn = 0; if (!mc_terminal) w_canon(); mc_kb[mc_kbn] = 0;
        printf("step %d: %s -> %s key=%s\n", i, t, mc_terminal ? "process ends (documented abort)" : "ok", mc_kb);
        if (mc_viol_now) { printf("VIOLATED at step %d: %s\n", i, mc_viol_msg); rc = 1; break; }
        if (mc_branch_dead) printf("(an oracle of another property failed at step %d)\n", i);
        if (mc_terminal) break;
    }
    fflush(stdout);
    return rc;
}

int main(int argc, char **argv)
{
    int cfg = 0, thorough = 0, i;
    const char *prop = NULL, *replay = NULL, *progress = NULL;
    double deadline = 0, t0 = mc_now();
    unsigned long max_states = 0;
    unsigned long transitions = 0, enabled_total = 0, terminal_count = 0, nontriv_states = 0;
    unsigned maxdepth = 0;
    int exhaustive = 1, depth_done = 0;
    size_t si;
    static mc_op_t hist[MC_MAXDEPTH];
    static unsigned char en[MC_MAXOPS];

    setvbuf(stdout, NULL, _IOFBF, 1 << 16);
    shim_watchdog_start();
    for (i = 1; i < argc; i++) {
        if (!strcmp(argv[i], "--prop") && i + 1 < argc) prop = argv[++i];
        else if (!strcmp(argv[i], "--config") && i + 1 < argc) cfg = atoi(argv[++i]);
        else if (!strcmp(argv[i], "--thorough")) thorough = 1;
        else if (!strcmp(argv[i], "--replay") && i + 1 < argc) replay = argv[++i];
        else if (!strcmp(argv[i], "--progress") && i + 1 < argc) progress = argv[++i];
        else if (!strcmp(argv[i], "--deadline") && i + 1 < argc) deadline = atof(argv[++i]);
        else if (!strcmp(argv[i], "--max-states") && i + 1 < argc) max_states = strtoul(argv[++i], NULL, 10);
        else if (!strcmp(argv[i], "--nconfigs")) { printf("%d\n", w_nconfigs(thorough)); return 0; }
        else { fprintf(stderr, "bad arg %s\n", argv[i]); return 2; }
    }
    if (!prop || !(mc_selected = w_prop_bit(prop))) { fprintf(stderr, "%s: property %s not served\n", w_name, prop ? prop : "?"); return 2; }
    if (cfg < 0 || cfg >= w_nconfigs(thorough)) { fprintf(stderr, "bad config\n"); return 2; }
    if (progress) mc_progress_open(progress);
    w_setup(cfg, thorough);
    if (replay) return mc_do_replay(replay);

    /* initial state */
    mc_checking = 1; mc_viol_now = 0; mc_branch_dead = 0;
    mc_progress_set(hist, 0, 0, 0);
    w_init();
    w_audit();
    if (mc_viol_now) { mc_viols[0].n = 0; strcpy(mc_viols[0].msg, mc_viol_msg); mc_nviols = 1; }
    mc_kbn = 0; w_canon();
    mc_intern(-1, 0, 0, w_nontrivial());

    for (si = 0; si < mc_nstates && mc_nviols < MC_MAXVIOL; si++) {
        int n = mc_history((int)si, hist), o;
        unsigned d = mc_states[si].depth;
        if (deadline > 0 && (si & 63) == 0 && mc_now() - t0 > deadline) { exhaustive = 0; break; }
        if (max_states && mc_nstates > max_states) { exhaustive = 0; break; }
        depth_done = (int)d - 1;
        if (d + 1 >= MC_MAXDEPTH) { exhaustive = 0; continue; }
        /* which ops are enabled here (model decides) + determinism guard */
        mc_progress_set(hist, n, 0, 0);
        mc_replay_prefix(hist, n);
        mc_kbn = 0; w_canon();
        if (mc_kbn != mc_states[si].keylen || memcmp(mc_kb, mc_keys + mc_states[si].keyoff, mc_kbn) != 0) {
            char d1[2048]; mc_describe(hist, n, d1, sizeof d1);
            mc_kb[mc_kbn] = 0;
            fprintf(stderr, "NONDETERMINISM: replay of [%s] gave key %s\n", d1, mc_kb);
            return 5;
        }
        for (o = 0; o < w_nops; o++) en[o] = (unsigned char)w_enabled(w_ops[o]);
        for (o = 0; o < w_nops && mc_nviols < MC_MAXVIOL; o++) {
            int known;
            if (!en[o]) continue;
            enabled_total++;
            mc_replay_prefix(hist, n);
            mc_progress_set(hist, n, 1, w_ops[o]);
            mc_checking = 1; mc_terminal = 0; mc_viol_now = 0; mc_branch_dead = 0;
            w_apply(w_ops[o]);
            if (mc_branch_dead && !mc_viol_now) mc_branch_dead = 0;      /* another property's oracle failed: counted (mc_other_fail), never a reason to prune */
            transitions++;
            if (mc_terminal) terminal_count++;
#ifndef W_AUDIT_NEW_STATES_ONLY
            if (!mc_terminal && !mc_branch_dead) w_audit();
#else
            /* the world's key contains everything its audit observes (implementation-side bytes included), so the audit verdict is a
             * function of the key: it is evaluated once per distinct state instead of once per transition */
            if (!mc_terminal && !mc_branch_dead && !mc_viol_now) {
                size_t h; int found = 0;
                mc_kbn = 0; w_canon();
                if (mc_tabsz) {
                    h = mc_hash(mc_kb, mc_kbn) & (mc_tabsz - 1);
                    while (mc_tab[h] >= 0) {
                        mc_state *st = &mc_states[mc_tab[h]];
                        if (st->keylen == mc_kbn && memcmp(mc_keys + st->keyoff, mc_kb, mc_kbn) == 0) { found = 1; break; }
                        h = (h + 1) & (mc_tabsz - 1);
                    }
                }
                if (!found) w_audit();
            }
#endif
            if (mc_viol_now) {
                mc_viol *v = &mc_viols[mc_nviols++];
                memcpy(v->h, hist, (size_t)n * sizeof hist[0]); v->h[n] = w_ops[o]; v->n = n + 1;
                strcpy(v->msg, mc_viol_msg);
                continue;
            }
            if (mc_terminal) continue;
            mc_branch_dead = 0;
            mc_kbn = 0; w_canon();
            {
                int nt = w_nontrivial();
                known = mc_intern((int)si, w_ops[o], d + 1, nt);
                if (known < 0) { if (d + 1 > maxdepth) maxdepth = d + 1; if (nt) nontriv_states++; }
            }
        }
    }
    if (si >= mc_nstates && exhaustive) depth_done = (int)maxdepth;
    if (mc_nviols >= MC_MAXVIOL) exhaustive = 0;

    /* ---- report ---- */
    {
        FILE *f = stdout; char d1[4096]; int k, ns = 0;
        fprintf(f, "{\"world\":"); mc_json_str(f, w_name);
        fprintf(f, ",\"config\":%d,\"config_desc\":", cfg); mc_json_str(f, w_config_desc());
        fprintf(f, ",\"property\":"); mc_json_str(f, prop);
        fprintf(f, ",\"thorough\":%d,\"alphabet\":%d,\"states\":%zu,\"transitions\":%lu,\"terminal_transitions\":%lu,"
                   "\"nontrivial_states\":%lu,\"max_depth\":%u,\"closure\":%s,\"depth_fully_expanded\":%d,"
                   "\"other_property_oracle_failures\":%lu,\"wall_s\":%.3f",
                thorough, w_nops, mc_nstates, transitions, terminal_count, nontriv_states, maxdepth,
                exhaustive ? "true" : "false", depth_done, mc_other_fail, mc_now() - t0);
        fprintf(f, ",\"counters\":{");
        for (k = 0; w_counter_names[k]; k++) { fprintf(f, "%s", k ? "," : ""); mc_json_str(f, w_counter_names[k]); fprintf(f, ":%lu", mc_counters[k]); }
        fprintf(f, "},\"samples\":[");
        /* samples: the deepest state, and two mid-depth ones */
        for (k = 0; k < 3; k++) {
            size_t pick = k == 0 ? mc_nstates - 1 : (k == 1 ? mc_nstates / 2 : mc_nstates / 7);
            int n2;
            if (pick >= mc_nstates) continue;
            n2 = mc_history((int)pick, hist);
            if (n2 == 0 && mc_nstates > 1) continue;
            mc_describe(hist, n2, d1, sizeof d1);
            fprintf(f, "%s", ns++ ? "," : ""); mc_json_str(f, d1);
        }
        fprintf(f, "],\"violations\":[");
        for (k = 0; k < mc_nviols; k++) {
            int j;
            fprintf(f, "%s{\"history\":[", k ? "," : "");
            for (j = 0; j < mc_viols[k].n; j++) fprintf(f, "%s%u", j ? "," : "", mc_viols[k].h[j]);
            mc_describe(mc_viols[k].h, mc_viols[k].n, d1, sizeof d1);
            fprintf(f, "],\"ops\":"); mc_json_str(f, d1);
            fprintf(f, ",\"message\":"); mc_json_str(f, mc_viols[k].msg);
            fprintf(f, "}");
        }
        fprintf(f, "]}\n");
        fflush(f);
    }
    return mc_nviols ? 1 : 0;
}
#endif
