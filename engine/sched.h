/* sched.h -- E2: controlled scheduler over UNMODIFIED library code compiled with -fsanitize=thread.
 * The TSan runtime is NOT linked: this file's companion sched.c supplies the __tsan_* compiler ABI, so every atomic operation
 * and every plain load/store the compiler kept in the library becomes a call into this runtime, with the address.
 * Threads are ucontext coroutines; every hooked access to tracked shared memory (blocks handed out by the wrapped malloc),
 * every malloc/free and every sched_yield is a scheduling point at which the thread parks BEFORE the operation. */
#ifndef VERIF_SCHED_H
#define VERIF_SCHED_H
#include <stddef.h>
#include <stdint.h>

#define SX_MAXT 4
#define SX_MAXSTEPS 4096

enum { SX_OP_START = 1, SX_OP_READ, SX_OP_WRITE, SX_OP_ATOMIC_LOAD, SX_OP_ATOMIC_STORE, SX_OP_ATOMIC_RMW, SX_OP_MALLOC, SX_OP_FREE, SX_OP_YIELD, SX_OP_FENCE };

typedef struct { int kind; uintptr_t addr; int size; int morder; } sx_op;

typedef struct {
    const char *name;
    int nthreads;
    void (*setup)(void);             /* single-threaded construction of the initial configuration (re-run for every execution) */
    void (*body)(int t);             /* thread t's program */
    void (*at_end)(void);            /* oracle on a complete execution (all threads finished) */
    void *world; size_t world_size;  /* scenario state that is part of the explored state (thread-private objects, monitors) */
} sx_scenario;

typedef struct {
    unsigned long states, transitions, executions, complete_executions, pruned, max_depth, races_checked, nonseqcst_ops, yields_blocked, capped;
    unsigned long outcomes;          /* distinct terminal world states */
    int exhaustive;
} sx_stats;

typedef struct { int found; char msg[512]; int sched[SX_MAXSTEPS]; int n; } sx_violation;

/* violations are raised by the runtime (race, use after free, double free, deadlock, abort) and by the world's monitors */
extern int sx_only_abort;              /* report only abort() inside the library (C20: properly moved pointers never abort) */
void sx_fail(const char *fmt, ...) __attribute__((format(printf, 1, 2)));
int  sx_failed(void);
int  sx_self(void);                              /* running thread id, -1 in setup */

/* block table (bump arena, freed blocks are quarantined and poisoned for the rest of the execution) */
typedef struct { uintptr_t addr; size_t size; int freed; int ord; } sx_block;
const sx_block *sx_block_of(const void *p);      /* block containing p (live or freed), NULL if not arena memory */
int sx_nblocks(void);
const sx_block *sx_block_at(int i);
/* world hooks called by the runtime */
extern void (*sx_on_free)(const sx_block *b);    /* just before a block is freed by the running thread */

int sx_explore(const sx_scenario *sc, sx_stats *st, sx_violation *v, double deadline_s, int preemption_bound);
int sx_replay(const sx_scenario *sc, const int *sched, int n, int verbose);   /* 0 ok, 1 violation, 4 diverged */
const char *sx_last_msg(void);
/* crash diagnostics: a memory-mapped text buffer that always holds "R <prefix><t0>,<t1>,..." of the execution in flight */
void sx_progress_open(const char *path);
void sx_progress_prefix(const char *prefix);
#endif
