/* sched.c -- runtime for E2 (see sched.h).  Compiled WITHOUT -fsanitize=thread; linked with
 * -Wl,--wrap=malloc,--wrap=calloc,--wrap=realloc,--wrap=free,--wrap=abort,--wrap=sched_yield against library objects compiled WITH -fsanitize=thread. */
#define _GNU_SOURCE
#include "sched.h"
#include <ucontext.h>
#include <stdio.h>
#include <stdlib.h>
#include <string.h>
#include <stdarg.h>
#include <time.h>

void *__real_malloc(size_t);
void  __real_free(void *);
void *__real_calloc(size_t, size_t);
void *__real_realloc(void *, size_t);
void  __real_abort(void) __attribute__((noreturn));

static void hb_fresh(uintptr_t a, size_t n);
static void hb_reset(void);

/* ---------------- arena ---------------- */
#define ARENA_SZ 4096
#define MAXBLK 64
static unsigned char arena[ARENA_SZ] __attribute__((aligned(64)));
static size_t arena_used;
static sx_block blocks[MAXBLK];
static int nblocks;
void (*sx_on_free)(const sx_block *b);

static int in_arena(uintptr_t a) { return a >= (uintptr_t)arena && a < (uintptr_t)arena + ARENA_SZ; }
/* The library's own static storage (.data / .bss of its objects, renamed by the driver to libdata / libbss / libdrl / libdr so that the linker
 * brackets them with __start_ / __stop_ symbols) is shared memory like the arena: a lock table, a free list or a scratch object kept at file
 * scope is accessed by every thread.  Accesses to it are scheduling points; it is part of the state key, of the snapshots and of the race checks,
 * and it is put back to its initial image at the start of every execution. */
#define STAT_MAX 16384
extern char __start_libbss[] __attribute__((weak)), __stop_libbss[] __attribute__((weak)), __start_libdata[] __attribute__((weak)), __stop_libdata[] __attribute__((weak));
extern char __start_libdrl[] __attribute__((weak)), __stop_libdrl[] __attribute__((weak)), __start_libdr[] __attribute__((weak)), __stop_libdr[] __attribute__((weak));
static struct { uintptr_t lo, hi; size_t cum; } SR[4]; static int nsr = -1; static size_t stat_total;
static unsigned char stat_init[STAT_MAX];
static void stat_setup(void)
{
    char *lo[4] = { __start_libbss, __start_libdata, __start_libdrl, __start_libdr }, *hi[4] = { __stop_libbss, __stop_libdata, __stop_libdrl, __stop_libdr }; int i;
    nsr = 0; stat_total = 0;
    for (i = 0; i < 4; i++) if (lo[i] && hi[i] > lo[i]) {
        if (stat_total + (size_t)(hi[i] - lo[i]) > STAT_MAX) { fprintf(stderr, "schedx: the library's static storage (%zu bytes and more) exceeds what the explorer tracks (%d); cannot decide\n", stat_total + (size_t)(hi[i] - lo[i]), STAT_MAX); _exit(3); }
        SR[nsr].lo = (uintptr_t)lo[i]; SR[nsr].hi = (uintptr_t)hi[i]; SR[nsr].cum = stat_total;
        memcpy(stat_init + stat_total, lo[i], (size_t)(hi[i] - lo[i])); stat_total += (size_t)(hi[i] - lo[i]); nsr++;
    }
}
static int in_statics(uintptr_t a) { int i; for (i = 0; i < nsr; i++) if (a >= SR[i].lo && a < SR[i].hi) return 1; return 0; }
static void stat_copy_out(unsigned char *dst) { int i; for (i = 0; i < nsr; i++) memcpy(dst + SR[i].cum, (void *)SR[i].lo, SR[i].hi - SR[i].lo); }
static void stat_copy_in(const unsigned char *src) { int i; for (i = 0; i < nsr; i++) memcpy((void *)SR[i].lo, src + SR[i].cum, SR[i].hi - SR[i].lo); }
/* virtual offset of a tracked address: arena first, then the static ranges */
static size_t voff(uintptr_t a) { int i; if (in_arena(a)) return a - (uintptr_t)arena; for (i = 0; i < nsr; i++) if (a >= SR[i].lo && a < SR[i].hi) return ARENA_SZ + SR[i].cum + (a - SR[i].lo); return (size_t)-1; }
static int tracked(uintptr_t a) { return in_arena(a) || in_statics(a); }
const sx_block *sx_block_of(const void *p)
{
    int i; uintptr_t a = (uintptr_t)p;
    for (i = nblocks - 1; i >= 0; i--) if (a >= blocks[i].addr && a < blocks[i].addr + (blocks[i].size ? blocks[i].size : 1)) return &blocks[i];
    return NULL;
}
int sx_nblocks(void) { return nblocks; }
const sx_block *sx_block_at(int i) { return &blocks[i]; }

/* ---------------- threads ---------------- */
#define STACK_SZ (32 * 1024)
#define ZERO_BELOW 4096
#define SNAP_STACK 6144
static unsigned char stacks[SX_MAXT][STACK_SZ] __attribute__((aligned(64)));
static ucontext_t sched_ctx, tctx[SX_MAXT];
static struct { int started, finished; sx_op pend; unsigned long yield_seen; int ysig_valid; uint64_t ysig; unsigned long yver; } T[SX_MAXT];
static int cur = -1, active;
static const sx_scenario *SC;
static unsigned long mem_version;
static uint64_t arena_hash_prev;
static int failed; static char fail_msg[512];
static unsigned long nonseqcst;

int sx_only_abort;
int sx_self(void) { return cur; }
int sx_failed(void) { return failed; }
const char *sx_last_msg(void) { return fail_msg; }
void sx_fail(const char *fmt, ...)
{
    va_list ap;
    if (failed) return;
    if (sx_only_abort && strncmp(fmt, "abort()", 7) != 0) return;      /* serving the no-abort half of C20: every other oracle belongs to C06 */
    va_start(ap, fmt); vsnprintf(fail_msg, sizeof fail_msg, fmt, ap); va_end(ap);
    failed = 1;
}

static void park(void) { int me = cur; swapcontext(&tctx[me], &sched_ctx); }
static void point(int kind, uintptr_t addr, int size, int mo)
{
    if (!active || cur < 0) return;
    if (kind != SX_OP_MALLOC && kind != SX_OP_FREE && kind != SX_OP_YIELD && !tracked(addr)) return;     /* thread-private memory: executed inline */
    T[cur].pend.kind = kind; T[cur].pend.addr = addr; T[cur].pend.size = size; T[cur].pend.morder = mo;
    park();
    T[cur].pend.kind = 0;
}

/* ---------------- wrapped libc ---------------- */
void *__wrap_malloc(size_t sz)
{
    void *p;
    if (!active) return __real_malloc(sz);
    point(SX_OP_MALLOC, 0, (int)sz, -1);
    arena_used = (arena_used + 15) & ~(size_t)15;
    if (nblocks >= MAXBLK || arena_used + sz + 16 > ARENA_SZ) { sx_fail("harness arena exhausted"); return NULL; }
    p = arena + arena_used;
    memset(p, 0xBE, sz);                             /* fresh memory has deterministic content */
    hb_fresh((uintptr_t)p, sz);
    blocks[nblocks].addr = (uintptr_t)p; blocks[nblocks].size = sz; blocks[nblocks].freed = 0; blocks[nblocks].ord = nblocks;
    nblocks++;
    arena_used += sz + 16;                           /* 16 bytes of red zone after every block */
    return p;
}
void __wrap_free(void *p)
{
    sx_block *b;
    if (!active) { __real_free(p); return; }
    if (p == NULL) return;
    point(SX_OP_FREE, (uintptr_t)p, 0, -1);
    b = (sx_block *)sx_block_of(p);
    if (b == NULL || b->addr != (uintptr_t)p) { sx_fail("free() of a pointer that is not the start of an allocated block"); return; }
    if (b->freed) { sx_fail("double free of block #%d (%zu bytes)", b->ord, b->size); return; }
    if (sx_on_free) sx_on_free(b);
    b->freed = 1;
    memset(p, 0xDD, b->size);                        /* quarantined and poisoned for the rest of the execution */
}
/* calloc/realloc go through the same arena (one scheduling point each, like malloc): a library that obtains its bookkeeping block with
 * calloc, or grows one with realloc, is still entirely inside tracked memory */
void *__wrap_calloc(size_t n, size_t sz)
{
    void *p;
    if (!active) return __real_calloc(n, sz);
    if (sz && n > (size_t)-1 / sz) return NULL;
    p = __wrap_malloc(n * sz);
    if (p) memset(p, 0, n * sz);
    return p;
}
void *__wrap_realloc(void *old, size_t sz)
{
    void *p; const sx_block *b;
    if (!active) return __real_realloc(old, sz);
    if (old == NULL) return __wrap_malloc(sz);
    if (sz == 0) { __wrap_free(old); return NULL; }
    b = sx_block_of(old);
    if (b == NULL || b->addr != (uintptr_t)old || b->freed) { sx_fail("realloc() of a pointer that is not a live allocated block"); return NULL; }
    p = __wrap_malloc(sz);
    if (p) { memcpy(p, old, b->size < sz ? b->size : sz); __wrap_free(old); }
    return p;
}
void __wrap_abort(void)
{
    if (active && cur >= 0) {
        int me = cur;
        sx_fail("abort() called inside the library by thread %d", cur);
        T[me].finished = 2;
        swapcontext(&tctx[me], &sched_ctx);
    }
    __real_abort();
}
int __wrap_sched_yield(void)
{
    if (active && cur >= 0) { T[cur].yield_seen = (unsigned long)-1; point(SX_OP_YIELD, 0, 0, -1); }      /* whether the yield blocks is decided by the scheduler once the thread is parked (futile_spin) */
    return 0;
}

/* ---------------- the -fsanitize=thread compiler ABI ---------------- */
void __tsan_init(void) {}
void __tsan_func_entry(void *pc) { (void)pc; }
void __tsan_func_exit(void) {}
void __tsan_vptr_update(void **vp, void *v) { (void)vp; (void)v; }
void __tsan_vptr_read(void **vp) { (void)vp; }
#define PLAIN(N) \
    void __tsan_read##N(void *a) { point(SX_OP_READ, (uintptr_t)a, N, -1); } \
    void __tsan_write##N(void *a) { point(SX_OP_WRITE, (uintptr_t)a, N, -1); } \
    void __tsan_unaligned_read##N(void *a) { point(SX_OP_READ, (uintptr_t)a, N, -1); } \
    void __tsan_unaligned_write##N(void *a) { point(SX_OP_WRITE, (uintptr_t)a, N, -1); } \
    void __tsan_read##N##_pc(void *a, void *pc) { (void)pc; point(SX_OP_READ, (uintptr_t)a, N, -1); } \
    void __tsan_write##N##_pc(void *a, void *pc) { (void)pc; point(SX_OP_WRITE, (uintptr_t)a, N, -1); }
PLAIN(1) PLAIN(2) PLAIN(4) PLAIN(8) PLAIN(16)
void __tsan_read_range(void *a, unsigned long n) { point(SX_OP_READ, (uintptr_t)a, (int)n, -1); }
void __tsan_write_range(void *a, unsigned long n) { point(SX_OP_WRITE, (uintptr_t)a, (int)n, -1); }

static void note_mo(int mo) { if (active && cur >= 0 && mo != __ATOMIC_SEQ_CST) nonseqcst++; }
#define ATOMICS(BITS, TYPE) \
    TYPE __tsan_atomic##BITS##_load(const volatile TYPE *a, int mo) { point(SX_OP_ATOMIC_LOAD, (uintptr_t)a, BITS / 8, mo); note_mo(mo); return __atomic_load_n(a, __ATOMIC_SEQ_CST); } \
    void __tsan_atomic##BITS##_store(volatile TYPE *a, TYPE v, int mo) { point(SX_OP_ATOMIC_STORE, (uintptr_t)a, BITS / 8, mo); note_mo(mo); __atomic_store_n(a, v, __ATOMIC_SEQ_CST); } \
    TYPE __tsan_atomic##BITS##_exchange(volatile TYPE *a, TYPE v, int mo) { point(SX_OP_ATOMIC_RMW, (uintptr_t)a, BITS / 8, mo); note_mo(mo); return __atomic_exchange_n(a, v, __ATOMIC_SEQ_CST); } \
    TYPE __tsan_atomic##BITS##_fetch_add(volatile TYPE *a, TYPE v, int mo) { point(SX_OP_ATOMIC_RMW, (uintptr_t)a, BITS / 8, mo); note_mo(mo); return __atomic_fetch_add(a, v, __ATOMIC_SEQ_CST); } \
    TYPE __tsan_atomic##BITS##_fetch_sub(volatile TYPE *a, TYPE v, int mo) { point(SX_OP_ATOMIC_RMW, (uintptr_t)a, BITS / 8, mo); note_mo(mo); return __atomic_fetch_sub(a, v, __ATOMIC_SEQ_CST); } \
    TYPE __tsan_atomic##BITS##_fetch_and(volatile TYPE *a, TYPE v, int mo) { point(SX_OP_ATOMIC_RMW, (uintptr_t)a, BITS / 8, mo); note_mo(mo); return __atomic_fetch_and(a, v, __ATOMIC_SEQ_CST); } \
    TYPE __tsan_atomic##BITS##_fetch_or(volatile TYPE *a, TYPE v, int mo) { point(SX_OP_ATOMIC_RMW, (uintptr_t)a, BITS / 8, mo); note_mo(mo); return __atomic_fetch_or(a, v, __ATOMIC_SEQ_CST); } \
    TYPE __tsan_atomic##BITS##_fetch_xor(volatile TYPE *a, TYPE v, int mo) { point(SX_OP_ATOMIC_RMW, (uintptr_t)a, BITS / 8, mo); note_mo(mo); return __atomic_fetch_xor(a, v, __ATOMIC_SEQ_CST); } \
    TYPE __tsan_atomic##BITS##_fetch_nand(volatile TYPE *a, TYPE v, int mo) { point(SX_OP_ATOMIC_RMW, (uintptr_t)a, BITS / 8, mo); note_mo(mo); return __atomic_fetch_nand(a, v, __ATOMIC_SEQ_CST); } \
    int __tsan_atomic##BITS##_compare_exchange_strong(volatile TYPE *a, TYPE *c, TYPE v, int mo, int fmo) { point(SX_OP_ATOMIC_RMW, (uintptr_t)a, BITS / 8, mo); note_mo(mo); (void)fmo; return __atomic_compare_exchange_n(a, c, v, 0, __ATOMIC_SEQ_CST, __ATOMIC_SEQ_CST); } \
    int __tsan_atomic##BITS##_compare_exchange_weak(volatile TYPE *a, TYPE *c, TYPE v, int mo, int fmo) { point(SX_OP_ATOMIC_RMW, (uintptr_t)a, BITS / 8, mo); note_mo(mo); (void)fmo; return __atomic_compare_exchange_n(a, c, v, 0, __ATOMIC_SEQ_CST, __ATOMIC_SEQ_CST); } \
    TYPE __tsan_atomic##BITS##_compare_exchange_val(volatile TYPE *a, TYPE c, TYPE v, int mo, int fmo) { point(SX_OP_ATOMIC_RMW, (uintptr_t)a, BITS / 8, mo); note_mo(mo); (void)fmo; __atomic_compare_exchange_n(a, &c, v, 0, __ATOMIC_SEQ_CST, __ATOMIC_SEQ_CST); return c; }
ATOMICS(8, uint8_t) ATOMICS(16, uint16_t) ATOMICS(32, uint32_t) ATOMICS(64, uint64_t)
void __tsan_atomic_thread_fence(int mo) { point(SX_OP_FENCE, 0, 0, mo); }
void __tsan_atomic_signal_fence(int mo) { (void)mo; }

/* ---------------- progress buffer (read by the driver if this process dies) ---------------- */
#include <fcntl.h>
#include <unistd.h>
#include <sys/mman.h>
static char *prog_buf; static size_t prog_cap = 1 << 16, prog_base, prog_off;
void sx_progress_open(const char *path)
{
    int fd = open(path, O_RDWR | O_CREAT | O_TRUNC, 0644);
    if (fd < 0 || ftruncate(fd, (off_t)prog_cap) != 0) return;
    prog_buf = mmap(NULL, prog_cap, PROT_READ | PROT_WRITE, MAP_SHARED, fd, 0);
    if (prog_buf == MAP_FAILED) prog_buf = NULL;
    close(fd);
}
void sx_progress_prefix(const char *prefix)
{
    if (!prog_buf) return;
    prog_base = (size_t)snprintf(prog_buf, prog_cap, "R %s", prefix); prog_off = prog_base; prog_buf[prog_off] = '\n'; prog_buf[prog_off + 1] = 0;
}
static void progress_reset(void) { if (prog_buf) { prog_off = prog_base; prog_buf[prog_off] = '\n'; prog_buf[prog_off + 1] = 0; } }
static void progress_step(int c) { if (prog_buf && prog_off + 8 < prog_cap) { prog_buf[prog_off++] = (char)('0' + c); prog_buf[prog_off++] = ','; prog_buf[prog_off] = '\n'; prog_buf[prog_off + 1] = 0; } }

/* ---------------- state key ---------------- */
typedef struct { uint64_t a, b; } key128;
static void kmix(key128 *k, const void *p, size_t n)
{
    const unsigned char *s = p; size_t i;
    for (i = 0; i < n; i++) { k->a = (k->a ^ s[i]) * 1099511628211ULL; k->b = (k->b + s[i] + 0x9e3779b97f4a7c15ULL) * 0xff51afd7ed558ccdULL; k->b ^= k->b >> 29; }
}
static uint64_t mem_hash(void)
{
    key128 k = { 1469598103934665603ULL, 7 };
    kmix(&k, arena, arena_used); kmix(&k, blocks, sizeof blocks[0] * (size_t)nblocks);
    { int i_; for (i_ = 0; i_ < nsr; i_++) kmix(&k, (void *)SR[i_].lo, SR[i_].hi - SR[i_].lo); }
    return k.a ^ (k.b << 1);
}
static int thr_enabled(int t) { return !T[t].finished && !(T[t].pend.kind == SX_OP_YIELD && T[t].yield_seen == mem_version); }
static key128 state_key(void)
{
    key128 k = { 1469598103934665603ULL, 99 }; int t;
    kmix(&k, arena, arena_used); kmix(&k, blocks, sizeof blocks[0] * (size_t)nblocks); kmix(&k, &arena_used, sizeof arena_used);
    { int i_; for (i_ = 0; i_ < nsr; i_++) kmix(&k, (void *)SR[i_].lo, SR[i_].hi - SR[i_].lo); }
    kmix(&k, SC->world, SC->world_size);
    for (t = 0; t < SC->nthreads; t++) {
        int en = thr_enabled(t);
        kmix(&k, &T[t].started, sizeof(int)); kmix(&k, &T[t].finished, sizeof(int)); kmix(&k, &T[t].pend, sizeof T[t].pend); kmix(&k, &en, sizeof en);
        if (T[t].started && !T[t].finished) {
            /* the thread's real continuation: callee-saved registers, resume address, and its live stack */
            greg_t *g = tctx[t].uc_mcontext.gregs;
            greg_t regs[8] = { g[REG_RBX], g[REG_RBP], g[REG_R12], g[REG_R13], g[REG_R14], g[REG_R15], g[REG_RSP], g[REG_RIP] };
            uintptr_t sp = (uintptr_t)g[REG_RSP], top = (uintptr_t)stacks[t] + STACK_SZ;
            kmix(&k, regs, sizeof regs);
            if (sp >= (uintptr_t)stacks[t] && sp < top) kmix(&k, (void *)sp, top - sp);
        }
    }
    return k;
}

/* A yielding thread is BLOCKED (until shared memory changes) only when it is spinning in vain: it arrives at a yield with exactly the
 * continuation (registers, live stack) and exactly the memory it had at its previous yield - a whole iteration that changed nothing and learned
 * nothing, so the next one would be identical.  A yield in a retry loop whose retry can succeed without anybody else moving (a failed
 * compare-and-swap that re-read the value) is just a scheduling point. */
static uint64_t thread_sig(int t)
{
    key128 k = { 1469598103934665603ULL, 42 };
    greg_t *g = tctx[t].uc_mcontext.gregs;
    greg_t regs[8] = { g[REG_RBX], g[REG_RBP], g[REG_R12], g[REG_R13], g[REG_R14], g[REG_R15], g[REG_RSP], g[REG_RIP] };
    uintptr_t sp = (uintptr_t)g[REG_RSP], top = (uintptr_t)stacks[t] + STACK_SZ;
    kmix(&k, regs, sizeof regs);
    if (sp >= (uintptr_t)stacks[t] && sp < top) kmix(&k, (void *)sp, top - sp);
    return k.a ^ (k.b << 1);
}
static void futile_spin(int c)
{
    uint64_t sig;
    if (T[c].finished || T[c].pend.kind != SX_OP_YIELD) return;
    sig = thread_sig(c);
    T[c].yield_seen = (T[c].ysig_valid && T[c].ysig == sig && T[c].yver == mem_version) ? mem_version : (unsigned long)-1;
    T[c].ysig = sig; T[c].yver = mem_version; T[c].ysig_valid = 1;
}

/* visited set */
static key128 *vis; static size_t vis_cap, vis_n;
static void vis_reset(void) { if (!vis) { vis_cap = 1u << 16; vis = __real_malloc(vis_cap * sizeof *vis); } memset(vis, 0, vis_cap * sizeof *vis); vis_n = 0; }
static int vis_insert(key128 k)      /* 1 if new */
{
    size_t h, i;
    if (k.a == 0 && k.b == 0) k.b = 1;
    if ((vis_n + 1) * 2 > vis_cap) {
        key128 *old = vis; size_t oc = vis_cap;
        vis_cap *= 2; vis = __real_malloc(vis_cap * sizeof *vis); memset(vis, 0, vis_cap * sizeof *vis); vis_n = 0;
        for (i = 0; i < oc; i++) if (old[i].a || old[i].b) vis_insert(old[i]);
        __real_free(old);
    }
    h = (size_t)(k.a ^ (k.b * 31)) & (vis_cap - 1);
    while (vis[h].a || vis[h].b) { if (vis[h].a == k.a && vis[h].b == k.b) return 0; h = (h + 1) & (vis_cap - 1); }
    vis[h] = k; vis_n++;
    return 1;
}

/* ---------------- one execution ---------------- */
static void tramp(int t)
{
    SC->body(t);
    T[t].finished = 1; T[t].pend.kind = 0;
    swapcontext(&tctx[t], &sched_ctx);
}
static void exec_begin(void)
{
    int t;
    arena_used = 0; nblocks = 0; memset(arena, 0, sizeof arena); memset(blocks, 0, sizeof blocks);
    if (nsr < 0) stat_setup();
    stat_copy_in(stat_init);
    failed = 0; fail_msg[0] = 0; mem_version = 0; cur = -1;
    memset(T, 0, sizeof T);
    hb_reset();
    active = 1;
    SC->setup();
    for (t = 0; t < SC->nthreads; t++) {
        memset(stacks[t], 0, STACK_SZ);
        getcontext(&tctx[t]);
        tctx[t].uc_stack.ss_sp = stacks[t]; tctx[t].uc_stack.ss_size = STACK_SZ; tctx[t].uc_link = &sched_ctx;
        makecontext(&tctx[t], (void (*)(void))tramp, 1, t);
        T[t].pend.kind = SX_OP_START;
    }
    arena_hash_prev = mem_hash();
}
static const char *opname(int k)
{
    static const char *n[] = { "?", "start", "read", "write", "atomic-load", "atomic-store", "atomic-rmw", "malloc", "free", "yield", "fence" };
    return k >= 0 && k <= 10 ? n[k] : "?";
}
static void describe(int t, char *out, size_t cap)
{
    const sx_op *o = &T[t].pend; const sx_block *b = (o->kind == SX_OP_MALLOC || o->kind == SX_OP_YIELD || o->kind == SX_OP_START) ? NULL : sx_block_of((void *)o->addr);
    if (b) snprintf(out, cap, "T%d %s %d bytes at block#%d%s+%lu%s", t, opname(o->kind), o->size, b->ord, b->freed ? "(freed)" : "", (unsigned long)(o->addr - b->addr), o->morder >= 0 && o->morder != 5 ? " (not seq_cst)" : "");
    else snprintf(out, cap, "T%d %s%s", t, opname(o->kind), o->kind == SX_OP_MALLOC ? "" : "");
}
static int is_access(int k) { return k == SX_OP_READ || k == SX_OP_WRITE || k == SX_OP_ATOMIC_LOAD || k == SX_OP_ATOMIC_STORE || k == SX_OP_ATOMIC_RMW; }
static int is_write(int k) { return k == SX_OP_WRITE || k == SX_OP_ATOMIC_STORE || k == SX_OP_ATOMIC_RMW; }
static int is_plain(int k) { return k == SX_OP_READ || k == SX_OP_WRITE; }
static void race_check(void)
{
    int a, b;
    for (a = 0; a < SC->nthreads; a++) for (b = a + 1; b < SC->nthreads; b++) {
        const sx_op *x = &T[a].pend, *y = &T[b].pend;
        if (T[a].finished || T[b].finished || !is_access(x->kind) || !is_access(y->kind)) continue;
        if (x->addr + (uintptr_t)x->size <= y->addr || y->addr + (uintptr_t)y->size <= x->addr) continue;
        if (!(is_write(x->kind) || is_write(y->kind))) continue;
        if (!(is_plain(x->kind) || is_plain(y->kind))) continue;
        {
            char d1[160], d2[160]; describe(a, d1, sizeof d1); describe(b, d2, sizeof d2);
            sx_fail("data race on the library's bookkeeping: [%s] and [%s] are both about to execute (conflicting, not both atomic)", d1, d2);
        }
    }
}
/* ---- happens-before race check that honours the actual memory orders (C11 release/acquire, release sequences through RMWs).
 * With every atomic operation seq_cst (today's memory.c) it can only find what the co-enabledness check finds in some interleaving;
 * it exists for changes that weaken an order: then two conflicting accesses can be unordered by happens-before although no SC
 * interleaving makes them adjacent.  Vector clocks and shadow words are part of the snapshots but not of the state key, so along
 * pruned executions the check is not repeated: it never raises a false alarm, and it is not claimed to be complete. ---- */
#define NWORDS ((ARENA_SZ + STAT_MAX) / 8)
#define MAXALOC 32
static unsigned VC[SX_MAXT][SX_MAXT];
static struct { uintptr_t addr; unsigned rel[SX_MAXT]; } ALOC[MAXALOC];
static int naloc;
static struct { int wt; unsigned wc; unsigned rc[SX_MAXT]; } SH[NWORDS];
static void hb_reset(void) { int i; memset(VC, 0, sizeof VC); memset(ALOC, 0, sizeof ALOC); naloc = 0; memset(SH, 0, sizeof SH); for (i = 0; i < NWORDS; i++) SH[i].wt = -1; }
static void hb_fresh(uintptr_t a, size_t n) { size_t w; for (w = (a - (uintptr_t)arena) / 8; w < ARENA_SZ / 8 && w * 8 + (uintptr_t)arena < a + n; w++) { memset(&SH[w], 0, sizeof SH[w]); SH[w].wt = -1; } }
static unsigned *hb_loc(uintptr_t a)
{
    int i;
    a &= ~(uintptr_t)7;
    for (i = 0; i < naloc; i++) if (ALOC[i].addr == a) return ALOC[i].rel;
    if (naloc >= MAXALOC) return NULL;
    ALOC[naloc].addr = a; memset(ALOC[naloc].rel, 0, sizeof ALOC[naloc].rel);
    return ALOC[naloc++].rel;
}
static void hb_conflict(int c, const char *mine, int other, const char *theirs, uintptr_t a)
{
    const sx_block *b = sx_block_of((void *)a);
    sx_fail("data race on the library's bookkeeping (happens-before): thread %d's %s at block#%d+%lu is not ordered after thread %d's earlier %s of the same word -- the memory orders used do not synchronise them",
            c, mine, b ? b->ord : -1, b ? (unsigned long)(a - b->addr) : 0ul, other, theirs);
}
static void hb_access(int c, uintptr_t a, size_t n, int is_wr, int atomic)
{
    size_t w0 = voff(a) / 8, w1 = w0 + ((a & 7) + (n ? n : 1) - 1) / 8, w; int u;
    if (voff(a) == (size_t)-1) return;
    for (w = w0; w <= w1 && w < NWORDS; w++) {
        /* against the last plain write */
        if (SH[w].wt >= 0 && SH[w].wt != c && SH[w].wc > VC[c][SH[w].wt]) { hb_conflict(c, is_wr ? (atomic ? "atomic write" : "write") : (atomic ? "atomic read" : "read"), SH[w].wt, "plain write", a); return; }
        if (is_wr) for (u = 0; u < SX_MAXT; u++) if (u != c && SH[w].rc[u] > VC[c][u]) { hb_conflict(c, atomic ? "atomic write" : "write", u, "plain read", a); return; }
        if (!atomic) { if (is_wr) { SH[w].wt = c; SH[w].wc = VC[c][c]; memset(SH[w].rc, 0, sizeof SH[w].rc); } else SH[w].rc[c] = VC[c][c]; }
    }
}
static void hb_step(int c)
{
    const sx_op *o = &T[c].pend; unsigned *L; int u, mo = o->morder;
    VC[c][c]++;
    switch (o->kind) {
    case SX_OP_READ: hb_access(c, o->addr, (size_t)o->size, 0, 0); break;
    case SX_OP_WRITE: hb_access(c, o->addr, (size_t)o->size, 1, 0); break;
    case SX_OP_FREE: { const sx_block *b = sx_block_of((void *)o->addr); if (b && !b->freed) hb_access(c, b->addr, b->size, 1, 0); break; }   /* destroying a block conflicts with every earlier access to it */
    case SX_OP_ATOMIC_LOAD: case SX_OP_ATOMIC_STORE: case SX_OP_ATOMIC_RMW:
        hb_access(c, o->addr, (size_t)o->size, o->kind != SX_OP_ATOMIC_LOAD, 1);
        L = hb_loc(o->addr); if (!L) break;
        if (o->kind != SX_OP_ATOMIC_STORE && (mo == __ATOMIC_CONSUME || mo == __ATOMIC_ACQUIRE || mo == __ATOMIC_ACQ_REL || mo == __ATOMIC_SEQ_CST))
            for (u = 0; u < SX_MAXT; u++) if (L[u] > VC[c][u]) VC[c][u] = L[u];
        if (o->kind != SX_OP_ATOMIC_LOAD) {
            int rel = mo == __ATOMIC_RELEASE || mo == __ATOMIC_ACQ_REL || mo == __ATOMIC_SEQ_CST;
            if (o->kind == SX_OP_ATOMIC_STORE) { for (u = 0; u < SX_MAXT; u++) L[u] = rel ? VC[c][u] : 0; }      /* a plain store starts a new release sequence (or none) */
            else if (rel) for (u = 0; u < SX_MAXT; u++) if (VC[c][u] > L[u]) L[u] = VC[c][u];                   /* an RMW continues the sequence it read from */
        }
        break;
    default: break;
    }
}

/* run thread c for one step (its parked operation plus everything up to its next scheduling point) */
static void step(int c)
{
    const sx_op *o = &T[c].pend; uint64_t h;
    if (is_access(o->kind)) {
        const sx_block *b = sx_block_of((void *)o->addr);
        if (b && b->freed) { char d[160]; describe(c, d, sizeof d); sx_fail("access into a freed block: %s", d); return; }
        if (!b && in_arena(o->addr)) { char d[160]; describe(c, d, sizeof d); sx_fail("access into arena memory outside any block (red zone): %s", d); return; }
    }
    hb_step(c);
    if (failed) return;
    {
        /* frames pushed during this step start from zeroed memory, so dead slots inside live frames are a function of the state
         * (a thread that has not run yet gets its whole unused stack zeroed: an earlier branch of the search may have run it) */
        uintptr_t sp = (uintptr_t)tctx[c].uc_mcontext.gregs[REG_RSP], lo = (T[c].started && sp > (uintptr_t)stacks[c] + ZERO_BELOW) ? sp - ZERO_BELOW : (uintptr_t)stacks[c];
        if (sp > (uintptr_t)stacks[c] && sp <= (uintptr_t)stacks[c] + STACK_SZ) memset((void *)lo, 0, sp - lo);
    }
    cur = c; T[c].started = 1;
    swapcontext(&sched_ctx, &tctx[c]);
    cur = -1;
    h = mem_hash();
    if (h != arena_hash_prev) { mem_version++; arena_hash_prev = h; }
    futile_spin(c);
}

/* outcome set (distinct terminal world states) */
static uint64_t outcomes[256]; static int noutcomes;
static void note_outcome(void)
{
    key128 k = { 1469598103934665603ULL, 5 }; int i; uint64_t h;
    kmix(&k, SC->world, SC->world_size); h = k.a ^ k.b;
    for (i = 0; i < noutcomes; i++) if (outcomes[i] == h) return;
    if (noutcomes < 256) outcomes[noutcomes++] = h;
}

/* DFS work list */
typedef struct { int n; int *s; } prefix_t;
static prefix_t *work; static size_t nwork, capwork;
static void push(const int *s, int n, int alt)
{
    int *c = __real_malloc(sizeof(int) * (size_t)(n + 1));
    memcpy(c, s, sizeof(int) * (size_t)n); c[n] = alt;
    if (nwork == capwork) { prefix_t *nw; capwork = capwork ? capwork * 2 : 1024; nw = __real_malloc(capwork * sizeof *nw); if (work) { memcpy(nw, work, nwork * sizeof *nw); __real_free(work); } work = nw; }
    work[nwork].n = n + 1; work[nwork].s = c; nwork++;
}
static double now(void) { struct timespec ts; clock_gettime(CLOCK_MONOTONIC, &ts); return ts.tv_sec + ts.tv_nsec * 1e-9; }

/* returns: 0 complete/pruned, 1 violation, 4 divergence */
static int run(const int *pre, int npre, int explore, sx_stats *st, int *sched_out, int *nsched, int verbose)
{
    int i = 0, t, last = -1;
    progress_reset();
    exec_begin();
    for (;;) {
        int en[SX_MAXT], nen = 0, unfinished = 0, c;
        if (failed) break;
        for (t = 0; t < SC->nthreads; t++) { if (!T[t].finished) unfinished++; }
        /* canonical order: the thread that ran last first (if still enabled), then ascending ids */
        if (last >= 0 && thr_enabled(last)) en[nen++] = last;
        for (t = 0; t < SC->nthreads; t++) if (t != last && thr_enabled(t)) en[nen++] = t;
        if (unfinished == 0) { if (SC->at_end) SC->at_end(); if (st) { st->complete_executions++; } note_outcome(); break; }
        if (nen == 0) {
            char d[400] = ""; for (t = 0; t < SC->nthreads; t++) if (!T[t].finished) { char d1[120]; describe(t, d1, sizeof d1); snprintf(d + strlen(d), sizeof d - strlen(d), "[%s] ", d1); }
            sx_fail("no thread can make progress (a thread waits forever): %s", d); break;
        }
        race_check(); if (st) st->races_checked++;
        if (failed) break;
        if (i < npre) {
            c = pre[i];
            for (t = 0; t < nen; t++) if (en[t] == c) break;
            if (t == nen) { snprintf(fail_msg, sizeof fail_msg, "schedule diverged at step %d: thread %d is not enabled", i, c); return 4; }
        } else {
            if (explore) {
                key128 k = state_key();
                if (!vis_insert(k)) { st->pruned++; *nsched = i; active = 0; return 0; }
                st->states++;
                for (t = 1; t < nen; t++) push(sched_out, i, en[t]);
            }
            c = en[0];
        }
        if (i >= SX_MAXSTEPS - 1) { if (st) st->capped++; break; }
        if (verbose) { char d[200]; describe(c, d, sizeof d); printf("  step %d: %s\n", i, d); }
        sched_out[i] = c; progress_step(c);
        if (explore && i >= npre - 1) st->transitions++;
        if (T[c].pend.kind == SX_OP_YIELD && st) st->yields_blocked++;
        step(c);
        last = c; i++;
        if (st && (unsigned long)i > st->max_depth) st->max_depth = (unsigned long)i;
    }
    *nsched = i;
    active = 0;
    return failed ? 1 : 0;
}

/* ---- depth-first search with snapshot / restore of the complete state (arena, block table, world, every coroutine's context and live stack) ---- */
typedef struct {
    size_t arena_used; int nblocks; unsigned long mem_version; uint64_t arena_hash_prev;
    unsigned char arena[ARENA_SZ]; sx_block blocks[MAXBLK]; unsigned char statics[STAT_MAX];
    unsigned char world[1024];
    unsigned char T_[sizeof T];
    ucontext_t ctx[SX_MAXT];
    uintptr_t sp[SX_MAXT]; size_t slen[SX_MAXT]; unsigned char stack[SX_MAXT][SNAP_STACK];
    unsigned char vc[sizeof VC], aloc[sizeof ALOC], sh[sizeof SH]; int naloc;
} snap_t;
static snap_t *snaps; static int snaps_cap;
static sx_stats *ST; static sx_violation *VIO; static int path[SX_MAXSTEPS]; static double dfs_deadline, dfs_t0; static int dfs_stop;

static int save_state(snap_t *sn)
{
    int t;
    sn->arena_used = arena_used; sn->nblocks = nblocks; sn->mem_version = mem_version; sn->arena_hash_prev = arena_hash_prev;
    memcpy(sn->arena, arena, arena_used); memcpy(sn->blocks, blocks, sizeof blocks[0] * (size_t)nblocks); stat_copy_out(sn->statics);
    memcpy(sn->world, SC->world, SC->world_size); memcpy(sn->T_, T, sizeof T);
    memcpy(sn->vc, VC, sizeof VC); memcpy(sn->aloc, ALOC, sizeof ALOC); memcpy(sn->sh, SH, sizeof SH); sn->naloc = naloc;
    for (t = 0; t < SC->nthreads; t++) {
        sn->slen[t] = 0;
        if (T[t].started && !T[t].finished) {
            uintptr_t sp = (uintptr_t)tctx[t].uc_mcontext.gregs[REG_RSP], top = (uintptr_t)stacks[t] + STACK_SZ;
            if (sp < (uintptr_t)stacks[t] || sp > top || top - sp > SNAP_STACK) return -1;
            sn->sp[t] = sp; sn->slen[t] = top - sp; memcpy(sn->stack[t], (void *)sp, top - sp);
        }
        memcpy(&sn->ctx[t], &tctx[t], sizeof tctx[t]);
    }
    return 0;
}
static void restore_state(const snap_t *sn)
{
    int t;
    arena_used = sn->arena_used; nblocks = sn->nblocks; mem_version = sn->mem_version; arena_hash_prev = sn->arena_hash_prev;
    memset(arena, 0, sizeof arena); memcpy(arena, sn->arena, arena_used);
    memset(blocks, 0, sizeof blocks); memcpy(blocks, sn->blocks, sizeof blocks[0] * (size_t)nblocks); stat_copy_in(sn->statics);
    memcpy(SC->world, sn->world, SC->world_size); memcpy(T, sn->T_, sizeof T);
    memcpy(VC, sn->vc, sizeof VC); memcpy(ALOC, sn->aloc, sizeof ALOC); memcpy(SH, sn->sh, sizeof SH); naloc = sn->naloc;
    for (t = 0; t < SC->nthreads; t++) {
        memcpy(&tctx[t], &sn->ctx[t], sizeof tctx[t]);
        if (sn->slen[t]) memcpy((void *)sn->sp[t], sn->stack[t], sn->slen[t]);
    }
    failed = 0; cur = -1;
}
static void record_violation(int depth)
{
    VIO->found = 1; snprintf(VIO->msg, sizeof VIO->msg, "%s", fail_msg); VIO->n = depth; memcpy(VIO->sched, path, sizeof(int) * (size_t)depth);
    dfs_stop = 1;
}
static void dfs(int depth)
{
    int en[SX_MAXT], nen = 0, unfinished = 0, t, k;
    if (failed) { record_violation(depth); return; }
    if ((unsigned long)depth > ST->max_depth) ST->max_depth = (unsigned long)depth;
    for (t = 0; t < SC->nthreads; t++) { if (!T[t].finished) unfinished++; if (thr_enabled(t)) en[nen++] = t; }
    if (unfinished == 0) {
        if (SC->at_end) SC->at_end();
        ST->complete_executions++; ST->executions++; note_outcome();
        if (failed) record_violation(depth);
        return;
    }
    if (nen == 0) {
        char d[400] = ""; for (t = 0; t < SC->nthreads; t++) if (!T[t].finished) { char d1[120]; describe(t, d1, sizeof d1); snprintf(d + strlen(d), sizeof d - strlen(d), "[%s] ", d1); }
        sx_fail("no thread can make progress (a thread waits forever): %s", d); if (failed) record_violation(depth); return;      /* (filtered out when only abort() is being judged) */
    }
    race_check(); ST->races_checked++;
    if (failed) { record_violation(depth); return; }
    if (!vis_insert(state_key())) { ST->pruned++; ST->executions++; return; }
    ST->states++;
    if (depth >= SX_MAXSTEPS - 2 || depth >= snaps_cap) { ST->capped++; return; }
    if (dfs_deadline > 0 && (ST->states & 1023) == 0 && now() - dfs_t0 > dfs_deadline) { dfs_stop = 2; return; }
    if (save_state(&snaps[depth]) != 0) { ST->capped++; return; }
    for (k = 0; k < nen && !dfs_stop; k++) {
        int c = en[k];
        path[depth] = c; progress_step(c);
        ST->transitions++;
        if (T[c].pend.kind == SX_OP_YIELD) ST->yields_blocked++;
        step(c);
        dfs(depth + 1);
        if (dfs_stop) return;
        restore_state(&snaps[depth]);
        if (prog_buf && prog_off >= 2) { prog_off -= 2; prog_buf[prog_off] = '\n'; prog_buf[prog_off + 1] = 0; }
    }
}

int sx_explore(const sx_scenario *sc, sx_stats *st, sx_violation *v, double deadline_s, int preemption_bound)
{
    (void)preemption_bound;
    SC = sc; ST = st; VIO = v; vis_reset(); noutcomes = 0; nonseqcst = 0; dfs_stop = 0; dfs_deadline = deadline_s; dfs_t0 = now();
    if (sc->world_size > sizeof snaps[0].world) { snprintf(v->msg, sizeof v->msg, "world too large for snapshots"); return 4; }
    if (!snaps) { snaps_cap = 512; snaps = __real_malloc(sizeof *snaps * (size_t)snaps_cap); }
    st->exhaustive = 1; v->found = 0;
    progress_reset();
    exec_begin();
    dfs(0);
    active = 0;
    st->outcomes = (unsigned long)noutcomes; st->nonseqcst_ops = nonseqcst;
    if (dfs_stop == 1) { st->exhaustive = 0; return 1; }
    if (dfs_stop == 2 || st->capped) st->exhaustive = 0;
    return 0;
}

int sx_replay(const sx_scenario *sc, const int *sched, int n, int verbose)
{
    static int out[SX_MAXSTEPS]; int m = 0, rc;
    SC = sc; noutcomes = 0;
    rc = run(sched, n, 0, NULL, out, &m, verbose);
    if (rc == 1 && verbose) printf("  VIOLATED after %d steps: %s\n", m, fail_msg);
    if (rc == 4 && verbose) printf("  %s\n", fail_msg);
    return rc;
}
