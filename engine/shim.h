/* shim: allocation / abort / rand interposition layer shared by every harness.
 * Linked with -Wl,--wrap=malloc,--wrap=calloc,--wrap=realloc,--wrap=free,--wrap=abort,
 *             --wrap=__assert_fail,--wrap=rand
 * Only calls made while shim_in_lib != 0 are tracked / faulted; everything else passes through. */
#ifndef VERIF_SHIM_H
#define VERIF_SHIM_H
#include <setjmp.h>
#include <stddef.h>
#include <stdint.h>
#include <string.h>

#define SHIM_MAXBLK 8192
#define SHIM_MAXEV  4096
#define SHIM_REFUSE_ABOVE ((size_t)1 << 30)   /* deterministic "cannot be satisfied" line */

typedef struct { void *p; size_t sz; unsigned ord; int live; int tag; } shim_blk;
enum { EV_MALLOC = 1, EV_REALLOC, EV_FREE, EV_ALLOC_FAILED, EV_BAD_FREE, EV_DOUBLE_FREE };
typedef struct { int kind; int blk; size_t sz; } shim_ev;

extern jmp_buf shim_jb;
extern volatile int shim_armed;        /* abort()/assert inside the library longjmp to shim_jb when set */
extern volatile int shim_aborted;      /* 1 = abort(), 2 = assertion failure */
extern char shim_assert_msg[256];
extern volatile int shim_in_lib;                /* >0: allocation calls are the library's */

extern shim_blk shim_blks[SHIM_MAXBLK];
extern int shim_nblk;
extern shim_ev shim_evs[SHIM_MAXEV];
extern int shim_nev;
extern unsigned shim_errors;           /* bit0 bad free, bit1 double free, bit2 table overflow */
extern unsigned long shim_alloc_calls; /* library allocation calls (malloc/calloc/realloc) since shim_reset */
extern unsigned long shim_faults_hit;  /* injected failures since shim_reset */
extern unsigned long shim_refused;     /* requests above the refusal line */
extern int shim_next_tag;              /* tag given to the next tracked allocation */

void shim_bail(int code) __attribute__((noreturn));  /* harness watchdog: leave the library call in flight (SHIM_CALL reports code, >= 3) */
/* hang watchdog: a 1 s interval timer; a library call (SHIM_CALL) that is still the same call after 3 ticks is abandoned with code 3 */
void shim_watchdog_start(void);
extern volatile unsigned long shim_call_seq;
void shim_reset(void);                 /* free every live tracked block, clear tables, faults and log */
void shim_evclear(void);
int  shim_nlive(void);
int  shim_nleaked(void);     /* live blocks not reachable from the library's static storage (a cache is not a leak) */
size_t shim_live_bytes(void);
shim_blk *shim_find(const void *p);    /* live tracked block containing p (interior pointers ok) or NULL */
shim_blk *shim_find_dead(const void *p);/* most recent dead block containing p */
/* fault plan: allocation call number k (1-based, counted since shim_reset) fails if k is listed or k >= from (from==0: none) */
void shim_fail_plan(const unsigned long *ords, int n, unsigned long from);
extern int (*shim_rand_fn)(void);

void *__real_malloc(size_t);
void *__real_calloc(size_t, size_t);
void *__real_realloc(void *, size_t);
void  __real_free(void *);
void  __real_abort(void) __attribute__((noreturn));
int   __real_rand(void);

/* run a library statement with abort trapping; AB receives 0 (returned), 1 (abort), 2 (assertion) */
#define SHIM_CALL(AB, STMT) do {                                   \
        jmp_buf shim_save_; int shim_was_armed_ = shim_armed;      \
        memcpy(shim_save_, shim_jb, sizeof shim_save_);            \
        shim_armed = 1; shim_aborted = 0; shim_in_lib++; shim_call_seq++; \
        if (setjmp(shim_jb) == 0) { STMT; }                        \
        shim_in_lib--; (AB) = shim_aborted; shim_aborted = 0; shim_call_seq++; \
        shim_armed = shim_was_armed_;                              \
        memcpy(shim_jb, shim_save_, sizeof shim_save_);            \
    } while (0)
#endif
