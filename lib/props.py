"""Property -> harness jobs.  Each job names a world source (under /verif), the library sources it links
(compiled from the current working tree of $VERIF_REPO) and the build flavours per tier."""

BOTH = {'quick': ['rel'], 'thorough': ['rel', 'dbg']}
RELDBG_ALWAYS = {'quick': ['rel', 'dbg'], 'thorough': ['rel', 'dbg']}

ASSUME_E1 = [
    'the canonical key serialises every field the implementation\'s future behaviour can depend on (argued per world in DESIGN.md); closure then covers histories of every length over the pool',
    'bounded scope: the element pool, value alphabet and number of container objects stated in the configuration',
    'gcc 12 -O2 -DNDEBUG (shipped flags) + AddressSanitizer; thorough tier also -O0 with the library asserts live',
]

PROPS = {
    'C12': {
        'level': 'model_checking',
        'jobs': [{'world': 'dlist', 'src': 'worlds/dlist_world.c', 'lib': ['dlist.c'], 'flavours': RELDBG_ALWAYS}],
        'rule': 'breadth-first search to closure over all operation sequences of the dlist API on 2-3 lists and a pool of 4-6 elements; '
                'every transition executes the real function and is compared with an array reference model; a state is non-trivial when some list is non-empty',
        'assumptions': ASSUME_E1,
    },
    'C13': {
        'level': 'model_checking',
        'jobs': [{'world': 'slist', 'src': 'worlds/slist_world.c', 'lib': ['slist.c'], 'flavours': RELDBG_ALWAYS}],
        'rule': 'breadth-first search to closure over all operation sequences of the slist API (push_back and pop_front applied in EVERY reachable state, '
                'including empty lists and right after the last element was erased/reversed/sorted/concatenated/swapped) on 2-3 lists and a pool of 4-6 elements; '
                'a state is non-trivial when some list is non-empty',
        'assumptions': ASSUME_E1,
    },
}
