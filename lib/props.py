"""Property -> harness jobs.  Each job names a world source (under /verif), the library sources it links
(compiled from the current working tree of $VERIF_REPO) and the build flavours per tier."""

BOTH = {'quick': ['rel'], 'thorough': ['rel', 'dbg']}
RELDBG_ALWAYS = {'quick': ['rel', 'dbg'], 'thorough': ['rel', 'dbg']}

ASSUME_E1 = [
    'the canonical key serialises every field the implementation\'s future behaviour can depend on (argued per world in DESIGN.md); closure then covers histories of every length over the pool',
    'bounded scope: the element pool, value alphabet and number of container objects stated in the configuration',
    'gcc 12 -O2 -DNDEBUG (shipped flags) + AddressSanitizer; thorough tier also -O0 with the library asserts live',
]

E1_NOTE = "Trusted: the harness's reference model and canonical key (DESIGN.md argues the key captures every field the future depends on), gcc 12 + AddressSanitizer, the bounded scope stated in the evidence (pool size, value alphabet, number of objects). Within that scope the search runs to closure, so histories of every length are covered."

NOT_APPLICABLE = {}

ENGINES = [
    {'name': 'confx', 'path': 'lib/c18_headers.py', 'serves_properties': ['C18', 'C20'], 'kind_free_text': 'complete enumeration of finite configuration / program families (header sets x TU layouts x library kinds; entry point x argument position x object state x copy kind) with a compile/link or exit-status oracle'},
    {'name': 'inputx', 'path': 'worlds/sort_world.c', 'serves_properties': ['C11', 'C17'], 'kind_free_text': 'complete enumeration of bounded input spaces (arrays, keys, table sizes, environment answers) against direct oracles'},
    {'name': 'faultx', 'path': 'worlds/fault_world.c', 'serves_properties': ['C16'], 'kind_free_text': 'exhaustive allocation-fault enumeration over scripted histories (ld --wrap on malloc/calloc/realloc/free), reference model per step, leak audit'},
    {'name': 'schedx', 'path': 'engine/sched.c', 'serves_properties': ['C06'], 'kind_free_text': 'controlled scheduler: ucontext coroutines, the -fsanitize=thread compiler ABI implemented by the harness so that every shared-memory access of the unmodified library is a scheduling point; stateless DFS over all interleavings with visited-state pruning'},
    {'name': 'seqx', 'path': 'engine/mc.h', 'serves_properties': ['C01', 'C02', 'C03', 'C04', 'C05', 'C07', 'C08', 'C12', 'C09', 'C10', 'C13', 'C14', 'C15', 'C19'], 'kind_free_text': 'explicit-state breadth-first closure search over the real library code; state = operation history replayed on fresh objects, deduplicated by a canonical serialisation of the real data structure; reference model + oracles on every transition'},
]

BIG_LIB = ['bintree.c', 'rbtree.c', 'map.c', 'dlist.c', 'slist.c', 'vector.c', 'string.c', 'array.c', 'memory.c', 'heap.c', 'common.c']
# the large enumerated cases: public API only, except in the builds for C02 (colours, links) and C19 (clean bits; hash.c unity-#included)
BIG_JOB = {'world': 'big', 'src': 'worlds/big_world.c', 'lib': BIG_LIB + ['hash.c'], 'unity': True, 'flavours': BOTH}
BIG_JOB_C02 = {'world': 'big', 'src': 'worlds/big_world.c', 'lib': BIG_LIB + ['hash.c'], 'unity': True, 'wflags': ['-DBIG_RB'], 'flavours': BOTH, 'private': True, 'nopriv_wflags': []}
BIG_JOB_C19 = {'world': 'big', 'src': 'worlds/big_world.c', 'lib': BIG_LIB, 'unity': True, 'wflags': ['-DBIG_HASHPRIV'], 'flavours': BOTH, 'private': True, 'nopriv_wflags': []}

PROPS = {
    'C12': {
        'level': 'model_checking',
        'claim': 'Exhaustive: every operation of the dlist API applied in every reachable state of 2-3 lists over a pool of 4-5 (thorough up to 8) elements (closure), each transition executed on the real code and compared with an array model in both traversal directions; also under ASan with erased elements poisoned. sort and foreach callbacks verify their private pointer, find is driven with a bare key and a (key, member) comparison function; odd configurations are built with CSTL_DLIST_INITIALIZER; plus lists of up to 4097 elements.',
        'note': E1_NOTE,
        'technique': 'explicit-state BFS to closure on the real code vs reference model (replay-based states)',
        'jobs': [{'world': 'dlist', 'src': 'worlds/dlist_world.c', 'lib': ['dlist.c'], 'flavours': RELDBG_ALWAYS}, BIG_JOB],
        'rule': 'breadth-first search to closure over all operation sequences of the dlist API on 2-3 lists and a pool of 4-6 elements; '
                'every transition executes the real function and is compared with an array reference model; a state is non-trivial when some list is non-empty',
        'assumptions': ASSUME_E1,
    },
    'C13': {
        'level': 'model_checking',
        'claim': 'Exhaustive: every slist operation (push_back and pop_front in every state, erase_after at every position relative to the tail) applied in every reachable state of 2-3 lists over 4-5 (thorough up to 8) elements, compared with an array model. The sort comparator and the visit function verify their private pointer; odd configurations are built with CSTL_SLIST_INITIALIZER; plus lists of up to 4097 elements.',
        'note': E1_NOTE,
        'technique': 'explicit-state BFS to closure on the real code vs reference model (replay-based states)',
        'jobs': [{'world': 'slist', 'src': 'worlds/slist_world.c', 'lib': ['slist.c'], 'flavours': RELDBG_ALWAYS}, BIG_JOB],
        'rule': 'breadth-first search to closure over all operation sequences of the slist API (push_back and pop_front applied in EVERY reachable state, '
                'including empty lists and right after the last element was erased/reversed/sorted/concatenated/swapped) on 2-3 lists and a pool of 4-6 elements; '
                'a state is non-trivial when some list is non-empty',
        'assumptions': ASSUME_E1,
    },
    'C01': {
        'level': 'model_checking',
        'claim': 'Exhaustive within scope: closure over all insert/hinted-insert/erase/clear/swap histories on bintree and rbtree for pools of 6-11 (thorough 8-13) elements with distinct, paired, all-equal and heavy key multisets and three comparators; every state audited through find and both traversals with early stops at every visit; every visit callback walks a third, constant tree (alternately completely and stopped early) whose own visits and result are judged. swap(T,T) followed by insert and erase is an operation of the alphabet. The second tree object is of another kind (own comparator, private pointer, node offset) and receives the content by swap, then takes an insert and an erase; odd configurations are built with the static initialiser macros; every comparator / visitor / clear callback verifies its private pointer. Plus an enumerated family of large histories (100-5000 elements, five insertion and erase orders).',
        'note': E1_NOTE,
        'technique': 'explicit-state BFS to closure on the real code vs set model',
        'jobs': [{'world': 'tree', 'src': 'worlds/tree_world.c', 'lib': ['bintree.c', 'rbtree.c'], 'wflags': ['-DTREE_PRIVATE=0'], 'flavours': RELDBG_ALWAYS}, BIG_JOB],
        'rule': 'breadth-first search to closure over insert / hinted insert (parent from find) / erase by probe key / erase by member / clear / swap on cstl_bintree and cstl_rbtree, '
                'pools with distinct, paired, all-equal and one-heavy key multisets, three comparators; every state audited with find for every key, forward and reverse traversal '
                'and an early stop at every visit index; a state is non-trivial when it holds at least 3 elements',
        'assumptions': ASSUME_E1,
    },
    'C02': {
        'level': 'model_checking',
        'claim': 'Exhaustive within scope: every red-black tree shape and colouring reachable with up to 11 (thorough 13) elements by any insert/erase order, red-black rules and the height bound evaluated in every state. Includes swap with a tree object of another element layout followed by insert/erase through the receiving object, swap of a tree with itself followed by insert/erase, and trees of up to 5000 nodes from an enumerated family of insertion/erase orders.',
        'note': E1_NOTE,
        'technique': 'explicit-state BFS to closure on the real code with a structural invariant in every state',
        'jobs': [{'world': 'tree', 'src': 'worlds/tree_world.c', 'lib': ['bintree.c', 'rbtree.c'], 'flavours': RELDBG_ALWAYS, 'private': True, 'nopriv_wflags': ['-DTREE_PRIVATE=0']}, BIG_JOB_C02],
        'rule': 'same closure search as C01 (cstl_rbtree configurations carry the oracle): in every reachable state root black, no red-red, equal black height, '
                'parent links, cstl_rbtree_height max <= 2*log2(n+1); non-trivial = at least 3 elements held',
        'assumptions': ASSUME_E1,
    },
    'C07': {
        'level': 'model_checking',
        'claim': 'Exhaustive within scope: every heap shape reachable by push/pop/clear/swap over pools of 7-8 (thorough 8-12) elements incl. ties and sign-only/reversed comparators; max-at-root, exact removal and level-order completeness in every state. The second heap object is of another kind (comparator, private pointer, node offset); swap-pair pushes and pops through the receiving object; CSTL_HEAP_INITIALIZER is compared field by field with cstl_heap_init and used on odd configurations; plus every heap size up to 2^16+3 (thorough 2^17+3) and cstl_fls against a reference.',
        'note': E1_NOTE,
        'technique': 'explicit-state BFS to closure on the real code vs multiset model',
        'jobs': [{'world': 'heap', 'src': 'worlds/heap_world.c', 'lib': ['heap.c', 'bintree.c', 'common.c'], 'flavours': RELDBG_ALWAYS, 'private': True},
                 {'world': 'heapsize', 'src': 'worlds/heapsize_world.c', 'lib': ['heap.c', 'bintree.c', 'common.c'], 'flavours': BOTH, 'private': True}],
        'rule': 'breadth-first search to closure over push / pop (also on the empty heap) / clear / swap for pools with distinct, paired, all-equal and heavy priorities and '
                'difference, sign-only and reversed comparators; in every state get must be a held maximum and level-order slots 1..size must be exactly the occupied ones; '
                'non-trivial = at least 3 elements held; in addition (world heapsize) an enumerated family of heap SIZES - every size 1..520 by fill/drain and every size up to 2^16+3 along one long fill with a pop and re-push at each size, five priority patterns, and cstl_fls against a reference - because the slot arithmetic depends on the size alone and a closure cannot reach sizes like 256 or 65536',
        'assumptions': ASSUME_E1,
    },
    'C08': {
        'level': 'model_checking',
        'claim': 'Exhaustive within scope: closure over insert/find/erase/erase_iterator/clear on 4-10 (thorough 5-12) key values incl. equal-comparing twin key objects, stored-pointer identity and live-allocation count after every operation. One configuration orders keys with a comparison function that looks both keys up in a second map and clears (and refills) a third map from inside the clear callback; one uses integers cast to pointers as keys (0 = NULL included) with a NULL value; plus maps of up to 5000 entries.',
        'note': E1_NOTE,
        'technique': 'explicit-state BFS to closure on the real code vs association-list model + allocation accounting',
        'jobs': [{'world': 'map', 'src': 'worlds/map_world.c', 'lib': ['map.c', 'rbtree.c', 'bintree.c'], 'flavours': RELDBG_ALWAYS}, BIG_JOB],
        'rule': 'breadth-first search to closure over insert (every key object x value token, with and without iterator), erase by key, find+erase_iterator, clear(callback), clear(NULL) '
                'on a key universe that contains second key objects comparing equal; reference model = association list of the stored pointers; the allocation layer counts the map\'s live nodes '
                'after every operation; non-trivial = at least 3 entries held',
        'assumptions': ASSUME_E1,
    },
    'C15': {
        'level': 'model_checking',
        'claim': 'Exhaustive within scope: clear applied in every reachable state of the six containers with a counting+poisoning callback; cleared object must equal a freshly initialised one field for field. The clear callback of the map also clears another map (with its own callback and private pointer) while being called. Plus clear on containers of 64 to 3000 elements, plain binary trees 64 to 3000 levels deep.',
        'note': E1_NOTE,
        'technique': 'explicit-state BFS to closure; clear transition with ASan-poisoning callback in every reachable state',
        'jobs': [{'world': 'tree', 'src': 'worlds/tree_world.c', 'lib': ['bintree.c', 'rbtree.c'], 'wflags': ['-DTREE_PRIVATE=0'], 'flavours': BOTH},
                 {'world': 'heap', 'src': 'worlds/heap_world.c', 'lib': ['heap.c', 'bintree.c', 'common.c'], 'flavours': BOTH, 'private': True},
                 {'world': 'dlist', 'src': 'worlds/dlist_world.c', 'lib': ['dlist.c'], 'flavours': BOTH},
                 {'world': 'slist', 'src': 'worlds/slist_world.c', 'lib': ['slist.c'], 'flavours': BOTH},
                 {'world': 'map', 'src': 'worlds/map_world.c', 'lib': ['map.c', 'rbtree.c', 'bintree.c'], 'flavours': BOTH},
                 BIG_JOB],
        'rule': 'the clear transition of the closure searches of C01/C02 (bintree, rbtree), C07 (heap), C12 (dlist), C13 (slist) and C08 (map) is applied in EVERY reachable container state with a '
                'callback that counts per element and poisons the element (AddressSanitizer manual poisoning = the element was freed); afterwards the container object must be '
                'field-for-field what its init function produces, so everything reachable from fresh is reachable from cleared; non-trivial = states with at least 3 elements',
        'assumptions': ASSUME_E1 + ['a later read of a handed-over element is detected through ASan manual poisoning of the whole element'],
    },
    'C03': {
        'level': 'model_checking',
        'claim': 'Exhaustive within scope: closure over insert / erase (members and non-members) / find (no visitor, rejecting visitor, visitor accepting the j-th offer) / resize (every count x function, also while pending, also 0) / rehash / shrink_to_fit / swap / foreach / clear over 3-5 (thorough 4-6) elements with colliding and repeated keys and bucket counts up to 8; every find result, offer sequence, size and erase effect compared with a set model in every reachable table state (most of them mid-rehash). Visit functions signal acceptance with values of both signs and verify their private pointer; the table-wide clean bit (which survives clear) is part of the state; odd configurations are built with CSTL_HASH_INITIALIZER; plus enumerated large tables (up to 16384 buckets) driven through complete rehashes.',
        'note': E1_NOTE,
        'technique': 'explicit-state BFS to closure on the real code vs set model; key = public struct (geometry, pending geometry, sweep index, relative dirty flags, chains)',
        'jobs': [{'world': 'hash', 'src': 'worlds/hash_world.c', 'lib': [], 'unity': True, 'flavours': BOTH, 'private': True, 'nopriv_wflags': ['-DHASH_NOPRIV=1']}, BIG_JOB],
        'rule': 'breadth-first search to closure; a state is non-trivial when an incremental rehash is pending in it',
        'assumptions': ASSUME_E1,
    },
    'C04': {
        'level': 'model_checking',
        'claim': 'Exhaustive within scope: in every reachable table state of the C03 search (all stages of grow and shrink rehashes) foreach_const (also with early stop at every visit) is evaluated, and foreach, foreach with a visitor that erases+poisons the visited element, clear(callback) and clear(NULL) are applied as transitions; after clear the object must serialise like a fresh one, so resize/insert/find after clear are part of the closure.',
        'note': E1_NOTE,
        'technique': 'explicit-state BFS to closure on the real code; enumeration entry points crossed with every reachable table state',
        'jobs': [{'world': 'hash', 'src': 'worlds/hash_world.c', 'lib': [], 'unity': True, 'flavours': BOTH, 'private': True, 'nopriv_wflags': ['-DHASH_NOPRIV=1']}, BIG_JOB],
        'rule': 'breadth-first search to closure; a state is non-trivial when an incremental rehash is pending in it',
        'assumptions': ASSUME_E1,
    },
    'C19': {
        'level': 'model_checking',
        'claim': 'Exhaustive within scope: on every transition of the C03 search the instrumented hash functions log (key, table size, function); load == size/n right after every resize request (also while pending, back to the previous geometry, repeated); single consultation with the requested geometry whenever no rehash is pending; while pending every keyed operation cleans between 1 and 3 dirty buckets (read from the public struct before/after), relocates nodes out of at most 3 buckets, and the dirty count strictly falls - by induction over the closure a rehash finishes within bucket-count keyed operations. The state key covers the sweep cursor and the requested count also when no rehash is pending (what completion and clear leave behind is state a later rehash may trust). On enumerated large tables (up to 16384 buckets) every lookup of a pending rehash must clean at most 3 buckets (at least 1 unless it completes the rehash).',
        'note': E1_NOTE + ' Calls to the built-in cstl_hash_mul cannot be logged (tables that never named a function are explored but not call-counted).',
        'technique': 'explicit-state BFS to closure on the real code with per-transition work accounting (hash-call log + dirty-bucket deltas)',
        'jobs': [{'world': 'hash', 'src': 'worlds/hash_world.c', 'lib': [], 'unity': True, 'flavours': BOTH, 'private': True, 'nopriv_wflags': ['-DHASH_NOPRIV=1']}, BIG_JOB_C19],
        'rule': 'breadth-first search to closure; a state is non-trivial when an incremental rehash is pending in it',
        'assumptions': ASSUME_E1,
    },
    'C09': {
        'level': 'model_checking',
        'claim': 'Exhaustive within scope: closure over resize / reserve / shrink_to_fit / clear / sort / reverse / swap on two vectors of different element sizes (one with constructor/destructor), size arguments from small values, size+-1, cap, cap+1 and the SIZE_MAX / SIZE_MAX/es / 1 GiB boundary family; after every operation the data pointer must be the start of a live allocation of at least (capacity+1)*es bytes (128-bit arithmetic), element bytes must survive, at() must abort exactly for i >= size, unsatisfiable reserve must change nothing and unsatisfiable resize must abort, constructor/destructor calls are matched slot by slot. The vector is observed through its public functions only; its raw bytes are part of the state; what the storage of the object held before the init function ran (0xA5 bytes, zeros, ones, words that look like small counts) rotates with the configuration. Plus vectors of 100 to 100000 elements and one of 2^31+5 one-byte elements whose destructor must meet every leaving element exactly once.',
        'note': E1_NOTE + ' "Cannot be satisfied" = (n+1)*es unrepresentable or above the 1 GiB line at which the allocation layer refuses deterministically.',
        'technique': 'explicit-state BFS to closure on the real code vs reference model + allocation-layer block accounting',
        'jobs': [{'world': 'vector', 'src': 'worlds/vector_world.c', 'lib': ['vector.c', 'array.c', 'memory.c'], 'flavours': RELDBG_ALWAYS}, BIG_JOB],
        'rule': 'breadth-first search to closure; quick: 6 element-size pairs, thorough: every element size 1..64; a state is non-trivial when elements are held and some vector has slack capacity',
        'assumptions': ASSUME_E1,
    },
    'C10': {
        'level': 'model_checking',
        'claim': 'Exhaustive within scope: closure over set_str / insert_ch / insert_str_n / insert / append* / erase / substr / resize / reserve / swap / clear on two string objects (narrow and wide builds) over characters {a,b,NUL} with reference length <= 4 (thorough 6), positions {0,1,size-1,size,size+1,SIZE_MAX-1,SIZE_MAX} and counts {0,1,2,size,SIZE_MAX,SIZE_MAX-1,SIZE_MAX-size,SIZE_MAX-size+1,SIZE_MAX/4,SIZE_MAX/4+1,SIZE_MAX-pos}; every state compared with a reference buffer through size/at/str, find_ch/find_str/find/compare compared with libc on the reference. One configuration replaces a by a character above 0x7f (0xE9 narrow, U+0161 wide).',
        'note': E1_NOTE + ' erase/substr at pos == size: both an abort and the empty result are accepted (documentation silent). Inserting a string into itself is outside the domain.',
        'technique': 'explicit-state BFS to closure on the real code vs reference string',
        'jobs': [{'world': 'string', 'src': 'worlds/string_world.c', 'lib': ['string.c', 'vector.c', 'array.c', 'memory.c'], 'flavours': RELDBG_ALWAYS},
                 {'world': 'wstring', 'src': 'worlds/string_world.c', 'wflags': ['-DWIDE'], 'lib': ['string.c', 'vector.c', 'array.c', 'memory.c'], 'flavours': RELDBG_ALWAYS}, BIG_JOB],
        'rule': 'breadth-first search to closure; a state is non-trivial when string A holds at least two characters',
        'assumptions': ASSUME_E1,
    },
    'C14': {
        'level': 'model_checking',
        'claim': 'Exhaustive within scope: closure over alloc (0..4 elements, unrepresentable and refused counts) / set (two external buffers, each of which may be described by the descriptors of several objects at once) / slice (into another object and in place, bounds from {0,1,2,len-1,len,len+1,nm,nm+1,nm-off,nm-off+1,SIZE_MAX-1,SIZE_MAX,SIZE_MAX-off+1}) / unslice / reset / release on three array objects; every state audited with at() at {0,len-1,len,SIZE_MAX} against base+(off+i)*sz inside the buffer, and with allocation accounting (the storage block of a buffer is live while a reference exists and dead as soon as the last one is gone; bookkeeping blocks the library may cache are not counted; no double/foreign free). release is driven with and without out-parameter; odd configurations are built with CSTL_ARRAY_INITIALIZER; plus 65535-70000 simultaneous views of one buffer.',
        'note': E1_NOTE + ' Open cases accepted either way: slice(0,0) of an object without buffer, and a range past the object\'s own length but inside the buffer.',
        'technique': 'explicit-state BFS to closure on the real code vs view/buffer reference model + allocation accounting',
        'jobs': [{'world': 'array', 'src': 'worlds/array_world.c', 'lib': ['array.c', 'memory.c'], 'flavours': RELDBG_ALWAYS}, BIG_JOB],
        'rule': 'breadth-first search to closure; a state is non-trivial when some object is a view with a non-zero offset',
        'assumptions': ASSUME_E1,
    },
    'C05': {
        'level': 'model_checking',
        'claim': 'Exhaustive within scope: closure over alloc (with clear callback, and of size 0) / share / swap / reset / weak_from / lock / weak_reset / weak_swap on 3 (thorough up to 5) shared and 2 (thorough up to 3) weak pointer objects, and alloc / release / swap (also of a pointer with itself, for shared, weak and unique pointers) / reset on 2 unique pointer objects; for every single operation the sequence of destruction events (clear callback, free of the managed block, free of the bookkeeping block) observed through the callback and the allocation layer must equal the reference model\'s prediction for that operation - which pins never-earlier and never-later; get(), unique() and the number of live blocks are compared in every state. One configuration uses a clear callback that resets every weak pointer referring to the allocation being cleared; odd configurations are built with the *_PTR_INITIALIZER macros; plus 65535, 65536, 65537 and 70000 simultaneous owners / weak references of one allocation, released in two orders.',
        'note': E1_NOTE + ' lock() resets its target first (as documented by the code), so locking into the last owner of the same allocation destroys it and yields an empty pointer.',
        'technique': 'explicit-state BFS to closure on the real code vs reference-count model with per-operation destruction-event oracle',
        'jobs': [{'world': 'ptr', 'src': 'worlds/ptr_world.c', 'lib': ['memory.c'], 'flavours': RELDBG_ALWAYS}, BIG_JOB],
        'rule': 'breadth-first search to closure; a state is non-trivial when some allocation has at least two references (or, for unique pointers, some pointer owns memory)',
        'assumptions': ASSUME_E1,
    },
    'C06': {
        'level': 'model_checking',
        'engine': 'schedx',
        'claim': 'Exhaustive over sequentially consistent interleavings: the unmodified src/memory.c (compiled with -fsanitize=thread as an instrumentation pass, TSan runtime NOT linked) runs under a hand-written scheduler in which every atomic operation and every plain load/store of the bookkeeping block, every malloc/free and every sched_yield is a scheduling point; for every 2-thread combination of programs of length <= 2 (thorough 3 x 2) over {reset, share, lock+get, weak_from, weak_reset, unique, alloc(own) = re-targeting the thread\'s owner to a private allocation; in the additional scenario families of the thorough tier the six other operations only} x 4 initial reference configurations, all 3-thread single-operation combinations, last-owner reset against two lockers, and 4-thread combinations, ALL interleavings are explored depth-first with visited-state pruning (state = arena bytes + the library\'s static storage + block table + scenario world + every thread\'s real continuation: saved registers and live coroutine stack). Oracles on every execution: exactly-once clear/free of memory and bookkeeping, never while an owner is held, lock soundness, no access into a freed block, no double free, no deadlock (a spinning thread is blocked until memory changes), a data race = two co-enabled conflicting accesses of which one is not atomic, plus a vector-clock happens-before race check that honours the memory orders actually used (so a weakened order is reported too).',
        'note': 'Sequentially consistent executions of the accesses the compiler kept (gcc 12 -O2 and -O0); weak-memory reorderings are not modelled (every atomic operation of memory.c is seq_cst today; the number of weaker ones executed by scheduled threads is counted in the evidence). At most 4 threads. The harness\'s own probes of the managed memory are liveness checks, not race participants.',
        'technique': 'stateless depth-first exploration of all thread interleavings of the real code under a controlled scheduler (TSan compiler ABI with own runtime), visited-state pruning on real continuations',
        'jobs': [{'world': 'c06', 'src': 'worlds/c06_world.c', 'lib': ['memory.c'], 'san': ['-g', '-fsanitize=thread'], 'wsan': ['-g'], 'extra_src': ['engine/sched.c'],
                  'link': ['-Wl,--wrap=malloc,--wrap=calloc,--wrap=realloc,--wrap=free,--wrap=abort,--wrap=sched_yield'], 'flavours': RELDBG_ALWAYS}],
        'rule': 'every scenario explored to exhaustion; states = distinct scheduler states (visited set), transitions = executed steps out of new states; a state is counted non-trivial always (every state is a multi-thread scheduling choice point)',
        'assumptions': ['sequential consistency (SC interleavings only)', 'at most 4 threads, programs of at most 3 operations', 'scheduling points at every instrumented access to library-allocated memory; accesses to a thread\'s own pointer objects are thread-private'],
        'deadline': {'quick': 420, 'thorough': 3000},
    },
    'C16': {
        'level': 'fault_enumeration',
        'engine': 'faultx',
        'claim': 'Exhaustive fault enumeration: for each of nine operation scripts (map, vector with constructor/destructor, string, wstring, hash incl. resize of a sized but still empty table and failed resize followed by later successful ones, strings incl. substr into a destination that holds something (with room: must not abort; too small: growth), unique/shared/weak pointers, array incl. re-targeting a sliced object, a vector of 300 elements and a string of 186 characters cut down to a fraction and regrown) every single allocation call failing, every suffix of allocation calls failing, every pair and every triple, and then EVERY subset of the first n+3 call ordinals (n = allocation calls of the fault-free run; all nine scripts have n <= 12, so 2^15 plans at most) is executed (call ordinals counted within each execution); after every step the container is compared with a reference model and must either show the normal result or - only when a fault was injected in that step - the documented failure with the previous content intact; the script then continues, everything is cleared and the allocation layer audits leaks, double frees and foreign frees; all under AddressSanitizer.',
        'note': 'Trusted: the scripts and their reference models; interposition of malloc/calloc/realloc with ld --wrap (every allocation the library makes goes through these). Fault sets of size <= 3 plus all suffixes; larger fault sets are not enumerated.',
        'technique': 'exhaustive enumeration of allocation-fault sets (deviation-bounded: 0,1,2,3 faults + all suffixes) over scripted histories on the real code, reference model per step',
        'jobs': [{'world': 'faultx', 'src': 'worlds/fault_world.c', 'lib': ['map.c', 'rbtree.c', 'bintree.c', 'vector.c', 'string.c', 'memory.c', 'array.c', 'common.c'], 'unity': True, 'flavours': RELDBG_ALWAYS}],
        'rule': 'one evaluation = one complete script run under one fault set; non-trivial = runs in which at least one allocation failure was actually injected (every enumerated fault set is distinct)',
        'assumptions': ['fault sets of size <= 3 and all suffixes', 'allocation failure is the only injected fault'],
    },
    'C11': {
        'level': 'exploration',
        'engine': 'inputx',
        'claim': 'Complete enumeration of a bounded input space: every array of length 0..7 (thorough 0..9) over a 4-letter key alphabet, each element carrying an identity tag, for element sizes {1,2,4,8} (fast paths) and {3,12,16,24} (memcpy path), selectors QUICK, QUICK_M, HEAP and the out-of-range values -1, 4, 2897234, through cstl_raw_array_sort on an exactly sized heap block (AddressSanitizer red zones on both sides and around the scratch element) and through __cstl_vector_sort with capacity == size and capacity > size; for the randomised quicksort every value every rand() call can return is enumerated depth-first for lengths <= 5 (thorough 6); linear find on every array, binary search on every sorted array for 9 probes (present, absent below/between/above) and with every element of the array itself as the probe, reverse through both entry points; the raw-array sorts also with a swap callback that ignores the (poisoned) scratch element and with a NULL scratch pointer while the allocator refuses every request; thorough adds 1000- and 4097-element sorted / reversed / constant / two-valued / organ-pipe / sawtooth inputs.',
        'note': 'Exhaustive within the stated bound, not a state-space search. Element counts above INT_MAX (the int indices of reverse/search) are not reachable by enumeration and are not claimed. A comparison-count watchdog turns non-termination into a violation.',
        'technique': 'exhaustive enumeration of all inputs up to a length bound x all algorithm selectors x all environment answers (rand), oracle = sorted permutation of the same tagged elements + ASan',
        'jobs': [{'world': 'sortx', 'src': 'worlds/sort_world.c', 'lib': ['array.c', 'vector.c', 'memory.c'], 'flavours': RELDBG_ALWAYS}],
        'rule': 'one evaluation = one (array, element size, selector, entry point[, pivot sequence]) sort or one (array, probe) search; non-trivial = arrays with at least two elements; all enumerated cases are distinct',
        'assumptions': ['length <= 7 (quick) / 9 (thorough), 4 key values', 'gcc 12, shipped flags + ASan and -O0 + ASan'],
    },
    'C17': {
        'level': 'exploration',
        'engine': 'inputx',
        'claim': 'Complete enumeration: (a) cstl_hash_mul / cstl_hash_div are called for every key below 2^28 (thorough 2^32) and for one key per single-precision value in [2^24, 2^64] with its neighbours, against table sizes {16, 1000003, SIZE_MAX} (+ 24 boundary sizes on a stride, among them 2^16, 2^31, 2^32-1, 2^32, 2^32+1, 2^33, 3*2^32, 2^63), for every single-precision value of the table size in [1, 2^64] (quick: every value up to 2^27, every 64th above) with the smallest m that rounds to it against the keys whose fraction is largest / smallest (found by this run among all keys below 2^24), and on the full product k < 2^20 x m <= 64 (thorough k < 2^23 x m <= 1024); every result must be below m. (b) a caller-supplied hash function returns m, m+1, SIZE_MAX, 2^32, or 2^8 / 2^16 / 2^32 / 2^63 plus the in-range index (out of range, but right in the low bits) at its j-th call, for every j that insert / find(present) / find(absent) / erase(member) / erase(non-member) / rehash / foreach / resize / shrink_to_fit make in a settled, a grow-pending and a shrink-pending table: the operation must end in abort() with no further hash call, and any access outside the bucket array is an AddressSanitizer report. A built-in hash that traps (SIGFPE, wild access) publishes the evaluation in flight, which the driver replays and reports. (c) every life-cycle of a table that only uses built-in hashes (NULL default, cstl_hash_mul, cstl_hash_div), to depth 5 over {resize to 8/16/5, insert, find, erase, rehash, foreach, shrink_to_fit, clear} with keys up to SIZE_MAX: no operation may abort.',
        'note': 'The reduction to one key per single-precision value above 2^32 is valid while the implementation reads the key through a float; keys below 2^28 / 2^32 are enumerated one by one without any reduction. Built with the shipped flags (float evaluation method is part of the question) + ASan, and -O0 + ASan.',
        'technique': 'exhaustive enumeration of keys and table sizes on the single-precision grid + fault enumeration over hash-call ordinals per entry point and table state',
        'jobs': [{'world': 'hashrange', 'src': 'worlds/hashrange_world.c', 'lib': [], 'unity': True, 'flavours': {'quick': ['rel'], 'thorough': ['rel', 'dbg']}}],
        'rule': 'one evaluation = one call of a built-in hash function checked against m, or one (table state, entry point, call ordinal, bad value) case; non-trivial = distinct keys / table sizes enumerated and bad-hash cases in which the bad value was actually returned',
        'assumptions': ['x86-64 SSE single-precision arithmetic (FLT_EVAL_METHOD 0), gcc 12'],
        'deadline': {'quick': 300, 'thorough': 3000},
    },
    'C18': {
        'level': 'exploration',
        'engine': 'confx',
        'claim': 'Complete enumeration of the configuration family: the library is built by the project\'s own Makefile from a scratch copy of the current tree; every public header alone, every ordered pair and all twelve together in two orders (146 header sets), each as a one-translation-unit and a two-translation-unit C99 program whose every TU uses a type, an inline function and an external function of every included header, compiled with the project\'s warning flags and once more as a strictly conforming C99 translation unit (-std=c99 -pedantic-errors), and linked against libcstl.a and against libcstl.so as a client sees them: both libraries and the public headers staged into an install directory, the build tree with its object files removed (584 programs, each also run); plus a client generated from gcc -aux-info that takes the address of every function the headers declare, linked against both library kinds.',
        'note': 'Oracle = exit status of compiler, linker and program (multiple definition, undefined reference, incomplete type, ...). Triples of headers are not enumerated (pairs + all-together cover ordering and guard interactions pairwise). The usage snippets per header are part of the harness; a new public header without a snippet is reported in the evidence.',
        'technique': 'exhaustive enumeration of header sets x translation-unit layouts x library kinds with a compile/link/run oracle',
        'jobs': [{'world': 'c18', 'script': 'lib/c18_headers.py', 'flavours': {'quick': ['rel'], 'thorough': ['rel']}}],
        'rule': 'one evaluation = one client program built and run; all enumerated programs are distinct; non-trivial = all of them (plus the number of declared functions in the address-of-everything clients)',
        'assumptions': ['gcc 12 and GNU ld as the client toolchain', 'the project Makefile\'s build target defines what "the built library" is'],
    },
    'C20': {
        'deadline': {'quick': 420, 'thorough': 3000},
        'level': 'exploration',
        'engine': 'confx',
        'claim': 'Complete enumeration of a finite program family: 42 (entry point, argument position) pairs - every function of memory.h and array.h that reads, transfers or releases a guarded / unique / shared / weak pointer or an array object - x every object state (NULL / non-NULL; empty / owning / co-owned; empty / weak to live / weak to dead; empty / whole / slice) x copy kind (struct assignment, memcpy, relocation with the original storage scrubbed) x, for two-object calls, every state of the OTHER argument (empty; owning / weak to live memory / whole array; co-owned / weak to dead memory / slice; or the original the copy was made from): the call on the stray copy must end in abort() (not return, not an assertion, not a sanitizer report), and the same call on the original object must still work. The table is cross-checked against the declarations gcc -aux-info finds in the two headers; declared entry points missing from the table are reported in the evidence. The converse (properly moved objects never abort) is decided by the same check: every initialising call (the *_init functions, guarded set, guarded copy as destination) on zero-filled, 0xA5-filled, 0xFF-filled storage and on the bytes of a live object, followed by ordinary use, must not abort; the C05 and C14 closure searches (ptr and array worlds) run with their no-unexpected-abort oracle attributed to C20, every interleaving of the C06 scheduler scenarios runs with abort() inside the library as the only oracle, and 65535 to 70000 simultaneous owners / weak references / array views of one allocation are created and released with the library functions only.',
        'note': 'Documented non-aborting calls are excluded: *_init, cstl_guarded_ptr_set and the destination of cstl_guarded_ptr_copy only write the guard (re-stamping it), cstl_array_size never touches the pointer.',
        'technique': 'exhaustive enumeration of entry point x argument position x object state x copy kind with an abort/return oracle under ASan; explicit-state closure search and exhaustive interleaving exploration of properly moved pointers with a no-abort oracle',
        'jobs': [{'world': 'stray', 'src': 'worlds/stray_world.c', 'gen': 'lib/gen_decls.py', 'lib': ['memory.c', 'array.c'], 'flavours': RELDBG_ALWAYS}, {'world': 'ptr', 'src': 'worlds/ptr_world.c', 'lib': ['memory.c'], 'flavours': RELDBG_ALWAYS}, {'world': 'array', 'src': 'worlds/array_world.c', 'lib': ['array.c', 'memory.c'], 'flavours': RELDBG_ALWAYS}, {'world': 'c06', 'src': 'worlds/c06_world.c', 'lib': ['memory.c'], 'san': ['-g', '-fsanitize=thread'], 'wsan': ['-g'], 'extra_src': ['engine/sched.c'], 'link': ['-Wl,--wrap=malloc,--wrap=calloc,--wrap=realloc,--wrap=free,--wrap=abort,--wrap=sched_yield'], 'flavours': RELDBG_ALWAYS}, BIG_JOB],
        'rule': 'stray world: one evaluation = one call on a stray copy or on the original, non-trivial = calls on stray copies, all points distinct; ptr/array worlds: breadth-first closure as for C05/C14; c06 world: every interleaving of every scenario as for C06; big world: listed large cases',
        'assumptions': ['abort() is observed through ld --wrap=abort (longjmp back into the harness)'],
    },
}
