"""Property -> harness jobs.  Each job names a world source (under /verif), the library sources it links
(compiled from the current working tree of $VERIF_REPO) and the build flavours per tier."""

BOTH = {'quick': ['rel'], 'thorough': ['rel', 'dbg']}
RELDBG_ALWAYS = {'quick': ['rel', 'dbg'], 'thorough': ['rel', 'dbg']}

ASSUME_E1 = [
    'the canonical key serialises every field the implementation\'s future behaviour can depend on (argued per world in DESIGN.md); closure then covers histories of every length over the pool',
    'bounded scope: the element pool, value alphabet and number of container objects stated in the configuration',
    'gcc 12 -O2 -DNDEBUG (shipped flags) + AddressSanitizer; thorough tier also -O0 with the library asserts live',
]

PROPS = {
    'C12': {
        'level': 'model_checking',
        'jobs': [{'world': 'dlist', 'src': 'worlds/dlist_world.c', 'lib': ['dlist.c'], 'flavours': RELDBG_ALWAYS}],
        'rule': 'breadth-first search to closure over all operation sequences of the dlist API on 2-3 lists and a pool of 4-6 elements; '
                'every transition executes the real function and is compared with an array reference model; a state is non-trivial when some list is non-empty',
        'assumptions': ASSUME_E1,
    },
    'C13': {
        'level': 'model_checking',
        'jobs': [{'world': 'slist', 'src': 'worlds/slist_world.c', 'lib': ['slist.c'], 'flavours': RELDBG_ALWAYS}],
        'rule': 'breadth-first search to closure over all operation sequences of the slist API (push_back and pop_front applied in EVERY reachable state, '
                'including empty lists and right after the last element was erased/reversed/sorted/concatenated/swapped) on 2-3 lists and a pool of 4-6 elements; '
                'a state is non-trivial when some list is non-empty',
        'assumptions': ASSUME_E1,
    },
    'C01': {
        'level': 'model_checking',
        'jobs': [{'world': 'tree', 'src': 'worlds/tree_world.c', 'lib': ['bintree.c', 'rbtree.c'], 'flavours': RELDBG_ALWAYS}],
        'rule': 'breadth-first search to closure over insert / hinted insert (parent from find) / erase by probe key / erase by member / clear / swap on cstl_bintree and cstl_rbtree, '
                'pools with distinct, paired, all-equal and one-heavy key multisets, three comparators; every state audited with find for every key, forward and reverse traversal '
                'and an early stop at every visit index; a state is non-trivial when it holds at least 3 elements',
        'assumptions': ASSUME_E1,
    },
    'C02': {
        'level': 'model_checking',
        'jobs': [{'world': 'tree', 'src': 'worlds/tree_world.c', 'lib': ['bintree.c', 'rbtree.c'], 'flavours': RELDBG_ALWAYS}],
        'rule': 'same closure search as C01 (cstl_rbtree configurations carry the oracle): in every reachable state root black, no red-red, equal black height, '
                'parent links, cstl_rbtree_height max <= 2*log2(n+1); non-trivial = at least 3 elements held',
        'assumptions': ASSUME_E1,
    },
}
