#!/usr/bin/env python3
"""gen_decls.py <repo> <outdir>: write <outdir>/decls.h listing every function that memory.h / array.h declare (external or static inline) and whose
parameter list mentions a guarded/unique/shared/weak pointer or an array object -- taken from gcc -aux-info, so that the C20 table can be cross-checked."""
import os, re, subprocess, sys
repo, out = sys.argv[1], sys.argv[2]
os.makedirs(out, exist_ok=True)
c = os.path.join(out, 'decls_probe.c')
open(c, 'w').write('#include "cstl/memory.h"\n#include "cstl/array.h"\n')
aux = os.path.join(out, 'decls_probe.aux')
r = subprocess.run(['gcc', '-std=c99', '-D_POSIX_C_SOURCE=199309L', '-I' + os.path.join(repo, 'include'), '-aux-info', aux, '-c', c, '-o', os.path.join(out, 'decls_probe.o')],
                   stdout=subprocess.PIPE, stderr=subprocess.STDOUT, text=True)
names = []
if r.returncode == 0:
    for l in open(aux):
        m = re.match(r'/\* (\S+?):(\d+):(\w+) \*/ (.*)', l)
        if not m or '/include/cstl/' not in m.group(1):
            continue
        decl = m.group(4)
        if not re.search(r'cstl_guarded_ptr|cstl_unique_ptr_t|cstl_shared_ptr_t|cstl_weak_ptr_t|cstl_array_t', decl.split('(', 1)[1] if '(' in decl else ''):
            continue
        nm = re.search(r'([A-Za-z_][A-Za-z0-9_]*)\s*\(', decl)
        if nm and nm.group(1) not in names:
            names.append(nm.group(1))
open(os.path.join(out, 'decls.h'), 'w').write('static const char *declared_fns[] = {\n' + ''.join('    "%s",\n' % n for n in names) + '    NULL\n};\n')
