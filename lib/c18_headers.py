#!/usr/bin/env python3
"""E5 confx for C18: every public header alone, every ordered pair, all together (two orders), each as a 1-TU and a 2-TU C99 program that
USES something from every included header, linked against libcstl.a and libcstl.so built by the project's own Makefile from the current
working tree; plus a generated client that takes the address of every function the headers declare (from gcc -aux-info).
Same command-line contract as the C harnesses (--prop/--config/--nconfigs/--thorough/--replay/--progress/--deadline), JSON on stdout."""
import glob, json, os, re, shutil, subprocess, sys, tempfile, time

REPO = os.environ.get('VERIF_REPO', '/repo')
NSHARDS = 8
STRICT = ['-std=c99', '-pedantic-errors', '-D_POSIX_C_SOURCE=199309L']
CFLAGS = ['-Wall', '-Wextra', '-Werror=vla', '-Werror=declaration-after-statement', '-std=c99', '-pedantic', '-D_POSIX_C_SOURCE=199309L']

# one snippet per public header: it must not compile unless that header's declarations are really visible
USE = {
    'common.h': 'int a = 1, b = 2, t; cstl_swap(&a, &b, &t, sizeof(t)); (void)cstl_fls(8ul); { cstl_sort_algorithm_t s = CSTL_SORT_ALGORITHM_DEFAULT; (void)s; }',
    'bintree.h': 'struct cstl_bintree bt; cstl_bintree_init(&bt, (cstl_compare_func_t *)0, (void *)0, 0); (void)cstl_bintree_size(&bt); (void)&cstl_bintree_insert;',
    'rbtree.h': 'struct cstl_rbtree rt; cstl_rbtree_init(&rt, (cstl_compare_func_t *)0, (void *)0, 0); (void)cstl_rbtree_size(&rt); (void)&cstl_rbtree_insert;',
    'heap.h': 'struct cstl_heap hp; cstl_heap_init(&hp, (cstl_compare_func_t *)0, (void *)0, 0); (void)cstl_heap_size(&hp); (void)&cstl_heap_push;',
    'map.h': 'cstl_map_t mp; cstl_map_iterator_t it; cstl_map_init(&mp, (cstl_compare_func_t *)0, (void *)0); (void)cstl_map_size(&mp); cstl_map_find(&mp, &mp, &it); (void)cstl_map_iterator_eq(&it, cstl_map_iterator_end(&mp));',
    'dlist.h': 'struct cstl_dlist dl; cstl_dlist_init(&dl, 0); (void)cstl_dlist_size(&dl); (void)cstl_dlist_front(&dl);',
    'slist.h': 'struct cstl_slist sl; cstl_slist_init(&sl, 0); (void)cstl_slist_size(&sl); (void)cstl_slist_front(&sl);',
    'hash.h': 'struct cstl_hash hs; cstl_hash_init(&hs, 0); (void)cstl_hash_size(&hs); cstl_hash_resize(&hs, 4, cstl_hash_div); (void)cstl_hash_load(&hs); cstl_hash_clear(&hs, (cstl_xtor_func_t *)0);',
    'memory.h': 'cstl_shared_ptr_t sp; cstl_unique_ptr_t up; cstl_shared_ptr_init(&sp); cstl_unique_ptr_init(&up); cstl_shared_ptr_alloc(&sp, 8, (cstl_xtor_func_t *)0); (void)cstl_shared_ptr_get(&sp); cstl_shared_ptr_reset(&sp); (void)cstl_unique_ptr_get(&up);',
    'array.h': 'cstl_array_t ar; cstl_array_init(&ar); cstl_array_alloc(&ar, 4, 4); (void)cstl_array_size(&ar); (void)cstl_array_at(&ar, 0); cstl_array_reset(&ar);',
    'vector.h': 'struct cstl_vector vc; cstl_vector_init(&vc, sizeof(int)); cstl_vector_resize(&vc, 3); cstl_vector_sort(&vc, use_cmp, (void *)0); cstl_vector_reverse(&vc); (void)cstl_vector_size(&vc); cstl_vector_clear(&vc);',
    'string.h': 'cstl_string_t st; cstl_wstring_t ws; cstl_string_init(&st); cstl_wstring_init(&ws); cstl_string_set_str(&st, "ab"); (void)cstl_string_size(&st); (void)cstl_string_str(&st); (void)cstl_wstring_str(&ws); cstl_string_clear(&st); (void)cstl_string_nul;',
}


SCRATCH = [None]


def run(cmd, cwd=None):
    r = subprocess.run(cmd, cwd=cwd, stdout=subprocess.PIPE, stderr=subprocess.STDOUT, text=True, errors='replace')
    if SCRATCH[0]:
        r.stdout = r.stdout.replace(SCRATCH[0], '<scratch>')       # diagnostics must not depend on the name of the scratch directory
    r.stdout = re.sub(r'/tmp/cc[A-Za-z0-9_]+\.(o|s|c|ltrans\d*\.o|res)', '<tmp>', r.stdout)      # ... nor on the compiler driver's temporary file names
    return r


def headers(root):
    hs = sorted(os.path.basename(p) for p in glob.glob(os.path.join(root, 'include', 'cstl', '*.h')))
    return [h for h in hs if not h.startswith('_')]        # the guard-less template that string.h instantiates is not a public entry point


def tu_source(hset, fname, with_main, other=None):
    s = ''.join('#include "cstl/%s"\n' % h for h in hset)
    s += 'static int use_cmp(const void *a, const void *b, void *p) { (void)p; return *(const int *)a - *(const int *)b; }\n'
    s += 'int %s(void)\n{\n    (void)use_cmp;\n' % fname
    for h in hset:
        snippet = USE.get(h)
        if snippet is None:
            s += '    /* header %s: no usage snippet known to the harness */\n' % h
        else:
            s += '    { %s }\n' % snippet
    s += '    return 0;\n}\n'
    if with_main:
        if other:
            s += 'int %s(void);\n' % other
        s += 'int main(void) { return %s()%s; }\n' % (fname, (' + %s()' % other) if other else '')
    return s


def stage(src):
    return os.path.join(os.path.dirname(src), 'stage')


def build_library(work):
    src = os.path.join(work, 'tree')
    shutil.copytree(REPO, src, ignore=shutil.ignore_patterns('.git', '*.o', '*.d', '*.a', '*.so', '*.gcno', '*.gcda', 'check', 'run', '_seed'))
    for d in ('build', 'build/test', 'build/benches'):
        os.makedirs(os.path.join(src, d), exist_ok=True)
    r = run(['make', '-C', src, 'build'])
    ok = r.returncode == 0 and os.path.exists(os.path.join(src, 'build', 'libcstl.a')) and os.path.exists(os.path.join(src, 'build', 'libcstl.so'))
    if ok:
        # a client uses the INSTALLED product: the two libraries and the public headers staged elsewhere, the build by-products gone
        st = stage(src)
        os.makedirs(os.path.join(st, 'lib'))
        shutil.copy(os.path.join(src, 'build', 'libcstl.a'), os.path.join(st, 'lib'))
        shutil.copy(os.path.join(src, 'build', 'libcstl.so'), os.path.join(st, 'lib'))
        shutil.copytree(os.path.join(src, 'include'), os.path.join(st, 'include'))
        shutil.rmtree(os.path.join(src, 'build'))
    return src, ok, r.stdout[-3000:]


def one_case(src, work, hset, ntu, kind, tag):
    """returns (ok, diagnostics)"""
    d = os.path.join(work, tag)
    os.makedirs(d, exist_ok=True)
    inc = ['-I' + os.path.join(stage(src), 'include')]
    objs, log = [], ''
    tus = [('tu1', True, 'tu2' if ntu == 2 else None)] + ([('tu2', False, None)] if ntu == 2 else [])
    for name, wm, other in tus:
        c = os.path.join(d, name + '.c')
        open(c, 'w').write(tu_source(hset, name, wm, other))
        o = os.path.join(d, name + '.o')
        r = run(['gcc'] + CFLAGS + inc + ['-c', c, '-o', o])
        # warnings are not errors; only a failing compile counts
        if r.returncode != 0:
            return False, 'compile of %s failed:\n%s' % (name, r.stdout[-1500:])
        # the same translation unit as a strictly conforming C99 program: constraint violations the headers commit are errors there
        r = run(['gcc'] + STRICT + inc + ['-fsyntax-only', c])
        if r.returncode != 0:
            return False, 'compile of %s as strictly conforming C99 (-std=c99 -pedantic-errors) failed:\n%s' % (name, r.stdout[-1500:])
        objs.append(o)
    exe = os.path.join(d, 'prog')
    if kind == 'a':
        cmd = ['gcc', '-o', exe] + objs + [os.path.join(stage(src), 'lib', 'libcstl.a'), '-lm']
    else:
        cmd = ['gcc', '-o', exe] + objs + ['-L' + os.path.join(stage(src), 'lib'), '-lcstl', '-lm', '-Wl,-rpath,' + os.path.join(stage(src), 'lib')]
    r = run(cmd)
    if r.returncode != 0:
        return False, 'link against libcstl.%s failed:\n%s' % ('a' if kind == 'a' else 'so', r.stdout[-1500:])
    r = run([exe])
    if r.returncode != 0:
        return False, 'the linked program exited with status %d:\n%s' % (r.returncode, r.stdout[-500:])
    return True, log


def declared_functions(src, work):
    """every function the public headers declare with external linkage, from gcc -aux-info"""
    hs = headers(src)
    c = os.path.join(work, 'all.c')
    open(c, 'w').write(''.join('#include "cstl/%s"\n' % h for h in hs))
    aux = os.path.join(work, 'all.aux')
    r = run(['gcc'] + CFLAGS + ['-I' + os.path.join(stage(src), 'include'), '-aux-info', aux, '-c', c, '-o', os.path.join(work, 'all.o')])
    if r.returncode != 0:
        return None, r.stdout[-2000:]
    names = []
    for l in open(aux):
        m = re.match(r'/\* (\S+?):(\d+):(\w+) \*/ (.*)', l)
        if not m or '/include/cstl/' not in m.group(1):
            continue
        decl = m.group(4)
        if decl.startswith('static') or 'extern' not in decl.split('(')[0]:
            continue
        nm = re.search(r'([A-Za-z_][A-Za-z0-9_]*)\s*\(', decl)
        if nm and nm.group(1) not in names:
            names.append(nm.group(1))
    return names, ''


def address_client(src, work, kind):
    names, err = declared_functions(src, work)
    if names is None:
        return False, 'the headers do not compile together: ' + err, 0
    hs = headers(src)
    c = os.path.join(work, 'addr.c')
    body = ''.join('#include "cstl/%s"\n' % h for h in hs)
    body += 'typedef void (*fp_t)(void);\nstatic fp_t const table[] = {\n' + ''.join('    (fp_t)&%s,\n' % n for n in names) + '};\n'
    body += 'int main(void) { unsigned i, n = 0; for (i = 0; i < sizeof(table) / sizeof(table[0]); i++) n += table[i] != 0; return n == sizeof(table) / sizeof(table[0]) ? 0 : 1; }\n'
    open(c, 'w').write(body)
    exe = os.path.join(work, 'addr_' + kind)
    base = ['gcc'] + CFLAGS + ['-I' + os.path.join(stage(src), 'include'), c, '-o', exe]
    cmd = base + ([os.path.join(stage(src), 'lib', 'libcstl.a'), '-lm'] if kind == 'a' else ['-L' + os.path.join(stage(src), 'lib'), '-lcstl', '-lm', '-Wl,-rpath,' + os.path.join(stage(src), 'lib')])
    r = run(cmd)
    if r.returncode != 0:
        return False, 'a function declared by the public headers is not provided by libcstl.%s:\n%s' % ('a' if kind == 'a' else 'so', r.stdout[-2000:]), len(names)
    r = run([exe])
    return r.returncode == 0, 'address-of-everything client exited %d' % r.returncode, len(names)


def all_sets(hs):
    sets = [[h] for h in hs] + [[a, b] for a in hs for b in hs if a != b] + [list(hs), list(reversed(hs))]
    return sets


def main():
    a = sys.argv[1:]
    cfg, thorough, replay, progress = 0, False, None, None
    i = 0
    while i < len(a):
        if a[i] == '--prop': i += 2
        elif a[i] == '--config': cfg = int(a[i + 1]); i += 2
        elif a[i] == '--thorough': thorough = True; i += 1
        elif a[i] == '--replay': replay = a[i + 1]; i += 2
        elif a[i] == '--progress': progress = a[i + 1]; i += 2
        elif a[i] == '--deadline': i += 2
        elif a[i] == '--nconfigs': print(NSHARDS + 1); return 0
        else: print('bad arg', a[i], file=sys.stderr); return 2
    t0 = time.time()
    work = tempfile.mkdtemp(prefix='c18_')
    SCRATCH[0] = work
    try:
        src, ok, out = build_library(work)
        viol, evals, nontriv, samples = [], 0, 0, []
        if not ok:
            print(json.dumps({'world': 'c18', 'config': cfg, 'config_desc': 'library build', 'evaluations': 1, 'nontrivial_states': 1, 'exhaustive': False, 'closure': False, 'wall_s': time.time() - t0,
                              'counters': {}, 'samples': [], 'violations': [{'replay': 'build', 'ops': 'make build', 'message': 'the project Makefile does not build libcstl.a and libcstl.so from the current tree: ' + out[-800:]}]}))
            return 1
        hs = headers(src)
        sets = all_sets(hs)
        if replay:
            if replay == 'build':
                print('library builds'); return 0
            if replay.startswith('addr:'):
                ok, msg, n = address_client(src, work, replay[5:]); print(msg); return 0 if ok else 1
            hl, ntu, kind = replay.split(':')
            ok, msg = one_case(src, work, hl.split(','), int(ntu), kind, 'replay')
            print(('ok' if ok else 'VIOLATED') + ': headers [%s] in %s translation unit(s) against libcstl.%s\n%s' % (hl, ntu, 'a' if kind == 'a' else 'so', msg))
            return 0 if ok else 1
        if cfg == NSHARDS:
            for kind in ('a', 'so'):
                ok, msg, n = address_client(src, work, kind)
                evals += 1; nontriv += n
                samples.append('address of all %d declared functions, linked against libcstl.%s' % (n, kind))
                if not ok:
                    viol.append({'replay': 'addr:' + kind, 'ops': 'client taking the address of every declared function, libcstl.' + kind, 'message': msg})
            missing = [h for h in hs if h not in USE]
            if missing:
                samples.append('NOTE: public headers without a usage snippet in the harness: ' + ' '.join(missing))
        else:
            for k, hset in enumerate(sets):
                if k % NSHARDS != cfg:
                    continue
                for ntu in (1, 2):
                    for kind in ('a', 'so'):
                        ok, msg = one_case(src, work, hset, ntu, kind, 's%d_%d_%s' % (k, ntu, kind))
                        evals += 1; nontriv += 1
                        if len(samples) < 2 and len(hset) == 2:
                            samples.append('#include %s in %d translation unit(s), each using both APIs, linked against libcstl.%s' % (' then '.join(hset), ntu, kind))
                        if not ok and len(viol) < 2:
                            viol.append({'replay': '%s:%d:%s' % (','.join(hset), ntu, kind), 'ops': 'headers [%s] in %d TU(s) against libcstl.%s' % (' '.join(hset), ntu, kind), 'message': msg})
        print(json.dumps({'world': 'c18', 'config': cfg, 'config_desc': 'shard %d of %d over %d header sets (%d public headers: each alone, every ordered pair, all in two orders) x {1,2} TUs x {libcstl.a, libcstl.so}' % (cfg, NSHARDS, len(sets), len(hs)) if cfg < NSHARDS else 'address-of-every-declared-function client against libcstl.a and libcstl.so',
                          'evaluations': evals, 'nontrivial_states': nontriv, 'exhaustive': not viol, 'closure': not viol, 'wall_s': round(time.time() - t0, 2),
                          'counters': {'public_headers': len(hs), 'header_sets': len(sets)}, 'samples': samples, 'violations': viol}))
        return 1 if viol else 0
    finally:
        shutil.rmtree(work, ignore_errors=True)


if __name__ == '__main__':
    sys.exit(main())
