#!/usr/bin/env python3
"""print the quick-tier coverage numbers of every evidence file (for the table in DESIGN.md section 4)"""
import json, glob, os
for f in sorted(glob.glob('/verif/evidence/C??.json')):
    e = json.load(open(f)); c = e.get('coverage', {})
    print(os.path.basename(f)[:3], 'configs=%s' % len(c.get('configurations', [])), 'states=%s' % c.get('states'), 'transitions=%s' % c.get('transitions'), 'evaluations=%s' % c.get('evaluations'), 'exhaustive=%s' % c.get('exhaustive'), 'wall=%s' % e.get('wall_s', e.get('duration_s')))
