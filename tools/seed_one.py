#!/usr/bin/env python3
"""seed_one.py <seed dir (with patch.diff, demo.*, meta.json)> <name> [check ids...]
Confirms a seeded property-breaking change in a scratch worktree of /repo (never in /repo itself):
  1. demo builds and passes on the clean tree,  2. patch applies, `make test` stays 52/52,  3. demo fails with the patch,
  4. runs the given checks (default: the seed's property) against the patched tree and records the verdicts.
Writes /verif/seeded/<name>/{patch.diff,demo.*,meta.json}."""
import json, os, re, shutil, subprocess, sys, tempfile

seed, name = os.path.abspath(sys.argv[1]), sys.argv[2]
meta = json.load(open(os.path.join(seed, 'meta.json')))
prop = meta.get('property', name.split('-')[0])
checks = sys.argv[3:] or [prop]
tier = os.environ.get('SEED_TIER', 'quick')
sub = os.path.basename(seed)                    # 'a' or 'b'


def sh(cmd, cwd, timeout=600):
    try:
        r = subprocess.run(cmd, shell=True, cwd=cwd, stdout=subprocess.PIPE, stderr=subprocess.STDOUT, text=True, errors='replace', timeout=timeout)
        return r.returncode, r.stdout
    except subprocess.TimeoutExpired as e:
        return 124, 'timeout'


wt = tempfile.mkdtemp(prefix='seedchk_')
os.rmdir(wt)
res = {'property': prop, 'seed': name, 'summary': meta.get('summary', ''), 'needs': meta.get('needs', ''), 'author': 'independent sub-agent given only the property text',
       'agent_build_cmd': meta.get('build_cmd', ''), 'agent_run_cmd': meta.get('run_cmd', '')}
try:
    subprocess.check_call(['git', '-C', '/repo', 'worktree', 'add', '-q', '--detach', wt, 'HEAD'])
    os.makedirs(os.path.join(wt, '_seed'))
    shutil.copytree(seed, os.path.join(wt, '_seed', sub))
    # the agents sometimes append a parenthesised remark to the command: keep the command only
    build = re.split(r'\s{2,}\(', meta.get('build_cmd', '').strip())[0].strip()
    runc = re.split(r'\s{2,}\(', meta.get('run_cmd', '').strip())[0].strip()
    runnable_build = bool(re.match(r'^(gcc|cc|clang|make|sh|bash)\b', build))

    def demo(label):
        out = {}
        sh('make build >/dev/null 2>&1', wt)
        if runnable_build:
            rc, o = sh(build, wt)
            out['build_rc'] = rc
            if rc != 0:
                out['build_out'] = o[-600:]
        rc, o = sh(runc, wt, timeout=300)
        out['run_rc'] = rc
        out['run_tail'] = o[-400:]
        return out

    res['clean'] = demo('clean')
    rc, o = sh('git apply _seed/%s/patch.diff && git add -A -- src include Makefile' % sub, wt)       # files the patch creates must survive the clean-up below
    res['patch_applies'] = rc == 0
    rc, o = sh('make test 2>&1 | tail -1', wt)
    res['make_test'] = o.strip()
    res['patched'] = demo('patched')
    res['confirmed'] = bool(res['patch_applies'] and 'Checks: 52, Failures: 0, Errors: 0' in res['make_test'] and res['clean'].get('run_rc') == 0 and res['patched'].get('run_rc') not in (0, None))
    # remove the demo's droppings before the checks look at the tree
    sh('git clean -fdq -e _seed; rm -rf _seed', wt)
    res['checks'] = {}
    for c in checks:
        env = dict(os.environ, VERIF_REPO=wt)
        r = subprocess.run(['/verif/check', c, '--tier', tier], env=env, stdout=subprocess.PIPE, stderr=subprocess.PIPE, text=True, errors='replace')
        last = [l for l in r.stdout.splitlines() if l.startswith(c + ' ')]
        first_msg = ''
        m = re.search(r'^\s+\S+/\S+ config \d+: (.*)$', r.stderr, re.M)
        if m:
            first_msg = m.group(1)[:300]
        res['checks'][c] = {'rc': r.returncode, 'verdict': 'detected' if r.returncode == 1 else ('held' if r.returncode == 0 else 'undecided'), 'summary': last[-1] if last else '', 'first_violation': first_msg}
finally:
    subprocess.call(['git', '-C', '/repo', 'worktree', 'remove', '--force', wt], stdout=subprocess.DEVNULL, stderr=subprocess.DEVNULL)
    shutil.rmtree(wt, ignore_errors=True)
    import glob
    for f in glob.glob('/verif/replays/*@*'):
        try: os.remove(f)
        except OSError: pass

dst = os.path.join('/verif/seeded', name)
os.makedirs(dst, exist_ok=True)
for f in os.listdir(seed):
    if f != 'meta.json' and os.path.isfile(os.path.join(seed, f)):
        shutil.copy(os.path.join(seed, f), dst)
res['what_i_ran'] = 'tools/seed_one.py: scratch worktree of /repo HEAD; agent demo on clean tree (must exit 0); git apply patch.diff; make test; agent demo on patched tree (must exit non-zero); ./check <id> --tier %s with VERIF_REPO=<scratch>; worktree removed' % tier
json.dump(res, open(os.path.join(dst, 'meta.json'), 'w'), indent=1)
print(name, 'confirmed' if res.get('confirmed') else 'NOT-CONFIRMED', ' '.join('%s=%s' % (k, v['verdict']) for k, v in res.get('checks', {}).items()),
      '| clean', res['clean'].get('run_rc'), 'patched', res['patched'].get('run_rc'), '|', res['make_test'][-40:])
