#!/usr/bin/env python3
"""Regenerate /verif/MANIFEST.json from lib/props.py (single source of truth for the registered checks)."""
import json, os, sys
HERE = os.path.dirname(os.path.dirname(os.path.abspath(__file__)))
sys.path.insert(0, os.path.join(HERE, 'lib'))
from props import PROPS, NOT_APPLICABLE, ENGINES  # noqa: E402

ids = [json.loads(l)['id'] for l in open(os.path.join(HERE, 'properties.jsonl'))]
checks = []
for pid in ids:
    if pid not in PROPS:
        continue
    p = PROPS[pid]
    checks.append({
        'property_id': pid,
        'quick_cmd': './check %s --tier quick' % pid,
        'thorough_cmd': './check %s --tier thorough' % pid,
        'evidence_file': 'evidence/%s.json' % pid,
        'replay_cmd_template': './check %s --replay {path}' % pid,
        'engine': p.get('engine', 'seqx'),
        'level_claimed': {'category': p['level'], 'text': p['claim'], 'design_ref': p.get('design_ref', 'DESIGN.md section 4, ' + pid)},
        'level_note': p['note'],
        'technique': p['technique'],
    })
na = [{'property_id': pid, 'reason': NOT_APPLICABLE.get(pid, 'check not built yet (framework under construction); will be claimed once its harness has run end-to-end')}
      for pid in ids if pid not in PROPS]
m = {
    'version': 1,
    'setup_cmd': 'true',
    'hooks': {'guard': 'JOHNTYNER_LIBCSTL_VERIF',
              'enable': 'no source hooks are needed: every harness compiles /repo/src/*.c from the current working tree itself and interposes malloc/calloc/realloc/free/abort/__assert_fail/rand (and, for C06, the -fsanitize=thread compiler ABI with its own runtime) at link time; the guard name is reserved but unused',
              'baseline_off_cmd': 'make -C /repo test', 'source_commits': [], 'add_only': True},
    'engines': ENGINES,
    'checks': checks,
    'notes': 'All checks: ./check <ID> --tier quick|thorough (env VERIF_REPO=<dir> points the build at another tree). Genuine defects found and repaired by fix: commits are listed in known_findings.txt.',
    'not_applicable': na,
}
json.dump(m, open(os.path.join(HERE, 'MANIFEST.json'), 'w'), indent=1)
print('checks:', len(checks), 'not_applicable:', len(na))
