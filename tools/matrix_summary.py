#!/usr/bin/env python3
"""matrix_summary.py -- totals over seeded/*/meta.json and controls/*/meta.json (own-property verdicts and cross verdicts)"""
import json, glob, os, collections
seeds = collections.Counter(); by_dec = []; missed = []
for d in sorted(glob.glob('/verif/seeded/C*')):
    n = os.path.basename(d); own = n.split('-')[0]
    try: m = json.load(open(d + '/meta.json'))
    except Exception: continue
    v = m.get('checks', {}).get(own, {}).get('verdict', '?')
    seeds[v] += 1
    if v != 'detected':
        (by_dec if m.get('decision') else missed).append(n)
print('seeds: %d total, %s' % (sum(seeds.values()), dict(seeds)))
print('  not reported by decision:', ' '.join(by_dec))
print('  missed without decision :', ' '.join(missed) or '-')
own = collections.Counter(); cross = collections.Counter(); bad = []
for d in sorted(glob.glob('/verif/controls/C*')):
    n = os.path.basename(d); o = n.split('-')[0]
    try: m = json.load(open(d + '/meta.json'))
    except Exception: continue
    for pid, c in m.get('checks', {}).items():
        v = c.get('verdict', '?')
        (own if pid == o else cross)[v] += 1
        if v not in ('silent', 'held'): bad.append('%s->%s:%s' % (n, pid, v))
print('controls (own property): %d total, %s' % (sum(own.values()), dict(own)))
print('controls (cross checks): %d total, %s' % (sum(cross.values()), dict(cross)))
print('  not silent:', ' '.join(bad) or '-')
