#!/usr/bin/env python3
"""cross_controls.py [jobs]  -- run, for every negative control, the checks of every OTHER property whose subject shares a source file with the
control's patch (a behaviour-preserving rewrite of vector.c must leave C10, C11 and C16 silent too, not only C09).  Verdicts go into the
control's meta.json (checks[<id>]) and to controls/cross_matrix.txt."""
import json, os, re, subprocess, sys, tempfile, shutil, glob
from concurrent.futures import ThreadPoolExecutor
MAP = [
    (r'bintree\.', ['C01', 'C02', 'C07', 'C08', 'C15']), (r'rbtree\.', ['C01', 'C02', 'C08', 'C15']), (r'heap\.', ['C07', 'C15']),
    (r'map\.', ['C08', 'C15', 'C16']), (r'hash\.', ['C03', 'C04', 'C17', 'C19', 'C16']), (r'dlist\.', ['C12', 'C15']), (r'slist\.', ['C13', 'C15']),
    (r'vector\.', ['C09', 'C10', 'C11', 'C16']), (r'string\.', ['C10', 'C16']), (r'array\.', ['C14', 'C11', 'C09', 'C20', 'C16']),
    (r'memory\.', ['C05', 'C06', 'C14', 'C20', 'C16']), (r'common\.', ['C07', 'C11', 'C09', 'C10', 'C12', 'C13']), (r'Makefile', ['C18']), (r'include/', ['C18']),
]
def todo():
    out = []
    for d in sorted(glob.glob('/verif/controls/C*')):
        n = os.path.basename(d); own = n.split('-')[0]
        try: meta = json.load(open(d + '/meta.json'))
        except Exception: continue
        files = re.findall(r'^diff --git a/(\S+)', open(d + '/patch.diff').read(), re.M)
        ids = set()
        for f in files:
            for pat, ps in MAP:
                if re.search(pat, f): ids.update(ps)
        ids.discard(own)
        ids = [i for i in sorted(ids) if i not in meta.get('checks', {}) or os.environ.get('CROSS_REDO')]
        if os.environ.get('CROSS_IDS'): ids = [i for i in ids if i in os.environ['CROSS_IDS'].split(',')]      # restrict to some checks
        if os.environ.get('CROSS_ONLY') and n not in os.environ['CROSS_ONLY'].split(','): ids = []      # restrict to some controls
        if ids: out.append((d, n, ids))
    return out
def run_one(item):
    d, n, ids = item
    wt = tempfile.mkdtemp(prefix='cross_'); os.rmdir(wt)
    res = []
    subprocess.check_call(['git', '-C', '/repo', 'worktree', 'add', '-q', '--detach', wt, 'HEAD'])
    try:
        subprocess.check_call(['git', '-C', wt, 'apply', d + '/patch.diff'])
        for pid in ids:
            r = subprocess.run(['/verif/check', pid, '--tier', 'quick'], env=dict(os.environ, VERIF_REPO=wt), capture_output=True, text=True)
            last = [l for l in r.stdout.splitlines() if l.startswith(pid + ' ')]
            fm = re.search(r'^\s+\S+/\S+ config \d+: (.*)$', r.stderr, re.M)
            verdict = 'ALARM' if r.returncode == 1 else ('silent' if r.returncode == 0 else 'undecided')
            res.append((pid, {'rc': r.returncode, 'verdict': verdict, 'summary': last[-1] if last else '', 'first_violation': fm.group(1)[:300] if fm else (r.stderr[-300:] if r.returncode == 2 else '')}))
    finally:
        subprocess.call(['git', '-C', '/repo', 'worktree', 'remove', '--force', wt]); shutil.rmtree(wt, ignore_errors=True)
    m = json.load(open(d + '/meta.json'))
    for pid, v in res: m.setdefault('checks', {})[pid] = v
    json.dump(m, open(d + '/meta.json', 'w'), indent=1)
    line = n + ' ' + ' '.join('%s=%s' % (p, v['verdict']) for p, v in res)
    print(line, flush=True)
    return line
if __name__ == '__main__':
    jobs = int(sys.argv[1]) if len(sys.argv) > 1 else 4
    items = todo()
    print('%d controls, %d cross checks' % (len(items), sum(len(i[2]) for i in items)), flush=True)
    with ThreadPoolExecutor(jobs) as ex: lines = list(ex.map(run_one, items))
    open('/verif/controls/cross_matrix.txt', 'a').write('\n'.join(lines) + '\n')
    for f in glob.glob('/verif/replays/*@*'):
        try: os.remove(f)
        except OSError: pass
