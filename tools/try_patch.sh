#!/bin/bash
# usage: try_patch.sh <patch.diff> <tier> <ID> [<ID>...]   -- run checks against a scratch copy of /repo with the patch applied
set -u
if [ "$1" = "-" ]; then patch=/dev/null; else patch=$(realpath "$1") || exit 9; [ -f "$patch" ] || { echo "no such patch $1"; exit 9; }; fi; tier=$2; shift 2
wt=$(mktemp -d /tmp/trypatch.XXXXXX)
trap 'git -C /repo worktree remove --force "$wt" >/dev/null 2>&1; rm -rf "$wt"; rm -f /verif/replays/*@* /verif/evidence/*@*' EXIT
git -C /repo worktree add -q --detach "$wt" "${BASE:-HEAD}" || exit 9
[ "$patch" = "/dev/null" ] || git -C "$wt" apply "$patch" || { echo "PATCH DOES NOT APPLY"; exit 9; }
for id in "$@"; do
  VERIF_REPO="$wt" ${CHECK:-/verif/check} "$id" --tier "$tier" 2>&1 | tail -${TAIL:-6}
  echo "== $id rc=${PIPESTATUS[0]}"
done
