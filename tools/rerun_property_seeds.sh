#!/bin/bash
# re-run every seeded change and every control of one property against the CURRENT checks (quick tier), sequentially
p=$1
for d in /verif/seeded/$p-* /verif/controls/$p-*; do n=$(basename $d); kind=$(basename $(dirname $d)); if [ -n "${ONLY:-}" ] && ! echo "$kind/$n" | grep -Eq "$ONLY"; then continue; fi; python3 - "$d" "$n" "$kind" <<'PY'
import json,os,subprocess,sys,tempfile,shutil,re
d,n,kind=sys.argv[1],sys.argv[2],sys.argv[3]
prop=n.split('-')[0]
wt=tempfile.mkdtemp(prefix='reseed_'); os.rmdir(wt)
subprocess.check_call(['git','-C','/repo','worktree','add','-q','--detach',wt,'HEAD'])
try:
    subprocess.check_call(['git','-C',wt,'apply',os.path.join(d,'patch.diff')])
    r=subprocess.run(['/verif/check',prop,'--tier','quick'],env=dict(os.environ,VERIF_REPO=wt),capture_output=True,text=True)
    m=json.load(open(os.path.join(d,'meta.json')))
    last=[l for l in r.stdout.splitlines() if l.startswith(prop+' ')]
    fm=re.search(r'^\s+\S+/\S+ config \d+: (.*)$', r.stderr, re.M)
    if kind=='seeded': verdict='detected' if r.returncode==1 else ('held' if r.returncode==0 else 'undecided')
    else: verdict='ALARM' if r.returncode==1 else ('silent' if r.returncode==0 else 'undecided')
    m.setdefault('checks',{})[prop]={'rc':r.returncode,'verdict':verdict,'summary':last[-1] if last else '','first_violation':fm.group(1)[:300] if fm else ''}
    json.dump(m,open(os.path.join(d,'meta.json'),'w'),indent=1)
    print(kind,n,verdict)
finally:
    subprocess.call(['git','-C','/repo','worktree','remove','--force',wt]); shutil.rmtree(wt,ignore_errors=True)
PY
rm -f /verif/replays/*@*
done
