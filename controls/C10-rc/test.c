/*
 * C10: strings equal a reference string after every edit and stay
 * NUL-terminated; positions beyond the end abort, counts are truncated,
 * unsatisfiable growth aborts; find_ch/find_str/compare agree with libc.
 *
 * The file is a small "template": the part under TEMPLATE_PASS is compiled
 * twice, once for struct cstl_string and once for struct cstl_wstring.
 *
 * Method
 *  - a table of edit operations whose positions/counts are resolved
 *    relative to the current size (0, 1, size/2, size-1, size; counts
 *    0, 1, rest-1, rest, rest+1, SIZE_MAX-1, SIZE_MAX, SIZE_MAX/2)
 *  - exhaustive depth-first enumeration of all operation sequences up to
 *    a small depth; every node is reached by replaying the sequence on a
 *    fresh pair of string objects, so that the library's hidden state
 *    (capacity, reserved-but-empty storage ...) is the real one
 *  - long pseudo random walks over the same table
 *  - after every edit both objects are compared with a reference model
 *    through size/at/at_const/str/data, and find_ch/find_str/find/
 *    compare/compare_str are compared with strchr/strstr/strcmp on the
 *    reference characters
 *  - calls that must abort() are run under a SIGABRT handler that
 *    siglongjmp()s out; any other signal kills the test
 */
#ifndef TEMPLATE_PASS

#define _POSIX_C_SOURCE 200809L

#include "cstl/string.h"

#include <stdio.h>
#include <stdlib.h>
#include <stdint.h>
#include <string.h>
#include <wchar.h>
#include <signal.h>
#include <setjmp.h>
#include <unistd.h>
#include <sys/types.h>
#include <sys/resource.h>

#define MCAP 320

static unsigned long n_checks, n_aborts, n_nodes;

#define FAIL(...)                                               \
    do {                                                        \
        fprintf(stderr, "FAIL %s:%d: ", __FILE__, __LINE__);    \
        fprintf(stderr, __VA_ARGS__);                           \
        fprintf(stderr, "\n");                                  \
        exit(1);                                                \
    } while (0)

#define REQUIRE(COND)                                   \
    do {                                                \
        n_checks++;                                     \
        if (!(COND)) {                                  \
            FAIL("requirement failed: %s", #COND);      \
        }                                               \
    } while (0)

static sigjmp_buf abort_jb;
static volatile sig_atomic_t abort_armed;

static void on_sigabrt(int sig)
{
    (void)sig;
    if (abort_armed) {
        abort_armed = 0;
        siglongjmp(abort_jb, 1);
    }
    _exit(2);
}

/* STMT must end in abort(); anything else (return, SIGSEGV, ...) fails */
#define EXPECT_ABORT(STMT)                                      \
    do {                                                        \
        if (sigsetjmp(abort_jb, 1) == 0) {                      \
            abort_armed = 1;                                    \
            STMT;                                               \
            abort_armed = 0;                                    \
            FAIL("no abort from: %s", #STMT);                   \
        }                                                       \
        n_aborts++;                                             \
    } while (0)

static int sign(const int x)
{
    return (x > 0) - (x < 0);
}

static unsigned long rng_state;
static unsigned int rnd(void)
{
    rng_state = rng_state * 6364136223846793005UL + 1442695040888963407UL;
    return (unsigned int)(rng_state >> 33);
}

/* operation kinds */
enum {
    K_SET, K_INSCH, K_INSSTRN, K_INSSTR, K_INS,
    K_APP, K_APPCH, K_APPSTRN, K_APPSTR,
    K_ERASE, K_SUBSTR, K_RESIZE, K_SWAP, K_CLEAR, K_CLEART,
    K_RESERVE, K_SETAT,
};
/* position kinds */
enum { P_0, P_1, P_MID, P_LAST, P_END };
/* count kinds */
enum { C_0, C_1, C_2, C_3, C_4,
       C_RESTM1, C_REST, C_RESTP1, C_MAXM1, C_MAX, C_HALF };
/* resize kinds */
enum { R_0, R_M1, R_SAME, R_P1, R_P5, R_1 };
/* reserve kinds */
enum { V_P3, V_0, V_MAX, V_MAXM1, V_HALF };

struct op { int kind, a, b, c; };

static const struct op ops[] = {
    { K_SET, 0, 0, 0 }, { K_SET, 1, 0, 0 }, { K_SET, 2, 0, 0 },
    { K_SET, 3, 0, 0 },

    { K_INSCH, P_0, C_0, 0 }, { K_INSCH, P_0, C_1, 0 },
    { K_INSCH, P_0, C_3, 1 }, { K_INSCH, P_MID, C_0, 1 },
    { K_INSCH, P_MID, C_1, 1 }, { K_INSCH, P_MID, C_3, 0 },
    { K_INSCH, P_END, C_0, 0 }, { K_INSCH, P_END, C_1, 1 },
    { K_INSCH, P_END, C_3, 0 }, { K_INSCH, P_1, C_2, 1 },
    { K_INSCH, P_LAST, C_1, 0 }, { K_INSCH, P_MID, C_1, 2 },
    { K_INSCH, P_END, C_2, 2 },

    { K_INSSTRN, P_0, C_0, 0 }, { K_INSSTRN, P_0, C_3, 0 },
    { K_INSSTRN, P_MID, C_1, 0 }, { K_INSSTRN, P_LAST, C_3, 0 },
    { K_INSSTRN, P_END, C_0, 0 }, { K_INSSTRN, P_END, C_2, 0 },
    { K_INSSTRN, P_1, C_4, 0 },

    { K_INSSTR, P_0, 0, 2 }, { K_INSSTR, P_MID, 0, 1 },
    { K_INSSTR, P_END, 0, 0 }, { K_INSSTR, P_END, 0, 3 },

    { K_INS, P_0, 0, 0 }, { K_INS, P_MID, 0, 0 }, { K_INS, P_END, 0, 0 },

    { K_APP, 0, 0, 0 },
    { K_APPCH, 0, C_0, 0 }, { K_APPCH, 0, C_2, 1 },
    { K_APPSTRN, 0, C_1, 0 }, { K_APPSTRN, 0, C_0, 0 },
    { K_APPSTR, 0, 0, 1 }, { K_APPSTR, 0, 0, 0 },

    { K_ERASE, P_0, C_0, 0 }, { K_ERASE, P_0, C_1, 0 },
    { K_ERASE, P_0, C_REST, 0 }, { K_ERASE, P_0, C_MAX, 0 },
    { K_ERASE, P_0, C_RESTM1, 0 },
    { K_ERASE, P_MID, C_0, 0 }, { K_ERASE, P_MID, C_1, 0 },
    { K_ERASE, P_MID, C_RESTP1, 0 }, { K_ERASE, P_MID, C_MAXM1, 0 },
    { K_ERASE, P_MID, C_HALF, 0 },
    { K_ERASE, P_1, C_2, 0 }, { K_ERASE, P_1, C_RESTM1, 0 },
    { K_ERASE, P_LAST, C_0, 0 }, { K_ERASE, P_LAST, C_1, 0 },
    { K_ERASE, P_LAST, C_MAX, 0 },

    { K_SUBSTR, P_0, C_0, 0 }, { K_SUBSTR, P_0, C_REST, 0 },
    { K_SUBSTR, P_0, C_MAX, 0 }, { K_SUBSTR, P_0, C_2, 0 },
    { K_SUBSTR, P_MID, C_1, 0 }, { K_SUBSTR, P_MID, C_RESTP1, 0 },
    { K_SUBSTR, P_MID, C_MAXM1, 0 }, { K_SUBSTR, P_1, C_RESTM1, 0 },
    { K_SUBSTR, P_LAST, C_0, 0 }, { K_SUBSTR, P_LAST, C_HALF, 0 },

    { K_RESIZE, R_0, 0, 0 }, { K_RESIZE, R_M1, 0, 0 },
    { K_RESIZE, R_SAME, 0, 0 }, { K_RESIZE, R_P1, 0, 0 },
    { K_RESIZE, R_P5, 0, 0 }, { K_RESIZE, R_1, 0, 0 },

    { K_SWAP, 0, 0, 0 }, { K_CLEAR, 0, 0, 0 }, { K_CLEART, 0, 0, 0 },

    { K_RESERVE, V_P3, 0, 0 }, { K_RESERVE, V_0, 0, 0 },
    { K_RESERVE, V_MAX, 0, 0 }, { K_RESERVE, V_MAXM1, 0, 0 },
    { K_RESERVE, V_HALF, 0, 0 },

    { K_SETAT, P_0, 0, 1 }, { K_SETAT, P_LAST, 0, 0 },
    { K_SETAT, P_MID, 0, 2 },
};
#define NOPS ((int)(sizeof(ops) / sizeof(ops[0])))

/* a reduced table (indices into ops[]) for the deeper exhaustive search */
static const int deep_ops[] = {
    2, 5, 8, 12, 15, 18, 20, 23, 25, 29, 31, 33,
    39, 41, 45, 46, 49, 51, 54, 58, 61, 63, 64, 66, 67, 69, 70, 72,
};
#define NDEEP ((int)(sizeof(deep_ops) / sizeof(deep_ops[0])))

static int resolve_pos(const int pk, const size_t n, size_t * const pos)
{
    switch (pk) {
    case P_0: *pos = 0; return 1;
    case P_1: *pos = 1; return 1;
    case P_MID: *pos = n / 2; return 1;
    case P_LAST: if (n == 0) { return 0; } *pos = n - 1; return 1;
    case P_END: *pos = n; return 1;
    }
    return 0;
}

static int resolve_cnt(const int ck, const size_t rest, size_t * const cnt)
{
    switch (ck) {
    case C_0: *cnt = 0; return 1;
    case C_1: *cnt = 1; return 1;
    case C_2: *cnt = 2; return 1;
    case C_3: *cnt = 3; return 1;
    case C_4: *cnt = 4; return 1;
    case C_RESTM1: if (rest == 0) { return 0; } *cnt = rest - 1; return 1;
    case C_REST: *cnt = rest; return 1;
    case C_RESTP1: *cnt = rest + 1; return 1;
    case C_MAXM1: *cnt = SIZE_MAX - 1; return 1;
    case C_MAX: *cnt = SIZE_MAX; return 1;
    case C_HALF: *cnt = SIZE_MAX / 2; return 1;
    }
    return 0;
}

#define TEMPLATE_PASS

#define S struct cstl_string
#define F(NAME) cstl_string_##NAME
#define N(NAME) n_##NAME
#define T char
#define X(LIT) LIT
#define SCHR strchr
#define SSTR strstr
#define SCMP strcmp
#define SLEN strlen
#define DECL(NAME) DECLARE_CSTL_STRING(string, NAME)
#include "test.c"
#undef S
#undef F
#undef N
#undef T
#undef X
#undef SCHR
#undef SSTR
#undef SCMP
#undef SLEN
#undef DECL

#define S struct cstl_wstring
#define F(NAME) cstl_wstring_##NAME
#define N(NAME) w_##NAME
#define T wchar_t
#define X(LIT) L##LIT
#define SCHR wcschr
#define SSTR wcsstr
#define SCMP wcscmp
#define SLEN wcslen
#define DECL(NAME) DECLARE_CSTL_STRING(wstring, NAME)
#include "test.c"

int main(void)
{
    struct sigaction sa;
    struct rlimit rl;

    memset(&sa, 0, sizeof(sa));
    sa.sa_handler = on_sigabrt;
    sigemptyset(&sa.sa_mask);
    sa.sa_flags = SA_NODEFER;
    sigaction(SIGABRT, &sa, NULL);

    /* make sure that absurd but representable requests really fail */
#ifndef C10_NO_RLIMIT
    rl.rlim_cur = rl.rlim_max = (rlim_t)1 << 30;
    (void)setrlimit(RLIMIT_AS, &rl);
#else
    (void)rl;
#endif

    {
        int i;
        for (i = 0; i < NDEEP; i++) {
            if (deep_ops[i] < 0 || deep_ops[i] >= NOPS) {
                FAIL("bad table");
            }
        }
    }

    n_run();
    w_run();

    printf("C10 ok: %lu nodes, %lu checks, %lu expected aborts\n",
           n_nodes, n_checks, n_aborts);
    return 0;
}

#else /* TEMPLATE_PASS */

typedef struct { T c[MCAP]; size_t n; } N(model);

static const T * const N(lits)[] = {
    X(""), X("a"), X("ab"), X("bba"),
};
static const T N(chars)[] = { X('a'), X('b'), 0 };
static const T N(src)[] = { X('b'), X('a'), X('b'), 0 };
static const T * const N(needles)[] = {
    X(""), X("a"), X("b"), X("ab"), X("ba"), X("bb"), X("abc"), X("bab"),
};
#define NNEEDLES 8

/* ---- the reference model ---- */

static void N(m_init)(N(model) * const m)
{
    m->n = 0;
    m->c[0] = 0;
}

static int N(m_room)(const N(model) * const m, const size_t add)
{
    return add < MCAP && m->n + add < MCAP;
}

static void N(m_gap)(N(model) * const m, const size_t pos, const size_t len)
{
    size_t i;
    for (i = m->n; i > pos; i--) {
        m->c[i - 1 + len] = m->c[i - 1];
    }
    m->n += len;
    m->c[m->n] = 0;
}

static void N(m_insert)(N(model) * const m, const size_t pos,
                        const T * const src, const size_t len)
{
    size_t i;
    N(m_gap)(m, pos, len);
    for (i = 0; i < len; i++) {
        m->c[pos + i] = src[i];
    }
}

static void N(m_insert_ch)(N(model) * const m, const size_t pos,
                           const size_t cnt, const T ch)
{
    size_t i;
    N(m_gap)(m, pos, cnt);
    for (i = 0; i < cnt; i++) {
        m->c[pos + i] = ch;
    }
}

static void N(m_erase)(N(model) * const m, const size_t pos, size_t cnt)
{
    size_t i;
    if (cnt > m->n - pos) {
        cnt = m->n - pos;
    }
    for (i = pos; i + cnt < m->n; i++) {
        m->c[i] = m->c[i + cnt];
    }
    m->n -= cnt;
    m->c[m->n] = 0;
}

/* ---- comparing an object with the model ---- */

static void N(check_one)(S * const s, const N(model) * const m)
{
    const S * const cs = s;
    const size_t n = m->n;
    const T * const str = F(str)(cs);
    size_t i, k;

    REQUIRE(F(size)(cs) == n);
    REQUIRE(str != NULL);
    for (i = 0; i < n; i++) {
        REQUIRE(str[i] == m->c[i]);
    }
    REQUIRE(str[n] == 0);
    REQUIRE(F(capacity)(cs) >= n);
    if (n > 0) {
        REQUIRE(F(data)(s) == str);
    }
    for (i = 0; i < n; i++) {
        REQUIRE(F(at)(s, i) == str + i);
        REQUIRE(F(at_const)(cs, i) == str + i);
        REQUIRE(*F(at_const)(cs, i) == m->c[i]);
    }

    /* compare_str against the C library */
    for (k = 0; k < sizeof(N(lits)) / sizeof(N(lits)[0]); k++) {
        REQUIRE(sign(F(compare_str)(cs, N(lits)[k]))
                == sign(SCMP(m->c, N(lits)[k])));
    }
    REQUIRE(F(compare_str)(cs, m->c) == 0);
    REQUIRE(F(compare)(cs, cs) == 0);

    /* find_ch / find_str against the C library */
    for (i = 0; i < n; i++) {
        for (k = 0; k < 4; k++) {
            const T ch = (k < 3) ? N(chars)[k] : X('c');
            const T * const f = SCHR(m->c + i, ch);
            ssize_t exp = -1;
            if (f != NULL && f != m->c + n) {
                exp = f - m->c;
            }
            REQUIRE(F(find_ch)(cs, ch, i) == exp);
        }
        for (k = 0; k < NNEEDLES; k++) {
            const T * const f = SSTR(m->c + i, N(needles)[k]);
            const ssize_t exp = (f != NULL) ? f - m->c : -1;
            REQUIRE(F(find_str)(cs, N(needles)[k], i) == exp);
        }
    }
}

static void N(check)(S * const s, const N(model) * const ms,
                     S * const t, const N(model) * const mt)
{
    size_t i;

    N(check_one)(s, ms);
    N(check_one)(t, mt);

    REQUIRE(sign(F(compare)(s, t)) == sign(SCMP(ms->c, mt->c)));
    REQUIRE(sign(F(compare)(t, s)) == sign(SCMP(mt->c, ms->c)));
    for (i = 0; i < ms->n; i++) {
        const T * const f = SSTR(ms->c + i, mt->c);
        const ssize_t exp = (f != NULL) ? f - ms->c : -1;
        REQUIRE(F(find)(s, t, i) == exp);
    }
}

/* ---- applying one operation to the objects and to the models ---- */

static int N(apply)(const struct op * const o,
                    S * const s, N(model) * const ms,
                    S * const t, N(model) * const mt)
{
    size_t pos, cnt, len;

    switch (o->kind) {
    case K_SET:
        len = SLEN(N(lits)[o->a]);
        F(set_str)(s, N(lits)[o->a]);
        N(m_init)(ms);
        N(m_insert)(ms, 0, N(lits)[o->a], len);
        return 1;

    case K_INSCH:
        if (!resolve_pos(o->a, ms->n, &pos) || pos > ms->n
            || !resolve_cnt(o->b, 0, &cnt) || !N(m_room)(ms, cnt)) {
            return 0;
        }
        F(insert_ch)(s, pos, cnt, N(chars)[o->c]);
        N(m_insert_ch)(ms, pos, cnt, N(chars)[o->c]);
        return 1;

    case K_INSSTRN:
        if (!resolve_pos(o->a, ms->n, &pos) || pos > ms->n
            || !resolve_cnt(o->b, 0, &cnt) || !N(m_room)(ms, cnt)) {
            return 0;
        }
        F(insert_str_n)(s, pos, N(src), cnt);
        N(m_insert)(ms, pos, N(src), cnt);
        return 1;

    case K_INSSTR:
        len = SLEN(N(lits)[o->c]);
        if (!resolve_pos(o->a, ms->n, &pos) || pos > ms->n
            || !N(m_room)(ms, len)) {
            return 0;
        }
        F(insert_str)(s, pos, N(lits)[o->c]);
        N(m_insert)(ms, pos, N(lits)[o->c], len);
        return 1;

    case K_INS:
        if (!resolve_pos(o->a, ms->n, &pos) || pos > ms->n
            || !N(m_room)(ms, mt->n)) {
            return 0;
        }
        F(insert)(s, pos, t);
        N(m_insert)(ms, pos, mt->c, mt->n);
        return 1;

    case K_APP:
        if (!N(m_room)(ms, mt->n)) {
            return 0;
        }
        F(append)(s, t);
        N(m_insert)(ms, ms->n, mt->c, mt->n);
        return 1;

    case K_APPCH:
        if (!resolve_cnt(o->b, 0, &cnt) || !N(m_room)(ms, cnt)) {
            return 0;
        }
        F(append_ch)(s, cnt, N(chars)[o->c]);
        N(m_insert_ch)(ms, ms->n, cnt, N(chars)[o->c]);
        return 1;

    case K_APPSTRN:
        if (!resolve_cnt(o->b, 0, &cnt) || !N(m_room)(ms, cnt)) {
            return 0;
        }
        F(append_str_n)(s, N(src), cnt);
        N(m_insert)(ms, ms->n, N(src), cnt);
        return 1;

    case K_APPSTR:
        len = SLEN(N(lits)[o->c]);
        if (!N(m_room)(ms, len)) {
            return 0;
        }
        F(append_str)(s, N(lits)[o->c]);
        N(m_insert)(ms, ms->n, N(lits)[o->c], len);
        return 1;

    case K_ERASE:
        if (!resolve_pos(o->a, ms->n, &pos) || pos >= ms->n
            || !resolve_cnt(o->b, ms->n - pos, &cnt)) {
            return 0;
        }
        F(erase)(s, pos, cnt);
        N(m_erase)(ms, pos, cnt);
        return 1;

    case K_SUBSTR:
        if (!resolve_pos(o->a, ms->n, &pos) || pos >= ms->n
            || !resolve_cnt(o->b, ms->n - pos, &cnt)) {
            return 0;
        }
        F(substr)(s, pos, cnt, t);
        if (cnt > ms->n - pos) {
            cnt = ms->n - pos;
        }
        N(m_init)(mt);
        N(m_insert)(mt, 0, ms->c + pos, cnt);
        return 1;

    case K_RESIZE:
        switch (o->a) {
        case R_0: len = 0; break;
        case R_M1: if (ms->n == 0) { return 0; } len = ms->n - 1; break;
        case R_SAME: len = ms->n; break;
        case R_P1: len = ms->n + 1; break;
        case R_P5: len = ms->n + 5; break;
        default: len = 1; break;
        }
        if (len >= MCAP) {
            return 0;
        }
        F(resize)(s, len);
        if (len <= ms->n) {
            N(m_erase)(ms, len, ms->n - len);
        } else {
            N(m_insert_ch)(ms, ms->n, len - ms->n, 0);
        }
        return 1;

    case K_SWAP: {
        const N(model) tmp = *ms;
        F(swap)(s, t);
        *ms = *mt;
        *mt = tmp;
        return 1;
    }

    case K_CLEAR:
        F(clear)(s);
        N(m_init)(ms);
        return 1;

    case K_CLEART:
        F(clear)(t);
        N(m_init)(mt);
        return 1;

    case K_RESERVE:
        switch (o->a) {
        case V_P3: len = ms->n + 3; break;
        case V_0: len = 0; break;
        case V_MAX: len = SIZE_MAX; break;
        case V_MAXM1: len = SIZE_MAX - 1; break;
        default: len = SIZE_MAX / 2; break;
        }
        /* never aborts, never changes the characters */
        F(reserve)(s, len);
        if (len < MCAP) {
            REQUIRE(F(capacity)(s) >= len);
        }
        return 1;

    case K_SETAT:
        if (!resolve_pos(o->a, ms->n, &pos) || pos >= ms->n) {
            return 0;
        }
        *F(at)(s, pos) = N(chars)[o->c];
        ms->c[pos] = N(chars)[o->c];
        return 1;
    }

    return 0;
}

/* ---- calls that have to abort ---- */

/*
 * the objects used for the abort checks live in static storage, so that
 * nothing about them is indeterminate after the siglongjmp()
 */
static S N(as), N(at2);
static N(model) N(ams), N(amt);
static const int * N(apath);
static int N(apathlen);

/* (re)create the state under test: by replay or, failing that, by copy */
static void N(amake)(const N(model) * const ms, const N(model) * const mt)
{
    F(init)(&N(as));
    F(init)(&N(at2));
    if (N(apath) != NULL) {
        int i;
        N(m_init)(&N(ams));
        N(m_init)(&N(amt));
        for (i = 0; i < N(apathlen); i++) {
            (void)N(apply)(&ops[N(apath)[i]],
                           &N(as), &N(ams), &N(at2), &N(amt));
        }
    } else {
        N(ams) = *ms;
        N(amt) = *mt;
        F(insert_str_n)(&N(as), 0, ms->c, ms->n);
        F(insert_str_n)(&N(at2), 0, mt->c, mt->n);
    }
}

/* a position beyond the end aborts; the object is thrown away afterwards */
#define POS_ABORT(STMT)                         \
    do {                                        \
        N(amake)(ms, mt);                       \
        EXPECT_ABORT(STMT);                     \
    } while (0)

/*
 * a growth that cannot be satisfied aborts; it does so before anything
 * is written, so the objects must still hold the reference characters
 */
#define GROW_ABORT(STMT)                                        \
    do {                                                        \
        EXPECT_ABORT(STMT);                                     \
        N(check)(&N(as), &N(ams), &N(at2), &N(amt));            \
    } while (0)

static void N(abort_checks)(const N(model) * const ms,
                            const N(model) * const mt)
{
    S * const s = &N(as), * const t = &N(at2);
    const size_t n = ms->n;
    const size_t huge[] = {
        SIZE_MAX, SIZE_MAX - 1, SIZE_MAX - n, SIZE_MAX - n - 1,
        SIZE_MAX - n - 2, SIZE_MAX / sizeof(T), SIZE_MAX / sizeof(T) - 1,
        SIZE_MAX / sizeof(T) - n - 1, SIZE_MAX / sizeof(T) - n - 2,
        SIZE_MAX / 2, SIZE_MAX / 2 + 1, SIZE_MAX / 4 + 1,
        (size_t)1 << (sizeof(size_t) * 8 - 16),
    };
    const size_t poss[] = { 0, n / 2, n };
    volatile unsigned int i, j;

    POS_ABORT((void)F(at)(s, n));
    POS_ABORT((void)F(at)(s, n + 1));
    POS_ABORT((void)F(at)(s, SIZE_MAX));
    POS_ABORT((void)F(at_const)(s, n));
    POS_ABORT((void)F(at_const)(s, SIZE_MAX - 1));

    POS_ABORT(F(insert_ch)(s, n + 1, 0, X('a')));
    POS_ABORT(F(insert_ch)(s, n + 1, 1, X('a')));
    POS_ABORT(F(insert_ch)(s, n + 2, SIZE_MAX, X('a')));
    POS_ABORT(F(insert_ch)(s, SIZE_MAX, 0, X('a')));
    POS_ABORT(F(insert_ch)(s, SIZE_MAX, 1, X('a')));
    POS_ABORT(F(insert_ch)(s, SIZE_MAX, SIZE_MAX, X('a')));
    POS_ABORT(F(insert_str_n)(s, n + 1, N(src), 0));
    POS_ABORT(F(insert_str_n)(s, n + 1, N(src), 2));
    POS_ABORT(F(insert_str_n)(s, SIZE_MAX, N(src), 3));
    POS_ABORT(F(insert_str)(s, n + 1, N(lits)[0]));
    POS_ABORT(F(insert_str)(s, n + 1, N(lits)[2]));
    POS_ABORT(F(insert)(s, n + 1, t));
    POS_ABORT(F(insert)(s, SIZE_MAX, t));

    POS_ABORT(F(erase)(s, n, 0));
    POS_ABORT(F(erase)(s, n, 1));
    POS_ABORT(F(erase)(s, n, SIZE_MAX));
    POS_ABORT(F(erase)(s, n + 1, 0));
    POS_ABORT(F(erase)(s, n + 1, SIZE_MAX));
    POS_ABORT(F(erase)(s, SIZE_MAX, 1));
    POS_ABORT(F(erase)(s, SIZE_MAX, SIZE_MAX));

    POS_ABORT(F(substr)(s, n, 0, t));
    POS_ABORT(F(substr)(s, n, SIZE_MAX, t));
    POS_ABORT(F(substr)(s, n + 1, 1, t));
    POS_ABORT(F(substr)(s, SIZE_MAX, 1, t));
    POS_ABORT(F(substr)(s, SIZE_MAX, SIZE_MAX, t));

    POS_ABORT((void)F(find_ch)(s, X('a'), n));
    POS_ABORT((void)F(find_ch)(s, 0, n));
    POS_ABORT((void)F(find_ch)(s, X('a'), n + 1));
    POS_ABORT((void)F(find_ch)(s, X('a'), SIZE_MAX));
    POS_ABORT((void)F(find_str)(s, N(needles)[0], n));
    POS_ABORT((void)F(find_str)(s, N(needles)[1], n));
    POS_ABORT((void)F(find_str)(s, N(needles)[1], n + 1));
    POS_ABORT((void)F(find_str)(s, N(needles)[1], SIZE_MAX));
    POS_ABORT((void)F(find)(s, t, n));
    POS_ABORT((void)F(find)(s, t, SIZE_MAX));

    /* growth that cannot be satisfied; the object survives unchanged */
    N(amake)(ms, mt);
    for (i = 0; i < sizeof(huge) / sizeof(huge[0]); i++) {
        const size_t h = huge[i];

        if (h > n && h >= ((size_t)1 << (sizeof(size_t) * 8 - 16))) {
            GROW_ABORT(F(resize)(s, h));
        }
        for (j = 0; j < sizeof(poss) / sizeof(poss[0]); j++) {
            GROW_ABORT(F(insert_ch)(s, poss[j], h, X('b')));
            GROW_ABORT(F(insert_str_n)(s, poss[j], N(src), h));
        }
        GROW_ABORT(F(append_ch)(s, h, X('a')));
        GROW_ABORT(F(append_str_n)(s, N(src), h));
    }
    F(clear)(s);
    F(clear)(t);
    N(check)(s, &(N(model)){ .n = 0 }, t, &(N(model)){ .n = 0 });
}

/* ---- exhaustive enumeration ---- */

static int N(path)[16];

/* replay path[0..len) on fresh objects; 0 if the last step does not apply */
static int N(replay)(const int len,
                     S * const s, N(model) * const ms,
                     S * const t, N(model) * const mt)
{
    int i, ok = 1;

    N(m_init)(ms);
    N(m_init)(mt);
    for (i = 0; i < len; i++) {
        ok = N(apply)(&ops[N(path)[i]], s, ms, t, mt);
    }
    return ok;
}

static void N(dfs)(const int depth, const int maxdepth, const int adepth,
                   const int deep)
{
    const int cnt = deep ? NDEEP : NOPS;
    int i;

    for (i = 0; i < cnt; i++) {
        N(model) ms, mt;
        DECL(s);
        S t;
        int ok;

        /* one object from the static initialiser, one from init() */
        F(init)(&t);

        N(path)[depth] = deep ? deep_ops[i] : i;
        ok = N(replay)(depth + 1, &s, &ms, &t, &mt);
        if (ok) {
            n_nodes++;
            N(check)(&s, &ms, &t, &mt);
        }
        F(clear)(&s);
        F(clear)(&t);
        if (!ok) {
            continue;
        }

        if (depth + 1 <= adepth) {
            N(apath) = N(path);
            N(apathlen) = depth + 1;
            N(abort_checks)(&ms, &mt);
        }
        if (depth + 1 < maxdepth) {
            N(dfs)(depth + 1, maxdepth, adepth, deep);
        }
    }
}

/* ---- pseudo random walks ---- */

static void N(walk)(const unsigned long seed, const int steps)
{
    N(model) ms, mt;
    DECL(s);
    DECL(t);
    int i;

    rng_state = seed * 2654435761UL + 12345;
    N(m_init)(&ms);
    N(m_init)(&mt);
    N(check)(&s, &ms, &t, &mt);

    for (i = 0; i < steps; i++) {
        const struct op * const o = &ops[rnd() % NOPS];
        if (N(apply)(o, &s, &ms, &t, &mt)) {
            n_nodes++;
            N(check)(&s, &ms, &t, &mt);
            if (rnd() % 8 == 0) {
                N(apath) = NULL;
                N(abort_checks)(&ms, &mt);
            }
        }
    }

    F(clear)(&s);
    F(clear)(&t);
    N(check)(&s, &(N(model)){ .n = 0 }, &t, &(N(model)){ .n = 0 });
}

/* ---- a few fixed scenarios ---- */

static void N(fixed)(void)
{
    N(model) m0;
    DECL(s);
    S t;
    size_t i;

    N(m_init)(&m0);
    F(init)(&t);

    /* untouched objects, both ways of initialising */
    REQUIRE(F(size)(&s) == 0 && F(size)(&t) == 0);
    REQUIRE(F(str)(&s)[0] == 0 && F(str)(&t)[0] == 0);
    REQUIRE(F(compare)(&s, &t) == 0);
    REQUIRE(F(nul) == 0);

    /* reserved but still empty */
    F(reserve)(&s, 10);
    REQUIRE(F(size)(&s) == 0 && F(capacity)(&s) >= 10);
    REQUIRE(F(str)(&s)[0] == 0);
    N(check)(&s, &m0, &t, &m0);

    /* a long fill keeps every character and the terminator */
    F(insert_ch)(&s, 0, 1000, X('x'));
    REQUIRE(F(size)(&s) == 1000);
    for (i = 0; i < 1000; i++) {
        REQUIRE(F(str)(&s)[i] == X('x'));
    }
    REQUIRE(F(str)(&s)[1000] == 0);
    F(insert_ch)(&s, 500, 777, X('y'));
    REQUIRE(F(size)(&s) == 1777);
    for (i = 0; i < 1777; i++) {
        REQUIRE(F(str)(&s)[i] == ((i >= 500 && i < 1277) ? X('y') : X('x')));
    }
    REQUIRE(F(str)(&s)[1777] == 0);
    F(resize)(&s, 10);
    F(resize)(&s, 3000);
    REQUIRE(F(size)(&s) == 3000);
    for (i = 0; i < 3000; i++) {
        REQUIRE(F(str)(&s)[i] == ((i < 10) ? X('x') : 0));
    }
    REQUIRE(F(str)(&s)[3000] == 0);
    F(erase)(&s, 5, SIZE_MAX);
    REQUIRE(F(size)(&s) == 5 && F(str)(&s)[5] == 0);
    REQUIRE(F(compare_str)(&s, X("xxxxx")) == 0);

    /* substr into an object that already holds something longer */
    F(set_str)(&t, X("0123456789"));
    F(substr)(&s, 1, 3, &t);
    REQUIRE(F(compare_str)(&t, X("xxx")) == 0 && F(size)(&t) == 3);
    F(substr)(&s, 4, SIZE_MAX, &t);
    REQUIRE(F(compare_str)(&t, X("x")) == 0 && F(size)(&t) == 1);

    F(clear)(&s);
    F(clear)(&t);
    N(check)(&s, &m0, &t, &m0);
}

static void N(run)(void)
{
    unsigned long w;

    N(fixed)();

    /* all sequences of 3 operations, abort checks after the first 2 */
    N(dfs)(0, 3, 2, 0);
    /* all sequences of 4 operations from the reduced table */
    N(dfs)(0, 4, 1, 1);

    for (w = 0; w < 300; w++) {
        N(walk)(w, 60);
    }
}

#endif /* TEMPLATE_PASS */
