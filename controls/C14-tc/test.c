/*
 * C14: array views never reach outside their buffer, which lives as long
 * as any view.
 *
 * Model based test that uses only the public API of cstl/array.h.
 *
 * - a small reference model (buffer, offset, length per object; user count
 *   per buffer) is driven through long pseudo-random and directed
 *   histories of alloc/set/slice/unslice/reset/release over six objects
 *   (three made with the static initialiser, three with cstl_array_init);
 * - after every step every object is compared with the model:
 *   size, data, the address of every (sampled) valid index, abort() for
 *   indices at and beyond the size including values around SIZE_MAX;
 * - slices are requested with bounds around the size of the view, the size
 *   of the buffer and SIZE_MAX and must abort exactly when end < beg or
 *   the range passes the end of the buffer;
 * - malloc/free as seen by the library are wrapped (-Wl,--wrap) so that
 *   the test knows which heap blocks are live: addresses handed out for
 *   an allocated array must lie in one live block, that block must be
 *   gone (or serve another live array) once nobody refers to the array,
 *   nothing is freed twice, nothing foreign is freed, nothing is left at
 *   the end, and allocations can be made to fail.
 *
 * No assumption is made about the number, size or order of the blocks
 * the library obtains.
 */
#define _POSIX_C_SOURCE 200809L

#include "cstl/array.h"

#include <stdio.h>
#include <stdlib.h>
#include <string.h>
#include <stdint.h>
#include <signal.h>
#include <setjmp.h>
#include <unistd.h>
#include <sys/types.h>
#include <sys/wait.h>
#include <sys/resource.h>

static void die(const char * const msg, const int line)
{
    fprintf(stderr, "C14 test FAILED at line %d: %s\n", line, msg);
    fflush(stderr);
    _exit(1);
}
#define CHECK(C) do { if (!(C)) { die(#C, __LINE__); } } while (0)

/* ------------------------------------------------------------------ */
/* the heap as the library sees it                                     */

void * __real_malloc(size_t);
void __real_free(void *);

struct lblk { unsigned char * p; size_t n; long id; };
static struct lblk live[1024];
static int nlive;
static long next_id = 1;
static long n_malloc, n_free;
static int inject = -1;   /* >= 0: that many calls succeed, the next fails */
static int failed;        /* an allocation failed since this was cleared */

void * __wrap_malloc(const size_t n)
{
    unsigned char * p;

    n_malloc++;
    if (inject >= 0) {
        if (inject == 0) {
            inject = -1;
            failed = 1;
            return NULL;
        }
        inject--;
    }
    p = __real_malloc(n);
    if (p == NULL) {
        failed = 1;
        return NULL;
    }
    CHECK(nlive < (int)(sizeof(live) / sizeof(*live)));
    if (n <= ((size_t)1 << 20)) {
        memset(p, 0xa5, n);
    }
    live[nlive].p = p;
    live[nlive].n = n;
    live[nlive].id = next_id++;
    nlive++;
    return p;
}

void __wrap_free(void * const p)
{
    int i;

    if (p == NULL) {
        return;
    }
    for (i = 0; i < nlive; i++) {
        if (live[i].p == (unsigned char *)p) {
            break;
        }
    }
    /* a double free, or a free of memory the library does not own */
    CHECK(i < nlive);
    if (live[i].n <= ((size_t)1 << 20)) {
        memset(p, 0xdd, live[i].n);
    }
    live[i] = live[--nlive];
    n_free++;
    __real_free(p);
}

void * __wrap_calloc(const size_t a, const size_t b)
{
    void * p;
    if (b != 0 && a > SIZE_MAX / b) {
        failed = 1;
        return NULL;
    }
    p = __wrap_malloc(a * b);
    if (p != NULL) {
        memset(p, 0, a * b);
    }
    return p;
}

void * __wrap_realloc(void * const o, const size_t n)
{
    void * p;
    int i;
    size_t on = 0;

    if (o == NULL) {
        return __wrap_malloc(n);
    }
    for (i = 0; i < nlive; i++) {
        if (live[i].p == (unsigned char *)o) {
            on = live[i].n;
            break;
        }
    }
    CHECK(i < nlive);
    p = __wrap_malloc(n);
    if (p != NULL) {
        memcpy(p, o, on < n ? on : n);
        __wrap_free(o);
    }
    return p;
}

/* id of the live block that wholly contains [p, p + n); -1 if none */
static long blk_of(const void * const vp, const size_t n)
{
    const unsigned char * const p = vp;
    long edge = -1;
    int i;

    for (i = 0; i < nlive; i++) {
        const unsigned char * const b = live[i].p;
        const unsigned char * const e = b + live[i].n;
        if (p >= b && p <= e && n <= (size_t)(e - p)) {
            if (p < e) {
                return live[i].id;
            }
            edge = live[i].id;
        }
    }
    return edge;
}

static int blk_live(const long id)
{
    int i;
    for (i = 0; i < nlive; i++) {
        if (live[i].id == id) {
            return 1;
        }
    }
    return 0;
}

/* ------------------------------------------------------------------ */
/* catching abort()                                                    */

static sigjmp_buf jb;
static volatile sig_atomic_t armed;

static void on_abrt(const int sig)
{
    (void)sig;
    if (armed) {
        armed = 0;
        siglongjmp(jb, 1);
    }
    /* not expected: return, and abort() goes on to kill the process */
}

static int aborts_at(const cstl_array_t * const o, const size_t i)
{
    armed = 1;
    if (sigsetjmp(jb, 1) == 0) {
        (void)cstl_array_at_const(o, i);
        armed = 0;
        return 0;
    }
    return 1;
}

static int aborts_at_mut(cstl_array_t * const o, const size_t i)
{
    armed = 1;
    if (sigsetjmp(jb, 1) == 0) {
        (void)cstl_array_at(o, i);
        armed = 0;
        return 0;
    }
    return 1;
}

static int aborts_slice(cstl_array_t * const a,
                        const size_t beg, const size_t end,
                        cstl_array_t * const s)
{
    armed = 1;
    if (sigsetjmp(jb, 1) == 0) {
        cstl_array_slice(a, beg, end, s);
        armed = 0;
        return 0;
    }
    return 1;
}

static int aborts_unslice(cstl_array_t * const s, cstl_array_t * const a)
{
    armed = 1;
    if (sigsetjmp(jb, 1) == 0) {
        cstl_array_unslice(s, a);
        armed = 0;
        return 0;
    }
    return 1;
}

/* the real thing: a child process must die from SIGABRT */
static void forked(const int which, const int want_abort)
{
    pid_t pid;
    int st = 0;

    fflush(stdout);
    fflush(stderr);
    pid = fork();
    CHECK(pid >= 0);
    if (pid == 0) {
        DECLARE_CSTL_ARRAY(a);
        DECLARE_CSTL_ARRAY(s);
        signal(SIGABRT, SIG_DFL);
        cstl_array_alloc(&a, 10, sizeof(long));
        if (cstl_array_size(&a) != 10) {
            _exit(3);
        }
        cstl_array_slice(&a, 4, 8, &a);
        switch (which) {
        case 0: (void)cstl_array_at(&a, 4); break;
        case 1: (void)cstl_array_at(&a, SIZE_MAX); break;
        case 2: cstl_array_slice(&a, 2, 1, &s); break;
        case 3: cstl_array_slice(&a, 0, 7, &s); break;
        case 4: cstl_array_slice(&a, 6, 7, &a); break;
        case 5: cstl_array_unslice(&s, &a); break;
        case 6: cstl_array_slice(&s, 0, 0, &a); break;
        case 7: cstl_array_slice(&a, SIZE_MAX - 3, SIZE_MAX, &s); break;
        case 8: cstl_array_slice(&a, 1, SIZE_MAX - 3, &s); break;
        /* and a few that must not abort */
        case 100: (void)cstl_array_at(&a, 3); break;
        case 101: cstl_array_slice(&a, 6, 6, &a); break;
        case 102: cstl_array_slice(&a, 0, 6, &s); break;
        case 103: cstl_array_unslice(&a, &a); break;
        default: break;
        }
        _exit(0);
    }
    CHECK(waitpid(pid, &st, 0) == pid);
    if (want_abort) {
        CHECK(WIFSIGNALED(st) && WTERMSIG(st) == SIGABRT);
    } else {
        CHECK(WIFEXITED(st) && WEXITSTATUS(st) == 0);
    }
}

/* ------------------------------------------------------------------ */
/* the model                                                           */

#define NOBJ   6
#define NBUF   (2 * NOBJ + 4)
#define NEXT   4
#define EXTSZ  256
#define GUARD  64

struct mbuf
{
    int used, ext, slot, rc;
    long blk;
    unsigned char * base;
    size_t nm, sz, bytes;
    unsigned char sh[EXTSZ];
};
struct mobj
{
    int buf;
    size_t off, len;
};

static struct mbuf B[NBUF];
static struct mobj M[NOBJ];
static int dead[NBUF], ndead;

static unsigned char extmem[NEXT][GUARD + EXTSZ + GUARD];
static int slot_used[NEXT];

static DECLARE_CSTL_ARRAY(g0);
static DECLARE_CSTL_ARRAY(g1);
static DECLARE_CSTL_ARRAY(g2);
static struct { char pad; cstl_array_t a[3]; } dyn;
static cstl_array_t * O[NOBJ];

static uint64_t rs = 0x9e3779b97f4a7c15ull;
static uint64_t rnd(void)
{
    rs ^= rs << 13;
    rs ^= rs >> 7;
    rs ^= rs << 17;
    return rs;
}

static unsigned char * ext_ptr(const int slot)
{
    return &extmem[slot][GUARD];
}

static void ext_guards(void)
{
    int s, i;
    for (s = 0; s < NEXT; s++) {
        for (i = 0; i < GUARD; i++) {
            CHECK(extmem[s][i] == 0x5c);
            CHECK(extmem[s][GUARD + EXTSZ + i] == 0x5c);
        }
    }
}

static int new_buf(void)
{
    int b;
    for (b = 0; b < NBUF; b++) {
        if (!B[b].used) {
            memset(&B[b], 0, sizeof(B[b]));
            B[b].used = 1;
            B[b].slot = -1;
            B[b].blk = -1;
            return b;
        }
    }
    CHECK(!"out of model buffers");
    return -1;
}

static void detach(const int i)
{
    const int b = M[i].buf;
    if (b >= 0) {
        CHECK(B[b].rc > 0);
        if (--B[b].rc == 0) {
            dead[ndead++] = b;
        }
    }
    M[i].buf = -1;
    M[i].off = M[i].len = 0;
}

/*
 * buffers without users: an allocated one must have been given back
 * (unless its block now serves a live array); a supplied one must never
 * be touched
 */
static void bury(void)
{
    while (ndead > 0) {
        const int b = dead[--ndead];
        CHECK(B[b].used && B[b].rc == 0);
        if (B[b].ext) {
            CHECK(memcmp(B[b].base, B[b].sh, B[b].bytes) == 0);
            slot_used[B[b].slot] = 0;
        } else if (B[b].bytes > 0 && blk_live(B[b].blk)) {
            /*
             * (an array of no bytes has no storage of its own to give
             * back; what the library keeps for it is its business and
             * is accounted for at the end of every history)
             */
            int o, reused = 0;
            for (o = 0; o < NBUF; o++) {
                if (o != b && B[o].used && B[o].rc > 0 && !B[o].ext
                    && B[o].blk == B[b].blk) {
                    reused = 1;
                }
            }
            CHECK(reused);
        }
        B[b].used = 0;
    }
}

static void check_obj(const int i, const int deep)
{
    cstl_array_t * const o = O[i];
    const struct mobj * const m = &M[i];
    const struct mbuf * b;
    const void * d;
    size_t cand[40];
    int n = 0, k;
    size_t room;

    CHECK(cstl_array_size(o) == m->len);
    d = cstl_array_data_const(o);
    CHECK(cstl_array_data(o) == d);

    if (m->buf < 0) {
        CHECK(d == NULL);
        CHECK(m->len == 0 && m->off == 0);
        if (deep) {
            CHECK(aborts_at(o, 0));
            CHECK(aborts_at_mut(o, 1));
            CHECK(aborts_at(o, SIZE_MAX));
        }
        return;
    }

    b = &B[m->buf];
    CHECK(b->used && b->rc > 0);
    CHECK(d == b->base);
    CHECK(m->off <= b->nm && m->len <= b->nm - m->off);
    if (!b->ext) {
        CHECK(blk_live(b->blk));
        CHECK(blk_of(b->base, b->bytes) == b->blk);
    }
    room = b->nm - m->off;

    cand[n++] = 0;
    cand[n++] = 1;
    cand[n++] = 2;
    cand[n++] = m->len / 2;
    cand[n++] = m->len - 2;
    cand[n++] = m->len - 1;
    cand[n++] = m->len;
    cand[n++] = m->len + 1;
    cand[n++] = room - 1;
    cand[n++] = room;
    cand[n++] = room + 1;
    cand[n++] = b->nm - 1;
    cand[n++] = b->nm;
    cand[n++] = b->nm + 1;
    cand[n++] = SIZE_MAX;
    cand[n++] = SIZE_MAX - 1;
    cand[n++] = SIZE_MAX - m->off;
    cand[n++] = SIZE_MAX - m->off + 1;
    cand[n++] = (size_t)0 - m->off;
    cand[n++] = SIZE_MAX / 2;
    cand[n++] = SIZE_MAX / 2 + 1;
    cand[n++] = (size_t)rnd();
    if (m->len > 0) {
        cand[n++] = (size_t)rnd() % m->len;
        cand[n++] = (size_t)rnd() % m->len;
    }
    if (deep && m->len <= 12) {
        size_t x;
        for (x = 0; x < m->len; x++) {
            cand[n++] = x;
        }
    }

    for (k = 0; k < n; k++) {
        const size_t idx = cand[k];
        if (idx < m->len) {
            const unsigned char * const p = cstl_array_at_const(o, idx);
            const unsigned char * const q = cstl_array_at(o, idx);
            CHECK(p == q);
            /* inside the buffer, a whole element */
            CHECK(p >= b->base);
            CHECK((size_t)(p - b->base) <= b->bytes);
            CHECK(b->sz <= b->bytes - (size_t)(p - b->base));
            /* the right element */
            CHECK(p == b->base + (m->off + idx) * b->sz);
            if (!b->ext) {
                CHECK(blk_of(p, b->sz) == b->blk);
            }
        } else if (deep) {
            if (k & 1) {
                CHECK(aborts_at(o, idx));
            } else {
                CHECK(aborts_at_mut(o, idx));
            }
        }
    }
}

static void check_all(const int touched1, const int touched2)
{
    int i, b, users[NBUF];

    bury();

    memset(users, 0, sizeof(users));
    for (i = 0; i < NOBJ; i++) {
        if (M[i].buf >= 0) {
            users[M[i].buf]++;
        }
    }
    for (b = 0; b < NBUF; b++) {
        if (B[b].used) {
            CHECK(B[b].rc == users[b] && B[b].rc > 0);
            /* contents are shared by all views and nobody else's */
            CHECK(memcmp(B[b].base, B[b].sh, B[b].bytes) == 0);
        } else {
            CHECK(users[b] == 0);
        }
    }
    for (i = 0; i < NOBJ; i++) {
        check_obj(i, i == touched1 || i == touched2 || (rnd() % 8) == 0);
    }
    ext_guards();
}

/* a new allocated buffer is registered for object i */
static void adopt_own(const int i, const size_t nm, const size_t sz)
{
    cstl_array_t * const o = O[i];
    const int b = new_buf();
    int x;

    B[b].ext = 0;
    B[b].nm = nm;
    B[b].sz = sz;
    B[b].bytes = nm * sz;
    CHECK(B[b].bytes <= EXTSZ);
    B[b].base = cstl_array_data(o);
    CHECK(B[b].base != NULL);
    B[b].blk = blk_of(B[b].base, B[b].bytes);
    CHECK(B[b].blk >= 0);
    /* the elements do not overlap those of any other live array */
    for (x = 0; x < NBUF; x++) {
        if (x != b && B[x].used && B[x].rc > 0
            && B[x].bytes > 0 && B[b].bytes > 0) {
            CHECK(B[b].base + B[b].bytes <= B[x].base
                  || B[x].base + B[x].bytes <= B[b].base);
        }
    }
    memset(B[b].base, 0x11 + b, B[b].bytes);
    memset(B[b].sh, 0x11 + b, B[b].bytes);
    B[b].rc = 1;
    M[i].buf = b;
    M[i].off = 0;
    M[i].len = nm;
}

static void arm(const int fault)
{
    failed = 0;
    inject = fault;
}

static void disarm(void)
{
    inject = -1;
}

/*
 * possible: the request can be satisfied (the bytes are few);
 * otherwise the product is unrepresentable or absurdly large and
 * the object has to end up empty
 */
static void op_alloc(const int i, const size_t nm, const size_t sz,
                     const int possible, const int fault)
{
    cstl_array_t * const o = O[i];

    arm(fault);
    cstl_array_alloc(o, nm, sz);
    disarm();

    detach(i);
    if (!possible || failed) {
        /* a failed allocation leaves the object empty */
        CHECK(cstl_array_size(o) == 0);
        CHECK(cstl_array_data(o) == NULL);
    } else {
        CHECK(cstl_array_size(o) == nm);
        adopt_own(i, nm, sz);
    }
    check_all(i, -1);
}

static int free_slot(void)
{
    int s;
    const int start = (int)(rnd() % NEXT);
    for (s = 0; s < NEXT; s++) {
        const int t = (start + s) % NEXT;
        if (!slot_used[t]) {
            return t;
        }
    }
    return -1;
}

static void op_set(const int i, const int slot,
                   const size_t nm, const size_t sz, const int fault)
{
    cstl_array_t * const o = O[i];
    unsigned char * const p = ext_ptr(slot);

    CHECK(!slot_used[slot]);
    CHECK(sz == 0 || nm <= EXTSZ / sz);

    arm(fault);
    cstl_array_set(o, p, nm, sz);
    disarm();

    detach(i);
    if (failed) {
        CHECK(cstl_array_size(o) == 0);
        CHECK(cstl_array_data(o) == NULL);
    } else {
        const int b = new_buf();
        CHECK(cstl_array_size(o) == nm);
        CHECK(cstl_array_data(o) == p);
        B[b].ext = 1;
        B[b].slot = slot;
        B[b].nm = nm;
        B[b].sz = sz;
        B[b].bytes = nm * sz;
        B[b].base = p;
        memset(p, 0x81 + slot, EXTSZ);
        memset(B[b].sh, 0x81 + slot, EXTSZ);
        B[b].rc = 1;
        slot_used[slot] = 1;
        M[i].buf = b;
        M[i].off = 0;
        M[i].len = nm;
    }
    check_all(i, -1);
}

static void op_slice(const int i, const size_t beg, const size_t end,
                     const int j)
{
    const struct mobj src = M[i];
    int want;

    if (src.buf < 0) {
        want = 1;
    } else {
        const size_t room = B[src.buf].nm - src.off;
        want = (end < beg || end > room);
    }

    CHECK(aborts_slice(O[i], beg, end, O[j]) == want);

    if (!want) {
        B[src.buf].rc++;
        detach(j);
        M[j].buf = src.buf;
        M[j].off = src.off + beg;
        M[j].len = end - beg;
    }
    check_all(i, j);
}

static void op_unslice(const int i, const int j)
{
    const struct mobj src = M[i];
    const int want = (src.buf < 0);

    CHECK(aborts_unslice(O[i], O[j]) == want);

    if (!want) {
        B[src.buf].rc++;
        detach(j);
        M[j].buf = src.buf;
        M[j].off = 0;
        M[j].len = B[src.buf].nm;
    }
    check_all(i, j);
}

static void op_reset(const int i)
{
    cstl_array_reset(O[i]);
    detach(i);
    check_all(i, -1);
}

static void op_release(const int i, const int withptr)
{
    void * got = (void *)&got;
    void * want = NULL;
    const int b = M[i].buf;

    if (b >= 0 && B[b].ext && B[b].rc == 1) {
        want = B[b].base;
    }

    cstl_array_release(O[i], withptr ? &got : NULL);
    if (withptr) {
        CHECK(got == want);
    }
    if (want != NULL) {
        detach(i);
    }
    /* otherwise nothing has changed; check_all() sees to that */
    check_all(i, -1);
}

static void op_write(const int i)
{
    const struct mobj * const m = &M[i];
    if (m->buf >= 0 && m->len > 0 && B[m->buf].sz > 0) {
        struct mbuf * const b = &B[m->buf];
        const size_t idx = (size_t)rnd() % m->len;
        const int v = (int)(rnd() & 0xff);
        unsigned char * const p = cstl_array_at(O[i], idx);
        memset(p, v, b->sz);
        memset(b->sh + (m->off + idx) * b->sz, v, b->sz);
    }
    check_all(i, -1);
}

static void op_reinit(const int i)
{
    if (M[i].buf < 0) {
        cstl_array_init(O[i]);
    }
    check_all(i, -1);
}

static void everything_released(void)
{
    int i;
    for (i = 0; i < NOBJ; i++) {
        op_reset(i);
    }
    for (i = 0; i < NBUF; i++) {
        CHECK(!B[i].used);
    }
    for (i = 0; i < NEXT; i++) {
        CHECK(!slot_used[i]);
    }
    /* whatever was obtained has been returned, once */
    CHECK(nlive == 0);
}

/* ------------------------------------------------------------------ */
/* random histories                                                    */

#define HALFBITS (sizeof(size_t) * 4)

static size_t pick_bound(const int i)
{
    const struct mobj * const m = &M[i];
    const size_t nm = (m->buf >= 0) ? B[m->buf].nm : 0;
    const size_t room = nm - m->off;

    switch (rnd() % 22) {
    case 0: return 0;
    case 1: return 1;
    case 2: return 2;
    case 3: return m->len;
    case 4: return m->len - 1;
    case 5: return m->len + 1;
    case 6: return room;
    case 7: return room - 1;
    case 8: return room + 1;
    case 9: return nm;
    case 10: return nm + 1;
    case 11: return SIZE_MAX;
    case 12: return SIZE_MAX - 1;
    case 13: return SIZE_MAX - m->off;
    case 14: return SIZE_MAX - m->off + 1;
    case 15: return (size_t)0 - m->off;
    case 16: return SIZE_MAX / 2 + 1;
    case 17: return room / 2;
    case 18: return (size_t)rnd() % 8;
    default:
        if (room == SIZE_MAX) {
            return (size_t)rnd();
        }
        return (size_t)rnd() % (room + 1);
    }
}

static void random_alloc(const int i, const int fault)
{
    static const size_t small_nm[] = { 0, 1, 2, 3, 4, 5, 7, 8, 16, 31, 64 };
    static const size_t small_sz[] = { 0, 1, 2, 3, 4, 8, 12, 16, 24 };
    const unsigned r = (unsigned)(rnd() % 20);

    if (r < 13) {
        size_t nm = small_nm[rnd() % (sizeof(small_nm) / sizeof(*small_nm))];
        const size_t sz =
            small_sz[rnd() % (sizeof(small_sz) / sizeof(*small_sz))];
        while (sz > 0 && nm > EXTSZ / sz) {
            nm /= 2;
        }
        op_alloc(i, nm, sz, 1, fault);
    } else if (r < 15) {
        /* elements without size: any count is representable */
        static const size_t big[] = {
            SIZE_MAX, SIZE_MAX - 1, SIZE_MAX / 2 + 1, SIZE_MAX / 2, 1000003
        };
        op_alloc(i, big[rnd() % 5], 0, 1, fault);
    } else {
        const size_t h = (size_t)1 << HALFBITS;
        const size_t t = (size_t)1 << (2 * HALFBITS - 1);
        size_t nm, sz;
        switch (rnd() % 18) {
        case 0: nm = SIZE_MAX; sz = 1; break;
        case 1: nm = SIZE_MAX; sz = 2; break;
        case 2: nm = SIZE_MAX / 2 + 1; sz = 2; break;   /* wraps to 0 */
        case 3: nm = SIZE_MAX / 2; sz = 2; break;       /* SIZE_MAX - 1 */
        case 4: nm = SIZE_MAX / 3 + 1; sz = 3; break;
        case 5: nm = 1; sz = SIZE_MAX; break;
        case 6: nm = 2; sz = SIZE_MAX; break;
        case 7: nm = SIZE_MAX; sz = SIZE_MAX; break;    /* wraps to 1 */
        case 8: nm = SIZE_MAX - 8; sz = 1; break;
        case 9: nm = SIZE_MAX - 64; sz = 1; break;
        case 10: nm = SIZE_MAX / 16; sz = 16; break;
        case 11: nm = h; sz = h; break;                 /* wraps to 0 */
        case 12: nm = t; sz = 2; break;                 /* wraps to 0 */
        case 13: nm = h + 1; sz = h; break;             /* wraps to h */
        case 14: nm = t + 4; sz = 2; break;             /* wraps to 8 */
        case 15: nm = SIZE_MAX / 4 + 2; sz = 4; break;  /* wraps to 4 */
        case 16: nm = t - 1; sz = 1; break;             /* PTRDIFF_MAX */
        default: nm = 3; sz = SIZE_MAX / 3 + 1; break;
        }
        op_alloc(i, nm, sz, 0, fault);
    }
}

static void random_set(const int i, const int fault)
{
    static const size_t szs[] = { 0, 1, 2, 3, 4, 8, 16, 32 };
    const int slot = free_slot();
    size_t sz, nm;

    if (slot < 0) {
        return;
    }
    sz = szs[rnd() % (sizeof(szs) / sizeof(*szs))];
    if (sz == 0) {
        static const size_t nms[] = { 0, 1, 9, SIZE_MAX, SIZE_MAX - 1 };
        nm = nms[rnd() % 5];
    } else {
        nm = (size_t)rnd() % (EXTSZ / sz + 1);
        if (rnd() % 4 == 0) {
            nm = EXTSZ / sz;
        }
    }
    op_set(i, slot, nm, sz, fault);
}

static void random_history(const int steps)
{
    int s;

    for (s = 0; s < steps; s++) {
        const int i = (int)(rnd() % NOBJ);
        const int j = (int)(rnd() % NOBJ);
        const unsigned r = (unsigned)(rnd() % 100);
        const int fault = (rnd() % 5 == 0) ? (int)(rnd() % 3) : -1;

        if (r < 14) {
            random_alloc(i, fault);
        } else if (r < 24) {
            random_set(i, fault);
        } else if (r < 60) {
            size_t beg = pick_bound(i), end = pick_bound(i);
            if (rnd() % 2 == 0 && end < beg) {
                const size_t t = beg;
                beg = end;
                end = t;
            }
            op_slice(i, beg, end, (rnd() % 3 == 0) ? i : j);
        } else if (r < 70) {
            op_unslice(i, (rnd() % 3 == 0) ? i : j);
        } else if (r < 78) {
            op_reset(i);
        } else if (r < 88) {
            op_release(i, (int)(rnd() % 4 != 0));
        } else if (r < 98) {
            op_write(i);
        } else {
            op_reinit(i);
        }
    }
    everything_released();
}

/* ------------------------------------------------------------------ */
/* directed histories                                                  */

static void exhaustive_small(void)
{
    size_t nm, off, beg, end;
    int ext;

    for (ext = 0; ext < 2; ext++) {
        for (nm = 0; nm <= 4; nm++) {
            for (off = 0; off <= nm; off++) {
                for (beg = 0; beg <= nm + 2; beg++) {
                    for (end = 0; end <= nm + 2; end++) {
                        if (ext) {
                            op_set(0, 1, nm, 4, -1);
                        } else {
                            op_alloc(0, nm, 4, 1, -1);
                        }
                        /* a view with an offset, made in place */
                        op_slice(0, off, nm, 0);
                        CHECK(M[0].off == off);
                        /* out of it, into another and in place */
                        op_slice(0, beg, end, 1);
                        op_slice(0, end, beg, 2);
                        op_slice(0, beg, SIZE_MAX - off + end, 3);
                        op_slice(0, beg, end, 0);
                        op_slice(0, SIZE_MAX - beg, SIZE_MAX - end, 4);
                        op_unslice(1, 1);
                        op_release(0, 1);
                        op_reset(0);
                        op_release(1, 1);
                        op_release(2, 0);
                        op_reset(1);
                        op_reset(2);
                        op_reset(3);
                        op_reset(4);
                    }
                }
            }
        }
    }
    everything_released();
}

static void directed(void)
{
    int f;

    /* re-allocating an object that is a slice with a non-zero offset */
    op_alloc(0, 10, 8, 1, -1);
    op_slice(0, 7, 10, 0);
    op_alloc(0, 3, 8, 1, -1);          /* same number of elements */
    op_slice(0, 1, 3, 1);
    op_slice(0, 2, 3, 0);
    op_alloc(0, 1, 8, 1, -1);
    op_slice(0, 0, 1, 2);
    op_slice(0, 1, 1, 0);
    op_alloc(0, 10, 8, 1, -1);         /* same bytes as the first one */
    op_slice(0, 10, 10, 0);
    op_alloc(0, 20, 4, 1, -1);         /* same bytes, other shape */
    op_slice(0, 19, 20, 0);
    op_alloc(0, 20, 4, 1, -1);
    op_write(0);
    op_slice(0, 5, 20, 0);
    op_alloc(0, 20, 4, 1, -1);
    op_slice(0, 15, 20, 3);
    op_alloc(0, 20, 4, 1, -1);         /* now shared: 3 keeps the old one */
    op_write(3);
    op_write(0);
    op_reset(3);
    op_alloc(0, 20, 4, 1, -1);
    op_alloc(0, 0, 4, 1, -1);
    op_alloc(0, 0, 4, 1, -1);
    op_alloc(0, 0, 0, 1, -1);
    op_alloc(0, 5, 0, 1, -1);
    op_slice(0, 4, 5, 0);
    op_alloc(0, SIZE_MAX, 0, 1, -1);
    op_slice(0, SIZE_MAX - 1, SIZE_MAX, 0);
    op_slice(0, 1, 1, 4);
    op_slice(0, 1, 2, 4);              /* aborts */
    op_slice(0, 0, 1, 4);
    op_alloc(0, SIZE_MAX, 0, 1, -1);
    op_slice(0, SIZE_MAX, SIZE_MAX, 0);
    op_slice(0, 0, 0, 4);
    op_slice(0, 0, 1, 4);              /* aborts */
    op_unslice(0, 4);
    op_alloc(0, 2, 1, 1, -1);

    /* re-targeting a slice with a non-zero offset */
    op_slice(0, 1, 2, 0);
    op_set(0, 0, 8, 4, -1);
    op_slice(0, 6, 8, 0);
    op_set(0, 1, 2, 4, -1);            /* slot 0 is dropped, not freed */
    op_slice(0, 1, 2, 5);
    op_slice(0, 2, 2, 0);
    op_release(0, 1);                  /* shared: NULL, nothing changes */
    op_release(5, 1);
    op_set(0, 0, 2, 4, -1);            /* 5 keeps slot 1 alive */
    op_release(5, 1);                  /* sole user now: handed back */
    op_release(5, 1);                  /* empty: NULL */
    op_release(0, 0);                  /* handed back to nobody */
    op_release(0, 1);

    /* release never hands out allocated memory */
    op_alloc(1, 4, 4, 1, -1);
    op_release(1, 1);
    op_slice(1, 1, 3, 2);
    op_release(2, 1);
    op_release(1, 0);
    op_reset(1);
    op_release(2, 1);

    /* failing allocations at every point, on views of every kind */
    for (f = 0; f < 4; f++) {
        op_alloc(0, 6, 4, 1, -1);
        op_slice(0, 2, 6, 0);
        op_alloc(0, 4, 4, 1, f);
        op_alloc(0, 6, 4, 1, -1);
        op_slice(0, 2, 6, 0);
        op_alloc(0, 6, 4, 1, f);       /* same shape as before */
        op_alloc(0, 6, 4, 1, -1);
        op_slice(0, 1, 6, 1);
        op_alloc(0, 6, 4, 1, f);       /* shared */
        op_write(1);
        op_set(1, 2, 6, 4, f);
        op_slice(1, 0, 0, 2);
        op_set(2, 3, 6, 4, f);
        op_reset(2);
        op_set(2, 3, 6, 4, f);
        op_alloc(2, 6, 4, 1, f);
        op_alloc(3, SIZE_MAX / 2, 2, 0, f);
        op_reset(0);
        op_reset(1);
        op_reset(2);
    }

    everything_released();
}

int main(void)
{
    struct sigaction sa;
    struct rlimit rl;
    int h, w;

    rl.rlim_cur = rl.rlim_max = 0;
    (void)setrlimit(RLIMIT_CORE, &rl);

    for (w = 0; w <= 8; w++) {
        forked(w, 1);
    }
    for (w = 100; w <= 103; w++) {
        forked(w, 0);
    }

    memset(&sa, 0, sizeof(sa));
    sa.sa_handler = on_abrt;
    sigemptyset(&sa.sa_mask);
    CHECK(sigaction(SIGABRT, &sa, NULL) == 0);

    memset(extmem, 0x5c, sizeof(extmem));
    O[0] = &g0;
    O[1] = &dyn.a[0];
    O[2] = &g1;
    O[3] = &dyn.a[1];
    O[4] = &g2;
    O[5] = &dyn.a[2];
    memset(&dyn, 0xee, sizeof(dyn));
    cstl_array_init(&dyn.a[0]);
    cstl_array_init(&dyn.a[1]);
    cstl_array_init(&dyn.a[2]);
    for (h = 0; h < NOBJ; h++) {
        M[h].buf = -1;
    }
    CHECK(nlive == 0);
    check_all(-1, -1);

    directed();
    exhaustive_small();
    for (h = 0; h < 300; h++) {
        random_history(40 + (int)(rnd() % 400));
    }

    CHECK(nlive == 0 && n_malloc > 0 && n_free > 0);
    printf("C14 ok: %ld allocations requested, %ld blocks freed\n",
           n_malloc, n_free);
    return 0;
}
