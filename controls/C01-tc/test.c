/*
 * C01: ordered trees hold exactly the inserted-minus-erased multiset,
 * in order.
 *
 * Standalone test, public API only (cstl/bintree.h, cstl/rbtree.h).
 * Nothing in here looks at a private member of a tree or of a node,
 * and nothing assumes a particular shape, which of several equal
 * elements is found/erased, how many comparisons are made, or what
 * the library leaves in the node of an element that is not in a tree.
 */

#include "cstl/bintree.h"
#include "cstl/rbtree.h"

#include <stdio.h>
#include <stdlib.h>
#include <string.h>
#include <limits.h>

#define CHECK(C)                                                        \
    do {                                                                \
        if (!(C)) {                                                     \
            fprintf(stderr, "%s:%d: check failed: %s [%s]\n",           \
                    __FILE__, __LINE__, #C, g_phase);                   \
            exit(1);                                                    \
        }                                                               \
    } while (0)

static const char * g_phase = "start";

/* ------------------------------------------------------------------ */
/* deterministic random numbers                                        */

static unsigned long long g_rng = 88172645463325252ULL;

static unsigned int rnd(void)
{
    g_rng ^= g_rng << 13;
    g_rng ^= g_rng >> 7;
    g_rng ^= g_rng << 17;
    return (unsigned int)(g_rng >> 16);
}

/* ------------------------------------------------------------------ */
/* a second, unrelated pair of containers poked from inside callbacks  */

struct side
{
    struct cstl_rbtree_node n;
    double k;
    struct cstl_bintree_node b;
};

static int side_cmp(const void * const a, const void * const b,
                    void * const p)
{
    const struct side * const x = a, * const y = b;
    (void)p;
    return (x->k > y->k) - (x->k < y->k);
}

static DECLARE_CSTL_RBTREE(g_side_rb, struct side, n, side_cmp, NULL);
static DECLARE_CSTL_BINTREE(g_side_bt, struct side, b, side_cmp, NULL);
static struct side g_side_pool[16];
static unsigned int g_side_next;
static int g_poke;

static void side_poke(void)
{
    struct side * const s = &g_side_pool[g_side_next % 16];
    struct side probe;

    if (g_side_next >= 16) {
        /* the slot is still in both side trees: take it out first */
        probe.k = s->k;
        CHECK(cstl_rbtree_erase(&g_side_rb, &probe) != NULL);
        CHECK(cstl_bintree_erase(&g_side_bt, &probe) != NULL);
    }
    s->k = (double)((g_side_next * 7u) % 16u) + 0.5;
    /* k values of the 16 live slots are a permutation: no duplicates */
    cstl_rbtree_insert(&g_side_rb, s, NULL);
    cstl_bintree_insert(&g_side_bt, s, NULL);
    g_side_next++;

    probe.k = s->k;
    CHECK(cstl_rbtree_find(&g_side_rb, &probe, NULL) == s);
    CHECK(cstl_bintree_find(&g_side_bt, &probe, NULL) == s);
    CHECK(cstl_rbtree_size(&g_side_rb) == cstl_bintree_size(&g_side_bt));
    CHECK(cstl_rbtree_size(&g_side_rb) <= 16);
}

/* ------------------------------------------------------------------ */
/* the element type of the trees under test                            */

struct elem
{
    long guard0;
    int key;
    int id;
    struct cstl_bintree_node bn;    /* anchor for plain trees */
    char c;
    struct cstl_rbtree_node rn;     /* anchor for red-black trees */
    struct cstl_bintree_node gn;    /* anchor for the "graveyard" */
    /* test bookkeeping; never looked at by a comparison */
    int held;                       /* id of the tree holding it, or 0 */
    int pre, mid, post, leaf, clr;
    long guard1;
};

#define GUARD0  0x5a5a1234L
#define GUARD1  0x0badcafeL

struct cmpctx
{
    unsigned long calls;
    int desc;
    int poke;
};

static int key_cmp(const struct cmpctx * const cx, const int a, const int b)
{
    const int r = (a > b) - (a < b);
    return cx->desc ? -r : r;
}

static int elem_cmp(const void * const a, const void * const b,
                    void * const p)
{
    struct cmpctx * const cx = p;
    const struct elem * const x = a, * const y = b;
    int r;

    CHECK(cx != NULL);
    cx->calls++;
    if (cx->poke && (cx->calls & 7) == 0) {
        side_poke();
    }
    r = key_cmp(cx, x->key, y->key);
    /* only the sign of the result means anything */
    if (r < 0) {
        return -7 - (int)(cx->calls & 3);
    } else if (r > 0) {
        return 1000 + (int)(cx->calls & 1);
    }
    return 0;
}

enum kind { K_BIN, K_RB };

#define MAXHELD 1024

struct tree
{
    enum kind kind;
    int id;
    struct cstl_bintree * bt;
    struct cstl_rbtree * rt;
    struct cmpctx * cx;

    /* the model: the multiset of elements held */
    struct elem * held[MAXHELD];
    size_t n;
};

static size_t T_size(const struct tree * const t)
{
    return t->kind == K_BIN
        ? cstl_bintree_size(t->bt) : cstl_rbtree_size(t->rt);
}

static void T_insert(struct tree * const t,
                     struct elem * const e, void * const par)
{
    if (t->kind == K_BIN) {
        cstl_bintree_insert(t->bt, e, par);
    } else {
        cstl_rbtree_insert(t->rt, e, par);
    }
}

static const void * T_find(const struct tree * const t,
                           const struct elem * const probe,
                           const void ** const par)
{
    return t->kind == K_BIN
        ? cstl_bintree_find(t->bt, probe, par)
        : cstl_rbtree_find(t->rt, probe, par);
}

static void * T_erase(struct tree * const t, const struct elem * const probe)
{
    return t->kind == K_BIN
        ? cstl_bintree_erase(t->bt, probe)
        : cstl_rbtree_erase(t->rt, probe);
}

static void T_clear(struct tree * const t,
                    cstl_xtor_func_t * const clr, void * const priv)
{
    if (t->kind == K_BIN) {
        cstl_bintree_clear(t->bt, clr, priv);
    } else {
        cstl_rbtree_clear(t->rt, clr, priv);
    }
}

static int T_foreach(const struct tree * const t,
                     cstl_bintree_const_visit_func_t * const visit,
                     void * const priv,
                     const cstl_bintree_foreach_dir_t dir)
{
    return t->kind == K_BIN
        ? cstl_bintree_foreach(t->bt, visit, priv, dir)
        : cstl_rbtree_foreach(t->rt, visit, priv, dir);
}

static void T_height(const struct tree * const t,
                     size_t * const min, size_t * const max)
{
    if (t->kind == K_BIN) {
        cstl_bintree_height(t->bt, min, max);
    } else {
        cstl_rbtree_height(t->rt, min, max);
    }
}

/* ------------------------------------------------------------------ */
/* model                                                               */

static size_t model_count(const struct tree * const t, const int key)
{
    size_t i, c = 0;
    for (i = 0; i < t->n; i++) {
        if (t->held[i]->key == key) {
            c++;
        }
    }
    return c;
}

static void model_add(struct tree * const t, struct elem * const e)
{
    CHECK(t->n < MAXHELD);
    CHECK(e->held == 0);
    e->held = t->id;
    t->held[t->n++] = e;
}

static void model_del(struct tree * const t, struct elem * const e)
{
    size_t i;
    CHECK(e->held == t->id);
    for (i = 0; i < t->n && t->held[i] != e; i++)
        ;
    CHECK(i < t->n);
    t->held[i] = t->held[--t->n];
    e->held = 0;
}

static void elem_ok(const struct elem * const e)
{
    CHECK(e->guard0 == GUARD0 && e->guard1 == GUARD1);
}

/* ------------------------------------------------------------------ */
/* traversal checking                                                  */

struct walk
{
    const struct tree * t;
    cstl_bintree_foreach_dir_t dir;
    size_t visits, inorder;
    int have_last, last;
    size_t stop_at;
    int stop_val;
    void * self;
};

static int walk_visit(const void * const v,
                      const cstl_bintree_visit_order_t ord,
                      void * const p)
{
    struct walk * const w = p;
    /* the elements are not const objects; the flags are ours */
    struct elem * const e = (struct elem *)v;
    int inorder = 0;

    CHECK(w->self == w);
    CHECK(e != NULL);
    elem_ok(e);
    CHECK(e->held == w->t->id);
    CHECK(w->stop_at == 0 || w->visits < w->stop_at);
    w->visits++;

    switch (ord) {
    case CSTL_BINTREE_VISIT_ORDER_PRE:
        CHECK(!e->pre && !e->mid && !e->post && !e->leaf);
        e->pre = 1;
        break;
    case CSTL_BINTREE_VISIT_ORDER_MID:
        CHECK(e->pre && !e->mid && !e->post && !e->leaf);
        e->mid = 1;
        inorder = 1;
        break;
    case CSTL_BINTREE_VISIT_ORDER_POST:
        CHECK(e->pre && e->mid && !e->post && !e->leaf);
        e->post = 1;
        break;
    case CSTL_BINTREE_VISIT_ORDER_LEAF:
        CHECK(!e->pre && !e->mid && !e->post && !e->leaf);
        e->leaf = 1;
        inorder = 1;
        break;
    default:
        CHECK(0);
    }

    if (inorder) {
        if (w->have_last) {
            const int c = key_cmp(w->t->cx, w->last, e->key);
            if (w->dir == CSTL_BINTREE_FOREACH_DIR_FWD) {
                CHECK(c <= 0);
            } else {
                CHECK(c >= 0);
            }
        }
        w->have_last = 1;
        w->last = e->key;
        w->inorder++;
        if (g_poke) {
            side_poke();
        }
    }

    if (w->stop_at != 0 && w->visits == w->stop_at) {
        return w->stop_val;
    }
    return 0;
}

static void reset_flags(const struct tree * const t)
{
    size_t i;
    for (i = 0; i < t->n; i++) {
        struct elem * const e = t->held[i];
        e->pre = e->mid = e->post = e->leaf = 0;
    }
}

/* a complete walk; returns the number of visits made */
static size_t check_walk(const struct tree * const t,
                         const cstl_bintree_foreach_dir_t dir)
{
    struct walk w;
    size_t i, leaves = 0, inner = 0;

    memset(&w, 0, sizeof(w));
    w.t = t;
    w.dir = dir;
    w.self = &w;

    reset_flags(t);
    CHECK(T_foreach(t, walk_visit, &w, dir) == 0);

    CHECK(w.inorder == t->n);
    for (i = 0; i < t->n; i++) {
        const struct elem * const e = t->held[i];
        if (e->leaf) {
            CHECK(!e->pre && !e->mid && !e->post);
            leaves++;
        } else {
            CHECK(e->pre && e->mid && e->post);
            inner++;
        }
    }
    CHECK(w.visits == leaves + 3 * inner);
    if (t->n > 0) {
        CHECK(leaves >= 1);
    }
    return w.visits;
}

static void check_stop(const struct tree * const t,
                       const cstl_bintree_foreach_dir_t dir,
                       const size_t k, const int val)
{
    struct walk w;

    memset(&w, 0, sizeof(w));
    w.t = t;
    w.dir = dir;
    w.self = &w;
    w.stop_at = k;
    w.stop_val = val;

    reset_flags(t);
    CHECK(T_foreach(t, walk_visit, &w, dir) == val);
    CHECK(w.visits == k);
}

static const int stop_vals[] = { 1, -1, 42, INT_MAX, INT_MIN, -1000, 2 };

/*
 * mode 0: walks only
 * mode 1: plus finds of the given keys and one early stop per direction
 * mode 2: plus an early stop at every possible visit
 */
static void full_check(struct tree * const t, const int mode,
                       const int * const keys, const size_t nkeys,
                       const unsigned long salt)
{
    size_t vf, vr, i, min, max;

    CHECK(T_size(t) == t->n);

    vf = check_walk(t, CSTL_BINTREE_FOREACH_DIR_FWD);
    vr = check_walk(t, CSTL_BINTREE_FOREACH_DIR_REV);
    CHECK(vf == vr);

    T_height(t, &min, &max);
    if (t->n == 0) {
        CHECK(vf == 0);
        CHECK(min == 0 && max == 0);
    } else {
        CHECK(min <= max && max <= t->n);
    }

    if (mode >= 1) {
        for (i = 0; i < nkeys; i++) {
            struct elem probe;
            const struct elem * f;
            const void * par = &probe;

            memset(&probe, 0x5c, sizeof(probe));
            probe.key = keys[i];
            f = T_find(t, &probe, &par);
            if (model_count(t, keys[i]) > 0) {
                CHECK(f != NULL && f != &probe);
                elem_ok(f);
                CHECK(f->held == t->id && f->key == keys[i]);
                CHECK(T_find(t, &probe, NULL) != NULL);
                /* an element of the tree finds itself or an equal */
                CHECK(T_find(t, f, NULL) != NULL);
            } else {
                CHECK(f == NULL);
                CHECK(T_find(t, &probe, NULL) == NULL);
                if (t->n > 0) {
                    CHECK(par != NULL);
                }
            }
            CHECK(par != &probe);
            if (par != NULL) {
                CHECK(t->n > 0);
                elem_ok(par);
                CHECK(((const struct elem *)par)->held == t->id);
            }
            if (t->n == 0 || (t->n == 1 && f != NULL)) {
                /* nothing there, or the only element: no parent */
                CHECK(par == NULL);
            }
        }
        CHECK(T_size(t) == t->n);

        if (vf > 0) {
            if (mode >= 2) {
                size_t k;
                for (k = 1; k <= vf; k++) {
                    check_stop(t, CSTL_BINTREE_FOREACH_DIR_FWD, k,
                               stop_vals[(k + salt) % 7]);
                    check_stop(t, CSTL_BINTREE_FOREACH_DIR_REV, k,
                               stop_vals[(k + salt + 3) % 7]);
                }
            } else {
                check_stop(t, CSTL_BINTREE_FOREACH_DIR_FWD,
                           1 + salt % vf, stop_vals[salt % 7]);
                check_stop(t, CSTL_BINTREE_FOREACH_DIR_REV,
                           1 + (salt / 7) % vf, stop_vals[(salt + 3) % 7]);
            }
        }
    }
}

/* ------------------------------------------------------------------ */
/* operations, each checked against the model                          */

static void op_insert(struct tree * const t, struct elem * const e,
                      const int hinted)
{
    void * hint = NULL;

    elem_ok(e);
    if (hinted) {
        const void * par = e;
        const struct elem * f;

        if (hinted == 2) {
            /* the hint comes from a find with a separate, equal probe */
            struct elem probe;
            memset(&probe, 0x3d, sizeof(probe));
            probe.key = e->key;
            f = T_find(t, &probe, &par);
        } else {
            f = T_find(t, e, &par);
        }
        if (model_count(t, e->key) > 0) {
            CHECK(f != NULL && f->held == t->id && f->key == e->key);
        } else {
            CHECK(f == NULL);
        }
        CHECK(par != e);
        hint = (void *)par;
    }
    T_insert(t, e, hint);
    model_add(t, e);
    CHECK(T_size(t) == t->n);
    elem_ok(e);
}

static struct elem * op_erase(struct tree * const t, const int key)
{
    struct elem probe;
    struct elem * r;
    const size_t c = model_count(t, key);

    memset(&probe, 0x71, sizeof(probe));
    probe.key = key;
    r = T_erase(t, &probe);
    if (c == 0) {
        CHECK(r == NULL);
    } else {
        CHECK(r != NULL && r != &probe);
        elem_ok(r);
        CHECK(r->held == t->id);
        CHECK(r->key == key);
        model_del(t, r);
        CHECK(model_count(t, key) == c - 1);
    }
    CHECK(T_size(t) == t->n);
    return r;
}

/* erase using an element of the tree itself as the probe */
static struct elem * op_erase_self(struct tree * const t, const size_t i)
{
    struct elem * const probe = t->held[i];
    const int key = probe->key;
    struct elem * const r = T_erase(t, probe);

    CHECK(r != NULL);
    elem_ok(r);
    CHECK(r->held == t->id && r->key == key);
    model_del(t, r);
    CHECK(T_size(t) == t->n);
    return r;
}

static struct cstl_bintree g_grave;
static struct cmpctx g_grave_cx;

static int grave_cmp(const void * const a, const void * const b,
                     void * const p)
{
    const struct elem * const x = a, * const y = b;
    CHECK(p == &g_grave_cx);
    return (x->id > y->id) - (x->id < y->id);
}

struct clrctx
{
    struct tree * t;
    size_t calls;
    int bury;
};

static void clr_count(void * const v, void * const p)
{
    struct clrctx * const cc = p;
    struct elem * const e = v;

    elem_ok(e);
    CHECK(e->held == cc->t->id);
    CHECK(e->clr == 0);
    e->clr = 1;
    cc->calls++;
    if (cc->bury) {
        /* the callback uses another container (and another anchor) */
        cstl_bintree_insert(&g_grave, e, NULL);
    }
    if (g_poke) {
        side_poke();
    }
}

static void grave_free(void * const v, void * const p)
{
    struct elem * const e = v;
    CHECK(p == NULL);
    CHECK(e->clr == 1);
    e->clr = 2;
}

static void op_clear(struct tree * const t, const int bury)
{
    struct clrctx cc;
    size_t i;
    const size_t n = t->n;

    cc.t = t;
    cc.calls = 0;
    cc.bury = bury;
    for (i = 0; i < n; i++) {
        t->held[i]->clr = 0;
    }
    if (bury) {
        cstl_bintree_init(&g_grave, grave_cmp, &g_grave_cx,
                          offsetof(struct elem, gn));
    }
    T_clear(t, clr_count, &cc);
    CHECK(cc.calls == n);
    CHECK(T_size(t) == 0);
    if (bury) {
        CHECK(cstl_bintree_size(&g_grave) == n);
        cstl_bintree_clear(&g_grave, grave_free, NULL);
        CHECK(cstl_bintree_size(&g_grave) == 0);
    }
    for (i = 0; i < n; i++) {
        CHECK(t->held[i]->clr == (bury ? 2 : 1));
        t->held[i]->clr = 0;
        t->held[i]->held = 0;
    }
    t->n = 0;
}

/* ------------------------------------------------------------------ */
/* tree objects: some made by the static initialisers, some by init()  */

static struct cmpctx g_cx_asc = { 0, 0, 0 };
static struct cmpctx g_cx_desc = { 0, 1, 0 };
static struct cmpctx g_cx_poke = { 0, 0, 1 };

static DECLARE_CSTL_BINTREE(g_sbt, struct elem, bn, elem_cmp, &g_cx_asc);
static DECLARE_CSTL_RBTREE(g_srt, struct elem, rn, elem_cmp, &g_cx_asc);
static struct cstl_bintree g_sbt_desc =
    CSTL_BINTREE_INITIALIZER(struct elem, bn, elem_cmp, &g_cx_desc);
static struct cstl_rbtree g_srt_desc =
    CSTL_RBTREE_INITIALIZER(struct elem, rn, elem_cmp, &g_cx_desc);

static struct cstl_bintree g_ibt;
static struct cstl_rbtree g_irt;

static int g_next_id = 1;

/* the tree must be empty when this is called on a static one */
static void tree_setup(struct tree * const t, const enum kind kind,
                       const int use_static, struct cmpctx * const cx)
{
    t->kind = kind;
    t->id = g_next_id++;
    if (g_next_id > 1000000) {
        g_next_id = 1;
    }
    t->n = 0;
    t->cx = cx;
    t->bt = NULL;
    t->rt = NULL;
    if (use_static) {
        CHECK(cx == &g_cx_asc || cx == &g_cx_desc);
        if (kind == K_BIN) {
            t->bt = cx->desc ? &g_sbt_desc : &g_sbt;
        } else {
            t->rt = cx->desc ? &g_srt_desc : &g_srt;
        }
        CHECK(T_size(t) == 0);
    } else if (kind == K_BIN) {
        t->bt = &g_ibt;
        cstl_bintree_init(t->bt, elem_cmp, cx, offsetof(struct elem, bn));
    } else {
        t->rt = &g_irt;
        cstl_rbtree_init(t->rt, elem_cmp, cx, offsetof(struct elem, rn));
    }
}

static void elem_init(struct elem * const e, const int key, const int id)
{
    memset(e, 0xa5, sizeof(*e));
    e->guard0 = GUARD0;
    e->guard1 = GUARD1;
    e->key = key;
    e->id = id;
    e->held = 0;
    e->pre = e->mid = e->post = e->leaf = e->clr = 0;
}

static struct tree g_t, g_u;
static struct elem g_pool[MAXHELD];

/* ------------------------------------------------------------------ */
/* phase 1: every operation sequence within a small scope              */

#define XKEYS 3
#define XOPS (3 * XKEYS + 1)

static unsigned long run_sequence(const enum kind kind,
                                  const int * const ops, const int len,
                                  const unsigned long seqno)
{
    static const int keys[XKEYS + 2] = { 0, 1, 2, -1, 3 };
    struct tree * const t = &g_t;
    const int use_static = (int)(seqno & 1);
    int i, used = 0;

    tree_setup(t, kind, use_static,
               (seqno & 2) && !use_static ? &g_cx_poke
               : ((seqno & 4) ? &g_cx_desc : &g_cx_asc));

    for (i = 0; i < len; i++) {
        const int op = ops[i];
        if (op < 2 * XKEYS) {
            struct elem * const e = &g_pool[used++];
            elem_init(e, op % XKEYS, used);
            op_insert(t, e, op < XKEYS ? 0 : 1 + (int)((seqno >> 3) & 1));
        } else if (op < 3 * XKEYS) {
            (void)op_erase(t, op % XKEYS);
        } else {
            op_clear(t, (int)((seqno >> 4) & 1));
        }
    }

    full_check(t, 1, keys, XKEYS + 2, seqno);

    /* leave static trees empty for the next sequence */
    if (use_static) {
        op_clear(t, 0);
    }
    return 1;
}

static void phase_exhaustive(const int maxlen)
{
    int ops[16];
    int len, k, i;
    unsigned long seqno = 0;

    g_phase = "exhaustive";
    for (k = 0; k < 2; k++) {
        for (len = 0; len <= maxlen; len++) {
            for (i = 0; i < len; i++) {
                ops[i] = 0;
            }
            for (;;) {
                run_sequence(k == 0 ? K_BIN : K_RB, ops, len, seqno++);
                for (i = len - 1; i >= 0; i--) {
                    if (++ops[i] < XOPS) {
                        break;
                    }
                    ops[i] = 0;
                }
                if (i < 0) {
                    break;
                }
            }
        }
    }
}

/* ------------------------------------------------------------------ */
/* phase 2: every insertion order x every erase order of 6 elements    */

static int next_perm(int * const a, const int n)
{
    int i = n - 2, j = n - 1, t;

    while (i >= 0 && a[i] >= a[i + 1]) {
        i--;
    }
    if (i < 0) {
        return 0;
    }
    while (a[j] <= a[i]) {
        j--;
    }
    t = a[i]; a[i] = a[j]; a[j] = t;
    for (i = i + 1, j = n - 1; i < j; i++, j--) {
        t = a[i]; a[i] = a[j]; a[j] = t;
    }
    return 1;
}

#define PN 6

static void phase_perms(const int * const keyset, const int heavy)
{
    static const int probes[] = { -1, 0, 1, 2, 3, 4, 5, 6 };
    int ins[PN], ers[PN];
    int k, i;
    unsigned long no = 0;

    g_phase = "permutations";
    for (k = 0; k < 2; k++) {
        for (i = 0; i < PN; i++) {
            ins[i] = i;
        }
        do {
            for (i = 0; i < PN; i++) {
                ers[i] = i;
            }
            do {
                struct tree * const t = &g_t;

                no++;
                tree_setup(t, k == 0 ? K_BIN : K_RB, 0,
                           (no & 8) ? &g_cx_desc : &g_cx_asc);
                for (i = 0; i < PN; i++) {
                    struct elem * const e = &g_pool[i];
                    elem_init(e, keyset[ins[i]], i + 1);
                    op_insert(t, e, (int)((no >> i) & 1));
                }
                if (heavy) {
                    full_check(t, 0, NULL, 0, no);
                }
                for (i = 0; i < PN; i++) {
                    /* ers[] indexes the key set: erase by key */
                    (void)op_erase(t, keyset[ers[i]]);
                    full_check(t, heavy && i == 2 ? 1 : 0, probes, 8, no);
                }
                CHECK(t->n == 0);
            } while (next_perm(ers, PN));
        } while (next_perm(ins, PN));
    }
}

/* every insertion order of 7 distinct keys, then every single victim */
static void phase_victims(void)
{
    static const int probes[] = { -1, 0, 1, 2, 3, 4, 5, 6, 7 };
    int ins[7];
    int k, i, v;
    unsigned long no = 0;

    g_phase = "victims";
    for (k = 0; k < 2; k++) {
        for (i = 0; i < 7; i++) {
            ins[i] = i;
        }
        do {
            for (v = 0; v < 7; v++) {
                struct tree * const t = &g_t;

                no++;
                tree_setup(t, k == 0 ? K_BIN : K_RB, 0, &g_cx_asc);
                for (i = 0; i < 7; i++) {
                    struct elem * const e = &g_pool[i];
                    elem_init(e, ins[i], i + 1);
                    op_insert(t, e, (int)((no >> i) & 1) * (1 + (i & 1)));
                }
                /* the keys are distinct: it can only be that one */
                for (i = 0; ins[i] != v; i++)
                    ;
                CHECK(op_erase(t, v) == &g_pool[i]);
                full_check(t, 2, probes, 9, no);
                /* put an equal one back, and one more */
                elem_init(&g_pool[7], v, 8);
                op_insert(t, &g_pool[7], 1);
                elem_init(&g_pool[8], v, 9);
                op_insert(t, &g_pool[8], 0);
                full_check(t, 1, probes, 9, no);
                (void)op_erase(t, v);
                (void)op_erase(t, v);
                CHECK(op_erase(t, v) == NULL);
                full_check(t, 0, NULL, 0, no);
            }
        } while (next_perm(ins, 7));
    }
}

/* ------------------------------------------------------------------ */
/* phase 3: long random histories                                      */

static int pick_key(const int range)
{
    if (range > 0) {
        return (int)(rnd() % (unsigned int)range) - range / 2;
    } else {
        /* the whole range of int, the ends included */
        switch (rnd() % 8) {
        case 0: return INT_MIN;
        case 1: return INT_MAX;
        case 2: return INT_MIN + (int)(rnd() % 3);
        case 3: return INT_MAX - (int)(rnd() % 3);
        case 4: return (int)(rnd() % 5) - 2;
        default: return (int)(rnd() ^ (rnd() << 16));
        }
    }
}

static struct elem * pool_get(size_t * const cursor)
{
    size_t i;
    for (i = 0; i < MAXHELD; i++) {
        struct elem * const e = &g_pool[(*cursor + i) % MAXHELD];
        if (e->held == 0) {
            *cursor = (*cursor + i + 1) % MAXHELD;
            return e;
        }
    }
    CHECK(0);
    return NULL;
}

static void phase_random(const enum kind kind, const int range,
                         const size_t maxlive, const unsigned long nops,
                         struct cmpctx * const cx, const int use_static,
                         const unsigned long long seed)
{
    struct tree * const t = &g_t;
    size_t cursor = 0, i;
    unsigned long op;
    int grow = 1;

    g_phase = "random";
    g_rng = seed;
    CHECK(maxlive < MAXHELD);
    tree_setup(t, kind, use_static, cx);
    for (i = 0; i < MAXHELD; i++) {
        elem_init(&g_pool[i], 0, (int)i);
    }

    for (op = 0; op < nops; op++) {
        const unsigned int r = rnd() % 100;

        /* drift between filling up and draining */
        if (t->n >= maxlive) {
            grow = 0;
        } else if (t->n == 0) {
            grow = 1;
        }
        if (grow ? r < 60 : r < 30) {
            if (t->n < maxlive) {
                struct elem * const e = pool_get(&cursor);
                int key = pick_key(range);
                if (t->n > 0 && rnd() % 4 == 0) {
                    /* deliberately a duplicate */
                    key = t->held[rnd() % t->n]->key;
                }
                elem_init(e, key, (int)op);
                op_insert(t, e, (int)(rnd() % 3));
            }
        } else if (r < 90) {
            if (t->n > 0 && rnd() % 4 != 0) {
                const size_t n = t->n;
                if (rnd() % 2) {
                    CHECK(op_erase_self(t, rnd() % t->n) != NULL);
                } else {
                    CHECK(op_erase(t, t->held[rnd() % t->n]->key) != NULL);
                }
                CHECK(t->n == n - 1);
            } else {
                (void)op_erase(t, pick_key(range));
            }
        } else if (r < 98) {
            int keys[4];
            keys[0] = pick_key(range);
            keys[1] = t->n > 0 ? t->held[rnd() % t->n]->key : 0;
            keys[2] = INT_MIN;
            keys[3] = INT_MAX;
            full_check(t, 1, keys, 4, op);
        } else if (r < 99 && (op & 3) == 0) {
            op_clear(t, (int)(rnd() % 2));
        } else {
            full_check(t, t->n < 24 ? 2 : 0, NULL, 0, op);
        }
    }

    {
        int keys[2];
        keys[0] = 0;
        keys[1] = t->n > 0 ? t->held[0]->key : 1;
        full_check(t, 1, keys, 2, op);
    }
    /* drain by erasing */
    while (t->n > 0) {
        (void)op_erase(t, t->held[0]->key);
        if ((t->n & 15) == 0) {
            full_check(t, 0, NULL, 0, t->n);
        }
    }
    full_check(t, 1, NULL, 0, 0);
    if (use_static) {
        op_clear(t, 0);
    }
}

/* ------------------------------------------------------------------ */
/* phase 4: boundaries and several objects at once                     */

struct named
{
    struct cstl_bintree_node bn;    /* anchor first: offset 0 */
    const char * name;
    struct cstl_rbtree_node rn;
    int seen;
};

static int g_named_tag;

static int named_cmp(const void * const a, const void * const b,
                     void * const p)
{
    const struct named * const x = a, * const y = b;
    CHECK(p == &g_named_tag);
    return strcmp(x->name, y->name);
}

struct named_walk
{
    const char * last;
    size_t n;
    cstl_bintree_foreach_dir_t dir;
};

static int named_visit(const void * const v,
                       const cstl_bintree_visit_order_t ord,
                       void * const p)
{
    struct named_walk * const nw = p;
    const struct named * const e = v;

    if (ord == CSTL_BINTREE_VISIT_ORDER_MID
        || ord == CSTL_BINTREE_VISIT_ORDER_LEAF) {
        if (nw->last != NULL) {
            if (nw->dir == CSTL_BINTREE_FOREACH_DIR_FWD) {
                CHECK(strcmp(nw->last, e->name) <= 0);
            } else {
                CHECK(strcmp(nw->last, e->name) >= 0);
            }
        }
        nw->last = e->name;
        nw->n++;
    }
    return 0;
}

static void named_clr(void * const v, void * const p)
{
    struct named * const e = v;
    size_t * const n = p;
    e->seen++;
    (*n)++;
}

static void phase_misc(void)
{
    static const char * const names[] = {
        "pear", "apple", "fig", "apple", "", "zucchini", "kiwi", "fig",
        "fig", "banana", "cherry", "date", "elderberry", "grape", "a",
        "apple"
    };
    enum { NN = sizeof(names) / sizeof(names[0]) };
    struct named el[NN];
    struct cstl_bintree bt, bt2;
    struct cstl_rbtree rt, rt2;
    struct named_walk nw;
    struct named probe;
    size_t i, n, min, max;

    g_phase = "misc";

    /* empty trees */
    {
        int k;
        for (k = 0; k < 4; k++) {
            static const int keys[] = { 0, INT_MIN, INT_MAX };
            tree_setup(&g_t, (k & 1) ? K_RB : K_BIN, k >> 1, &g_cx_asc);
            full_check(&g_t, 2, keys, 3, k);
            CHECK(op_erase(&g_t, 0) == NULL);
            op_clear(&g_t, 1);
            full_check(&g_t, 2, keys, 3, k);
            /* one element */
            elem_init(&g_pool[0], INT_MIN, 1);
            op_insert(&g_t, &g_pool[0], k & 1);
            full_check(&g_t, 2, keys, 3, k);
            CHECK(op_erase(&g_t, INT_MAX) == NULL);
            CHECK(op_erase(&g_t, INT_MIN) == &g_pool[0]);
            full_check(&g_t, 2, keys, 3, k);
            CHECK(op_erase(&g_t, INT_MIN) == NULL);
            /* and back in again, then cleared */
            op_insert(&g_t, &g_pool[0], 1);
            op_clear(&g_t, 0);
            full_check(&g_t, 2, keys, 3, k);
        }
    }

    /* many equal elements */
    {
        int k;
        for (k = 0; k < 2; k++) {
            static const int keys[] = { 6, 7, 8 };
            tree_setup(&g_t, k ? K_RB : K_BIN, 0, &g_cx_desc);
            for (i = 0; i < 300; i++) {
                elem_init(&g_pool[i], 7, (int)i);
                op_insert(&g_t, &g_pool[i], (int)(i % 3));
            }
            full_check(&g_t, 1, keys, 3, 5);
            for (i = 0; i < 150; i++) {
                CHECK(op_erase(&g_t, 7) != NULL);
                CHECK(op_erase(&g_t, 6) == NULL);
            }
            full_check(&g_t, 1, keys, 3, 11);
            for (i = 0; i < 150; i++) {
                elem_init(&g_pool[300 + i], i & 1 ? 6 : 8, (int)i);
                op_insert(&g_t, &g_pool[300 + i], (int)(i % 3));
            }
            full_check(&g_t, 1, keys, 3, 17);
            while (g_t.n > 0) {
                (void)op_erase_self(&g_t, g_t.n / 2);
            }
            full_check(&g_t, 1, keys, 3, 23);
        }
    }

    /* sorted and reverse-sorted input, large */
    {
        int k;
        for (k = 0; k < 4; k++) {
            tree_setup(&g_t, (k & 1) ? K_RB : K_BIN, 0, &g_cx_asc);
            for (i = 0; i < 700; i++) {
                elem_init(&g_pool[i],
                          (k & 2) ? 700 - (int)i : (int)i, (int)i);
                op_insert(&g_t, &g_pool[i], (int)(i & 1));
            }
            full_check(&g_t, 0, NULL, 0, 0);
            for (i = 0; i < 700; i += 2) {
                CHECK(op_erase(&g_t, g_pool[i].key) == &g_pool[i]);
            }
            full_check(&g_t, 0, NULL, 0, 0);
            op_clear(&g_t, 1);
            full_check(&g_t, 0, NULL, 0, 0);
        }
    }

    /* a different element type, in two kinds of tree at once */
    cstl_bintree_init(&bt, named_cmp, &g_named_tag,
                      offsetof(struct named, bn));
    cstl_rbtree_init(&rt, named_cmp, &g_named_tag,
                     offsetof(struct named, rn));
    cstl_bintree_init(&bt2, named_cmp, &g_named_tag,
                      offsetof(struct named, bn));
    cstl_rbtree_init(&rt2, named_cmp, &g_named_tag,
                     offsetof(struct named, rn));
    for (i = 0; i < NN; i++) {
        const void * par;
        el[i].name = names[i];
        el[i].seen = 0;
        cstl_bintree_insert(&bt, &el[i], NULL);
        (void)cstl_rbtree_find(&rt, &el[i], &par);
        cstl_rbtree_insert(&rt, &el[i], (void *)par);
        CHECK(cstl_bintree_size(&bt) == i + 1);
        CHECK(cstl_rbtree_size(&rt) == i + 1);
    }
    for (i = 0; i < 4; i++) {
        memset(&nw, 0, sizeof(nw));
        nw.dir = (i & 1) ? CSTL_BINTREE_FOREACH_DIR_REV
            : CSTL_BINTREE_FOREACH_DIR_FWD;
        if (i & 2) {
            CHECK(cstl_rbtree_foreach(&rt, named_visit, &nw, nw.dir) == 0);
        } else {
            CHECK(cstl_bintree_foreach(&bt, named_visit, &nw, nw.dir) == 0);
        }
        CHECK(nw.n == NN);
    }

    /* swap: the contents change places, whole */
    cstl_bintree_swap(&bt, &bt2);
    cstl_rbtree_swap(&rt, &rt2);
    CHECK(cstl_bintree_size(&bt) == 0 && cstl_bintree_size(&bt2) == NN);
    CHECK(cstl_rbtree_size(&rt) == 0 && cstl_rbtree_size(&rt2) == NN);
    cstl_bintree_height(&bt, &min, &max);
    CHECK(min == 0 && max == 0);
    cstl_rbtree_height(&rt2, &min, &max);
    CHECK(min <= max && max <= NN);
    probe.name = "fig";
    CHECK(cstl_bintree_find(&bt, &probe, NULL) == NULL);
    CHECK(cstl_rbtree_find(&rt, &probe, NULL) == NULL);
    CHECK(cstl_bintree_erase(&bt, &probe) == NULL);
    CHECK(cstl_rbtree_erase(&rt, &probe) == NULL);
    for (i = 0; i < 3; i++) {
        const struct named * f = cstl_bintree_find(&bt2, &probe, NULL);
        struct named * r;
        CHECK(f != NULL && strcmp(f->name, "fig") == 0);
        r = cstl_bintree_erase(&bt2, &probe);
        CHECK(r != NULL && strcmp(r->name, "fig") == 0 && r->seen == 0);
        r->seen = 100;
        r = cstl_rbtree_erase(&rt2, &probe);
        CHECK(r != NULL && strcmp(r->name, "fig") == 0);
        CHECK(r->seen == 0 || r->seen == 100);
        r->seen += 1000;
        CHECK(cstl_bintree_size(&bt2) == NN - 1 - i);
        CHECK(cstl_rbtree_size(&rt2) == NN - 1 - i);
    }
    CHECK(cstl_bintree_find(&bt2, &probe, NULL) == NULL);
    CHECK(cstl_rbtree_find(&rt2, &probe, NULL) == NULL);
    CHECK(cstl_bintree_erase(&bt2, &probe) == NULL);
    CHECK(cstl_rbtree_erase(&rt2, &probe) == NULL);
    /* every "fig" left each tree exactly once */
    for (i = 0; i < NN; i++) {
        if (strcmp(el[i].name, "fig") == 0) {
            CHECK(el[i].seen == 1100);
        } else {
            CHECK(el[i].seen == 0);
        }
        el[i].seen = 0;
    }
    /* swap back through a third position */
    cstl_bintree_swap(&bt2, &bt);
    cstl_rbtree_swap(&rt2, &rt);
    memset(&nw, 0, sizeof(nw));
    nw.dir = CSTL_BINTREE_FOREACH_DIR_FWD;
    CHECK(cstl_bintree_foreach(&bt, named_visit, &nw, nw.dir) == 0);
    CHECK(nw.n == NN - 3);
    memset(&nw, 0, sizeof(nw));
    nw.dir = CSTL_BINTREE_FOREACH_DIR_REV;
    CHECK(cstl_rbtree_foreach(&rt, named_visit, &nw, nw.dir) == 0);
    CHECK(nw.n == NN - 3);

    n = 0;
    cstl_bintree_clear(&bt, named_clr, &n);
    CHECK(n == NN - 3 && cstl_bintree_size(&bt) == 0);
    cstl_rbtree_clear(&rt, named_clr, &n);
    CHECK(n == 2 * (NN - 3) && cstl_rbtree_size(&rt) == 0);
    for (i = 0; i < NN; i++) {
        CHECK(el[i].seen == (strcmp(el[i].name, "fig") == 0 ? 0 : 2));
    }
    /* cleared trees are as good as new */
    cstl_bintree_insert(&bt, &el[0], NULL);
    cstl_rbtree_insert(&rt, &el[0], NULL);
    probe.name = "pear";
    CHECK(cstl_bintree_find(&bt, &probe, NULL) == &el[0]);
    CHECK(cstl_rbtree_erase(&rt, &probe) == &el[0]);
    CHECK(cstl_bintree_erase(&bt, &probe) == &el[0]);
    CHECK(cstl_bintree_size(&bt) == 0 && cstl_rbtree_size(&rt) == 0);
}

/*
 * swapping two trees whose elements are of different types, anchored at
 * different offsets, with different comparison functions: each object
 * must take over the other's contents and everything that goes with it
 */
static void phase_swap_types(void)
{
    static const char * const names[] = { "m", "c", "x", "a", "e", "m" };
    static const int keys[] = { 1, 2, 3, 4, 5, 9 };
    struct named nm[6];
    struct named nprobe;
    struct cstl_rbtree ra, rb;
    struct cstl_bintree ba, bb;
    struct named_walk nw;
    struct tree * const t = &g_t, * const u = &g_u;
    size_t i;

    g_phase = "swap types";

    /* t: red-black tree of struct elem in rb; u: plain tree in bb */
    cstl_rbtree_init(&ra, named_cmp, &g_named_tag,
                     offsetof(struct named, rn));
    cstl_bintree_init(&ba, named_cmp, &g_named_tag,
                      offsetof(struct named, bn));
    cstl_rbtree_init(&rb, elem_cmp, &g_cx_desc, offsetof(struct elem, rn));
    cstl_bintree_init(&bb, elem_cmp, &g_cx_asc, offsetof(struct elem, bn));

    t->kind = K_RB; t->id = g_next_id++; t->n = 0;
    t->cx = &g_cx_desc; t->rt = &rb; t->bt = NULL;
    u->kind = K_BIN; u->id = g_next_id++; u->n = 0;
    u->cx = &g_cx_asc; u->bt = &bb; u->rt = NULL;

    for (i = 0; i < 6; i++) {
        nm[i].name = names[i];
        nm[i].seen = 0;
        cstl_rbtree_insert(&ra, &nm[i], NULL);
        cstl_bintree_insert(&ba, &nm[i], NULL);
    }
    for (i = 0; i < 40; i++) {
        elem_init(&g_pool[i], (int)(i * 7 % 11), (int)i);
        op_insert(t, &g_pool[i], (int)(i % 3));
        elem_init(&g_pool[100 + i], (int)(i * 5 % 13), (int)i);
        op_insert(u, &g_pool[100 + i], (int)(i % 3));
    }

    cstl_rbtree_swap(&ra, &rb);
    cstl_bintree_swap(&ba, &bb);
    /* now ra/ba hold the struct elem trees, rb/bb the named ones */
    t->rt = &ra;
    u->bt = &ba;
    full_check(t, 1, keys, 6, 3);
    full_check(u, 1, keys, 6, 4);
    CHECK(cstl_rbtree_size(&rb) == 6 && cstl_bintree_size(&bb) == 6);
    for (i = 0; i < 20; i++) {
        (void)op_erase(t, (int)(i % 11));
        (void)op_erase(u, (int)(i % 13));
        elem_init(&g_pool[200 + i], (int)i - 3, (int)i);
        op_insert(t, &g_pool[200 + i], 1);
        elem_init(&g_pool[300 + i], 3 - (int)i, (int)i);
        op_insert(u, &g_pool[300 + i], 2);
    }
    full_check(t, 1, keys, 6, 5);
    full_check(u, 1, keys, 6, 6);

    memset(&nw, 0, sizeof(nw));
    nw.dir = CSTL_BINTREE_FOREACH_DIR_FWD;
    CHECK(cstl_rbtree_foreach(&rb, named_visit, &nw, nw.dir) == 0);
    CHECK(nw.n == 6);
    memset(&nw, 0, sizeof(nw));
    nw.dir = CSTL_BINTREE_FOREACH_DIR_REV;
    CHECK(cstl_bintree_foreach(&bb, named_visit, &nw, nw.dir) == 0);
    CHECK(nw.n == 6);
    nprobe.name = "m";
    for (i = 0; i < 2; i++) {
        struct named * r = cstl_rbtree_erase(&rb, &nprobe);
        CHECK(r == &nm[0] || r == &nm[5]);
        r->seen++;
        r = cstl_bintree_erase(&bb, &nprobe);
        CHECK(r == &nm[0] || r == &nm[5]);
        r->seen += 10;
    }
    CHECK(nm[0].seen == 11 && nm[5].seen == 11);
    CHECK(cstl_rbtree_erase(&rb, &nprobe) == NULL);
    CHECK(cstl_bintree_find(&bb, &nprobe, NULL) == NULL);
    nprobe.name = "x";
    CHECK(cstl_rbtree_find(&rb, &nprobe, NULL) == &nm[2]);
    CHECK(cstl_bintree_find(&bb, &nprobe, NULL) == &nm[2]);
    CHECK(cstl_rbtree_size(&rb) == 4 && cstl_bintree_size(&bb) == 4);

    /* a tree swapped with itself is unchanged */
    cstl_rbtree_swap(&ra, &ra);
    cstl_bintree_swap(&ba, &ba);
    full_check(t, 1, keys, 6, 7);
    full_check(u, 1, keys, 6, 8);

    /* and back */
    cstl_rbtree_swap(&rb, &ra);
    cstl_bintree_swap(&bb, &ba);
    t->rt = &rb;
    u->bt = &bb;
    full_check(t, 2, keys, 6, 9);
    full_check(u, 2, keys, 6, 10);
    CHECK(cstl_rbtree_find(&ra, &nprobe, NULL) == &nm[2]);
    CHECK(cstl_bintree_erase(&ba, &nprobe) == &nm[2]);
    op_clear(t, 1);
    op_clear(u, 0);
    full_check(t, 1, keys, 6, 11);
    full_check(u, 1, keys, 6, 12);
}

/*
 * the clear callback owns the element from the moment it is called:
 * it may put it straight into another tree through the very same anchor
 */
struct rehome
{
    struct tree * from, * to;
    size_t calls;
};

static void clr_rehome(void * const v, void * const p)
{
    struct rehome * const rh = p;
    struct elem * const e = v;

    elem_ok(e);
    CHECK(e->held == rh->from->id);
    e->held = 0;
    rh->calls++;
    e->key = -e->key / 2;
    op_insert(rh->to, e, (int)(rh->calls % 3));
}

static void phase_clear_rehome(void)
{
    static struct cstl_bintree bt;
    static struct cstl_rbtree rt;
    static const int keys[] = { -2, 0, 1, 7 };
    struct tree * const t = &g_t, * const u = &g_u;
    struct rehome rh;
    int k, round;
    size_t i;

    g_phase = "clear rehome";
    for (k = 0; k < 2; k++) {
        tree_setup(t, k ? K_RB : K_BIN, 0, &g_cx_asc);
        u->kind = t->kind;
        u->id = g_next_id++;
        u->n = 0;
        u->cx = &g_cx_desc;
        u->bt = NULL;
        u->rt = NULL;
        if (k) {
            u->rt = &rt;
            cstl_rbtree_init(&rt, elem_cmp, u->cx,
                             offsetof(struct elem, rn));
        } else {
            u->bt = &bt;
            cstl_bintree_init(&bt, elem_cmp, u->cx,
                              offsetof(struct elem, bn));
        }
        for (i = 0; i < 200; i++) {
            elem_init(&g_pool[i], (int)((i * 37) % 41) - 20, (int)i);
            op_insert(t, &g_pool[i], (int)(i % 3));
        }
        for (round = 0; round < 6; round++) {
            struct tree * const from = (round & 1) ? u : t;
            struct tree * const to = (round & 1) ? t : u;
            const size_t n = from->n;

            rh.from = from;
            rh.to = to;
            rh.calls = 0;
            if (from->kind == K_BIN) {
                cstl_bintree_clear(from->bt, clr_rehome, &rh);
            } else {
                cstl_rbtree_clear(from->rt, clr_rehome, &rh);
            }
            CHECK(rh.calls == n);
            from->n = 0;
            CHECK(T_size(from) == 0 && to->n == n);
            full_check(from, 1, keys, 4, (unsigned long)round);
            full_check(to, 1, keys, 4, (unsigned long)round);
            /* thin it out a little and top it up again */
            for (i = 0; i < 10; i++) {
                struct elem * const e = op_erase(to, (int)i - 5);
                if (e != NULL) {
                    e->key = (int)i * 3;
                    op_insert(to, e, 1);
                }
            }
            full_check(to, 0, NULL, 0, 0);
        }
        op_clear(t, 1);
        op_clear(u, 1);
    }
}

/* two trees under test at once, elements migrating between them */
static void phase_two_trees(void)
{
    static struct cstl_bintree bt;
    struct tree * const t = &g_t, * const u = &g_u;
    unsigned long op;
    size_t i;
    static const int keys[] = { -3, 0, 3 };

    g_phase = "two trees";
    g_rng = 0x1234567ULL;

    tree_setup(t, K_RB, 0, &g_cx_asc);
    /* u is a plain tree with the opposite order, own object */
    u->kind = K_BIN;
    u->id = g_next_id++;
    u->n = 0;
    u->cx = &g_cx_desc;
    u->bt = &bt;
    u->rt = NULL;
    cstl_bintree_init(&bt, elem_cmp, &g_cx_desc, offsetof(struct elem, bn));

    for (i = 0; i < MAXHELD; i++) {
        elem_init(&g_pool[i], 0, (int)i);
    }
    for (op = 0; op < 30000; op++) {
        struct tree * const a = (rnd() & 1) ? t : u;
        struct tree * const b = a == t ? u : t;
        const int key = (int)(rnd() % 9) - 4;
        const unsigned int r = rnd() % 10;

        if (r < 4) {
            /* a free element goes into a */
            struct elem * const e = &g_pool[rnd() % 64];
            if (e->held == 0) {
                e->key = key;
                op_insert(a, e, (int)(rnd() % 3));
            }
        } else if (r < 8) {
            /* move one from a to b */
            struct elem * const e = op_erase(a, key);
            if (e != NULL) {
                op_insert(b, e, (int)(rnd() % 3));
            }
        } else if (r < 9) {
            (void)op_erase(a, key);
        } else {
            full_check(a, 1, keys, 3, op);
            full_check(b, 0, NULL, 0, op);
        }
    }
    full_check(t, 2, keys, 3, 1);
    full_check(u, 2, keys, 3, 2);
    op_clear(t, 1);
    op_clear(u, 1);
}

int main(void)
{
    static const int distinct[PN] = { 0, 1, 2, 3, 4, 5 };
    static const int dups[PN] = { 0, 1, 1, 3, 3, 3 };
    int k;

    phase_misc();
    phase_swap_types();
    phase_clear_rehome();

    phase_exhaustive(5);

    phase_perms(distinct, 1);
    /*
     * with duplicate keys next_perm still enumerates index orders,
     * so equal keys are inserted and erased in every relative order
     */
    phase_perms(dups, 0);

    phase_victims();

    g_poke = 1;
    phase_two_trees();
    g_poke = 0;

    for (k = 0; k < 2; k++) {
        const enum kind kind = k ? K_RB : K_BIN;
        phase_random(kind, 4, 40, 40000, &g_cx_asc, 1, 11 + k);
        phase_random(kind, 4, 40, 40000, &g_cx_desc, 1, 13 + k);
        phase_random(kind, 64, 200, 60000, &g_cx_asc, 0, 101 + k);
        phase_random(kind, 64, 200, 30000, &g_cx_poke, 0, 151 + k);
        phase_random(kind, 0, 300, 60000, &g_cx_desc, 0, 1001 + k);
        phase_random(kind, 2000, 1000, 80000, &g_cx_asc, 0, 5001 + k);
        g_poke = 1;
        phase_random(kind, 16, 60, 20000, &g_cx_poke, 0, 7001 + k);
        g_poke = 0;
    }

    g_phase = "done";
    printf("C01 ok (cmp calls %lu)\n",
           g_cx_asc.calls + g_cx_desc.calls + g_cx_poke.calls);
    return 0;
}
