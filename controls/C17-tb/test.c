/*
 * C17: bucket selection is fail-stop.
 *
 *  1. cstl_hash_div() and cstl_hash_mul() return a value in [0, m) for
 *     every key and every table size m >= 1.
 *  2. tables that use the built-in hashes (or any in-range hash, including
 *     one that always answers m - 1) never abort and behave like a
 *     multimap, whatever the history of resizes/rehashes.
 *  3. whenever a caller-supplied hash function returns m or more, the
 *     operation that invoked it dies with SIGABRT.
 *
 * Only the public API is used.
 */
#define _POSIX_C_SOURCE 200809L

#include "cstl/hash.h"

#include <stdio.h>
#include <stdlib.h>
#include <string.h>
#include <stdint.h>
#include <signal.h>
#include <unistd.h>
#include <sys/types.h>
#include <sys/wait.h>
#include <sys/resource.h>

static unsigned long failures;

#define FAIL(...)                                               \
    do {                                                        \
        failures++;                                             \
        fprintf(stderr, "FAIL %s:%d: ", __FILE__, __LINE__);    \
        fprintf(stderr, __VA_ARGS__);                           \
        fprintf(stderr, "\n");                                  \
    } while (0)
#define CHECK(X, ...) do { if (!(X)) { FAIL(__VA_ARGS__); } } while (0)

/* ------------------------------------------------------------------ */
/* random numbers                                                      */

static uint64_t rng_state = 0x9e3779b97f4a7c15ull;

static uint64_t rnd(void)
{
    uint64_t x = rng_state;
    x ^= x << 13;
    x ^= x >> 7;
    x ^= x << 17;
    rng_state = x;
    return x * 0x2545f4914f6cdd1dull;
}

/* ------------------------------------------------------------------ */
/* part 1: range of the built-in hashes                                */

#define MAXM 1024
static size_t ms[MAXM];
static unsigned int nms;

static void add_m(const size_t m)
{
    unsigned int i;
    if (m == 0) {
        return;
    }
    for (i = 0; i < nms; i++) {
        if (ms[i] == m) {
            return;
        }
    }
    if (nms < MAXM) {
        ms[nms++] = m;
    }
}

static void build_ms(void)
{
    static const size_t small[] = {
        1, 2, 3, 4, 5, 6, 7, 8, 9, 10, 11, 12, 13, 15, 16, 17, 20, 23, 31,
        32, 33, 61, 64, 100, 127, 128, 129, 255, 256, 257, 1000, 1023, 1024,
        1025, 4093, 4096, 10007, 65535, 65536, 65537, 1000003,
    };
    unsigned int i, e;

    for (i = 0; i < sizeof(small) / sizeof(small[0]); i++) {
        add_m(small[i]);
    }

    for (e = 1; e < sizeof(size_t) * 8; e++) {
        const size_t p = (size_t)1 << e;
        add_m(p);
        add_m(p - 1);
        add_m(p + 1);
        add_m(p + (p >> 1));
        add_m(p + (p >> 1) - 1);
        add_m(p + (p >> 1) + 1);
        if (e >= 24) {
            /* around the rounding points of a 24 bit significand */
            const size_t ulp = (size_t)1 << (e - 23);
            add_m(p + ulp / 2);
            add_m(p + ulp / 2 + 1);
            add_m(p + ulp / 2 - 1);
            add_m(p + ulp + ulp / 2);
            add_m(p + ulp + ulp / 2 + 1);
            add_m(p + ulp + ulp / 2 - 1);
            add_m(p - ulp / 4);
            add_m(p - ulp / 4 - 1);
            add_m(p - ulp / 4 + 1);
            add_m(p - ulp / 2);
            add_m(p - ulp / 2 + 1);
        }
    }
    add_m(SIZE_MAX);
    add_m(SIZE_MAX - 1);
    add_m(SIZE_MAX / 2);
    add_m(SIZE_MAX / 3);
    add_m(SIZE_MAX / 3 * 2);
}

static unsigned long long range_checks;

static void check_builtin(const size_t k, const size_t m)
{
    const size_t d = cstl_hash_div(k, m);
    const size_t u = cstl_hash_mul(k, m);

    range_checks++;

    if (d >= m) {
        FAIL("cstl_hash_div(%zu, %zu) = %zu is out of range", k, m, d);
    }
    if (d != k % m) {
        FAIL("cstl_hash_div(%zu, %zu) = %zu is not the remainder", k, m, d);
    }
    if (u >= m) {
        FAIL("cstl_hash_mul(%zu, %zu) = %zu is out of range", k, m, u);
    }
}

static void check_builtin_all_m(const size_t k)
{
    unsigned int i;
    for (i = 0; i < nms; i++) {
        check_builtin(k, ms[i]);
    }
}

static void part1(void)
{
    size_t k;
    unsigned int e, i;

    build_ms();

    /* every small key with every table size */
    for (k = 0; k < ((size_t)1 << 16); k++) {
        check_builtin_all_m(k);
    }

    /*
     * every key up to 2^24 (beyond that, a float cannot tell
     * neighbouring keys apart) with a few table sizes
     */
    for (k = 0; k <= ((size_t)1 << 24) + 16; k++) {
        check_builtin(k, 1);
        check_builtin(k, 3);
        check_builtin(k, 1000);
        check_builtin(k, ((size_t)1 << 24) - 1);
        check_builtin(k, ((size_t)1 << 24) + 1);
        check_builtin(k, SIZE_MAX);
        check_builtin(k, k + 1);
        if (k > 0) {
            check_builtin(k, k);
        }
        if (k > 1) {
            check_builtin(k, k - 1);
        }
    }

    /* boundary keys */
    for (e = 0; e < sizeof(size_t) * 8; e++) {
        const size_t p = (size_t)1 << e;
        int d;
        for (d = -40; d <= 40; d++) {
            check_builtin_all_m(p + (size_t)d);
            check_builtin_all_m(p + (p >> 1) + (size_t)d);
            check_builtin_all_m(p + (p >> 2) + (size_t)d);
        }
    }
    for (k = 0; k < 4096; k++) {
        check_builtin_all_m(SIZE_MAX - k);
        check_builtin_all_m(SIZE_MAX / 2 - k);
        check_builtin_all_m(SIZE_MAX / 2 + k);
    }

    /* random keys of every magnitude, with every size and random sizes */
    for (i = 0; i < 150000; i++) {
        const uint64_t r = rnd();
        const size_t kk = (size_t)(r >> (rnd() % 64));
        size_t m;

        check_builtin_all_m(kk);

        m = (size_t)(rnd() >> (rnd() % 64));
        if (m == 0) {
            m = 1;
        }
        check_builtin(kk, m);
        check_builtin(m, m);
        check_builtin(m - 1, m);
        check_builtin(m + 1, m);

        /* the hashes are functions: same input, same output */
        if (cstl_hash_mul(kk, m) != cstl_hash_mul(kk, m)
            || cstl_hash_div(kk, m) != cstl_hash_div(kk, m)) {
            FAIL("built-in hash is not deterministic for (%zu, %zu)", kk, m);
        }
    }

    /* a table of one bucket has only one answer */
    for (i = 0; i < 100000; i++) {
        const size_t kk = (size_t)rnd();
        CHECK(cstl_hash_mul(kk, 1) == 0, "mul(%zu, 1) != 0", kk);
        CHECK(cstl_hash_div(kk, 1) == 0, "div(%zu, 1) != 0", kk);
    }
}

/* ------------------------------------------------------------------ */
/* user hashes                                                         */

/* bookkeeping shared by all of the user hashes */
static unsigned long hash_calls, hash_bad_returns, hash_bad_args;

/* when non-zero, the switchable hashes misbehave */
static int go_bad;
/* how they misbehave: 0 -> m, 1 -> m + 1, 2 -> SIZE_MAX */
static int bad_kind;
/* if non-zero, only this key is hashed badly */
static int bad_one_key;
static size_t bad_key;

static size_t bad_value(const size_t m)
{
    switch (bad_kind) {
    case 0: return m;
    case 1: return m + 1;
    default: return SIZE_MAX;
    }
}

static void hash_enter(const size_t m)
{
    hash_calls++;
    if (m == 0) {
        hash_bad_args++;
    }
}

static size_t hash_mod(const size_t k, const size_t m)
{
    hash_enter(m);
    return k % m;
}

static size_t hash_rev(const size_t k, const size_t m)
{
    hash_enter(m);
    return m - 1 - (k % m);
}

static size_t hash_last(const size_t k, const size_t m)
{
    (void)k;
    hash_enter(m);
    return m - 1;
}

static size_t hash_zero(const size_t k, const size_t m)
{
    (void)k;
    hash_enter(m);
    return 0;
}

static size_t hash_mix(size_t k, const size_t m)
{
    hash_enter(m);
    k ^= k >> 7;
    k *= 0x9e3779b1u;
    k ^= k >> 11;
    return k % m;
}

/* good until told otherwise */
static size_t hash_switch(const size_t k, const size_t m)
{
    hash_enter(m);
    if (go_bad && (!bad_one_key || k == bad_key)) {
        hash_bad_returns++;
        return bad_value(m);
    }
    return (k * 7 + 3) % m;
}

/* a second, distinct function with the same behaviour */
static size_t hash_switch2(const size_t k, const size_t m)
{
    hash_enter(m);
    if (go_bad && (!bad_one_key || k == bad_key)) {
        hash_bad_returns++;
        return bad_value(m);
    }
    return (k ^ (k >> 3)) % m;
}

/* always bad */
static size_t hash_always_bad(const size_t k, const size_t m)
{
    (void)k;
    hash_enter(m);
    hash_bad_returns++;
    return bad_value(m);
}

/* ------------------------------------------------------------------ */
/* part 2: in-range hashes never abort; the table is a multimap        */

struct elem
{
    int id;
    struct cstl_hash_node hn;
    size_t key;
    int in;
    int seen;
};

/* a second type with the node somewhere else */
struct other
{
    struct cstl_hash_node hn;
    char pad[3];
    int in;
};

#define NELEM 192

static const size_t some_keys[] = {
    0, 1, 2, 3, 7, 8, 15, 16, 17, 31, 32, 33, 255, 256, 1000, 65535, 65536,
    (size_t)1 << 23, ((size_t)1 << 24) - 1, (size_t)1 << 24,
    ((size_t)1 << 24) + 1, (size_t)1 << 31, SIZE_MAX / 2, SIZE_MAX / 2 + 1,
    SIZE_MAX - 1, SIZE_MAX,
};

static size_t pick_key(void)
{
    switch (rnd() % 4) {
    case 0:
        return some_keys[rnd() % (sizeof(some_keys) / sizeof(some_keys[0]))];
    case 1:
        return rnd() % 64;
    case 2:
        return (size_t)rnd();
    default:
        return (size_t)(rnd() >> (rnd() % 64));
    }
}

static cstl_hash_func_t * const good_hashes[] = {
    NULL, cstl_hash_div, cstl_hash_mul, hash_mod, hash_rev, hash_last,
    hash_zero, hash_mix, hash_switch, hash_switch2,
};
#define NGOOD (sizeof(good_hashes) / sizeof(good_hashes[0]))

static int count_visit(void * const e, void * const p)
{
    struct elem * const el = e;
    el->seen++;
    *(size_t *)p += 1;
    return 0;
}

static int count_const_visit(const void * const e, void * const p)
{
    (void)e;
    *(size_t *)p += 1;
    return 0;
}

static int match_visit(const void * const e, void * const p)
{
    return e == p;
}

static int never_visit(const void * const e, void * const p)
{
    (void)e;
    *(size_t *)p += 1;
    return 0;
}

/* a visitor that uses another table, itself possibly mid-rehash */
static struct cstl_hash * side_table;
static struct other side_objs[16];

static int side_visit(const void * const e, void * const p)
{
    const size_t k = rnd() % 16;
    struct other * const o = &side_objs[k];

    if (o->in) {
        if (cstl_hash_find(side_table, k, match_visit, o) != o) {
            FAIL("side table lost object %zu", k);
        }
        cstl_hash_erase(side_table, o);
        o->in = 0;
    } else {
        cstl_hash_insert(side_table, k, o);
        o->in = 1;
    }
    if (rnd() % 8 == 0) {
        cstl_hash_resize(side_table, 1 + rnd() % 9,
                         good_hashes[rnd() % NGOOD]);
    }
    return e == p;
}

static size_t clr_count;
static void clr_func(void * const e, void * const p)
{
    struct elem * const el = e;
    (void)p;
    CHECK(el->in, "clear visited an element that is not in the table");
    el->in = 0;
    clr_count++;
}

static void verify_table(struct cstl_hash * const h,
                         struct elem * const el, const size_t n_in,
                         const int full)
{
    size_t c;
    unsigned int i;

    CHECK(cstl_hash_size(h) == n_in, "size %zu, expected %zu",
          cstl_hash_size(h), n_in);

    c = 0;
    cstl_hash_foreach_const(h, count_const_visit, &c);
    CHECK(c == n_in, "foreach_const saw %zu, expected %zu", c, n_in);

    if (!full) {
        return;
    }

    for (i = 0; i < NELEM; i++) {
        el[i].seen = 0;
    }
    c = 0;
    cstl_hash_foreach(h, count_visit, &c);
    CHECK(c == n_in, "foreach saw %zu, expected %zu", c, n_in);
    for (i = 0; i < NELEM; i++) {
        CHECK(el[i].seen == (el[i].in ? 1 : 0),
              "element %u seen %d times, in=%d", i, el[i].seen, el[i].in);
    }

    for (i = 0; i < NELEM; i++) {
        void * const f = cstl_hash_find(h, el[i].key, match_visit, &el[i]);
        if (el[i].in) {
            CHECK(f == &el[i], "element %u not found", i);
        } else {
            CHECK(f == NULL, "element %u found but not inserted", i);
        }
    }
}

static void part2_run(const int use_static, const unsigned int steps)
{
    static struct elem el[NELEM];
    struct cstl_hash dyn;
    DECLARE_CSTL_HASH(stat, struct elem, hn);
    struct cstl_hash * const h = use_static ? &stat : &dyn;
    struct cstl_hash side;
    size_t n_in = 0;
    unsigned int i, s;

    if (!use_static) {
        memset(&dyn, 0xa5, sizeof(dyn));
        cstl_hash_init(&dyn, offsetof(struct elem, hn));
    }
    cstl_hash_init(&side, offsetof(struct other, hn));
    cstl_hash_resize(&side, 3, hash_rev);
    side_table = &side;
    memset(side_objs, 0, sizeof(side_objs));

    memset(el, 0, sizeof(el));
    for (i = 0; i < NELEM; i++) {
        el[i].id = i;
    }

    go_bad = 0;

    /* resizing to zero does nothing, even before the first real resize */
    cstl_hash_resize(h, 0, cstl_hash_div);
    CHECK(cstl_hash_size(h) == 0, "size of an empty table");

    cstl_hash_resize(h, 1 + rnd() % 5, good_hashes[rnd() % NGOOD]);

    for (s = 0; s < steps; s++) {
        const unsigned int op = rnd() % 100;
        struct elem * const e = &el[rnd() % NELEM];

        if (op < 35) {
            if (!e->in) {
                e->key = pick_key();
                /* frequently make duplicates */
                if (rnd() % 3 == 0) {
                    e->key = el[rnd() % NELEM].key;
                }
                cstl_hash_insert(h, e->key, e);
                e->in = 1;
                n_in++;
            }
        } else if (op < 55) {
            if (e->in) {
                cstl_hash_erase(h, e);
                e->in = 0;
                n_in--;
            }
        } else if (op < 75) {
            /* find a specific element, or show that it is not there */
            void * const f = cstl_hash_find(h, e->key, match_visit, e);
            CHECK(f == (e->in ? e : NULL),
                  "find(%zu) of element %d gave %p", e->key, e->id, f);
        } else if (op < 82) {
            /* any element with the key */
            const size_t k = (rnd() & 1) ? e->key : pick_key();
            struct elem * const f = cstl_hash_find(h, k, NULL, NULL);
            size_t visits = 0, expect = 0;
            int any = 0;

            for (i = 0; i < NELEM; i++) {
                if (el[i].in && el[i].key == k) {
                    any = 1;
                    expect++;
                }
            }
            if (any) {
                CHECK(f != NULL && f->in && f->key == k,
                      "find(%zu, NULL) failed", k);
            } else {
                CHECK(f == NULL, "find(%zu, NULL) found a ghost", k);
            }
            /* a visitor that rejects everything sees all with that key */
            CHECK(cstl_hash_find(h, k, never_visit, &visits) == NULL,
                  "rejecting visitor still got an object");
            CHECK(visits == expect, "key %zu: %zu visits, expected %zu",
                  k, visits, expect);
        } else if (op < 85) {
            /* a visitor working on another table */
            void * const f = cstl_hash_find(h, e->key, side_visit, e);
            CHECK(f == (e->in ? e : NULL), "find with side effects");
        } else if (op < 93) {
            size_t cnt;
            switch (rnd() % 6) {
            case 0: cnt = 1; break;
            case 1: cnt = 2; break;
            case 2: cnt = 1 + rnd() % 8; break;
            case 3: cnt = 1 + rnd() % 64; break;
            case 4: cnt = 1 + rnd() % 600; break;
            default: cnt = 0; break;
            }
            cstl_hash_resize(h, cnt, good_hashes[rnd() % NGOOD]);
        } else if (op < 95) {
            cstl_hash_rehash(h);
        } else if (op < 97) {
            cstl_hash_shrink_to_fit(h);
        } else if (op < 99) {
            verify_table(h, el, n_in, rnd() % 2);
        } else {
            if (rnd() % 4 == 0) {
                clr_count = 0;
                cstl_hash_clear(h, clr_func);
                CHECK(clr_count == n_in, "clear visited %zu of %zu",
                      clr_count, n_in);
                n_in = 0;
                CHECK(cstl_hash_size(h) == 0, "size after clear");
                cstl_hash_resize(h, 1 + rnd() % 20,
                                 good_hashes[rnd() % NGOOD]);
            }
        }

        if (cstl_hash_size(h) != n_in) {
            FAIL("step %u: size %zu, expected %zu",
                 s, cstl_hash_size(h), n_in);
            break;
        }
    }

    verify_table(h, el, n_in, 1);

    clr_count = 0;
    cstl_hash_clear(h, clr_func);
    CHECK(clr_count == n_in, "final clear visited %zu of %zu",
          clr_count, n_in);
    cstl_hash_clear(h, NULL);
    cstl_hash_clear(&side, NULL);

    CHECK(hash_bad_args == 0, "a hash function was called with m == 0");
    CHECK(hash_bad_returns == 0, "in-process run used a bad hash");
}

/*
 * a one-bucket table and a table whose hash always picks the last
 * bucket: the two ends of the legal range
 */
static void part2_edges(void)
{
    static struct elem el[64];
    static const size_t sizes[] = { 1, 2, 3, 64, 65, 1000 };
    cstl_hash_func_t * const fs[] = {
        hash_last, hash_zero, cstl_hash_mul, cstl_hash_div
    };
    unsigned int si, fi, i;

    for (si = 0; si < sizeof(sizes) / sizeof(sizes[0]); si++) {
        for (fi = 0; fi < sizeof(fs) / sizeof(fs[0]); fi++) {
            struct cstl_hash h;
            size_t c;

            cstl_hash_init(&h, offsetof(struct elem, hn));
            cstl_hash_resize(&h, sizes[si], fs[fi]);

            for (i = 0; i < 64; i++) {
                el[i].key = some_keys[i % (sizeof(some_keys)
                                           / sizeof(some_keys[0]))];
                cstl_hash_insert(&h, el[i].key, &el[i]);
            }
            /* shrink, then grow, visiting both ends in between */
            cstl_hash_resize(&h, 1, hash_last);
            for (i = 0; i < 64; i += 3) {
                CHECK(cstl_hash_find(&h, el[i].key, match_visit, &el[i])
                      == &el[i], "edge find during shrink");
            }
            cstl_hash_resize(&h, sizes[si] + 7, fs[fi]);
            for (i = 0; i < 64; i += 5) {
                CHECK(cstl_hash_find(&h, el[i].key, match_visit, &el[i])
                      == &el[i], "edge find during growth");
            }
            cstl_hash_shrink_to_fit(&h);
            c = 0;
            cstl_hash_foreach_const(&h, count_const_visit, &c);
            CHECK(c == 64, "edge count %zu", c);
            for (i = 0; i < 64; i++) {
                cstl_hash_erase(&h, &el[i]);
            }
            CHECK(cstl_hash_size(&h) == 0, "edge erase");
            cstl_hash_clear(&h, NULL);
        }
    }
}

/*
 * long chains, walked to their very end: everything in one bucket,
 * removed tail first (insertion puts new objects at the front), absent
 * keys, rejecting visitors; then two tables of different element types
 * swapped in the middle of a rehash
 */
static int other_match(const void * const e, void * const p)
{
    return e == p;
}

static void part2_chains(void)
{
    static struct elem el[48];
    static struct other ot[48];
    cstl_hash_func_t * const fs[] = {
        hash_zero, hash_last, cstl_hash_div, cstl_hash_mul
    };
    unsigned int fi, i, j;

    for (fi = 0; fi < sizeof(fs) / sizeof(fs[0]); fi++) {
        DECLARE_CSTL_HASH(a, struct elem, hn);
        DECLARE_CSTL_HASH(b, struct elem, hn);
        struct cstl_hash c, d;
        size_t visits;

        cstl_hash_init(&c, offsetof(struct other, hn));
        cstl_hash_init(&d, offsetof(struct other, hn));

        cstl_hash_resize(&a, 5, fs[fi]);
        for (i = 0; i < 48; i++) {
            /* three objects per key */
            el[i].key = (i / 3) * 5;
            cstl_hash_insert(&a, el[i].key, &el[i]);
        }

        for (i = 0; i < 48; i++) {
            /* absent keys run off the end of whatever chain they hit */
            CHECK(cstl_hash_find(&a, 1000 + i, NULL, NULL) == NULL,
                  "absent key found");
            visits = 0;
            CHECK(cstl_hash_find(&a, el[i].key, never_visit, &visits) == NULL,
                  "rejecting visitor");
            CHECK(visits == 3 - (i % 3), "key %zu visited %zu times",
                  el[i].key, visits);

            /* el[i] is the oldest, hence the last, of its kind */
            cstl_hash_erase(&a, &el[i]);
            CHECK(cstl_hash_size(&a) == 47 - i, "chain erase size");
            CHECK(cstl_hash_find(&a, el[i].key, match_visit, &el[i]) == NULL,
                  "erased object found");
            for (j = i + 1; j < 48; j += 7) {
                CHECK(cstl_hash_find(&a, el[j].key, match_visit, &el[j])
                      == &el[j], "object %u lost after erasing %u", j, i);
            }
            if (i == 20) {
                cstl_hash_resize(&a, 3, fs[(fi + 1) % 4]);
            }
        }
        visits = 0;
        cstl_hash_foreach_const(&a, count_const_visit, &visits);
        CHECK(visits == 0, "emptied table still has %zu objects", visits);

        /* swapping: a is empty and mid-rehash, b never resized */
        cstl_hash_swap(&a, &b);
        CHECK(cstl_hash_size(&a) == 0 && cstl_hash_size(&b) == 0, "swap");
        cstl_hash_resize(&a, 2, fs[fi]);
        for (i = 0; i < 48; i++) {
            el[i].key = i * 3;
            cstl_hash_insert((i & 1) ? &a : &b, el[i].key, &el[i]);
        }
        cstl_hash_resize(&a, 9, cstl_hash_mul);
        cstl_hash_resize(&b, 1, hash_last);
        cstl_hash_find(&a, 3, NULL, NULL);
        cstl_hash_swap(&a, &b);
        for (i = 0; i < 48; i++) {
            struct cstl_hash * const in = (i & 1) ? &b : &a;
            struct cstl_hash * const out = (i & 1) ? &a : &b;
            CHECK(cstl_hash_find(in, el[i].key, match_visit, &el[i])
                  == &el[i], "object %u lost in swap", i);
            CHECK(cstl_hash_find(out, el[i].key, match_visit, &el[i])
                  == NULL, "object %u in both tables", i);
        }
        CHECK(cstl_hash_size(&a) == 24 && cstl_hash_size(&b) == 24,
              "sizes after swap");

        /* another element type, alongside */
        cstl_hash_resize(&c, 4, fs[fi]);
        cstl_hash_resize(&d, 11, fs[(fi + 2) % 4]);
        for (i = 0; i < 48; i++) {
            cstl_hash_insert((i % 3) ? &c : &d, i, &ot[i]);
        }
        cstl_hash_resize(&c, 13, NULL);
        cstl_hash_swap(&c, &d);
        cstl_hash_resize(&c, 2, NULL);
        for (i = 0; i < 48; i++) {
            CHECK(cstl_hash_find((i % 3) ? &d : &c, i, other_match, &ot[i])
                  == &ot[i], "other %u lost", i);
            CHECK(cstl_hash_find((i % 3) ? &c : &d, i, other_match, &ot[i])
                  == NULL, "other %u duplicated", i);
        }
        for (i = 0; i < 48; i += 2) {
            cstl_hash_erase((i % 3) ? &d : &c, &ot[i]);
        }
        CHECK(cstl_hash_size(&c) + cstl_hash_size(&d) == 24,
              "sizes after erasing every other object");
        for (i = 0; i < 48; i++) {
            CHECK(cstl_hash_find((i % 3) ? &d : &c, i, other_match, &ot[i])
                  == ((i & 1) ? &ot[i] : NULL), "other %u after erase", i);
        }

        cstl_hash_clear(&a, NULL);
        cstl_hash_clear(&b, NULL);
        cstl_hash_clear(&c, NULL);
        cstl_hash_clear(&d, NULL);
    }
}

/* ------------------------------------------------------------------ */
/* part 3: out-of-range hashes abort                                   */

enum op {
    OP_FIND, OP_FIND_ABSENT, OP_INSERT, OP_ERASE,
    OP_REHASH, OP_FOREACH, OP_RESIZE, OP_SHRINK,
    OP_NESTED_FIND,
    OP_MAX
};

static const char * const op_names[] = {
    "find", "find-absent", "insert", "erase", "rehash", "foreach",
    "resize", "shrink_to_fit", "nested-find",
};

enum setup {
    /* first resize installs a hash that is always bad */
    SU_ALWAYS_BAD,
    /* the current hash turns bad, no rehash pending */
    SU_CURRENT_BAD,
    /* same, after the table has been shrunk within its capacity */
    SU_CURRENT_BAD_SHRUNK,
    /* a rehash is pending and the new hash is bad */
    SU_PENDING_NEW_BAD_GROW,
    SU_PENDING_NEW_BAD_SHRINK,
    SU_PENDING_NEW_BAD_SAME,
    /* a rehash is pending and the old hash is bad */
    SU_PENDING_OLD_BAD_GROW,
    SU_PENDING_OLD_BAD_SHRINK,
    /* only a single key is hashed badly */
    SU_ONE_KEY_CURRENT,
    SU_ONE_KEY_PENDING,
    /*
     * the current hash turns bad after the table has been through a
     * number of completed (and superseded) resizes
     */
    SU_CYCLED_CURRENT_BAD,
    /* ditto, with one more resize pending: the old hash is bad */
    SU_CYCLED_PENDING_OLD_BAD,
    SU_MAX
};

static const char * const setup_names[] = {
    "always-bad", "current-bad", "current-bad-shrunk",
    "pending-new-bad-grow", "pending-new-bad-shrink", "pending-new-bad-same",
    "pending-old-bad-grow", "pending-old-bad-shrink",
    "one-key-current", "one-key-pending",
    "cycled-current-bad", "cycled-pending-old-bad",
};

static struct elem child_el[40];
static struct cstl_hash child_static = CSTL_HASH_INITIALIZER(struct elem, hn);

static int inner_visit(const void * const e, void * const p)
{
    /* p is a second table whose hash is (or has become) bad */
    (void)e;
    cstl_hash_find(p, 5, NULL, NULL);
    return 0;
}

/*
 * runs in a child process. exit status:
 *   0 - operation completed and no hash function returned a bad value
 *       while it ran (property holds vacuously)
 *   1 - a bad value was returned, yet the operation completed
 *   2 - setup problem
 * or the child dies by SIGABRT.
 */
static void child(const enum setup su, const enum op op, const size_t m,
                  const int kind, const int use_static)
{
    struct cstl_hash dyn, inner;
    struct cstl_hash * const h = use_static ? &child_static : &dyn;
    struct rlimit rl;
    unsigned int i;
    const unsigned int n = 24;
    unsigned long before;
    struct elem * target = &child_el[5];

    rl.rlim_cur = rl.rlim_max = 0;
    setrlimit(RLIMIT_CORE, &rl);

    if (!use_static) {
        cstl_hash_init(&dyn, offsetof(struct elem, hn));
    }
    cstl_hash_init(&inner, offsetof(struct elem, hn));

    bad_kind = kind;
    go_bad = 0;
    bad_one_key = 0;

    for (i = 0; i < sizeof(child_el) / sizeof(child_el[0]); i++) {
        child_el[i].id = i;
        child_el[i].key = i;
    }

    switch (su) {
    case SU_ALWAYS_BAD:
        cstl_hash_resize(h, m, hash_always_bad);
        /* nothing can be inserted; the table stays empty */
        break;

    case SU_CURRENT_BAD:
    case SU_ONE_KEY_CURRENT:
        cstl_hash_resize(h, m, hash_switch);
        for (i = 0; i < n; i++) {
            cstl_hash_insert(h, child_el[i].key, &child_el[i]);
        }
        break;

    case SU_CURRENT_BAD_SHRUNK:
        cstl_hash_resize(h, m * 8 + 3, hash_switch);
        for (i = 0; i < n; i++) {
            cstl_hash_insert(h, child_el[i].key, &child_el[i]);
        }
        cstl_hash_resize(h, m, NULL);
        cstl_hash_rehash(h);
        break;

    case SU_PENDING_NEW_BAD_GROW:
    case SU_PENDING_NEW_BAD_SHRINK:
    case SU_PENDING_NEW_BAD_SAME:
    case SU_ONE_KEY_PENDING:
        cstl_hash_resize(h,
                         (su == SU_PENDING_NEW_BAD_GROW) ? (m + 1) / 2
                         : (su == SU_PENDING_NEW_BAD_SHRINK) ? m * 4 + 1
                         : m,
                         cstl_hash_div);
        for (i = 0; i < n; i++) {
            cstl_hash_insert(h, child_el[i].key, &child_el[i]);
        }
        cstl_hash_resize(h, m, hash_switch);
        break;

    case SU_PENDING_OLD_BAD_GROW:
    case SU_PENDING_OLD_BAD_SHRINK:
        cstl_hash_resize(h, m, hash_switch);
        for (i = 0; i < n; i++) {
            cstl_hash_insert(h, child_el[i].key, &child_el[i]);
        }
        cstl_hash_resize(h,
                         (su == SU_PENDING_OLD_BAD_GROW) ? m * 3 + 2
                         : (m > 1 ? m / 2 : 2),
                         cstl_hash_mul);
        break;

    case SU_CYCLED_CURRENT_BAD:
    case SU_CYCLED_PENDING_OLD_BAD: {
        const unsigned int cycles = 1 + (unsigned int)((m + kind) % 6);
        unsigned int c;
        size_t cnt = 0;

        cstl_hash_resize(h, m + 2, cstl_hash_div);
        for (i = 0; i < n; i++) {
            cstl_hash_insert(h, child_el[i].key, &child_el[i]);
        }
        for (c = 0; c < cycles; c++) {
            /* a resize, brought to completion one way or another */
            cstl_hash_resize(h, 1 + (m * (c + 2)) % 37,
                             (c & 1) ? hash_switch2 : cstl_hash_mul);
            switch ((c + kind) % 5) {
            case 0:
                cstl_hash_rehash(h);
                break;
            case 1:
                cstl_hash_foreach(h, count_visit, &cnt);
                break;
            case 2:
                for (i = 0; i < 200; i++) {
                    cstl_hash_find(h, i, NULL, NULL);
                }
                break;
            case 3:
                /* superseded by the next resize */
                cstl_hash_find(h, c, NULL, NULL);
                break;
            default:
                cstl_hash_shrink_to_fit(h);
                break;
            }
            /* requests that change nothing */
            cstl_hash_resize(h, 0, hash_always_bad);
            if (c & 2) {
                cstl_hash_resize(h, 1 + (m * (c + 2)) % 37, NULL);
            }
        }
        cstl_hash_resize(h, m, hash_switch);
        cstl_hash_rehash(h);
        if (su == SU_CYCLED_PENDING_OLD_BAD) {
            cstl_hash_resize(h, m + 3, hash_mod);
        }
        for (i = 0; i < n; i++) {
            if (cstl_hash_find(h, child_el[i].key, match_visit, &child_el[i])
                != &child_el[i]) {
                _exit(2);
            }
            if (su == SU_CYCLED_PENDING_OLD_BAD && i == 2) {
                /* keep (most likely) some of the rehash pending */
                break;
            }
        }
        break;
    }

    default:
        _exit(2);
    }

    if (cstl_hash_size(h) != (su == SU_ALWAYS_BAD ? 0 : n)) {
        _exit(2);
    }
    if (hash_bad_returns != 0) {
        _exit(2);
    }

    if (su == SU_ONE_KEY_CURRENT || su == SU_ONE_KEY_PENDING) {
        bad_one_key = 1;
        bad_key = target->key;

        /*
         * while only one key is poisoned, every other
         * key can still be looked up
         */
        go_bad = 1;
        for (i = 0; i < n; i++) {
            if (child_el[i].key != bad_key && (i % 4) == 1) {
                if (cstl_hash_find(h, child_el[i].key, match_visit,
                                   &child_el[i]) != &child_el[i]
                    && hash_bad_returns == 0) {
                    _exit(2);
                }
            }
        }
        if (su == SU_ONE_KEY_CURRENT && hash_bad_returns != 0) {
            /*
             * without a rehash pending, looking up other
             * keys has no reason to hash the poisoned one
             */
            _exit(1);
        }
    }

    go_bad = 1;
    before = hash_bad_returns;

    switch (op) {
    case OP_FIND:
        cstl_hash_find(h, target->key, NULL, NULL);
        break;
    case OP_FIND_ABSENT:
        if (bad_one_key) {
            /* absent object, poisoned key */
            cstl_hash_find(h, bad_key, match_visit, &child_el[39]);
        } else {
            cstl_hash_find(h, 1000003, NULL, NULL);
        }
        break;
    case OP_INSERT:
        cstl_hash_insert(h, bad_one_key ? bad_key : 31, &child_el[31]);
        break;
    case OP_ERASE:
        if (su == SU_ALWAYS_BAD) {
            /* nothing is in the table; nothing can be erased */
            _exit(0);
        }
        cstl_hash_erase(h, target);
        break;
    case OP_REHASH:
        cstl_hash_rehash(h);
        break;
    case OP_FOREACH: {
        size_t c = 0;
        cstl_hash_foreach(h, count_visit, &c);
        break;
    }
    case OP_RESIZE:
        cstl_hash_resize(h, m + 5, cstl_hash_div);
        break;
    case OP_SHRINK:
        cstl_hash_shrink_to_fit(h);
        break;
    case OP_NESTED_FIND:
        /*
         * a well-behaved outer table whose visitor
         * performs the doomed lookup on this one
         */
        cstl_hash_resize(&inner, 4, cstl_hash_mul);
        cstl_hash_insert(&inner, 9, &child_el[32]);
        cstl_hash_find(&inner, 9, inner_visit, h);
        break;
    default:
        _exit(2);
    }

    if (hash_bad_returns != before) {
        /* a bad value went by unpunished */
        _exit(1);
    }
    _exit(0);
}

static unsigned long n_aborted, n_vacuous, n_children;

/* must this (setup, op) invoke the misbehaving hash function? */
static int must_abort(const enum setup su, const enum op op)
{
    switch (op) {
    case OP_FIND:
    case OP_INSERT:
    case OP_ERASE:
    case OP_NESTED_FIND:
        /*
         * a keyed operation on a table holding an object with
         * that key cannot avoid hashing the key with the
         * table's current function
         */
        if (op == OP_ERASE && su == SU_ALWAYS_BAD) {
            return 0;
        }
        return su == SU_CURRENT_BAD
            || su == SU_CYCLED_CURRENT_BAD
            || su == SU_CURRENT_BAD_SHRUNK
            || su == SU_ONE_KEY_CURRENT
            || (su == SU_ALWAYS_BAD && op == OP_INSERT);
    default:
        return 0;
    }
}

static void run_child(const enum setup su, const enum op op, const size_t m,
                      const int kind, const int use_static)
{
    pid_t pid;
    int status = 0;

    fflush(NULL);
    pid = fork();
    if (pid < 0) {
        perror("fork");
        exit(3);
    }
    if (pid == 0) {
        child(su, op, m, kind, use_static);
        _exit(2);
    }
    if (waitpid(pid, &status, 0) != pid) {
        perror("waitpid");
        exit(3);
    }
    n_children++;

    if (WIFSIGNALED(status) && WTERMSIG(status) == SIGABRT) {
        n_aborted++;
    } else if (WIFEXITED(status) && WEXITSTATUS(status) == 0) {
        n_vacuous++;
        if (must_abort(su, op)) {
            FAIL("%s/%s m=%zu kind=%d static=%d: completed without "
                 "consulting the hash function",
                 setup_names[su], op_names[op], m, kind, use_static);
        }
    } else if (WIFEXITED(status) && WEXITSTATUS(status) == 1) {
        FAIL("%s/%s m=%zu kind=%d static=%d: hash returned an out-of-range "
             "value and the operation did not abort",
             setup_names[su], op_names[op], m, kind, use_static);
    } else if (WIFEXITED(status)) {
        FAIL("%s/%s m=%zu kind=%d static=%d: scenario setup failed (%d)",
             setup_names[su], op_names[op], m, kind, use_static,
             WEXITSTATUS(status));
    } else {
        FAIL("%s/%s m=%zu kind=%d static=%d: died by signal %d, "
             "not SIGABRT",
             setup_names[su], op_names[op], m, kind, use_static,
             WIFSIGNALED(status) ? WTERMSIG(status) : -1);
    }
}

static void part3(void)
{
    static const size_t sizes[] = { 1, 2, 7, 64 };
    unsigned int su, op, si;
    int kind;

    for (su = 0; su < SU_MAX; su++) {
        for (op = 0; op < OP_MAX; op++) {
            for (si = 0; si < sizeof(sizes) / sizeof(sizes[0]); si++) {
                for (kind = 0; kind < 3; kind++) {
                    run_child((enum setup)su, (enum op)op, sizes[si], kind,
                              (su + op + si + kind) & 1);
                }
            }
        }
    }
}

/* ------------------------------------------------------------------ */

int main(void)
{
    unsigned int i;

    part1();
    printf("part 1: %llu range checks over %u table sizes\n",
           range_checks, nms);

    part2_edges();
    part2_chains();
    for (i = 0; i < 24; i++) {
        part2_run(i & 1, 20000);
    }
    printf("part 2: %lu calls of in-range user hashes, no abort\n",
           hash_calls);

    part3();
    printf("part 3: %lu children, %lu aborted, %lu never saw a bad value\n",
           n_children, n_aborted, n_vacuous);

    if (n_aborted == 0) {
        FAIL("no scenario aborted at all");
    }

    if (failures != 0) {
        fprintf(stderr, "%lu failure(s)\n", failures);
        return 1;
    }
    printf("ok\n");
    return 0;
}
