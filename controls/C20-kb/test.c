/*
 * C20 / change b (order of the checks in cstl_array_at/_slice/_unslice): the
 * generic enumeration below plus array_semantics(), which pins down what the
 * array functions do with healthy objects and bad indexes/ranges, and with
 * stray copies in combination with bad indexes/ranges.
 *
 * C20: every public function that takes a guarded, unique, shared or weak
 * pointer or an array object is applied to a stray bitwise copy (made by
 * assignment and by memcpy) in each argument position and in each object
 * state; each such call must end in SIGABRT (run in a forked child). The
 * original must keep working, objects that are (re)initialized or moved with
 * the library's own functions must never abort, and objects declared with the
 * DECLARE_ and INITIALIZER macros at file scope and block scope must be valid.
 *
 * build (from the worktree root, after `make build`):
 *   gcc -std=c99 -D_POSIX_C_SOURCE=199309L -Wall -Wextra -Iinclude -o _keep/b/test _keep/b/test.c build/libcstl.a -lm
 * run:
 *   ./_keep/b/test
 */
#include "cstl/memory.h"
#include "cstl/array.h"

#include <stdio.h>
#include <stdlib.h>
#include <string.h>
#include <signal.h>
#include <unistd.h>
#include <sys/types.h>
#include <sys/wait.h>

#define CHECK(X)                                                        \
    do {                                                                \
        if (!(X)) {                                                     \
            printf("FAIL %s:%d [%s]: %s\n",                             \
                   __FILE__, __LINE__, where, #X);                      \
            exit(1);                                                    \
        }                                                               \
    } while (0)

static const char * where = "";
static unsigned int naborts, nclean;

struct ctx
{
    void * stray;       /* the bitwise copy */
    void * other;       /* a healthy object of the same kind */
    void * third;       /* a healthy object of a related kind, if needed */
};
typedef void action_t(struct ctx *);
struct named_action
{
    const char * name;
    action_t * act;
};
#define ACT(NAME) { #NAME, NAME }

/* 1: died of SIGABRT, 0: returned normally; anything else fails the test */
static int aborts(action_t * const act, struct ctx * const c)
{
    int st;
    const pid_t pid = fork();
    CHECK(pid >= 0);
    if (pid == 0) {
        act(c);
        _exit(0);
    }
    CHECK(waitpid(pid, &st, 0) == pid);
    if (WIFSIGNALED(st)) {
        CHECK(WTERMSIG(st) == SIGABRT);
        naborts++;
        return 1;
    }
    CHECK(WIFEXITED(st) && WEXITSTATUS(st) == 0);
    nclean++;
    return 0;
}

/* how the stray copy comes into being */
enum { BY_ASSIGN, BY_MEMCPY, BY_MOVE, NHOW };
#define STRAY(TYPE, DST, SRC, HOW)                                      \
    do {                                                                \
        if ((HOW) == BY_ASSIGN) {                                       \
            (DST) = (SRC);                                              \
        } else if ((HOW) == BY_MEMCPY) {                                \
            memcpy(&(DST), &(SRC), sizeof(TYPE));                       \
        } else {                                                        \
            /* relocation through an intermediate byte buffer */        \
            unsigned char buf_[sizeof(TYPE)];                           \
            memcpy(buf_, &(SRC), sizeof(TYPE));                         \
            memcpy(&(DST), buf_, sizeof(TYPE));                         \
        }                                                               \
    } while (0)

static int clears;
static void on_clear(void * const mem, void * const priv)
{
    (void)mem; (void)priv;
    clears++;
}

/* ------------------------------------------------------------ guarded */

static int cookie;

static void g_get(struct ctx * c) { cstl_guarded_ptr_get(c->stray); }
static void g_get_const(struct ctx * c) { cstl_guarded_ptr_get_const(c->stray); }
static void g_copy_src(struct ctx * c) { cstl_guarded_ptr_copy(c->other, c->stray); }
static void g_swap_1(struct ctx * c) { cstl_guarded_ptr_swap(c->stray, c->other); }
static void g_swap_2(struct ctx * c) { cstl_guarded_ptr_swap(c->other, c->stray); }
/* these (re)initialize the object they are given and must not abort */
static void g_set(struct ctx * c)
{
    cstl_guarded_ptr_set(c->stray, &cookie);
    if (cstl_guarded_ptr_get(c->stray) != &cookie) { _exit(3); }
}
static void g_init(struct ctx * c)
{
    cstl_guarded_ptr_init(c->stray);
    if (cstl_guarded_ptr_get(c->stray) != NULL) { _exit(3); }
}
static void g_copy_dst(struct ctx * c)
{
    cstl_guarded_ptr_copy(c->stray, c->other);
    if (cstl_guarded_ptr_get(c->stray) != cstl_guarded_ptr_get(c->other)) {
        _exit(3);
    }
}

static void guarded_cases(void)
{
    static const struct named_action bad[] = {
        ACT(g_get), ACT(g_get_const), ACT(g_copy_src), ACT(g_swap_1),
        ACT(g_swap_2),
    };
    static const struct named_action good[] = {
        ACT(g_set), ACT(g_init), ACT(g_copy_dst),
    };
    unsigned int a;
    int how, state;

    for (state = 0; state < 2; state++) {
        for (how = 0; how < NHOW; how++) {
            DECLARE_CSTL_GUARDED_PTR(orig);
            DECLARE_CSTL_GUARDED_PTR(other);
            struct cstl_guarded_ptr stray;
            struct ctx c;

            if (state == 1) {
                cstl_guarded_ptr_set(&orig, &cookie);
            }
            cstl_guarded_ptr_set(&other, &clears);
            STRAY(struct cstl_guarded_ptr, stray, orig, how);
            c.stray = &stray; c.other = &other; c.third = NULL;

            for (a = 0; a < sizeof(bad) / sizeof(*bad); a++) {
                where = bad[a].name;
                CHECK(aborts(bad[a].act, &c));
            }
            for (a = 0; a < sizeof(good) / sizeof(*good); a++) {
                where = good[a].name;
                CHECK(!aborts(good[a].act, &c));
            }
            where = "guarded original";
            CHECK(cstl_guarded_ptr_get(&orig) == (state ? &cookie : NULL));
            CHECK(cstl_guarded_ptr_get(&other) == &clears);
            cstl_guarded_ptr_swap(&orig, &other);
            CHECK(cstl_guarded_ptr_get(&orig) == &clears);
        }
    }
}

/* ------------------------------------------------------------- unique */

static void u_get(struct ctx * c) { cstl_unique_ptr_get(c->stray); }
static void u_get_const(struct ctx * c) { cstl_unique_ptr_get_const(c->stray); }
static void u_release(struct ctx * c) { cstl_unique_ptr_release(c->stray, NULL, NULL); }
static void u_release_out(struct ctx * c)
{
    cstl_xtor_func_t * f;
    void * p;
    cstl_unique_ptr_release(c->stray, &f, &p);
}
static void u_swap_1(struct ctx * c) { cstl_unique_ptr_swap(c->stray, c->other); }
static void u_swap_2(struct ctx * c) { cstl_unique_ptr_swap(c->other, c->stray); }
static void u_reset(struct ctx * c) { cstl_unique_ptr_reset(c->stray); }
static void u_alloc(struct ctx * c) { cstl_unique_ptr_alloc(c->stray, 8, NULL, NULL); }
static void u_alloc_0(struct ctx * c) { cstl_unique_ptr_alloc(c->stray, 0, NULL, NULL); }
static void u_init(struct ctx * c)
{
    cstl_unique_ptr_init(c->stray);
    if (cstl_unique_ptr_get(c->stray) != NULL) { _exit(3); }
    cstl_unique_ptr_alloc(c->stray, 8, NULL, NULL);
    cstl_unique_ptr_reset(c->stray);
}

static void unique_cases(void)
{
    static const struct named_action bad[] = {
        ACT(u_get), ACT(u_get_const), ACT(u_release), ACT(u_release_out),
        ACT(u_swap_1), ACT(u_swap_2), ACT(u_reset), ACT(u_alloc),
        ACT(u_alloc_0),
    };
    unsigned int a;
    int how, state;

    for (state = 0; state < 2; state++) {
        for (how = 0; how < NHOW; how++) {
            DECLARE_CSTL_UNIQUE_PTR(orig);
            DECLARE_CSTL_UNIQUE_PTR(other);
            cstl_unique_ptr_t stray;
            struct ctx c;
            void * mem;

            if (state == 1) {
                cstl_unique_ptr_alloc(&orig, 32, on_clear, NULL);
                CHECK(cstl_unique_ptr_get(&orig) != NULL);
            }
            cstl_unique_ptr_alloc(&other, 16, NULL, NULL);
            STRAY(cstl_unique_ptr_t, stray, orig, how);
            c.stray = &stray; c.other = &other; c.third = NULL;

            for (a = 0; a < sizeof(bad) / sizeof(*bad); a++) {
                where = bad[a].name;
                CHECK(aborts(bad[a].act, &c));
            }
            where = "u_init";
            CHECK(!aborts(u_init, &c));

            where = "unique original";
            clears = 0;
            mem = cstl_unique_ptr_get(&orig);
            CHECK((mem != NULL) == (state == 1));
            cstl_unique_ptr_swap(&orig, &other);
            CHECK(cstl_unique_ptr_get(&other) == mem);
            cstl_unique_ptr_reset(&other);
            CHECK(clears == state);
            cstl_unique_ptr_reset(&orig);
            CHECK(clears == state);
        }
    }
}

/* ------------------------------------------------------ shared / weak */

static void s_alloc(struct ctx * c) { cstl_shared_ptr_alloc(c->stray, 8, NULL); }
static void s_alloc_0(struct ctx * c) { cstl_shared_ptr_alloc(c->stray, 0, NULL); }
static void s_unique(struct ctx * c) { cstl_shared_ptr_unique(c->stray); }
static void s_get(struct ctx * c) { cstl_shared_ptr_get(c->stray); }
static void s_get_const(struct ctx * c) { cstl_shared_ptr_get_const(c->stray); }
static void s_share_src(struct ctx * c) { cstl_shared_ptr_share(c->stray, c->other); }
static void s_share_dst(struct ctx * c) { cstl_shared_ptr_share(c->other, c->stray); }
static void s_swap_1(struct ctx * c) { cstl_shared_ptr_swap(c->stray, c->other); }
static void s_swap_2(struct ctx * c) { cstl_shared_ptr_swap(c->other, c->stray); }
static void s_reset(struct ctx * c) { cstl_shared_ptr_reset(c->stray); }
/* a shared pointer as the argument of the weak pointer functions */
static void s_weak_from(struct ctx * c) { cstl_weak_ptr_from(c->third, c->stray); }
static void s_weak_lock(struct ctx * c) { cstl_weak_ptr_lock(c->third, c->stray); }

static void w_from(struct ctx * c) { cstl_weak_ptr_from(c->stray, c->third); }
static void w_lock(struct ctx * c) { cstl_weak_ptr_lock(c->stray, c->third); }
static void w_swap_1(struct ctx * c) { cstl_weak_ptr_swap(c->stray, c->other); }
static void w_swap_2(struct ctx * c) { cstl_weak_ptr_swap(c->other, c->stray); }
static void w_reset(struct ctx * c) { cstl_weak_ptr_reset(c->stray); }

static void sw_init(struct ctx * c)
{
    cstl_shared_ptr_init(c->stray);
    if (cstl_shared_ptr_get(c->stray) != NULL) { _exit(3); }
    cstl_shared_ptr_share(c->other, c->stray);
    if (cstl_shared_ptr_get(c->stray) != cstl_shared_ptr_get(c->other)) {
        _exit(3);
    }
    cstl_shared_ptr_reset(c->stray);
}

enum { S_EMPTY, S_OWNING, S_SHARED, S_NSTATES };

static void shared_cases(void)
{
    static const struct named_action bad[] = {
        ACT(s_alloc), ACT(s_alloc_0), ACT(s_unique), ACT(s_get),
        ACT(s_get_const), ACT(s_share_src), ACT(s_share_dst), ACT(s_swap_1),
        ACT(s_swap_2), ACT(s_reset), ACT(s_weak_from), ACT(s_weak_lock),
    };
    unsigned int a;
    int how, state;

    for (state = 0; state < S_NSTATES; state++) {
        for (how = 0; how < NHOW; how++) {
            DECLARE_CSTL_SHARED_PTR(orig);
            DECLARE_CSTL_SHARED_PTR(co);
            DECLARE_CSTL_SHARED_PTR(other);
            DECLARE_CSTL_WEAK_PTR(weak);
            cstl_shared_ptr_t stray;
            struct ctx c;

            clears = 0;
            if (state != S_EMPTY) {
                cstl_shared_ptr_alloc(&orig, 32, on_clear);
                CHECK(cstl_shared_ptr_get(&orig) != NULL);
            }
            if (state == S_SHARED) {
                cstl_shared_ptr_share(&orig, &co);
            }
            cstl_shared_ptr_alloc(&other, 16, NULL);
            cstl_weak_ptr_from(&weak, &other);
            STRAY(cstl_shared_ptr_t, stray, orig, how);
            c.stray = &stray; c.other = &other; c.third = &weak;

            for (a = 0; a < sizeof(bad) / sizeof(*bad); a++) {
                where = bad[a].name;
                CHECK(aborts(bad[a].act, &c));
            }
            where = "sw_init";
            CHECK(!aborts(sw_init, &c));

            where = "shared original";
            CHECK((cstl_shared_ptr_get(&orig) != NULL) == (state != S_EMPTY));
            CHECK(cstl_shared_ptr_unique(&orig) == (state != S_SHARED));
            cstl_shared_ptr_swap(&orig, &other);
            cstl_shared_ptr_reset(&other);
            CHECK(clears == (state == S_OWNING));
            cstl_shared_ptr_reset(&co);
            CHECK(clears == (state != S_EMPTY));
            cstl_weak_ptr_lock(&weak, &other);
            CHECK(cstl_shared_ptr_get(&other) == cstl_shared_ptr_get(&orig));
            cstl_shared_ptr_reset(&other);
            cstl_shared_ptr_reset(&orig);
            cstl_weak_ptr_lock(&weak, &other);
            CHECK(cstl_shared_ptr_get(&other) == NULL);
            cstl_weak_ptr_reset(&weak);
        }
    }
}

enum { W_EMPTY, W_LIVE, W_WEAKONLY, W_NSTATES };

static void weak_cases(void)
{
    static const struct named_action bad[] = {
        ACT(w_from), ACT(w_lock), ACT(w_swap_1), ACT(w_swap_2), ACT(w_reset),
    };
    unsigned int a;
    int how, state;

    for (state = 0; state < W_NSTATES; state++) {
        for (how = 0; how < NHOW; how++) {
            DECLARE_CSTL_SHARED_PTR(owner);
            DECLARE_CSTL_SHARED_PTR(sp);
            DECLARE_CSTL_WEAK_PTR(orig);
            DECLARE_CSTL_WEAK_PTR(other);
            cstl_weak_ptr_t stray;
            struct ctx c;

            clears = 0;
            if (state != W_EMPTY) {
                cstl_shared_ptr_alloc(&owner, 32, on_clear);
                cstl_weak_ptr_from(&orig, &owner);
            }
            if (state == W_WEAKONLY) {
                cstl_shared_ptr_reset(&owner);
                CHECK(clears == 1);
            }
            cstl_shared_ptr_alloc(&sp, 16, NULL);
            cstl_weak_ptr_from(&other, &sp);
            STRAY(cstl_weak_ptr_t, stray, orig, how);
            /* third: a healthy shared pointer for from()/lock() */
            c.stray = &stray; c.other = &other; c.third = &sp;

            for (a = 0; a < sizeof(bad) / sizeof(*bad); a++) {
                where = bad[a].name;
                CHECK(aborts(bad[a].act, &c));
            }
            where = "sw_init (weak)";
            c.other = &sp;
            CHECK(!aborts(sw_init, &c));

            where = "weak original";
            cstl_weak_ptr_lock(&orig, &sp);
            CHECK((cstl_shared_ptr_get(&sp) != NULL) == (state == W_LIVE));
            if (state == W_LIVE) {
                CHECK(cstl_shared_ptr_get(&sp) == cstl_shared_ptr_get(&owner));
            }
            cstl_weak_ptr_swap(&orig, &other);
            cstl_weak_ptr_reset(&other);
            cstl_weak_ptr_reset(&orig);
            cstl_shared_ptr_reset(&sp);
            cstl_shared_ptr_reset(&owner);
            CHECK(clears == (state != W_EMPTY));
        }
    }
}

/* -------------------------------------------------------------- array */

static int extbuf[6];

static void a_alloc(struct ctx * c) { cstl_array_alloc(c->stray, 4, sizeof(int)); }
static void a_set(struct ctx * c) { cstl_array_set(c->stray, extbuf, 6, sizeof(int)); }
static void a_release(struct ctx * c)
{
    void * b;
    cstl_array_release(c->stray, &b);
}
static void a_release_null(struct ctx * c) { cstl_array_release(c->stray, NULL); }
static void a_data(struct ctx * c) { cstl_array_data(c->stray); }
static void a_data_const(struct ctx * c) { cstl_array_data_const(c->stray); }
static void a_at(struct ctx * c) { cstl_array_at(c->stray, 0); }
static void a_at_const(struct ctx * c) { cstl_array_at_const(c->stray, 0); }
static void a_slice_src(struct ctx * c) { cstl_array_slice(c->stray, 0, 0, c->other); }
static void a_slice_self(struct ctx * c) { cstl_array_slice(c->stray, 0, 0, c->stray); }
static void a_slice_dst(struct ctx * c) { cstl_array_slice(c->other, 1, 3, c->stray); }
static void a_unslice_src(struct ctx * c) { cstl_array_unslice(c->stray, c->other); }
static void a_unslice_self(struct ctx * c) { cstl_array_unslice(c->stray, c->stray); }
static void a_unslice_dst(struct ctx * c) { cstl_array_unslice(c->other, c->stray); }
static void a_reset(struct ctx * c) { cstl_array_reset(c->stray); }
static void a_init(struct ctx * c)
{
    cstl_array_init(c->stray);
    if (cstl_array_size(c->stray) != 0 || cstl_array_data(c->stray) != NULL) {
        _exit(3);
    }
    cstl_array_slice(c->other, 1, 3, c->stray);
    if (cstl_array_size(c->stray) != 2
        || cstl_array_at(c->stray, 0) != cstl_array_at(c->other, 1)) {
        _exit(3);
    }
    cstl_array_reset(c->stray);
}
/* reads no pointer */
static void a_size(struct ctx * c) { (void)cstl_array_size(c->stray); }

enum { A_EMPTY, A_OWNING, A_SLICED, A_EXTERNAL, A_NSTATES };

static void array_cases(void)
{
    static const struct named_action bad[] = {
        ACT(a_alloc), ACT(a_set), ACT(a_release), ACT(a_release_null),
        ACT(a_data), ACT(a_data_const), ACT(a_at), ACT(a_at_const),
        ACT(a_slice_src), ACT(a_slice_self), ACT(a_slice_dst),
        ACT(a_unslice_src), ACT(a_unslice_self), ACT(a_unslice_dst),
        ACT(a_reset),
    };
    unsigned int a;
    int how, state;

    for (state = 0; state < A_NSTATES; state++) {
        for (how = 0; how < NHOW; how++) {
            DECLARE_CSTL_ARRAY(orig);
            DECLARE_CSTL_ARRAY(view);
            DECLARE_CSTL_ARRAY(other);
            cstl_array_t stray;
            struct ctx c;
            void * b;
            size_t i;

            if (state == A_OWNING || state == A_SLICED) {
                cstl_array_alloc(&orig, 5, sizeof(int));
                CHECK(cstl_array_size(&orig) == 5);
                for (i = 0; i < 5; i++) {
                    *(int *)cstl_array_at(&orig, i) = (int)(10 + i);
                }
            } else if (state == A_EXTERNAL) {
                cstl_array_set(&orig, extbuf, 6, sizeof(int));
                CHECK(cstl_array_size(&orig) == 6);
            }
            if (state == A_SLICED) {
                cstl_array_slice(&orig, 1, 4, &view);
                cstl_array_slice(&orig, 2, 5, &orig);
            }
            cstl_array_alloc(&other, 4, sizeof(int));
            CHECK(cstl_array_size(&other) == 4);
            STRAY(cstl_array_t, stray, orig, how);
            c.stray = &stray; c.other = &other; c.third = NULL;

            for (a = 0; a < sizeof(bad) / sizeof(*bad); a++) {
                where = bad[a].name;
                CHECK(aborts(bad[a].act, &c));
            }
            where = "a_init";
            CHECK(!aborts(a_init, &c));
            where = "a_size";
            CHECK(!aborts(a_size, &c));

            where = "array original";
            switch (state) {
            case A_EMPTY:
                CHECK(cstl_array_size(&orig) == 0);
                CHECK(cstl_array_data(&orig) == NULL);
                break;
            case A_OWNING:
                CHECK(*(int *)cstl_array_at(&orig, 4) == 14);
                break;
            case A_SLICED:
                CHECK(cstl_array_size(&orig) == 3);
                CHECK(*(int *)cstl_array_at(&orig, 0) == 12);
                CHECK(*(int *)cstl_array_at(&view, 0) == 11);
                cstl_array_unslice(&orig, &orig);
                CHECK(cstl_array_size(&orig) == 5);
                break;
            default:
                CHECK(cstl_array_at(&orig, 5) == (void *)&extbuf[5]);
                cstl_array_release(&orig, &b);
                CHECK(b == (void *)extbuf);
                break;
            }
            cstl_array_reset(&view);
            cstl_array_reset(&orig);
            cstl_array_reset(&other);
        }
    }
}


/* ---- array: healthy objects, bad arguments, and both at once ---- */

static void as_at_oob(struct ctx * c) { cstl_array_at(c->other, 4); }
static void as_at_oob_big(struct ctx * c) { cstl_array_at_const(c->other, (size_t)-1); }
static void as_at_empty(struct ctx * c) { cstl_array_at(c->third, 0); }
static void as_slice_rev(struct ctx * c) { cstl_array_slice(c->other, 3, 2, c->third); }
static void as_slice_long(struct ctx * c) { cstl_array_slice(c->other, 0, 5, c->third); }
static void as_slice_empty_src(struct ctx * c) { cstl_array_slice(c->third, 0, 0, c->other); }
static void as_unslice_empty_src(struct ctx * c) { cstl_array_unslice(c->third, c->other); }
/* a stray copy together with an argument that is bad anyway */
static void as_stray_at_oob(struct ctx * c) { cstl_array_at(c->stray, 100); }
static void as_stray_slice_rev(struct ctx * c) { cstl_array_slice(c->stray, 3, 2, c->other); }
static void as_stray_dst_bad_range(struct ctx * c) { cstl_array_slice(c->other, 0, 5, c->stray); }
static void as_stray_dst_empty_src(struct ctx * c) { cstl_array_unslice(c->third, c->stray); }

static void array_semantics(void)
{
    static const struct named_action bad[] = {
        ACT(as_at_oob), ACT(as_at_oob_big), ACT(as_at_empty),
        ACT(as_slice_rev), ACT(as_slice_long), ACT(as_slice_empty_src),
        ACT(as_unslice_empty_src), ACT(as_stray_at_oob),
        ACT(as_stray_slice_rev), ACT(as_stray_dst_bad_range),
        ACT(as_stray_dst_empty_src),
    };
    DECLARE_CSTL_ARRAY(orig);
    DECLARE_CSTL_ARRAY(other);
    DECLARE_CSTL_ARRAY(empty);
    DECLARE_CSTL_ARRAY(dst);
    cstl_array_t stray;
    struct ctx c;
    unsigned int a;
    size_t i;

    cstl_array_alloc(&orig, 5, sizeof(int));
    cstl_array_alloc(&other, 4, sizeof(int));
    for (i = 0; i < 4; i++) {
        *(int *)cstl_array_at(&other, i) = (int)(40 + i);
    }
    stray = orig;
    c.stray = &stray; c.other = &other; c.third = &empty;
    for (a = 0; a < sizeof(bad) / sizeof(*bad); a++) {
        where = bad[a].name;
        CHECK(aborts(bad[a].act, &c));
    }

    where = "array semantics";
    /* a destination that holds other memory lets go of it and takes the view */
    cstl_array_alloc(&dst, 2, sizeof(int));
    cstl_array_slice(&other, 1, 4, &dst);
    CHECK(cstl_array_size(&dst) == 3);
    CHECK(cstl_array_at(&dst, 0) == cstl_array_at(&other, 1));
    CHECK(*(int *)cstl_array_at(&dst, 2) == 43);
    /* empty views at either end are fine */
    cstl_array_slice(&other, 4, 4, &dst);
    CHECK(cstl_array_size(&dst) == 0);
    cstl_array_slice(&other, 0, 0, &dst);
    CHECK(cstl_array_size(&dst) == 0 && cstl_array_data(&dst) != NULL);
    /* narrowing in place, and widening again into another object and itself */
    cstl_array_slice(&other, 1, 3, &other);
    CHECK(cstl_array_size(&other) == 2);
    CHECK(*(int *)cstl_array_at(&other, 0) == 41);
    cstl_array_slice(&other, 1, 2, &other);
    CHECK(cstl_array_size(&other) == 1);
    CHECK(*(int *)cstl_array_at(&other, 0) == 42);
    cstl_array_unslice(&other, &dst);
    CHECK(cstl_array_size(&dst) == 4 && *(int *)cstl_array_at(&dst, 3) == 43);
    CHECK(cstl_array_size(&other) == 1);
    cstl_array_unslice(&other, &other);
    CHECK(cstl_array_size(&other) == 4 && *(int *)cstl_array_at(&other, 0) == 40);
    /* the last view keeps the memory alive */
    cstl_array_reset(&other);
    CHECK(*(int *)cstl_array_at(&dst, 1) == 41);

    cstl_array_reset(&dst);
    cstl_array_reset(&orig);
    CHECK(cstl_array_size(&empty) == 0);
}

/* ------------------------------------ properly handled objects: no abort */

static DECLARE_CSTL_GUARDED_PTR(file_gp);
static DECLARE_CSTL_UNIQUE_PTR(file_up);
static DECLARE_CSTL_SHARED_PTR(file_sp);
static DECLARE_CSTL_WEAK_PTR(file_wp);
static DECLARE_CSTL_ARRAY(file_arr);
static struct
{
    int pad;
    struct cstl_guarded_ptr gp;
    cstl_unique_ptr_t up;
    cstl_array_t arr[2];
} file_nest = {
    .pad = 1,
    .gp = CSTL_GUARDED_PTR_INITIALIZER(file_nest.gp),
    .up = CSTL_UNIQUE_PTR_INITIALIZER(file_nest.up),
    .arr = {
        CSTL_ARRAY_INITIALIZER(file_nest.arr[0]),
        CSTL_ARRAY_INITIALIZER(file_nest.arr[1]),
    },
};

static void well_behaved(struct ctx * const unused)
{
    struct heap_objs
    {
        struct cstl_guarded_ptr gp;
        cstl_unique_ptr_t up;
        cstl_shared_ptr_t sp;
        cstl_weak_ptr_t wp;
        cstl_array_t arr;
    } * const ho = malloc(sizeof(*ho));
    DECLARE_CSTL_GUARDED_PTR(gp);
    DECLARE_CSTL_UNIQUE_PTR(up);
    DECLARE_CSTL_SHARED_PTR(sp);
    DECLARE_CSTL_WEAK_PTR(wp);
    DECLARE_CSTL_ARRAY(arr);
    void * mem;
    int round;

    (void)unused;
    if (ho == NULL) { _exit(4); }

    /* objects that live on the heap are set up by the init functions */
    cstl_guarded_ptr_init(&ho->gp);
    cstl_unique_ptr_init(&ho->up);
    cstl_shared_ptr_init(&ho->sp);
    cstl_weak_ptr_init(&ho->wp);
    cstl_array_init(&ho->arr);

    for (round = 0; round < 3; round++) {
        /* guarded: file scope <-> stack <-> heap <-> nested */
        cstl_guarded_ptr_set(&file_gp, &cookie);
        cstl_guarded_ptr_copy(&gp, &file_gp);
        cstl_guarded_ptr_swap(&gp, &ho->gp);
        cstl_guarded_ptr_swap(&ho->gp, &file_nest.gp);
        if (cstl_guarded_ptr_get(&file_nest.gp) != &cookie
            || cstl_guarded_ptr_get(&gp) != NULL
            || cstl_guarded_ptr_get_const(&file_gp) != &cookie) {
            _exit(5);
        }
        cstl_guarded_ptr_init(&file_nest.gp);

        /* unique: allocate here, hand over there */
        cstl_unique_ptr_alloc(&file_up, 24, on_clear, NULL);
        mem = cstl_unique_ptr_get(&file_up);
        cstl_unique_ptr_swap(&file_up, &up);
        cstl_unique_ptr_swap(&up, &ho->up);
        cstl_unique_ptr_swap(&ho->up, &file_nest.up);
        if (mem == NULL || cstl_unique_ptr_get(&file_nest.up) != mem
            || cstl_unique_ptr_get(&file_up) != NULL) {
            _exit(6);
        }
        cstl_unique_ptr_reset(&file_nest.up);
        cstl_unique_ptr_alloc(&up, 8, NULL, NULL);
        mem = cstl_unique_ptr_release(&up, NULL, NULL);
        free(mem);
        cstl_unique_ptr_reset(&up);

        /* shared / weak */
        cstl_shared_ptr_alloc(&file_sp, 24, on_clear);
        cstl_shared_ptr_share(&file_sp, &sp);
        cstl_shared_ptr_share(&sp, &ho->sp);
        cstl_weak_ptr_from(&file_wp, &ho->sp);
        cstl_weak_ptr_swap(&file_wp, &wp);
        cstl_weak_ptr_swap(&wp, &ho->wp);
        cstl_shared_ptr_reset(&file_sp);
        cstl_shared_ptr_swap(&sp, &file_sp);
        cstl_shared_ptr_reset(&ho->sp);
        cstl_weak_ptr_lock(&ho->wp, &sp);
        if (cstl_shared_ptr_get(&sp) == NULL
            || cstl_shared_ptr_get(&sp) != cstl_shared_ptr_get(&file_sp)
            || cstl_shared_ptr_unique(&sp)) {
            _exit(7);
        }
        cstl_shared_ptr_reset(&sp);
        cstl_shared_ptr_reset(&file_sp);
        cstl_weak_ptr_lock(&ho->wp, &sp);
        if (cstl_shared_ptr_get(&sp) != NULL) { _exit(8); }
        cstl_weak_ptr_reset(&ho->wp);
        cstl_weak_ptr_reset(&wp);
        cstl_weak_ptr_reset(&file_wp);

        /* arrays */
        cstl_array_alloc(&file_arr, 9, sizeof(int));
        *(int *)cstl_array_at(&file_arr, 7) = 77;
        cstl_array_slice(&file_arr, 3, 9, &arr);
        cstl_array_slice(&arr, 2, 6, &ho->arr);
        cstl_array_slice(&ho->arr, 1, 3, &file_nest.arr[0]);
        cstl_array_unslice(&file_nest.arr[0], &file_nest.arr[1]);
        cstl_array_reset(&file_arr);
        if (*(int *)cstl_array_at(&arr, 4) != 77
            || *(int *)cstl_array_at(&ho->arr, 2) != 77
            || *(int *)cstl_array_at(&file_nest.arr[0], 1) != 77
            || *(int *)cstl_array_at(&file_nest.arr[1], 7) != 77
            || cstl_array_size(&file_nest.arr[1]) != 9) {
            _exit(9);
        }
        cstl_array_reset(&arr);
        cstl_array_reset(&ho->arr);
        cstl_array_reset(&file_nest.arr[0]);
        cstl_array_reset(&file_nest.arr[1]);
        cstl_array_set(&arr, extbuf, 6, sizeof(int));
        cstl_array_release(&arr, &mem);
        if (mem != (void *)extbuf) { _exit(10); }
    }

    free(ho);
}

int main(void)
{
    struct ctx none = { NULL, NULL, NULL };

    guarded_cases();
    unique_cases();
    shared_cases();
    weak_cases();
    array_cases();
    array_semantics();

    where = "well_behaved";
    CHECK(!aborts(well_behaved, &none));
    well_behaved(&none);

    printf("ok: %u stray calls aborted, %u legitimate ones did not\n",
           naborts, nclean);
    return 0;
}
