/*
 * C19 / b: resize requests on empty and nearly empty tables land where requested.
 *
 * Black-box check through the public API only. The table is given
 * instrumented hash functions that log every consultation (function, m).
 * A model remembers the geometry requested last ("now") and the one
 * requested before ("before") and counts the keyed operations since.
 *  - after every resize request cstl_hash_load() must be size / n;
 *  - every keyed operation (insert, find, erase) must consult a function at
 *    least once and only ever with the "now" or the "before" geometry;
 *  - once as many keyed operations as there were buckets have gone by (or a
 *    rehash was forced, or one lookup was seen to need one consultation),
 *    every keyed operation consults exactly once: the function and the table
 *    size requested last;
 *  - on tables of 4096 elements no keyed operation consults more than 160
 *    times (three buckets' worth), and the rehash is over after at most as
 *    many keyed operations as there were buckets.
 * Every element must stay reachable throughout.
 * The histories concentrate on requests that arrive while the table holds no
 * elements (fresh, drained, drained while a rehash was pending) mixed with
 * requests over populated tables.
 * Nothing depends on WHETHER a rehash is pending after a request that leaves
 * nothing to move, on private state, or on chain order.
 */
#include "cstl/hash.h"

#include <stdio.h>
#include <stdlib.h>
#include <stdint.h>
#include <math.h>

#define CHECK(X) do { if (!(X)) { \
    fprintf(stderr, "FAIL %s:%d: %s (history seed %lu, step %lu)\n", \
            __FILE__, __LINE__, #X, cur_seed, cur_step); \
    exit(1); } } while (0)

static unsigned long cur_seed, cur_step;

static uint64_t rng_state;
static uint64_t rng(void)
{
    rng_state ^= rng_state >> 12;
    rng_state ^= rng_state << 25;
    rng_state ^= rng_state >> 27;
    return rng_state * 0x2545f4914f6cdd1dull;
}

/* ---- instrumented hash functions: every consultation is logged ---- */

#define MAXLOG 4096
static struct
{
    int id;
    size_t m;
} calllog[MAXLOG];
static unsigned long ncalls;

static void log_call(const int id, const size_t m)
{
    if (ncalls < MAXLOG) {
        calllog[ncalls].id = id;
        calllog[ncalls].m = m;
    }
    ncalls++;
}

static size_t f0(const size_t k, const size_t m)
{
    log_call(0, m);
    return k % m;
}
static size_t f1(const size_t k, const size_t m)
{
    log_call(1, m);
    return (k / 3) % m;
}
static size_t f2(const size_t k, const size_t m)
{
    log_call(2, m);
    return cstl_hash_mul(k, m);
}
static size_t f3(const size_t k, const size_t m)
{
    log_call(3, m);
    return (k * 7 + 1) % m;
}
static cstl_hash_func_t * const funcs[4] = { f0, f1, f2, f3 };

struct item
{
    size_t key;
    int in, seen;
    struct cstl_hash_node hn;
};

static int same_item(const void * const e, void * const p)
{
    return e == p;
}

/* ---- the model of what the table was asked to be ---- */

struct geometry
{
    size_t n;
    int f;
};

static struct cstl_hash H;
static struct geometry now, before;     /* requested, and the one before */
static unsigned long ops_since;         /* keyed operations since request */
static int seen_finished;
static size_t live;
static unsigned long stat_ops, stat_pending_ops, stat_resizes;

static void expect_load(void)
{
    const float want = (float)live / (float)now.n;
    const float got = cstl_hash_load(&H);
    CHECK(cstl_hash_size(&H) == live);
    CHECK(fabsf(got - want) <= 1e-6f * (want + 1.0f));
}

/*
 * checks the consultations made by one keyed operation against
 * what the property allows at this point of the history
 */
static void check_keyed(const unsigned long max_calls)
{
    unsigned long i;

    stat_ops++;
    CHECK(ncalls >= 1);
    if (seen_finished || ops_since >= before.n) {
        /* the rehash must be over: one consultation, final geometry */
        CHECK(ncalls == 1);
        CHECK(calllog[0].id == now.f && calllog[0].m == now.n);
        seen_finished = 1;
    } else {
        stat_pending_ops++;
        CHECK(ncalls <= max_calls && ncalls < MAXLOG);
        for (i = 0; i < ncalls; i++) {
            CHECK((calllog[i].id == now.f && calllog[i].m == now.n)
                  || (calllog[i].id == before.f && calllog[i].m == before.n));
        }
        if (ncalls == 1) {
            /* a single consultation means nothing is pending any more */
            CHECK(calllog[0].id == now.f && calllog[0].m == now.n);
            seen_finished = 1;
        }
    }
    ops_since++;
}

static void do_resize(const size_t n, const int f)
{
    const int keep = (f < 0);
    const int nf = keep ? now.f : f;

    ncalls = 0;
    cstl_hash_resize(&H, n, keep ? NULL : funcs[f]);
    stat_resizes++;

    if (n != now.n || nf != now.f) {
        /* an effective request: the previous target is what we leave */
        before = now;
        now.n = n;
        now.f = nf;
        ops_since = 0;
        seen_finished = 0;
    }
    /* whatever it did, it only consulted functions it was ever given */
    expect_load();
}

static void do_find(struct item * const it, const unsigned long max_calls)
{
    void * f;
    ncalls = 0;
    f = cstl_hash_find(&H, it->key, same_item, it);
    check_keyed(max_calls);
    CHECK(f == (it->in ? it : NULL));
}

static void do_insert(struct item * const it, const unsigned long max_calls)
{
    CHECK(!it->in);
    ncalls = 0;
    cstl_hash_insert(&H, it->key, it);
    check_keyed(max_calls);
    it->in = 1;
    live++;
    expect_load();
}

static void do_erase(struct item * const it, const unsigned long max_calls)
{
    CHECK(it->in);
    ncalls = 0;
    cstl_hash_erase(&H, it);
    check_keyed(max_calls);
    it->in = 0;
    live--;
    expect_load();
}

static int mark_visit(const void * const e, void * const p)
{
    struct item * const it = (struct item *)e;
    CHECK(it->in && !it->seen);
    it->seen = 1;
    ++*(size_t *)p;
    return 0;
}

static void full_audit(struct item * const items, const size_t nitems,
                       const int force)
{
    size_t i, n = 0;

    for (i = 0; i < nitems; i++) {
        items[i].seen = 0;
    }
    cstl_hash_foreach_const(&H, mark_visit, &n);
    CHECK(n == live);

    if (force) {
        cstl_hash_rehash(&H);
        /* forced to the end: from here on exactly one consultation */
        ops_since = before.n;
    }
    for (i = 0; i < nitems; i++) {
        void * f;
        ncalls = 0;
        f = cstl_hash_find(&H, items[i].key, same_item, &items[i]);
        CHECK(f == (items[i].in ? &items[i] : NULL));
        if (force) {
            CHECK(ncalls == 1);
            CHECK(calllog[0].id == now.f && calllog[0].m == now.n);
        }
        /* these lookups are keyed operations too */
        ops_since++;
    }
    if (force) {
        seen_finished = 1;
    }
}

static void start(const size_t n, const int f)
{
    cstl_hash_init(&H, offsetof(struct item, hn));
    live = 0;
    now.n = n; now.f = f;
    before = now;
    ops_since = 0;
    seen_finished = 0;
    ncalls = 0;
    cstl_hash_resize(&H, n, funcs[f]);
    expect_load();
    /* the first geometry has nothing to rehash from */
    seen_finished = 1;
}

static void finish(struct item * const items, const size_t nitems)
{
    size_t i;
    cstl_hash_clear(&H, NULL);
    for (i = 0; i < nitems; i++) {
        items[i].in = 0;
    }
    live = 0;
}

/* ---- seeded random histories ---- */

static void random_history(const unsigned long seed, const unsigned int steps,
                           const unsigned int p_resize,
                           const unsigned int nuse)
{
    enum { NITEMS = 120 };
    static struct item items[NITEMS];
    static const size_t sizes[] = { 1, 2, 3, 5, 8, 13, 16, 31, 32, 64 };
    unsigned int s;
    size_t i;

    cur_seed = seed;
    rng_state = seed * 0x9e3779b97f4a7c15ull + 1;
    for (i = 0; i < NITEMS; i++) {
        items[i].key = rng() % 97;      /* duplicates happen */
        items[i].in = 0;
    }

    start(sizes[rng() % 10], (int)(rng() % 4));

    for (s = 0; s < steps; s++) {
        const unsigned int what = rng() % 100;
        struct item * const it = &items[rng() % nuse];
        cur_step = s;

        if (what < p_resize) {
            const unsigned int kind = rng() % 6;
            if (kind == 0) {
                /* same size, another function */
                do_resize(now.n, (now.f + 1 + (int)(rng() % 3)) % 4);
            } else if (kind == 1) {
                /* back to where it came from */
                do_resize(before.n, before.f);
            } else if (kind == 2) {
                /* repeated */
                do_resize(now.n, (rng() & 1) ? now.f : -1);
            } else {
                do_resize(sizes[rng() % 10], (int)(rng() % 5) - 1);
            }
        } else if (what < p_resize + 2) {
            full_audit(items, NITEMS, 1);
        } else if (what < p_resize + 4) {
            full_audit(items, NITEMS, 0);
        } else if (what < p_resize + 6) {
            /* may or may not force the rehash to the end */
            cstl_hash_shrink_to_fit(&H);
            expect_load();
        } else if (what < 55) {
            if (!it->in) {
                do_insert(it, MAXLOG);
            } else {
                do_find(it, MAXLOG);
            }
        } else if (what < 75) {
            if (it->in) {
                do_erase(it, MAXLOG);
            } else {
                do_find(it, MAXLOG);
            }
        } else {
            do_find(it, MAXLOG);
        }
    }

    full_audit(items, NITEMS, 1);
    finish(items, NITEMS);
}

/* ---- big table: bounded work per operation, bounded completion ---- */

static void bounded(const size_t from, const size_t to, const int f_from,
                    const int f_to, const unsigned int mix)
{
    enum { N = 4096 };
    static struct item items[N + 64];
    unsigned long ops = 0;
    size_t i;

    cur_seed = 1000000 + from * 10 + to;
    start(from, f_from);
    for (i = 0; i < N + 64; i++) {
        items[i].key = i;
        items[i].in = 0;
    }
    for (i = 0; i < N; i++) {
        do_insert(&items[i], 1);
    }

    do_resize(to, f_to);

    /*
     * at most `from` keyed operations may still see the rehash; each
     * of them may touch three buckets' worth of nodes, never the table
     */
    while (!seen_finished) {
        cur_step = ops;
        CHECK(ops <= from);
        switch (mix == 3 ? (unsigned int)(rng() % 3) : mix) {
        case 0:
            do_find(&items[(ops * 2654435761u) % N], 160);
            break;
        case 1:
            i = N + ops % 64;
            if (items[i].in) {
                do_erase(&items[i], 160);
            } else {
                do_insert(&items[i], 160);
            }
            break;
        default:
            /* a key that is not there */
            ncalls = 0;
            CHECK(cstl_hash_find(&H, N + 1000 + ops, NULL, NULL) == NULL);
            check_keyed(160);
            break;
        }
        ops++;
    }
    CHECK(ops <= from + 1);

    for (i = 0; i < N; i += 7) {
        do_find(&items[i], 1);
    }
    finish(items, N + 64);
}

/* resize requests on tables that are (often) empty when they arrive */
static void empty_table_script(void)
{
    static struct item items[8];
    static const struct geometry req[] = {
        { 16, -1 }, { 4, -1 }, { 4, 1 }, { 4, 0 }, { 64, 2 }, { 64, 2 },
        { 1, -1 }, { 1, 3 }, { 9, 3 }, { 4, 0 }, { 9, 3 }, { 200, 1 },
    };
    unsigned int r, i, round;

    cur_seed = 424242;
    for (i = 0; i < 8; i++) {
        items[i].key = 11 * i + 3;
        items[i].in = 0;
    }

    start(4, 0);
    for (round = 0; round < 3; round++) {
        for (r = 0; r < sizeof(req) / sizeof(*req); r++) {
            cur_step = round * 100 + r;

            /* round 0: always empty; 1: emptied while pending; 2: mixed */
            do_resize(req[r].n, req[r].f);
            if (round == 0 && r % 3 != 0) {
                /* nothing inserted yet: request after request */
                continue;
            }

            for (i = 0; i < 8; i++) {
                do_insert(&items[i], MAXLOG);
            }
            for (i = 0; i < 8; i++) {
                do_find(&items[i], MAXLOG);
            }
            if (round == 1) {
                /* a request over a populated table, then drain it */
                do_resize(req[r].n + 3, (req[r].f + 2) % 4);
            }
            for (i = 0; i < 8; i++) {
                if (round == 2 && r % 2 == 0 && i == 5) {
                    continue;
                }
                do_erase(&items[i], MAXLOG);
            }
            if (items[5].in) {
                do_resize(req[r].n + 1, -1);
                do_find(&items[5], MAXLOG);
                do_erase(&items[5], MAXLOG);
            }
            CHECK(live == 0);
        }
    }

    full_audit(items, 8, 1);
    finish(items, 8);
}

int main(void)
{
    unsigned long seed;

    empty_table_script();

    /* two or three elements and many requests: the table is often empty */
    for (seed = 1; seed <= 400; seed++) {
        random_history(seed, 800, 35, 2 + seed % 2);
    }
    /* ordinary histories */
    for (seed = 2001; seed <= 2200; seed++) {
        random_history(seed, 1000, 10, 120);
    }
    bounded(1024, 2048, 0, 1, 3);
    bounded(1024, 256, 0, 0, 3);

    printf("ok: %lu keyed operations checked (%lu while a rehash could be "
           "pending), %lu resize requests\n",
           stat_ops, stat_pending_ops, stat_resizes);
    return 0;
}
