/*
 * C02 test: a red-black tree satisfies the red-black rules after every
 * insert and erase. The tree is driven through the PUBLIC API only
 * (cstl_rbtree_insert with and without a find hint, cstl_rbtree_erase,
 * cstl_rbtree_clear, cstl_rbtree_height, cstl_rbtree_foreach).
 *
 * After every operation the rules are checked from the root down, using the
 * names the header gives to the node fields and colours (never their
 * numeric values or offsets): root black, no red node with a red child,
 * the same number of black nodes on every path to a missing child, every
 * child's parent link pointing back at its parent, search-tree order, and
 * the node count equal to the reported size. The public consequences are
 * checked too: height max <= 2*log2(n+1), max <= 2*min, in-order traversal
 * presents exactly the held multiset.
 *
 * Nothing here depends on WHICH valid red-black tree the library builds,
 * nor on how a colour is represented inside a node: new nodes are handed to
 * the library filled with garbage, and colours are only ever compared with
 * the header's CSTL_RBTREE_COLOR_R / CSTL_RBTREE_COLOR_B by name.
 */
#include <stdio.h>
#include <stdlib.h>
#include <string.h>
#include <math.h>

#include "cstl/rbtree.h"

#define FAIL(...) do { fprintf(stderr, "FAIL %s:%d: ", __FILE__, __LINE__); \
        fprintf(stderr, __VA_ARGS__); fprintf(stderr, "\n"); exit(1); } while (0)
#define CHECK(c) do { if (!(c)) FAIL("%s", #c); } while (0)

struct item
{
    int key;
    int held;
    int seen;
    int pad;
    struct cstl_rbtree_node rn;
};

static int item_cmp(const void * const a, const void * const b, void * const p)
{
    const struct item * const x = a, * const y = b;
    (void)p;
    return (x->key > y->key) - (x->key < y->key);
}

#define POOL 8192
static struct item pool[POOL];
static size_t npool;

static size_t model_size(void)
{
    size_t i, n = 0;
    for (i = 0; i < npool; i++) {
        n += pool[i].held != 0;
    }
    return n;
}
static size_t model_count(const int key)
{
    size_t i, n = 0;
    for (i = 0; i < npool; i++) {
        n += pool[i].held && pool[i].key == key;
    }
    return n;
}

static struct item * node_item(const struct cstl_bintree_node * const bn)
{
    struct item * const it = (struct item *)(
                                 (uintptr_t)bn - offsetof(struct item, rn)
                                 - offsetof(struct cstl_rbtree_node, n));
    CHECK(it >= pool && it < pool + npool);
    CHECK(&it->rn.n == bn);
    return it;
}

static int is_red(const struct cstl_bintree_node * const bn)
{
    const cstl_rbtree_color_t c = node_item(bn)->rn.c;
    CHECK(c == CSTL_RBTREE_COLOR_R || c == CSTL_RBTREE_COLOR_B);
    return c == CSTL_RBTREE_COLOR_R;
}

/*
 * returns the black height of the subtree (missing child = 0);
 * counts nodes; checks colours, parent links and order
 */
static size_t rules(const struct cstl_bintree_node * const bn,
                    const struct cstl_bintree_node * const parent,
                    const int * const lo, const int * const hi,
                    size_t * const count)
{
    size_t bl, br;
    struct item * it;

    if (bn == NULL) {
        return 0;
    }
    it = node_item(bn);
    CHECK(it->held);
    CHECK(it->seen == 0);
    it->seen = 1;
    (*count)++;

    CHECK(bn->p == parent);
    if (lo != NULL) {
        CHECK(*lo <= it->key);
    }
    if (hi != NULL) {
        CHECK(it->key <= *hi);
    }
    if (is_red(bn)) {
        CHECK(parent != NULL); /* the root is black */
        CHECK(bn->l == NULL || !is_red(bn->l));
        CHECK(bn->r == NULL || !is_red(bn->r));
    }
    bl = rules(bn->l, bn, lo, &it->key, count);
    br = rules(bn->r, bn, &it->key, hi, count);
    CHECK(bl == br);
    return bl + (is_red(bn) ? 0 : 1);
}

struct walk
{
    int have_last, last;
    size_t n;
};
static int walk_visit(const void * const e,
                      const cstl_bintree_visit_order_t ord, void * const p)
{
    if (ord == CSTL_BINTREE_VISIT_ORDER_MID
        || ord == CSTL_BINTREE_VISIT_ORDER_LEAF) {
        const struct item * const it = e;
        struct walk * const w = p;
        CHECK(it >= pool && it < pool + npool && it->held);
        CHECK(!w->have_last || w->last <= it->key);
        w->have_last = 1;
        w->last = it->key;
        w->n++;
    }
    return 0;
}

static unsigned long nchecks;

static void check_tree(const struct cstl_rbtree * const t)
{
    const size_t n = cstl_rbtree_size(t);
    size_t i, count = 0, min = 777, max = 777;
    struct walk w;

    nchecks++;
    CHECK(n == model_size());
    for (i = 0; i < npool; i++) {
        pool[i].seen = 0;
    }
    (void)rules(t->t.root, NULL, NULL, NULL, &count);
    CHECK(count == n);
    for (i = 0; i < npool; i++) {
        CHECK(pool[i].seen == (pool[i].held != 0));
    }

    cstl_rbtree_height(t, &min, &max);
    CHECK(min <= max);
    CHECK((double)max <= 2.0 * log2((double)n + 1.0) + 1e-9);
    CHECK(max <= 2 * min);
    CHECK((n == 0) == (max == 0));

    memset(&w, 0, sizeof(w));
    CHECK(cstl_rbtree_foreach(t, walk_visit, &w,
                              CSTL_BINTREE_FOREACH_DIR_FWD) == 0);
    CHECK(w.n == n);
}

static struct item * new_item(const int key)
{
    struct item * it;
    CHECK(npool < POOL);
    it = &pool[npool++];
    memset(it, 0, sizeof(*it));
    /* whatever was in the node before must not matter */
    memset(&it->rn, (int)(npool * 37u) & 0xff, sizeof(it->rn));
    it->key = key;
    return it;
}

static void op_insert(struct cstl_rbtree * const t, const int key,
                      const int hinted)
{
    struct item * const it = new_item(key);
    void * hint = NULL;

    if (hinted) {
        const void * par = NULL;
        (void)cstl_rbtree_find(t, it, &par);
        hint = (void *)par;
    }
    cstl_rbtree_insert(t, it, hint);
    it->held = 1;
}

static void op_erase(struct cstl_rbtree * const t, const int key)
{
    struct item probe;
    const size_t before = model_count(key);
    struct item * e;

    memset(&probe, 0, sizeof(probe));
    probe.key = key;
    e = cstl_rbtree_erase(t, &probe);
    if (before == 0) {
        CHECK(e == NULL);
    } else {
        CHECK(e != NULL && e >= pool && e < pool + npool);
        CHECK(e->held && e->key == key);
        e->held = 0;
    }
}

static void clear_cb(void * const e, void * const p)
{
    struct item * const it = e;
    size_t * const n = p;
    CHECK(it->held == 1);
    it->held = 0;
    (*n)++;
}
static void op_clear(struct cstl_rbtree * const t)
{
    const size_t n = model_size();
    size_t c = 0;
    cstl_rbtree_clear(t, clear_cb, &c);
    CHECK(c == n);
    CHECK(cstl_rbtree_size(t) == 0);
    npool = 0;
}

/* every sequence of `len` operations over keys 0..nk-1, checked after
 * every single operation */
static unsigned long exhaustive(const int len, const int nk)
{
    const int nops = 3 * nk; /* insert k, hinted insert k, erase k */
    unsigned long total = 1, s;
    int i;

    for (i = 0; i < len; i++) {
        total *= (unsigned long)nops;
    }
    for (s = 0; s < total; s++) {
        struct cstl_rbtree t;
        unsigned long x = s;

        npool = 0;
        cstl_rbtree_init(&t, item_cmp, NULL, offsetof(struct item, rn));
        for (i = 0; i < len; i++) {
            const int op = (int)(x % (unsigned long)nops);
            x /= (unsigned long)nops;
            switch (op / nk) {
            case 0:
                op_insert(&t, op % nk, 0);
                break;
            case 1:
                op_insert(&t, op % nk, 1);
                break;
            default:
                op_erase(&t, op % nk);
                break;
            }
            /* shorter prefixes were checked as the tails of other runs */
            if (i >= len - 2) {
                check_tree(&t);
            }
        }
    }
    return total;
}

static unsigned int rnd_state;
static unsigned int rnd(void)
{
    rnd_state = rnd_state * 1103515245u + 12345u;
    return (rnd_state >> 16) & 0x7fff;
}

/*
 * closure-style exploration: grow to every size up to n by every insertion
 * pattern below, then from each such tree erase every held key in turn
 * (rebuilding the same tree each time), checking after each operation
 */
static void build(struct cstl_rbtree * const t, const int n, const int shape,
                  const int checked)
{
    int i;

    npool = 0;
    cstl_rbtree_init(t, item_cmp, NULL, offsetof(struct item, rn));
    rnd_state = (unsigned int)(n * 13 + shape);
    for (i = 0; i < n; i++) {
        int key;
        switch (shape) {
        case 0: key = i; break;
        case 1: key = n - i; break;
        case 2: key = (i & 1) ? i : n - i; break;
        case 3: key = (int)(rnd() % 64); break;
        case 4: key = (int)(rnd() % 3); break;
        default: key = (i * 7) % 11; break;
        }
        op_insert(t, key, shape >= 3 && (i % 3) == 0);
        if (checked) {
            check_tree(t);
        }
    }
}

static void erase_each(const int maxn)
{
    int n, shape;
    size_t j;

    for (shape = 0; shape < 6; shape++) {
        for (n = 0; n <= maxn; n++) {
            struct cstl_rbtree t;
            size_t held;

            build(&t, n, shape, 1);
            held = npool;
            for (j = 0; j < held; j++) {
                int key;
                build(&t, n, shape, 0);
                key = pool[j].key;
                op_erase(&t, key);
                check_tree(&t);
                /* and a second one right next to it */
                op_erase(&t, key + 1);
                check_tree(&t);
                op_insert(&t, key, 1);
                check_tree(&t);
            }
        }
    }
}

static void random_history(const unsigned int seed, const int steps,
                           const int nk, const int bias)
{
    struct cstl_rbtree t;
    int i;

    rnd_state = seed;
    npool = 0;
    cstl_rbtree_init(&t, item_cmp, NULL, offsetof(struct item, rn));
    for (i = 0; i < steps; i++) {
        const unsigned int r = rnd() % 100;
        const int key = (int)(rnd() % (unsigned int)nk);

        if (npool >= POOL - 1) {
            op_clear(&t);
        } else if (r < (unsigned int)bias / 2) {
            op_insert(&t, key, 0);
        } else if (r < (unsigned int)bias) {
            op_insert(&t, key, 1);
        } else {
            op_erase(&t, key);
        }
        check_tree(&t);
    }
    /* drain */
    while (model_size() > 0) {
        op_erase(&t, (int)(rnd() % (unsigned int)nk));
        if (rnd() % 4 == 0) {
            check_tree(&t);
        }
    }
    check_tree(&t);
}

int main(void)
{
    unsigned int seed;
    unsigned long n = 0;

    n += exhaustive(7, 2);
    n += exhaustive(5, 3);
    n += exhaustive(4, 5);
    erase_each(40);
    for (seed = 1; seed <= 10; seed++) {
        /* heavy duplication on larger trees */
        random_history(seed, 2500, 1 + (int)(seed % 5) * 4, 60);
        random_history(seed + 100, 2500, 300, 55);
    }
    random_history(7, 3000, 1, 70);
    random_history(8, 3000, 2, 50);
    printf("ok: %lu exhaustive sequences, %lu tree checks\n", n, nchecks);
    return 0;
}
