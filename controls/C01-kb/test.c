/*
 * C01 / change b: two-child erase splices out the in-order PREDECESSOR
 * (right-most node of the left subtree) instead of the successor.
 *
 * Build + run (from the worktree root, i.e. the directory with the Makefile):
 *   make build && gcc -std=c99 -Wall -Wextra -Iinclude -o _keep/b/test _keep/b/test.c build/libcstl.a -lm && ./_keep/b/test
 *
 * Exercises __cstl_bintree_erase through cstl_bintree_erase and
 * cstl_rbtree_erase: every tree shape obtainable from 6 inserted keys
 * (unique or duplicated), erasing every pair of keys (leaves, one-child
 * nodes, two-child nodes whose in-order neighbour is / is not their own
 * child, the root), plus exhaustive short histories and seeded random
 * histories. After every step the tree is compared with a multiset model
 * (size, find, identity of the erased pointer, forward + reverse walks).
 * Nothing here depends on the tree's shape.
 */
#include "cstl/bintree.h"
#include "cstl/rbtree.h"

#include <stdio.h>
#include <stdlib.h>
#include <string.h>

#define MAXE 4096

struct elem {
    int key;
    int live;          /* 1 while held by the tree (model) */
    int seen;          /* scratch for traversals */
    int pre, post;     /* scratch for traversals */
    struct cstl_bintree_node bn;
    struct cstl_rbtree_node rn;
};

static int cmp_elem(const void * a, const void * b, void * p)
{
    const int x = ((const struct elem *)a)->key;
    const int y = ((const struct elem *)b)->key;
    (void)p;
    return (x > y) - (x < y);
}

#define CHECK(c) do { if (!(c)) { \
    fprintf(stderr, "%s:%d: CHECK failed: %s\n", __FILE__, __LINE__, #c); \
    exit(1); } } while (0)

/* --- one tree of either kind + its model ------------------------------ */
struct T {
    int rb;
    struct cstl_bintree bt;
    struct cstl_rbtree rt;
    struct elem * pool;
    size_t npool, cap;
    size_t nlive;
};

static void T_init(struct T * t, int rb, struct elem * pool, size_t cap)
{
    t->rb = rb;
    cstl_bintree_init(&t->bt, cmp_elem, NULL, offsetof(struct elem, bn));
    cstl_rbtree_init(&t->rt, cmp_elem, NULL, offsetof(struct elem, rn));
    t->pool = pool;
    t->cap = cap;
    t->npool = 0;
    t->nlive = 0;
}
static size_t T_size(const struct T * t)
{
    return t->rb ? cstl_rbtree_size(&t->rt) : cstl_bintree_size(&t->bt);
}
static const void * T_find(const struct T * t, const void * e, const void ** p)
{
    return t->rb ? cstl_rbtree_find(&t->rt, e, p)
           : cstl_bintree_find(&t->bt, e, p);
}
static void T_insert(struct T * t, void * e, void * p)
{
    if (t->rb) {
        cstl_rbtree_insert(&t->rt, e, p);
    } else {
        cstl_bintree_insert(&t->bt, e, p);
    }
}
static void * T_erase(struct T * t, const void * e)
{
    return t->rb ? cstl_rbtree_erase(&t->rt, e) : cstl_bintree_erase(&t->bt, e);
}
static int T_foreach(const struct T * t, cstl_bintree_const_visit_func_t * v,
                     void * p, cstl_bintree_foreach_dir_t d)
{
    return t->rb ? cstl_rbtree_foreach(&t->rt, v, p, d)
           : cstl_bintree_foreach(&t->bt, v, p, d);
}
static void T_clear(struct T * t, cstl_xtor_func_t * c, void * p)
{
    if (t->rb) {
        cstl_rbtree_clear(&t->rt, c, p);
    } else {
        cstl_bintree_clear(&t->bt, c, p);
    }
}
static void T_height(const struct T * t, size_t * mn, size_t * mx)
{
    if (t->rb) {
        cstl_rbtree_height(&t->rt, mn, mx);
    } else {
        cstl_bintree_height(&t->bt, mn, mx);
    }
}

static size_t model_count(const struct T * t, int key)
{
    size_t i, n = 0;
    for (i = 0; i < t->npool; i++) {
        n += (t->pool[i].live && t->pool[i].key == key);
    }
    return n;
}

/* --- traversal checker -------------------------------------------------- */
struct walk {
    const struct T * t;
    int rev;
    size_t calls;       /* total visit calls */
    size_t stop_at;     /* stop (return stop_val) on this call index */
    int stop_val;
    size_t held;        /* MID + LEAF visits */
    int have_last, last_key;
    const struct elem * stack[MAXE];
    size_t depth;
};

static void walk_init(struct walk * w, const struct T * t, int rev)
{
    /* (the stack array is deliberately not cleared: it is large) */
    w->t = t;
    w->rev = rev;
    w->calls = 0;
    w->stop_at = 0;
    w->stop_val = 0;
    w->held = 0;
    w->have_last = 0;
    w->last_key = 0;
    w->depth = 0;
}

static int walk_visit(const void * e, cstl_bintree_visit_order_t ord, void * p)
{
    struct walk * const w = p;
    struct elem * const el = (struct elem *)e;
    const size_t idx = w->calls++;

    CHECK(el >= w->t->pool && el < w->t->pool + w->t->npool);
    CHECK(el->live == 1);

    switch (ord) {
    case CSTL_BINTREE_VISIT_ORDER_PRE:
        CHECK(el->pre == 0 && el->seen == 0 && el->post == 0);
        el->pre = 1;
        w->stack[w->depth++] = el;
        break;
    case CSTL_BINTREE_VISIT_ORDER_MID:
        CHECK(el->pre == 1 && el->seen == 0 && el->post == 0);
        CHECK(w->depth > 0 && w->stack[w->depth - 1] == el);
        break;
    case CSTL_BINTREE_VISIT_ORDER_POST:
        CHECK(el->pre == 1 && el->seen == 1 && el->post == 0);
        CHECK(w->depth > 0 && w->stack[w->depth - 1] == el);
        w->depth--;
        el->post = 1;
        break;
    case CSTL_BINTREE_VISIT_ORDER_LEAF:
        CHECK(el->pre == 0 && el->seen == 0 && el->post == 0);
        break;
    }

    if (ord == CSTL_BINTREE_VISIT_ORDER_MID
        || ord == CSTL_BINTREE_VISIT_ORDER_LEAF) {
        el->seen = 1;
        w->held++;
        if (w->have_last) {
            if (w->rev) {
                CHECK(el->key <= w->last_key);
            } else {
                CHECK(el->key >= w->last_key);
            }
        }
        w->have_last = 1;
        w->last_key = el->key;
    }

    if (idx == w->stop_at) {
        return w->stop_val;
    }
    return 0;
}

static void reset_scratch(const struct T * t)
{
    size_t i;
    for (i = 0; i < t->npool; i++) {
        t->pool[i].seen = t->pool[i].pre = t->pool[i].post = 0;
    }
}

/* full walk in one direction; returns the number of visit calls */
static size_t check_full_walk(const struct T * t, int rev)
{
    struct walk w;
    size_t i;
    int res;

    walk_init(&w, t, rev);
    w.stop_at = (size_t)-1;
    reset_scratch(t);
    res = T_foreach(t, walk_visit, &w,
                    rev ? CSTL_BINTREE_FOREACH_DIR_REV
                    : CSTL_BINTREE_FOREACH_DIR_FWD);
    CHECK(res == 0);
    CHECK(w.depth == 0);
    CHECK(w.held == t->nlive);
    CHECK(w.held == T_size(t));
    for (i = 0; i < t->npool; i++) {
        const struct elem * const e = &t->pool[i];
        CHECK(e->seen == e->live);      /* every held element exactly once */
        CHECK(e->pre == e->post);       /* brackets come in pairs */
    }
    return w.calls;
}

/* stop at every possible visit index and check the return value */
static void check_early_stops(const struct T * t, int rev, size_t total)
{
    size_t k;
    for (k = 0; k < total; k++) {
        struct walk w;
        int res;
        walk_init(&w, t, rev);
        w.stop_at = k;
        w.stop_val = (int)(k % 7) - 3;
        if (w.stop_val == 0) {
            w.stop_val = 1000 + (int)k;
        }
        reset_scratch(t);
        res = T_foreach(t, walk_visit, &w,
                        rev ? CSTL_BINTREE_FOREACH_DIR_REV
                        : CSTL_BINTREE_FOREACH_DIR_FWD);
        CHECK(res == w.stop_val);
        CHECK(w.calls == k + 1);        /* nothing visited after the stop */
    }
}

static void check_all(const struct T * t, int stops)
{
    size_t i, f, r, mn, mx;

    CHECK(T_size(t) == t->nlive);
    f = check_full_walk(t, 0);
    r = check_full_walk(t, 1);
    CHECK(f == r);
    if (stops) {
        check_early_stops(t, 0, f);
        check_early_stops(t, 1, r);
    }
    T_height(t, &mn, &mx);
    if (t->nlive == 0) {
        CHECK(mn == 0 && mx == 0);
    } else {
        CHECK(mn >= 1 && mn <= mx && mx <= t->nlive);
    }
    /* find: present iff the model holds an equal key */
    for (i = 0; i < 8; i++) {
        struct elem probe;
        const struct elem * got;
        probe.key = (int)i - 1;
        got = T_find(t, &probe, NULL);
        if (model_count(t, probe.key) == 0) {
            CHECK(got == NULL);
        } else {
            CHECK(got != NULL && got->live == 1 && got->key == probe.key);
            CHECK(got >= t->pool && got < t->pool + t->npool);
        }
    }
}

/* --- operations ---------------------------------------------------------- */
static void op_insert(struct T * t, int key, int hinted)
{
    struct elem * const e = &t->pool[t->npool];
    const void * par = NULL;

    CHECK(t->npool < t->cap);
    t->npool++;
    memset(e, 0, sizeof(*e));
    e->key = key;
    if (hinted) {
        (void)T_find(t, e, &par);
    }
    T_insert(t, e, (void *)par);
    e->live = 1;
    t->nlive++;
}

static void op_erase(struct T * t, int key)
{
    struct elem probe, * got;
    const size_t had = model_count(t, key);

    probe.key = key;
    got = T_erase(t, &probe);
    if (had == 0) {
        CHECK(got == NULL);
    } else {
        CHECK(got != NULL);
        CHECK(got >= t->pool && got < t->pool + t->npool);
        CHECK(got->live == 1 && got->key == key);
        got->live = 0;
        t->nlive--;
        CHECK(model_count(t, key) == had - 1);
    }
}

struct clr { const struct T * t; size_t n; };
static void clear_cb(void * e, void * p)
{
    struct clr * const c = p;
    struct elem * const el = e;
    CHECK(el >= c->t->pool && el < c->t->pool + c->t->npool);
    CHECK(el->live == 1);
    el->live = 0;
    /* the callee owns the element now: scribble over the embedded nodes */
    memset(&el->bn, 0xa5, sizeof(el->bn));
    memset(&el->rn, 0xa5, sizeof(el->rn));
    c->n++;
}

static void op_clear(struct T * t)
{
    struct clr c;
    const size_t n = t->nlive;
    c.t = t;
    c.n = 0;
    T_clear(t, clear_cb, &c);
    CHECK(c.n == n);
    t->nlive = 0;
    CHECK(T_size(t) == 0);
    CHECK(model_count(t, 0) == 0);
}

/* --- exhaustive small scope ---------------------------------------------- */
#define NKEYS 3
#define NOPS (3 * NKEYS)   /* insert k, hinted insert k, erase k */

static void run_sequence(int rb, const int * ops, int len)
{
    static struct elem pool[16];
    struct T t;
    int i;

    T_init(&t, rb, pool, 16);
    for (i = 0; i < len; i++) {
        const int kind = ops[i] / NKEYS, key = ops[i] % NKEYS;
        if (kind == 2) {
            op_erase(&t, key);
        } else {
            op_insert(&t, key, kind);
        }
        check_all(&t, 1);
    }
    op_clear(&t);
    check_all(&t, 1);
}

static void exhaustive(int rb, int len)
{
    int ops[16];
    long n = 1, s;
    int i;

    for (i = 0; i < len; i++) {
        n *= NOPS;
    }
    for (s = 0; s < n; s++) {
        long v = s;
        for (i = 0; i < len; i++) {
            ops[i] = (int)(v % NOPS);
            v /= NOPS;
        }
        run_sequence(rb, ops, len);
    }
}

/* --- seeded random histories ---------------------------------------------- */
static unsigned long rng;
static unsigned int rnd(void)
{
    rng = rng * 6364136223846793005UL + 1442695040888963407UL;
    return (unsigned int)(rng >> 33);
}

static void random_history(int rb, unsigned long seed, int nkeys, int steps)
{
    static struct elem pool[MAXE];
    struct T t;
    int i;

    rng = seed;
    T_init(&t, rb, pool, MAXE);
    for (i = 0; i < steps && t.npool < MAXE; i++) {
        const unsigned int r = rnd() % 100;
        const int key = (int)(rnd() % (unsigned)nkeys);
        if (r < 30) {
            op_insert(&t, key, 0);
        } else if (r < 55) {
            op_insert(&t, key, 1);
        } else if (r < 99) {
            op_erase(&t, key);
        } else {
            op_clear(&t);
        }
        /* early-stop sweeps are quadratic: only on smallish trees */
        check_all(&t, t.nlive <= 24);
    }
    op_clear(&t);
    check_all(&t, 1);
}

/* --- erase focus: all shapes of 6 inserts x all pairs of erased keys ---- */
static void erase_shapes_one(int rb, const int * perm, int n, int div)
{
    static struct elem pool[16];
    int i, j, k;

    for (i = 0; i < n; i++) {
        for (j = 0; j < n; j++) {
            struct T t;
            T_init(&t, rb, pool, 16);
            for (k = 0; k < n; k++) {
                /* alternate hinted and unhinted inserts */
                op_insert(&t, perm[k] / div, (k + i) & 1);
            }
            check_all(&t, 0);
            op_erase(&t, i / div);
            check_all(&t, 1);
            op_erase(&t, j / div);
            check_all(&t, 1);
            /* drain what is left, smallest key first, then largest */
            for (k = 0; k < n; k++) {
                op_erase(&t, ((k & 1) ? n - 1 - k / 2 : k / 2) / div);
                check_all(&t, 0);
            }
            for (k = 0; k < n; k++) {
                op_erase(&t, k / div);
            }
            CHECK(t.nlive == 0);
            check_all(&t, 0);
        }
    }
}

static void permute(int rb, int * perm, int at, int n)
{
    int i;
    if (at == n) {
        erase_shapes_one(rb, perm, n, 1);
        erase_shapes_one(rb, perm, n, 2);
        erase_shapes_one(rb, perm, n, 3);
        return;
    }
    for (i = at; i < n; i++) {
        int x = perm[at];
        perm[at] = perm[i];
        perm[i] = x;
        permute(rb, perm, at + 1, n);
        x = perm[at];
        perm[at] = perm[i];
        perm[i] = x;
    }
}

int main(void)
{
    int rb;
    unsigned long seed;

    for (rb = 0; rb < 2; rb++) {
        int perm[6] = { 0, 1, 2, 3, 4, 5 };
        permute(rb, perm, 0, 6);
        exhaustive(rb, 5);
        for (seed = 1; seed <= 6; seed++) {
            random_history(rb, seed, 6, 1500);         /* heavy duplication */
            random_history(rb, seed + 100, 64, 1500);  /* bigger trees */
        }
    }
    printf("ok\n");
    return 0;
}
