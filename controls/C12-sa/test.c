/*
 * C12: a doubly-linked list equals a reference sequence in both directions.
 *
 * Only the public API of cstl/dlist.h is used. The reference model is an
 * array of element pointers per list. After every operation every list is
 * compared with its model by a forward traversal, a backward traversal,
 * front, back and size.
 *
 * Nothing is assumed that the headers leave open: the order in which
 * clear() hands out the elements, the order among equal elements after
 * sort(), the number or argument order of comparator calls, the contents
 * of the private fields.
 */
#include <stdio.h>
#include <stdlib.h>
#include <string.h>
#include <stddef.h>

#include "cstl/dlist.h"

#define NL      3
#define MAXN    512
#define POOLN   2048

struct elem
{
    int id;
    int key;
    char pad[3];
    struct cstl_dlist_node node;
    int mark;
};

/* a second and a third element type, with other offsets */
struct small
{
    struct cstl_dlist_node n;
    int v;
};

struct big
{
    double d[3];
    int v;
    struct cstl_dlist_node n;
    char tail[5];
};

static DECLARE_CSTL_DLIST(list0, struct elem, node);
static struct cstl_dlist list1 = CSTL_DLIST_INITIALIZER(list1, struct elem, node);
static struct cstl_dlist list2;

static struct cstl_dlist * L[NL];
static struct elem * M[NL][MAXN];
static int MN[NL];

static struct elem pool[POOLN];
static struct elem * freestk[POOLN];
static int nfree;
static int keyctr;
static int keymod = 4;

static unsigned long nchecks;

#define FAIL(...)                                               \
    do {                                                        \
        fprintf(stderr, "FAIL %s:%d: ", __FILE__, __LINE__);    \
        fprintf(stderr, __VA_ARGS__);                           \
        fprintf(stderr, "\n");                                  \
        exit(1);                                                \
    } while (0)

#define CHECK(C, ...) do { nchecks++; if (!(C)) FAIL(__VA_ARGS__); } while (0)

/* ------------------------------------------------------------------ */

static unsigned long long rng_s = 88172645463325252ull;
static unsigned int rnd(void)
{
    rng_s ^= rng_s << 13;
    rng_s ^= rng_s >> 7;
    rng_s ^= rng_s << 17;
    return (unsigned int)(rng_s >> 11);
}

static void pool_reset(void)
{
    int i;
    nfree = 0;
    for (i = POOLN - 1; i >= 0; i--) {
        pool[i].id = i;
        pool[i].mark = 0;
        freestk[nfree++] = &pool[i];
    }
    keyctr = 0;
}

static struct elem * enew(void)
{
    struct elem * e;
    if (nfree == 0) {
        FAIL("pool exhausted");
    }
    e = freestk[--nfree];
    e->key = (keyctr * 7 + keyctr / 3) % keymod;
    keyctr++;
    e->mark = 0;
    /* whatever the node held before must not matter */
    memset(&e->node, (keyctr & 1) ? 0xa5 : 0, sizeof(e->node));
    return e;
}

static void efree(struct elem * e)
{
    freestk[nfree++] = e;
}

/* ------------------------------------------------------------------ */

struct collect
{
    struct elem * v[MAXN + 8];
    int n;
};

static int collect_visit(void * const e, void * const p)
{
    struct collect * c = p;
    if (c->n >= MAXN + 8) {
        FAIL("traversal does not terminate");
    }
    c->v[c->n++] = e;
    return 0;
}

static void verify_one(const int i)
{
    static struct collect c;
    struct cstl_dlist * const l = L[i];
    const int n = MN[i];
    int k, r;

    CHECK(cstl_dlist_size(l) == (size_t)n,
          "list %d: size %lu, expected %d", i,
          (unsigned long)cstl_dlist_size(l), n);

    c.n = 0;
    r = cstl_dlist_foreach(l, collect_visit, &c, CSTL_DLIST_FOREACH_DIR_FWD);
    CHECK(r == 0, "list %d: fwd foreach returned %d", i, r);
    CHECK(c.n == n, "list %d: fwd traversal has %d, expected %d", i, c.n, n);
    for (k = 0; k < n; k++) {
        CHECK(c.v[k] == M[i][k], "list %d: fwd traversal differs at %d", i, k);
    }

    c.n = 0;
    r = cstl_dlist_foreach(l, collect_visit, &c, CSTL_DLIST_FOREACH_DIR_REV);
    CHECK(r == 0, "list %d: rev foreach returned %d", i, r);
    CHECK(c.n == n, "list %d: rev traversal has %d, expected %d", i, c.n, n);
    for (k = 0; k < n; k++) {
        CHECK(c.v[k] == M[i][n - 1 - k],
              "list %d: rev traversal differs at %d", i, k);
    }

    if (n == 0) {
        CHECK(cstl_dlist_front(l) == NULL, "list %d: front of empty", i);
        CHECK(cstl_dlist_back(l) == NULL, "list %d: back of empty", i);
    } else {
        CHECK(cstl_dlist_front(l) == M[i][0], "list %d: front", i);
        CHECK(cstl_dlist_back(l) == M[i][n - 1], "list %d: back", i);
    }
}

static void verify_all(void)
{
    int i;
    for (i = 0; i < NL; i++) {
        verify_one(i);
    }
}

/* ------------------------------------------------------------------ */
/* model helpers */

static void m_insert(const int i, const int at, struct elem * const e)
{
    if (MN[i] >= MAXN) {
        FAIL("model overflow");
    }
    memmove(&M[i][at + 1], &M[i][at], (MN[i] - at) * sizeof(M[i][0]));
    M[i][at] = e;
    MN[i]++;
}

static struct elem * m_remove(const int i, const int at)
{
    struct elem * const e = M[i][at];
    memmove(&M[i][at], &M[i][at + 1], (MN[i] - at - 1) * sizeof(M[i][0]));
    MN[i]--;
    return e;
}

/* ------------------------------------------------------------------ */
/* operations: each one acts on the library and on the model */

static void op_push_front(const int i)
{
    struct elem * const e = enew();
    cstl_dlist_push_front(L[i], e);
    m_insert(i, 0, e);
}

static void op_push_back(const int i)
{
    struct elem * const e = enew();
    cstl_dlist_push_back(L[i], e);
    m_insert(i, MN[i], e);
}

static void op_pop_front(const int i)
{
    void * const r = cstl_dlist_pop_front(L[i]);
    if (MN[i] == 0) {
        CHECK(r == NULL, "pop_front on empty list %d is not NULL", i);
    } else {
        struct elem * const e = m_remove(i, 0);
        CHECK(r == e, "pop_front on list %d: wrong element", i);
        efree(e);
    }
}

static void op_pop_back(const int i)
{
    void * const r = cstl_dlist_pop_back(L[i]);
    if (MN[i] == 0) {
        CHECK(r == NULL, "pop_back on empty list %d is not NULL", i);
    } else {
        struct elem * const e = m_remove(i, MN[i] - 1);
        CHECK(r == e, "pop_back on list %d: wrong element", i);
        efree(e);
    }
}

static void op_insert_after(const int i, const int at)
{
    if (MN[i] > 0) {
        struct elem * const e = enew();
        cstl_dlist_insert(L[i], M[i][at], e);
        m_insert(i, at + 1, e);
    }
}

static void op_erase(const int i, const int at)
{
    if (MN[i] > 0) {
        struct elem * const e = m_remove(i, at);
        cstl_dlist_erase(L[i], e);
        efree(e);
    }
}

/* an element that was erased may at once be put into any list */
static void op_move(const int i, const int at, const int j, const int front)
{
    if (MN[i] > 0) {
        struct elem * const e = m_remove(i, at);
        cstl_dlist_erase(L[i], e);
        if (front) {
            cstl_dlist_push_front(L[j], e);
            m_insert(j, 0, e);
        } else {
            cstl_dlist_push_back(L[j], e);
            m_insert(j, MN[j], e);
        }
    }
}

static void op_reverse(const int i)
{
    int a, b;
    cstl_dlist_reverse(L[i]);
    for (a = 0, b = MN[i] - 1; a < b; a++, b--) {
        struct elem * const t = M[i][a];
        M[i][a] = M[i][b];
        M[i][b] = t;
    }
}

static unsigned long ncmp;
static void * cmp_expect_priv;

static int cmp_elem(const void * const a, const void * const b, void * const p)
{
    ncmp++;
    if (p != cmp_expect_priv) {
        FAIL("comparator got the wrong private pointer");
    }
    return ((const struct elem *)a)->key - ((const struct elem *)b)->key;
}

static void op_sort(const int i)
{
    static struct collect c;
    int k, r;
    int token;

    for (k = 0; k < MN[i]; k++) {
        M[i][k]->mark = 1;
    }

    cmp_expect_priv = &token;
    cstl_dlist_sort(L[i], cmp_elem, &token);
    cmp_expect_priv = NULL;

    CHECK(cstl_dlist_size(L[i]) == (size_t)MN[i], "sort changed the size");

    c.n = 0;
    r = cstl_dlist_foreach(L[i], collect_visit, &c,
                           CSTL_DLIST_FOREACH_DIR_FWD);
    CHECK(r == 0, "foreach after sort");
    CHECK(c.n == MN[i], "sort changed the number of elements");
    for (k = 0; k < c.n; k++) {
        /* a permutation: every element exactly once */
        CHECK(c.v[k]->mark == 1, "sort: foreign or repeated element");
        c.v[k]->mark = 0;
        if (k > 0) {
            CHECK(c.v[k - 1]->key <= c.v[k]->key, "sort: not ordered");
        }
        /* the order among equal keys is open: adopt it */
        M[i][k] = c.v[k];
    }
}

static void op_concat(const int d, const int s)
{
    cstl_dlist_concat(L[d], L[s]);
    if (d != s) {
        int k;
        for (k = 0; k < MN[s]; k++) {
            if (MN[d] >= MAXN) {
                FAIL("model overflow");
            }
            M[d][MN[d]++] = M[s][k];
        }
        MN[s] = 0;
    }
}

static void op_swap(const int a, const int b)
{
    if (a != b) {
        static struct elem * t[MAXN];
        int n;

        cstl_dlist_swap(L[a], L[b]);

        n = MN[a];
        memcpy(t, M[a], n * sizeof(t[0]));
        memcpy(M[a], M[b], MN[b] * sizeof(t[0]));
        MN[a] = MN[b];
        memcpy(M[b], t, n * sizeof(t[0]));
        MN[b] = n;
    }
}

static void op_find(const int i, const int key)
{
    struct elem probe;
    const struct elem * want;
    void * got;
    int k;
    int token;

    memset(&probe, 0, sizeof(probe));
    probe.key = key;
    cmp_expect_priv = &token;

    want = NULL;
    for (k = 0; k < MN[i] && want == NULL; k++) {
        if (M[i][k]->key == key) {
            want = M[i][k];
        }
    }
    got = cstl_dlist_find(L[i], &probe, cmp_elem, &token,
                          CSTL_DLIST_FOREACH_DIR_FWD);
    CHECK(got == want, "find fwd in list %d for key %d", i, key);

    want = NULL;
    for (k = MN[i] - 1; k >= 0 && want == NULL; k--) {
        if (M[i][k]->key == key) {
            want = M[i][k];
        }
    }
    got = cstl_dlist_find(L[i], &probe, cmp_elem, &token,
                          CSTL_DLIST_FOREACH_DIR_REV);
    CHECK(got == want, "find rev in list %d for key %d", i, key);

    cmp_expect_priv = NULL;
}

/* foreach that stops at the k-th visited element with a given result */
struct stopper
{
    struct elem * seen[MAXN + 8];
    int n;
    int stop_at;
    int result;
};

static int stop_visit(void * const e, void * const p)
{
    struct stopper * s = p;
    if (s->n >= MAXN + 8) {
        FAIL("traversal does not terminate");
    }
    s->seen[s->n++] = e;
    if (s->n - 1 == s->stop_at) {
        return s->result;
    }
    return 0;
}

static void op_foreach_stop(const int i, const int stop_at, const int result,
                            const int rev)
{
    static struct stopper s;
    const int n = MN[i];
    int r, k, expect_n;

    s.n = 0;
    s.stop_at = stop_at;
    s.result = result;

    r = cstl_dlist_foreach(L[i], stop_visit, &s,
                           rev
                           ? CSTL_DLIST_FOREACH_DIR_REV
                           : CSTL_DLIST_FOREACH_DIR_FWD);

    if (stop_at >= 0 && stop_at < n && result != 0) {
        expect_n = stop_at + 1;
        CHECK(r == result, "foreach returned %d, expected %d", r, result);
    } else {
        expect_n = n;
        CHECK(r == 0, "foreach returned %d, expected 0", r);
    }
    CHECK(s.n == expect_n, "foreach visited %d, expected %d", s.n, expect_n);
    for (k = 0; k < s.n; k++) {
        CHECK(s.seen[k] == M[i][rev ? n - 1 - k : k],
              "foreach visited the wrong element at %d", k);
    }
}

/*
 * foreach whose visit function removes the visited element when its
 * key matches and puts it into ANOTHER list; optionally stops with a
 * non-zero result right after the first removal
 */
struct remover
{
    struct cstl_dlist * from;
    struct cstl_dlist * to;
    int keybit;
    int stop_after_first;
    int result;
    int nvisit;
    int nremoved;
};

static int remove_visit(void * const e, void * const p)
{
    struct remover * r = p;
    struct elem * const el = e;

    if (r->nvisit++ > MAXN + 8) {
        FAIL("traversal does not terminate");
    }

    if ((el->key & 1) == r->keybit) {
        cstl_dlist_erase(r->from, el);
        /* the node is free for reuse at once */
        memset(&el->node, 0x5a, sizeof(el->node));
        cstl_dlist_push_back(r->to, el);
        r->nremoved++;
        if (r->stop_after_first) {
            return r->result;
        }
    }
    return 0;
}

static void op_foreach_remove(const int i, const int j, const int keybit,
                              const int stop_after_first, const int rev)
{
    struct remover r;
    int res, k, expect_visit, expect_removed, stopped;
    const int n = MN[i];

    if (i == j) {
        return;
    }

    r.from = L[i];
    r.to = L[j];
    r.keybit = keybit;
    r.stop_after_first = stop_after_first;
    r.result = rev ? -17 : 23;
    r.nvisit = 0;
    r.nremoved = 0;

    res = cstl_dlist_foreach(L[i], remove_visit, &r,
                             rev
                             ? CSTL_DLIST_FOREACH_DIR_REV
                             : CSTL_DLIST_FOREACH_DIR_FWD);

    /* model */
    expect_visit = 0;
    expect_removed = 0;
    stopped = 0;
    if (!rev) {
        k = 0;
        while (k < MN[i] && !stopped) {
            expect_visit++;
            if ((M[i][k]->key & 1) == keybit) {
                struct elem * const e = m_remove(i, k);
                m_insert(j, MN[j], e);
                expect_removed++;
                stopped = stop_after_first;
            } else {
                k++;
            }
        }
    } else {
        k = MN[i] - 1;
        while (k >= 0 && !stopped) {
            expect_visit++;
            if ((M[i][k]->key & 1) == keybit) {
                struct elem * const e = m_remove(i, k);
                m_insert(j, MN[j], e);
                expect_removed++;
                stopped = stop_after_first;
            }
            k--;
        }
    }
    (void)n;

    CHECK(r.nvisit == expect_visit,
          "removing foreach visited %d, expected %d", r.nvisit, expect_visit);
    CHECK(r.nremoved == expect_removed,
          "removing foreach removed %d, expected %d",
          r.nremoved, expect_removed);
    CHECK(res == (stopped ? r.result : 0),
          "removing foreach returned %d", res);
}

static int clr_count;
static void * clr_badpriv;

static void clr_elem(void * const e, void * const p)
{
    struct elem * const el = e;
    if (p != NULL) {
        clr_badpriv = p;
    }
    if (el->mark != 2) {
        FAIL("clear handed out a foreign or repeated element");
    }
    el->mark = 0;
    /* ownership passes to the callee now: scribble over the object */
    memset(&el->node, 0xee, sizeof(el->node));
    clr_count++;
    efree(el);
}

static void op_clear(const int i)
{
    int k;
    for (k = 0; k < MN[i]; k++) {
        M[i][k]->mark = 2;
    }
    clr_count = 0;
    cstl_dlist_clear(L[i], clr_elem);
    CHECK(clr_count == MN[i], "clear called clr %d times, expected %d",
          clr_count, MN[i]);
    MN[i] = 0;
}

/* ------------------------------------------------------------------ */

static void reset_all(void)
{
    int i;
    for (i = 0; i < NL; i++) {
        op_clear(i);
        verify_one(i);
    }
    /* every element is back in the pool now */
    keyctr = 0;
}

/* ------------------------------------------------------------------ */
/* exhaustive part */

#define NOPS_FULL 30

static void do_op(const int op)
{
    const int A = 0, B = 1, C = 2;

    switch (op) {
    case 0:  op_push_front(A); break;
    case 1:  op_push_back(A); break;
    case 2:  op_pop_front(A); break;
    case 3:  op_pop_back(A); break;
    case 4:  op_reverse(A); break;
    case 5:  op_swap(A, B); break;
    case 6:  op_concat(A, B); break;
    case 7:  op_sort(A); break;
    /* the first eight make up the reduced alphabet */
    case 8:  op_insert_after(A, 0); break;
    case 9:  op_insert_after(A, MN[A] - 1); break;
    case 10: op_insert_after(A, MN[A] / 2); break;
    case 11: op_erase(A, 0); break;
    case 12: op_erase(A, MN[A] - 1); break;
    case 13: op_erase(A, MN[A] / 2); break;
    case 14: op_concat(B, A); break;
    case 15: op_push_back(B); break;
    case 16: op_push_front(B); break;
    case 17: op_reverse(B); break;
    case 18: op_pop_front(B); break;
    case 19: op_foreach_remove(A, C, 1, 0, 0); break;
    case 20: op_foreach_remove(A, C, 0, 0, 1); break;
    case 21: op_foreach_remove(A, B, 1, 1, 1); break;
    case 22: op_foreach_stop(A, 1, 5, 0);
             op_foreach_stop(A, 0, -1, 1);
             op_foreach_stop(A, MN[A] - 1, 9, 1);
             op_foreach_stop(A, MN[A], 9, 0);
             break;
    case 23: op_find(A, 0); op_find(A, 1); op_find(A, 2);
             op_find(A, 3); op_find(A, 99);
             break;
    case 24: op_clear(A); break;
    case 25: op_concat(A, A); break;
    case 26: op_move(A, MN[A] / 2, B, 1); break;
    case 27: op_concat(A, C); break;
    case 28: op_swap(B, A); break;
    case 29: op_sort(B); break;
    default: FAIL("no such op");
    }
}

static void run_sequence(const int init_a, const int init_b,
                         const int * const seq, const int len)
{
    int k;

    reset_all();
    for (k = 0; k < init_a; k++) {
        op_push_back(0);
    }
    for (k = 0; k < init_b; k++) {
        op_push_back(1);
    }
    verify_all();

    for (k = 0; k < len; k++) {
        do_op(seq[k]);
        verify_all();
    }
}

static unsigned long nseq;

static void exhaustive(const int nops, const int depth,
                       const int init_a, const int init_b)
{
    int seq[16];
    int d;

    for (d = 0; d < depth; d++) {
        seq[d] = 0;
    }

    for (;;) {
        run_sequence(init_a, init_b, seq, depth);
        nseq++;

        for (d = depth - 1; d >= 0; d--) {
            if (++seq[d] < nops) {
                break;
            }
            seq[d] = 0;
        }
        if (d < 0) {
            break;
        }
    }
}

/* ------------------------------------------------------------------ */
/* random part */

static void random_run(const unsigned long long seed, const int nsteps,
                       const int target)
{
    int step;

    rng_s = seed * 2654435761ull + 88172645463325252ull;
    reset_all();

    for (step = 0; step < nsteps; step++) {
        const int i = rnd() % NL;
        int j = rnd() % NL;
        const int total = MN[0] + MN[1] + MN[2];
        unsigned int op = rnd() % 100;

        /* steer the total toward the target, with long excursions */
        if (total > target && op < 30) {
            op = 30 + rnd() % 20;
        }
        if (total >= MAXN - 8 && op < 30) {
            op = 30 + rnd() % 20;
        }

        if (op < 10) {
            op_push_front(i);
        } else if (op < 20) {
            op_push_back(i);
        } else if (op < 30) {
            if (MN[i] > 0) {
                op_insert_after(i, rnd() % MN[i]);
            } else {
                op_push_back(i);
            }
        } else if (op < 37) {
            op_pop_front(i);
        } else if (op < 44) {
            op_pop_back(i);
        } else if (op < 52) {
            if (MN[i] > 0) {
                op_erase(i, rnd() % MN[i]);
            }
        } else if (op < 58) {
            op_reverse(i);
        } else if (op < 62) {
            op_sort(i);
        } else if (op < 67) {
            op_concat(i, j);
        } else if (op < 72) {
            if (i == j) {
                j = (j + 1) % NL;
            }
            op_swap(i, j);
        } else if (op < 78) {
            op_find(i, rnd() % (keymod + 1));
        } else if (op < 83) {
            op_foreach_stop(i, (int)(rnd() % (MN[i] + 2)) - 1,
                            (rnd() & 1) ? 1 + rnd() % 100 : -1 - rnd() % 100,
                            rnd() & 1);
        } else if (op < 89) {
            op_foreach_remove(i, j, rnd() & 1, rnd() & 1, rnd() & 1);
        } else if (op < 95) {
            if (MN[i] > 0) {
                op_move(i, rnd() % MN[i], j, rnd() & 1);
            }
        } else if (op < 96) {
            op_clear(i);
        } else {
            /* several reverses in a row, mixed with end operations */
            op_reverse(i);
            op_push_back(i);
            op_reverse(i);
            op_pop_front(i);
            op_reverse(i);
        }

        verify_all();
    }
}

/* ------------------------------------------------------------------ */
/*
 * other element types, and callbacks that use other container objects
 */

static struct cstl_dlist sl;
static struct cstl_dlist * scratch_from;
static struct cstl_dlist * scratch_to;

static int cmp_big_busy(const void * const a, const void * const b,
                        void * const p)
{
    struct small * s;

    /*
     * while the list of big objects is being sorted, shuffle two
     * unrelated lists of small objects around and reverse them
     */
    s = cstl_dlist_pop_front(scratch_from);
    if (s != NULL) {
        cstl_dlist_push_back(scratch_to, s);
    } else {
        cstl_dlist_swap(scratch_from, scratch_to);
    }
    cstl_dlist_reverse(scratch_to);
    cstl_dlist_reverse(scratch_to);

    (void)p;
    return ((const struct big *)a)->v - ((const struct big *)b)->v;
}

struct bigwalk
{
    int prev;
    int n;
    int dir;
};

static int bigwalk_visit(void * const e, void * const p)
{
    struct bigwalk * w = p;
    const struct big * const b = e;
    if (w->n > 0) {
        if (w->dir > 0 && b->v < w->prev) {
            FAIL("big list not ascending");
        }
        if (w->dir < 0 && b->v > w->prev) {
            FAIL("big list not descending");
        }
    }
    if (b->tail[0] != 't' || b->d[0] != 1.5) {
        FAIL("big element damaged");
    }
    w->prev = b->v;
    w->n++;
    return 0;
}

static int small_sum_visit(void * const e, void * const p)
{
    *(long *)p += ((struct small *)e)->v;
    return 0;
}

static void big_nop(void * const e, void * const p)
{
    (void)e;
    (void)p;
}

static void other_types(void)
{
    enum { NB = 97, NS = 13 };
    static struct big bigs[NB];
    static struct small smalls[NS];
    DECLARE_CSTL_DLIST(bl, struct big, n);
    struct cstl_dlist sl2 = CSTL_DLIST_INITIALIZER(sl2, struct small, n);
    struct bigwalk w;
    long sum, want;
    int i, round;

    cstl_dlist_init(&sl, offsetof(struct small, n));

    want = 0;
    for (i = 0; i < NS; i++) {
        smalls[i].v = i + 1;
        want += i + 1;
        if (i & 1) {
            cstl_dlist_push_back(&sl, &smalls[i]);
        } else {
            cstl_dlist_push_front(&sl2, &smalls[i]);
        }
    }
    scratch_from = &sl;
    scratch_to = &sl2;

    for (round = 0; round < 6; round++) {
        const int nb = (round == 0) ? NB : (round * 17) % NB;

        for (i = 0; i < nb; i++) {
            bigs[i].v = (int)(rnd() % 23);
            bigs[i].d[0] = 1.5;
            bigs[i].tail[0] = 't';
            if (rnd() & 1) {
                cstl_dlist_push_back(&bl, &bigs[i]);
            } else {
                cstl_dlist_push_front(&bl, &bigs[i]);
            }
        }
        if (round & 1) {
            cstl_dlist_reverse(&bl);
        }
        CHECK(cstl_dlist_size(&bl) == (size_t)nb, "big size");

        cstl_dlist_sort(&bl, cmp_big_busy, NULL);
        CHECK(cstl_dlist_size(&bl) == (size_t)nb, "big size after sort");

        w.n = 0; w.dir = 1;
        cstl_dlist_foreach(&bl, bigwalk_visit, &w, CSTL_DLIST_FOREACH_DIR_FWD);
        CHECK(w.n == nb, "big fwd count");
        w.n = 0; w.dir = -1;
        cstl_dlist_foreach(&bl, bigwalk_visit, &w, CSTL_DLIST_FOREACH_DIR_REV);
        CHECK(w.n == nb, "big rev count");

        cstl_dlist_reverse(&bl);
        w.n = 0; w.dir = -1;
        cstl_dlist_foreach(&bl, bigwalk_visit, &w, CSTL_DLIST_FOREACH_DIR_FWD);
        CHECK(w.n == nb, "big fwd count after reverse");
        w.n = 0; w.dir = 1;
        cstl_dlist_foreach(&bl, bigwalk_visit, &w, CSTL_DLIST_FOREACH_DIR_REV);
        CHECK(w.n == nb, "big rev count after reverse");

        /* the small lists still hold all their elements */
        sum = 0;
        cstl_dlist_foreach(&sl, small_sum_visit, &sum,
                           CSTL_DLIST_FOREACH_DIR_FWD);
        cstl_dlist_foreach(&sl2, small_sum_visit, &sum,
                           CSTL_DLIST_FOREACH_DIR_REV);
        CHECK(sum == want, "small lists lost elements");
        CHECK(cstl_dlist_size(&sl) + cstl_dlist_size(&sl2) == NS,
              "small lists size");

        cstl_dlist_clear(&bl, big_nop);
        CHECK(cstl_dlist_size(&bl) == 0, "big size after clear");
        CHECK(cstl_dlist_front(&bl) == NULL, "big front after clear");
        CHECK(cstl_dlist_pop_back(&bl) == NULL, "big pop after clear");
    }

    scratch_from = NULL;
    scratch_to = NULL;
}

/* ------------------------------------------------------------------ */

int main(void)
{
    int a, b;
    unsigned long long seed;

    L[0] = &list0;
    L[1] = &list1;
    L[2] = &list2;
    cstl_dlist_init(&list2, offsetof(struct elem, node));

    pool_reset();
    verify_all();

    /* pops on freshly (statically) initialised lists */
    op_pop_front(0); op_pop_back(0);
    op_pop_front(1); op_pop_back(1);
    op_pop_front(2); op_pop_back(2);
    verify_all();

    /*
     * exhaustive: every sequence of 3 operations out of the full
     * alphabet, from every pair of initial lengths 0..5 x {0, 2, 3}
     */
    for (a = 0; a <= 5; a++) {
        for (b = 0; b <= 3; b++) {
            if (b == 1) {
                continue;
            }
            exhaustive(NOPS_FULL, 3, a, b);
        }
    }
    /* every sequence of 4 from the full alphabet, from lengths 0..5 */
    for (a = 0; a <= 5; a++) {
        exhaustive(NOPS_FULL, 4, a, (a & 1) ? 2 : 0);
    }
    /* every sequence of 6 from the reduced alphabet */
    for (a = 0; a <= 5; a++) {
        exhaustive(8, 6, a, (a & 1) ? 0 : 3);
    }

    /* seeded random, long */
    for (seed = 1; seed <= 12; seed++) {
        keymod = (seed % 3 == 0) ? 1000 : 4 + (int)(seed % 5);
        random_run(seed, 15000, (seed & 1) ? 12 : 150);
    }
    keymod = 4;
    reset_all();

    other_types();

    if (clr_badpriv != NULL) {
        /* not part of the property; just noted */
        fprintf(stderr, "note: clr got a non-NULL private pointer\n");
    }

    printf("ok: %lu sequences, %lu checks, %lu comparisons\n",
           nseq, nchecks, ncmp);
    return 0;
}
