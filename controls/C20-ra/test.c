/*
 * C20: bitwise-copied smart pointers are caught before they can double-free.
 *
 * Standalone test, public API only. Every "must abort" case runs in a
 * forked child and the parent checks that the child was killed by SIGABRT;
 * in the strict form the child additionally turns any clear callback or any
 * normal return into a different exit status, so an abort that comes only
 * after the pointer was released through the stray copy is not accepted.
 * Every "must not abort" case runs in this process: an abort there kills
 * the test itself.
 */
#define _POSIX_C_SOURCE 200809L

#include "cstl/memory.h"
#include "cstl/array.h"

#include <stdio.h>
#include <stdint.h>
#include <string.h>
#include <signal.h>
#include <unistd.h>
#include <pthread.h>
#include <sys/types.h>
#include <sys/wait.h>
#include <sys/resource.h>

static unsigned long n_checks, n_failed;

static void check_(const int ok, const char * const what, const int line)
{
    n_checks++;
    if (!ok) {
        n_failed++;
        fprintf(stderr, "FAIL line %d: %s\n", line, what);
    }
}
#define CHECK(X) check_(!!(X), #X, __LINE__)

/* ------------------------------------------------------------------ */
/* death tests                                                        */
/* ------------------------------------------------------------------ */

static volatile int forbid_clr;

static void child_quiet(void)
{
    struct rlimit rl;
    rl.rlim_cur = rl.rlim_max = 0;
    (void)setrlimit(RLIMIT_CORE, &rl);
}

static int wait_abrt(const pid_t pid)
{
    int st = 0;
    if (pid < 0) {
        return 0;
    }
    while (waitpid(pid, &st, 0) < 0) {
        /* retry */
    }
    return WIFSIGNALED(st) && WTERMSIG(st) == SIGABRT;
}

#define DIES_(STRICT, STMT)                                     \
    do {                                                        \
        pid_t pid__;                                            \
        fflush(NULL);                                           \
        pid__ = fork();                                         \
        if (pid__ == 0) {                                       \
            child_quiet();                                      \
            forbid_clr = (STRICT);                              \
            { STMT; }                                           \
            _exit(0);                                           \
        }                                                       \
        check_(wait_abrt(pid__), "must abort: " #STMT, __LINE__); \
    } while (0)
/* must abort, and no clear callback may run before the abort */
#define DIES(STMT)      DIES_(1, STMT)
/* must abort; a proper object given in another position may be released */
#define DIES_LAX(STMT)  DIES_(0, STMT)

/* ------------------------------------------------------------------ */
/* allocation failures on demand (linked with --wrap=malloc,free)     */
/* ------------------------------------------------------------------ */

void * __real_malloc(size_t);
void __real_free(void *);
void * __wrap_malloc(size_t);
void __wrap_free(void *);

static volatile long fail_countdown;    /* 0: not armed */
static volatile int counting;
static volatile long outstanding, n_mallocs;

void * __wrap_malloc(const size_t n)
{
    void * p;
    if (fail_countdown > 0 && --fail_countdown == 0) {
        return NULL;
    }
    p = __real_malloc(n);
    if (counting && p != NULL) {
        outstanding++;
        n_mallocs++;
    }
    return p;
}

void __wrap_free(void * const p)
{
    if (counting && p != NULL) {
        outstanding--;
    }
    __real_free(p);
}

/* ------------------------------------------------------------------ */
/* payloads and clear callbacks                                       */
/* ------------------------------------------------------------------ */

#define MAGIC 0x5ca1ab1eu
#define MAXPL 200000

struct payload
{
    unsigned magic;
    int id;
    unsigned char fill[40];
};

static int next_id;
static unsigned char cleared[MAXPL];
static unsigned long total_cleared;
static pthread_mutex_t clr_mtx = PTHREAD_MUTEX_INITIALIZER;

static void payload_stamp(void * const mem)
{
    struct payload * const pl = mem;
    pl->magic = MAGIC;
    pl->id = next_id++;
    memset(pl->fill, 0x3c, sizeof(pl->fill));
}

static int payload_id(const void * const mem)
{
    const struct payload * const pl = mem;
    if (pl == NULL || pl->magic != MAGIC) {
        return -1;
    }
    return pl->id;
}

static void * const PRIV_TAG = (void *)(uintptr_t)0x1234;

static void clr_payload(void * const mem, void * const priv)
{
    struct payload * const pl = mem;
    if (forbid_clr) {
        _exit(42);
    }
    if (pl == NULL || pl->magic != MAGIC
        || pl->id < 0 || pl->id >= MAXPL
        || (priv != NULL && priv != PRIV_TAG)) {
        fprintf(stderr, "clear callback given a bad object\n");
        _exit(43);
    }
    pthread_mutex_lock(&clr_mtx);
    if (cleared[pl->id]++ != 0) {
        fprintf(stderr, "payload %d cleared twice\n", pl->id);
        _exit(44);
    }
    total_cleared++;
    pthread_mutex_unlock(&clr_mtx);
    pl->magic = 0xdeadbeefu;
}

static unsigned rnd_state = 12345u;
static unsigned rnd(void)
{
    rnd_state = rnd_state * 1103515245u + 12345u;
    return (rnd_state >> 16) & 0x7fff;
}

/* ------------------------------------------------------------------ */
/* objects initialised with the static initialiser macros             */
/* ------------------------------------------------------------------ */

static DECLARE_CSTL_GUARDED_PTR(file_gp);
static DECLARE_CSTL_UNIQUE_PTR(file_up);
static DECLARE_CSTL_SHARED_PTR(file_sp);
static DECLARE_CSTL_WEAK_PTR(file_wp);
static DECLARE_CSTL_ARRAY(file_arr);

struct holder
{
    char pad0[3];
    struct cstl_guarded_ptr gp;
    char pad1[5];
    cstl_unique_ptr_t up;
    cstl_shared_ptr_t sp;
    char pad2;
    cstl_weak_ptr_t wp;
    cstl_array_t arr;
};

static struct holder file_holder = {
    .gp = CSTL_GUARDED_PTR_INITIALIZER(file_holder.gp),
    .up = CSTL_UNIQUE_PTR_INITIALIZER(file_holder.up),
    .sp = CSTL_SHARED_PTR_INITIALIZER(file_holder.sp),
    .wp = CSTL_WEAK_PTR_INITIALIZER(file_holder.wp),
    .arr = CSTL_ARRAY_INITIALIZER(file_holder.arr),
};

static void holder_init(struct holder * const h)
{
    memset(h, 0x77, sizeof(*h));
    cstl_guarded_ptr_init(&h->gp);
    cstl_unique_ptr_init(&h->up);
    cstl_shared_ptr_init(&h->sp);
    cstl_weak_ptr_init(&h->wp);
    cstl_array_init(&h->arr);
}

/* ------------------------------------------------------------------ */
/* guarded pointers                                                   */
/* ------------------------------------------------------------------ */

static void * take_gp_by_value(struct cstl_guarded_ptr g)
{
    return cstl_guarded_ptr_get(&g);
}

static void test_guarded(void)
{
    int target = 7, other = 9;
    int state;

    for (state = 0; state < 2; state++) {
        DECLARE_CSTL_GUARDED_PTR(g);
        DECLARE_CSTL_GUARDED_PTR(good);
        struct cstl_guarded_ptr c1, c2, c3[3];
        struct cstl_guarded_ptr * heap;
        void * const want = (state == 0) ? NULL : (void *)&target;

        if (state == 1) {
            cstl_guarded_ptr_set(&g, &target);
        }
        cstl_guarded_ptr_set(&good, &other);

        c1 = g;
        memcpy(&c2, &g, sizeof(g));
        c3[0] = c3[1] = c3[2] = g;
        heap = malloc(2 * sizeof(*heap));
        CHECK(heap != NULL);
        memcpy(&heap[1], &g, sizeof(g));
        heap[0] = heap[1];

        /* the original keeps working */
        CHECK(cstl_guarded_ptr_get(&g) == want);
        CHECK(cstl_guarded_ptr_get_const(&g) == want);

        DIES(cstl_guarded_ptr_get(&c1));
        DIES(cstl_guarded_ptr_get_const(&c1));
        DIES(cstl_guarded_ptr_get(&c2));
        DIES(cstl_guarded_ptr_get(&c3[0]));
        DIES(cstl_guarded_ptr_get(&c3[1]));
        DIES(cstl_guarded_ptr_get(&c3[2]));
        DIES(cstl_guarded_ptr_get(&heap[0]));
        DIES(cstl_guarded_ptr_get(&heap[1]));
        DIES(take_gp_by_value(g));
        DIES(cstl_guarded_ptr_copy(&good, &c1));
        DIES(cstl_guarded_ptr_copy(&c2, &c1));
        DIES(cstl_guarded_ptr_copy(&c1, &c1));
        DIES(cstl_guarded_ptr_swap(&c1, &good));
        DIES(cstl_guarded_ptr_swap(&good, &c1));
        DIES(cstl_guarded_ptr_swap(&c1, &c2));
        DIES(cstl_guarded_ptr_swap(&c1, &c1));

        /* a stray copy as the destination of copy/set/init is overwritten */
        cstl_guarded_ptr_copy(&c2, &g);
        CHECK(cstl_guarded_ptr_get(&c2) == want);
        cstl_guarded_ptr_set(&c3[1], &other);
        CHECK(cstl_guarded_ptr_get(&c3[1]) == &other);
        cstl_guarded_ptr_init(&c3[2]);
        CHECK(cstl_guarded_ptr_get(&c3[2]) == NULL);
        DIES(cstl_guarded_ptr_get(&c3[0]));

        /* proper moves */
        cstl_guarded_ptr_swap(&g, &good);
        CHECK(cstl_guarded_ptr_get(&g) == &other);
        CHECK(cstl_guarded_ptr_get(&good) == want);
        cstl_guarded_ptr_swap(&g, &good);
        cstl_guarded_ptr_swap(&g, &g);
        CHECK(cstl_guarded_ptr_get(&g) == want);
        cstl_guarded_ptr_copy(&g, &g);
        CHECK(cstl_guarded_ptr_get(&g) == want);
        CHECK(cstl_guarded_ptr_get(&good) == &other);

        /* a round trip back to the original address is not a stray copy */
        c1 = g;
        g = c1;
        CHECK(cstl_guarded_ptr_get(&g) == want);

        /* relocation: the new place is stray even if the old one is wiped */
        memcpy(&heap[0], &g, sizeof(g));
        DIES(cstl_guarded_ptr_get(&heap[0]));
        free(heap);
    }

    CHECK(cstl_guarded_ptr_get(&file_gp) == NULL);
    CHECK(cstl_guarded_ptr_get(&file_holder.gp) == NULL);
    {
        struct holder h = file_holder;
        DIES(cstl_guarded_ptr_get(&h.gp));
        DIES(cstl_unique_ptr_get(&h.up));
        DIES(cstl_shared_ptr_get(&h.sp));
        DIES(cstl_weak_ptr_reset(&h.wp));
        DIES(cstl_array_data(&h.arr));
        CHECK(cstl_array_size(&h.arr) == 0);
    }
}

/* ------------------------------------------------------------------ */
/* unique pointers                                                    */
/* ------------------------------------------------------------------ */

static void * take_up_by_value(cstl_unique_ptr_t u)
{
    return cstl_unique_ptr_get(&u);
}

static void unique_stray_checks(cstl_unique_ptr_t * const u,
                                cstl_unique_ptr_t * const good)
{
    cstl_unique_ptr_t c1, c2;
    cstl_unique_ptr_t * heap = malloc(sizeof(*heap));
    cstl_xtor_func_t * f;
    void * pv;

    CHECK(heap != NULL);
    c1 = *u;
    memcpy(&c2, u, sizeof(c2));
    memcpy(heap, u, sizeof(*heap));

    DIES(cstl_unique_ptr_get(&c1));
    DIES(cstl_unique_ptr_get_const(&c1));
    DIES(cstl_unique_ptr_get(&c2));
    DIES(cstl_unique_ptr_get(heap));
    DIES(take_up_by_value(*u));
    DIES(cstl_unique_ptr_release(&c1, NULL, NULL));
    DIES(cstl_unique_ptr_release(&c1, &f, &pv));
    DIES(cstl_unique_ptr_release(heap, &f, NULL));
    DIES(cstl_unique_ptr_reset(&c1));
    DIES(cstl_unique_ptr_reset(&c2));
    DIES(cstl_unique_ptr_reset(heap));
    DIES(cstl_unique_ptr_alloc(&c1, 16, NULL, NULL));
    DIES(cstl_unique_ptr_alloc(&c1, 0, NULL, NULL));
    DIES(cstl_unique_ptr_alloc(&c2, sizeof(struct payload),
                               clr_payload, PRIV_TAG));
    DIES(cstl_unique_ptr_swap(&c1, good));
    DIES(cstl_unique_ptr_swap(good, &c1));
    DIES(cstl_unique_ptr_swap(&c1, &c2));
    DIES(cstl_unique_ptr_swap(&c1, &c1));
    DIES(cstl_unique_ptr_swap(heap, u));
    DIES(cstl_unique_ptr_swap(u, heap));

    /* re-initialising a stray copy makes it a proper, empty object */
    cstl_unique_ptr_init(&c2);
    CHECK(cstl_unique_ptr_get(&c2) == NULL);
    cstl_unique_ptr_reset(&c2);
    cstl_unique_ptr_swap(&c2, good);
    cstl_unique_ptr_swap(good, &c2);
    CHECK(cstl_unique_ptr_get(&c2) == NULL);

    free(heap);
}

static void test_unique(void)
{
    DECLARE_CSTL_UNIQUE_PTR(u);
    DECLARE_CSTL_UNIQUE_PTR(good);
    cstl_unique_ptr_t dyn;
    cstl_xtor_func_t * f;
    void * pv, * p, * q;
    int id, gid;

    cstl_unique_ptr_alloc(&good, sizeof(struct payload),
                          clr_payload, PRIV_TAG);
    CHECK(cstl_unique_ptr_get(&good) != NULL);
    payload_stamp(cstl_unique_ptr_get(&good));
    gid = payload_id(cstl_unique_ptr_get(&good));

    /* state: empty (static initialiser) */
    unique_stray_checks(&u, &good);
    CHECK(cstl_unique_ptr_get(&u) == NULL);
    CHECK(cstl_unique_ptr_get_const(&u) == NULL);
    unique_stray_checks(&file_up, &good);
    unique_stray_checks(&file_holder.up, &good);

    /* state: empty (run-time init) */
    memset(&dyn, 0xee, sizeof(dyn));
    cstl_unique_ptr_init(&dyn);
    unique_stray_checks(&dyn, &good);
    f = clr_payload; pv = &dyn;
    CHECK(cstl_unique_ptr_release(&dyn, &f, &pv) == NULL);
    CHECK(f == NULL && pv == NULL);

    /* state: empty after a failed allocation */
    cstl_unique_ptr_alloc(&dyn, SIZE_MAX / 2, clr_payload, PRIV_TAG);
    CHECK(cstl_unique_ptr_get(&dyn) == NULL);
    unique_stray_checks(&dyn, &good);
    cstl_unique_ptr_reset(&dyn);
    cstl_unique_ptr_alloc(&dyn, 0, clr_payload, PRIV_TAG);
    CHECK(cstl_unique_ptr_get(&dyn) == NULL);
    cstl_unique_ptr_reset(&dyn);
    CHECK(total_cleared == 0);

    /* state: owning, with a clear callback */
    cstl_unique_ptr_alloc(&u, sizeof(struct payload), clr_payload, PRIV_TAG);
    p = cstl_unique_ptr_get(&u);
    CHECK(p != NULL);
    payload_stamp(p);
    id = payload_id(p);
    unique_stray_checks(&u, &good);
    CHECK(cstl_unique_ptr_get(&u) == p);
    CHECK(cstl_unique_ptr_get_const(&u) == p);
    CHECK(payload_id(p) == id && cleared[id] == 0);

    /* proper moves keep everything alive */
    cstl_unique_ptr_swap(&u, &good);
    CHECK(payload_id(cstl_unique_ptr_get(&u)) == gid);
    CHECK(cstl_unique_ptr_get(&good) == p);
    cstl_unique_ptr_swap(&good, &u);
    cstl_unique_ptr_swap(&u, &dyn);
    CHECK(cstl_unique_ptr_get(&u) == NULL);
    CHECK(cstl_unique_ptr_get(&dyn) == p);
    unique_stray_checks(&dyn, &good);
    unique_stray_checks(&u, &good);
    cstl_unique_ptr_swap(&u, &dyn);
    CHECK(cstl_unique_ptr_get(&u) == p);
    CHECK(cleared[id] == 0 && cleared[gid] == 0);

    /* release hands back exactly what alloc was given */
    {
        cstl_unique_ptr_t c = u;
        (void)c;
        q = cstl_unique_ptr_release(&u, &f, &pv);
        CHECK(q == p && f == clr_payload && pv == PRIV_TAG);
        CHECK(cstl_unique_ptr_get(&u) == NULL);
        /* the stray copy taken earlier is still stray */
        DIES(cstl_unique_ptr_reset(&c));
        DIES(cstl_unique_ptr_get(&c));
    }
    CHECK(cleared[id] == 0);
    f(q, pv);
    CHECK(cleared[id] == 1);
    free(q);
    cstl_unique_ptr_reset(&u);
    CHECK(total_cleared == 1);

    /* state: owning, no clear callback; alloc over an owning object */
    cstl_unique_ptr_alloc(&u, 1, NULL, NULL);
    CHECK(cstl_unique_ptr_get(&u) != NULL);
    unique_stray_checks(&u, &good);
    cstl_unique_ptr_alloc(&u, sizeof(struct payload), clr_payload, NULL);
    payload_stamp(cstl_unique_ptr_get(&u));
    id = payload_id(cstl_unique_ptr_get(&u));
    cstl_unique_ptr_alloc(&u, 33, NULL, PRIV_TAG);
    CHECK(cleared[id] == 1);
    q = cstl_unique_ptr_release(&u, &f, &pv);
    CHECK(q != NULL && f == NULL && pv == PRIV_TAG);
    free(q);
    cstl_unique_ptr_alloc(&u, 8, NULL, NULL);
    cstl_unique_ptr_reset(&u);
    CHECK(cstl_unique_ptr_get(&u) == NULL);

    /* an unused stray copy of an owning pointer does no harm */
    cstl_unique_ptr_alloc(&u, sizeof(struct payload), clr_payload, PRIV_TAG);
    payload_stamp(cstl_unique_ptr_get(&u));
    id = payload_id(cstl_unique_ptr_get(&u));
    {
        cstl_unique_ptr_t c[4];
        int i;
        for (i = 0; i < 4; i++) {
            c[i] = u;
        }
        cstl_unique_ptr_reset(&u);
        CHECK(cleared[id] == 1);
        for (i = 0; i < 4; i++) {
            DIES(cstl_unique_ptr_reset(&c[i]));
            DIES(cstl_unique_ptr_get(&c[i]));
        }
    }

    CHECK(cleared[gid] == 0);
    cstl_unique_ptr_reset(&good);
    CHECK(cleared[gid] == 1);
    cstl_unique_ptr_reset(&good);
    CHECK(cleared[gid] == 1);
}

/* ------------------------------------------------------------------ */
/* shared and weak pointers                                           */
/* ------------------------------------------------------------------ */

static const void * take_sp_by_value(cstl_shared_ptr_t s)
{
    return cstl_shared_ptr_get_const(&s);
}

/*
 * every function taking a shared/weak pointer, applied to stray copies of
 * *s in every argument position. good_sp/good_wp are proper objects; in the
 * strict cases the proper object in the other position is empty, so no
 * clear callback may run at all before the abort.
 */
static void shared_stray_checks(cstl_shared_ptr_t * const s,
                                cstl_shared_ptr_t * const good_sp,
                                cstl_weak_ptr_t * const good_wp)
{
    cstl_shared_ptr_t c1, c2;
    cstl_shared_ptr_t * heap = malloc(sizeof(*heap));
    DECLARE_CSTL_SHARED_PTR(empty_sp);
    DECLARE_CSTL_WEAK_PTR(empty_wp);

    CHECK(heap != NULL);
    c1 = *s;
    memcpy(&c2, s, sizeof(c2));
    memmove(heap, s, sizeof(*heap));

    DIES(cstl_shared_ptr_unique(&c1));
    DIES(cstl_shared_ptr_get(&c1));
    DIES(cstl_shared_ptr_get_const(&c1));
    DIES(cstl_shared_ptr_get(&c2));
    DIES(cstl_shared_ptr_get(heap));
    DIES(take_sp_by_value(*s));
    DIES(cstl_shared_ptr_reset(&c1));
    DIES(cstl_shared_ptr_reset(&c2));
    DIES(cstl_shared_ptr_reset(heap));
    DIES(cstl_weak_ptr_reset(&c1));
    DIES(cstl_weak_ptr_reset(heap));
    DIES(cstl_shared_ptr_alloc(&c1, 16, NULL));
    DIES(cstl_shared_ptr_alloc(&c1, 0, NULL));
    DIES(cstl_shared_ptr_alloc(&c2, sizeof(struct payload), clr_payload));

    /* share: existing / new */
    DIES(cstl_shared_ptr_share(&c1, &empty_sp));
    DIES(cstl_shared_ptr_share(&empty_sp, &c1));
    DIES(cstl_shared_ptr_share(s, &c1));
    DIES(cstl_shared_ptr_share(&c1, &c2));
    DIES(cstl_shared_ptr_share(&c1, &c1));
    DIES_LAX(cstl_shared_ptr_share(&c1, good_sp));
    DIES(cstl_shared_ptr_share(good_sp, &c1));
    DIES(cstl_shared_ptr_share(good_sp, heap));

    /* swap */
    DIES(cstl_shared_ptr_swap(&c1, good_sp));
    DIES(cstl_shared_ptr_swap(good_sp, &c1));
    DIES(cstl_shared_ptr_swap(&c1, &c2));
    DIES(cstl_shared_ptr_swap(&c1, &c1));
    DIES(cstl_shared_ptr_swap(&c1, s));
    DIES(cstl_shared_ptr_swap(s, &c1));
    DIES(cstl_weak_ptr_swap(&c1, good_wp));
    DIES(cstl_weak_ptr_swap(good_wp, &c1));
    DIES(cstl_weak_ptr_swap(heap, s));

    /* weak from: weak / shared */
    DIES(cstl_weak_ptr_from(&empty_wp, &c1));
    DIES(cstl_weak_ptr_from(&c1, &empty_sp));
    DIES(cstl_weak_ptr_from(&c1, good_sp));
    DIES(cstl_weak_ptr_from(&c1, s));
    DIES(cstl_weak_ptr_from(&c1, &c2));
    DIES(cstl_weak_ptr_from(&c1, &c1));
    DIES_LAX(cstl_weak_ptr_from(good_wp, &c1));

    /* weak lock: weak / shared */
    DIES(cstl_weak_ptr_lock(&c1, &empty_sp));
    DIES(cstl_weak_ptr_lock(&empty_wp, &c1));
    DIES(cstl_weak_ptr_lock(good_wp, &c1));
    DIES(cstl_weak_ptr_lock(s, &c1));
    DIES(cstl_weak_ptr_lock(&c1, &c2));
    DIES(cstl_weak_ptr_lock(&c1, &c1));
    DIES_LAX(cstl_weak_ptr_lock(&c1, good_sp));

    /* re-initialising a stray copy makes it a proper, empty object */
    cstl_shared_ptr_init(&c2);
    CHECK(cstl_shared_ptr_get(&c2) == NULL);
    CHECK(cstl_shared_ptr_unique(&c2));
    cstl_shared_ptr_reset(&c2);
    cstl_weak_ptr_init(heap);
    cstl_weak_ptr_reset(heap);
    cstl_shared_ptr_reset(&empty_sp);
    cstl_weak_ptr_reset(&empty_wp);

    free(heap);
}

static void test_shared_weak(void)
{
    DECLARE_CSTL_SHARED_PTR(sp1);
    DECLARE_CSTL_SHARED_PTR(sp2);
    DECLARE_CSTL_SHARED_PTR(sp3);
    DECLARE_CSTL_WEAK_PTR(wp1);
    DECLARE_CSTL_WEAK_PTR(wp2);
    DECLARE_CSTL_SHARED_PTR(good_sp);
    DECLARE_CSTL_WEAK_PTR(good_wp);
    cstl_shared_ptr_t dyn;
    const unsigned long base = total_cleared;
    void * p;
    int id, gid;

    cstl_shared_ptr_alloc(&good_sp, sizeof(struct payload), clr_payload);
    CHECK(cstl_shared_ptr_get(&good_sp) != NULL);
    payload_stamp(cstl_shared_ptr_get(&good_sp));
    gid = payload_id(cstl_shared_ptr_get(&good_sp));
    cstl_weak_ptr_from(&good_wp, &good_sp);
    CHECK(!cstl_shared_ptr_unique(&good_sp));

    /* state: empty */
    shared_stray_checks(&sp1, &good_sp, &good_wp);
    shared_stray_checks(&wp1, &good_sp, &good_wp);
    shared_stray_checks(&file_sp, &good_sp, &good_wp);
    shared_stray_checks(&file_wp, &good_sp, &good_wp);
    shared_stray_checks(&file_holder.sp, &good_sp, &good_wp);
    shared_stray_checks(&file_holder.wp, &good_sp, &good_wp);
    memset(&dyn, 0x11, sizeof(dyn));
    cstl_shared_ptr_init(&dyn);
    shared_stray_checks(&dyn, &good_sp, &good_wp);
    CHECK(cstl_shared_ptr_unique(&sp1));
    CHECK(cstl_shared_ptr_get(&sp1) == NULL);

    /* state: empty after failed / zero-sized allocations */
    cstl_shared_ptr_alloc(&dyn, SIZE_MAX / 2, clr_payload);
    CHECK(cstl_shared_ptr_get(&dyn) == NULL);
    CHECK(cstl_shared_ptr_unique(&dyn));
    shared_stray_checks(&dyn, &good_sp, &good_wp);
    cstl_shared_ptr_alloc(&dyn, 0, clr_payload);
    CHECK(cstl_shared_ptr_get(&dyn) == NULL);
    cstl_shared_ptr_reset(&dyn);
    CHECK(total_cleared == base);

    /* state: sole owner */
    cstl_shared_ptr_alloc(&sp1, sizeof(struct payload), clr_payload);
    p = cstl_shared_ptr_get(&sp1);
    CHECK(p != NULL);
    payload_stamp(p);
    id = payload_id(p);
    CHECK(cstl_shared_ptr_unique(&sp1));
    shared_stray_checks(&sp1, &good_sp, &good_wp);
    CHECK(cstl_shared_ptr_get(&sp1) == p && cstl_shared_ptr_unique(&sp1));
    CHECK(cleared[id] == 0);

    /* state: shared by two owners */
    cstl_shared_ptr_share(&sp1, &sp2);
    CHECK(cstl_shared_ptr_get(&sp2) == p);
    CHECK(!cstl_shared_ptr_unique(&sp1) && !cstl_shared_ptr_unique(&sp2));
    shared_stray_checks(&sp1, &good_sp, &good_wp);
    shared_stray_checks(&sp2, &good_sp, &good_wp);

    /* state: shared plus weak */
    cstl_weak_ptr_from(&wp1, &sp2);
    shared_stray_checks(&wp1, &good_sp, &good_wp);
    shared_stray_checks(&sp1, &good_sp, &good_wp);
    cstl_weak_ptr_lock(&wp1, &sp3);
    CHECK(cstl_shared_ptr_get(&sp3) == p);
    cstl_shared_ptr_reset(&sp3);
    cstl_shared_ptr_reset(&sp2);
    CHECK(cstl_shared_ptr_get(&sp2) == NULL);
    CHECK(cleared[id] == 0);
    CHECK(!cstl_shared_ptr_unique(&sp1));

    /* proper moves */
    cstl_shared_ptr_swap(&sp1, &sp2);
    CHECK(cstl_shared_ptr_get(&sp1) == NULL);
    CHECK(cstl_shared_ptr_get(&sp2) == p);
    cstl_shared_ptr_swap(&sp2, &sp2);
    cstl_shared_ptr_share(&sp2, &sp1);
    cstl_shared_ptr_reset(&sp2);
    cstl_weak_ptr_swap(&wp1, &wp2);
    cstl_weak_ptr_lock(&wp1, &sp3);
    CHECK(cstl_shared_ptr_get(&sp3) == NULL);
    cstl_weak_ptr_lock(&wp2, &sp3);
    CHECK(cstl_shared_ptr_get(&sp3) == p);
    cstl_shared_ptr_reset(&sp3);
    cstl_weak_ptr_swap(&wp1, &wp2);
    CHECK(cleared[id] == 0);

    /* state: weak only (the last owner goes away) */
    {
        cstl_shared_ptr_t stray_owner = sp1;
        cstl_shared_ptr_reset(&sp1);
        CHECK(cleared[id] == 1);
        CHECK(cstl_shared_ptr_get(&sp1) == NULL);
        DIES(cstl_shared_ptr_reset(&stray_owner));
        DIES(cstl_shared_ptr_get(&stray_owner));
        DIES(cstl_shared_ptr_share(&stray_owner, &sp2));
        DIES(cstl_weak_ptr_from(&wp2, &stray_owner));
    }
    shared_stray_checks(&wp1, &good_sp, &good_wp);
    cstl_weak_ptr_lock(&wp1, &sp3);
    CHECK(cstl_shared_ptr_get(&sp3) == NULL);
    CHECK(cstl_shared_ptr_unique(&sp3));
    shared_stray_checks(&sp3, &good_sp, &good_wp);
    cstl_weak_ptr_from(&wp2, &sp3);
    shared_stray_checks(&wp2, &good_sp, &good_wp);
    {
        cstl_weak_ptr_t stray_weak = wp1;
        cstl_weak_ptr_reset(&wp1);
        DIES(cstl_weak_ptr_reset(&stray_weak));
        DIES(cstl_weak_ptr_lock(&stray_weak, &sp3));
    }
    cstl_weak_ptr_reset(&wp1);
    cstl_weak_ptr_reset(&wp2);
    CHECK(cleared[id] == 1);

    /* alloc over an owning shared pointer releases the old memory once */
    cstl_shared_ptr_alloc(&sp1, sizeof(struct payload), clr_payload);
    payload_stamp(cstl_shared_ptr_get(&sp1));
    id = payload_id(cstl_shared_ptr_get(&sp1));
    cstl_shared_ptr_share(&sp1, &sp2);
    cstl_shared_ptr_alloc(&sp1, 5, NULL);
    CHECK(cleared[id] == 0);
    CHECK(cstl_shared_ptr_unique(&sp1) && cstl_shared_ptr_unique(&sp2));
    cstl_shared_ptr_alloc(&sp2, 6, NULL);
    CHECK(cleared[id] == 1);
    cstl_shared_ptr_share(&sp1, &sp2);
    CHECK(cstl_shared_ptr_get(&sp1) == cstl_shared_ptr_get(&sp2));
    cstl_shared_ptr_share(&sp3, &sp2);
    CHECK(cstl_shared_ptr_get(&sp2) == NULL);
    CHECK(cstl_shared_ptr_unique(&sp1));
    cstl_weak_ptr_from(&wp1, &sp3);
    cstl_weak_ptr_lock(&wp1, &sp1);
    CHECK(cstl_shared_ptr_get(&sp1) == NULL);

    CHECK(cleared[gid] == 0);
    cstl_shared_ptr_reset(&good_sp);
    CHECK(cleared[gid] == 1);
    shared_stray_checks(&good_wp, &sp1, &wp1);
    cstl_weak_ptr_reset(&good_wp);
}

/* ------------------------------------------------------------------ */
/* arrays                                                             */
/* ------------------------------------------------------------------ */

static const void * take_arr_by_value(cstl_array_t a)
{
    return cstl_array_data_const(&a);
}

static void array_stray_checks(cstl_array_t * const a,
                               cstl_array_t * const good)
{
    cstl_array_t c1, c2;
    cstl_array_t * heap = malloc(sizeof(*heap));
    DECLARE_CSTL_ARRAY(empty);
    static int ext[4];
    void * out;
    const size_t n = cstl_array_size(a);

    CHECK(heap != NULL);
    c1 = *a;
    memcpy(&c2, a, sizeof(c2));
    memcpy(heap, a, sizeof(*heap));

    /* the size is plain data and does not go through the pointer */
    CHECK(cstl_array_size(&c1) == n);
    CHECK(cstl_array_size(heap) == n);

    DIES(cstl_array_data(&c1));
    DIES(cstl_array_data_const(&c1));
    DIES(cstl_array_data(&c2));
    DIES(cstl_array_data(heap));
    DIES(take_arr_by_value(*a));
    DIES(cstl_array_at(&c1, 0));
    DIES(cstl_array_at_const(&c1, 0));
    DIES(cstl_array_at(&c1, n > 0 ? n - 1 : 0));
    DIES(cstl_array_at(&c1, n));
    DIES(cstl_array_at(heap, 0));
    DIES(cstl_array_reset(&c1));
    DIES(cstl_array_reset(&c2));
    DIES(cstl_array_reset(heap));
    DIES(cstl_array_alloc(&c1, 4, sizeof(int)));
    DIES(cstl_array_alloc(&c1, 0, 0));
    DIES(cstl_array_alloc(&c1, SIZE_MAX, 16));
    DIES(cstl_array_set(&c1, ext, 4, sizeof(int)));
    DIES(cstl_array_set(heap, ext, 4, sizeof(int)));
    DIES(cstl_array_release(&c1, &out));
    DIES(cstl_array_release(&c1, NULL));
    DIES(cstl_array_release(heap, &out));

    /* slice / unslice: source position */
    DIES(cstl_array_slice(&c1, 0, 0, &empty));
    DIES(cstl_array_slice(&c1, 0, n, &empty));
    DIES(cstl_array_slice(&c1, 0, 0, &c1));
    DIES(cstl_array_slice(&c1, 0, n, &c1));
    DIES(cstl_array_slice(&c1, 0, 0, &c2));
    DIES_LAX(cstl_array_slice(&c1, 0, 0, good));
    DIES(cstl_array_unslice(&c1, &empty));
    DIES(cstl_array_unslice(&c1, &c1));
    DIES(cstl_array_unslice(&c1, &c2));
    DIES(cstl_array_unslice(heap, heap));
    DIES_LAX(cstl_array_unslice(&c1, good));
    /* destination position, with a proper source */
    DIES(cstl_array_slice(good, 0, 1, &c1));
    DIES(cstl_array_slice(good, 0, 0, &c1));
    DIES(cstl_array_slice(good, 1, 2, heap));
    DIES(cstl_array_unslice(good, &c1));
    DIES(cstl_array_unslice(good, heap));
    DIES(cstl_array_slice(a, 0, 0, &c1));
    DIES(cstl_array_unslice(a, &c1));

    /* re-initialising a stray copy makes it a proper, empty object */
    cstl_array_init(&c2);
    CHECK(cstl_array_size(&c2) == 0);
    CHECK(cstl_array_data(&c2) == NULL);
    cstl_array_reset(&c2);
    cstl_array_slice(good, 0, 1, &c2);
    CHECK(cstl_array_at(&c2, 0) == cstl_array_at(good, 0));
    cstl_array_reset(&c2);
    cstl_array_reset(&empty);

    free(heap);
}

static void test_array(void)
{
    DECLARE_CSTL_ARRAY(a);
    DECLARE_CSTL_ARRAY(s);
    DECLARE_CSTL_ARRAY(t);
    DECLARE_CSTL_ARRAY(good);
    cstl_array_t dyn;
    long ext[10];
    void * out;
    char * base;
    size_t i;

    cstl_array_alloc(&good, 3, sizeof(short));
    CHECK(cstl_array_size(&good) == 3);

    /* state: empty */
    array_stray_checks(&a, &good);
    array_stray_checks(&file_arr, &good);
    array_stray_checks(&file_holder.arr, &good);
    memset(&dyn, 0x42, sizeof(dyn));
    cstl_array_init(&dyn);
    array_stray_checks(&dyn, &good);
    CHECK(cstl_array_data(&a) == NULL && cstl_array_size(&a) == 0);
    out = &a;
    cstl_array_release(&a, &out);
    CHECK(out == NULL);
    cstl_array_release(&a, NULL);
    DIES(cstl_array_at(&a, 0));
    DIES(cstl_array_slice(&a, 0, 0, &s));
    DIES(cstl_array_unslice(&a, &s));
    DIES(cstl_array_unslice(&a, &a));

    /* state: empty after refused / failed allocations */
    cstl_array_alloc(&dyn, SIZE_MAX, 2);
    CHECK(cstl_array_size(&dyn) == 0 && cstl_array_data(&dyn) == NULL);
    cstl_array_alloc(&dyn, SIZE_MAX / 16, 16);
    CHECK(cstl_array_size(&dyn) == 0 && cstl_array_data(&dyn) == NULL);
    cstl_array_alloc(&dyn, SIZE_MAX / 4, 2);
    CHECK(cstl_array_size(&dyn) == 0 && cstl_array_data(&dyn) == NULL);
    array_stray_checks(&dyn, &good);

    /* state: allocated */
    cstl_array_alloc(&a, 12, sizeof(int));
    CHECK(cstl_array_size(&a) == 12);
    base = cstl_array_data(&a);
    CHECK(base != NULL);
    for (i = 0; i < 12; i++) {
        CHECK(cstl_array_at(&a, i) == (void *)(base + i * sizeof(int)));
        *(int *)cstl_array_at(&a, i) = (int)(100 + i);
    }
    DIES(cstl_array_at(&a, 12));
    DIES(cstl_array_at(&a, SIZE_MAX));
    array_stray_checks(&a, &good);
    out = &a;
    cstl_array_release(&a, &out);
    CHECK(out == NULL && cstl_array_size(&a) == 12);

    /* state: slices sharing the allocation */
    cstl_array_slice(&a, 4, 9, &s);
    CHECK(cstl_array_size(&s) == 5);
    CHECK(cstl_array_data(&s) == (void *)base);
    CHECK(*(int *)cstl_array_at(&s, 0) == 104);
    CHECK(*(int *)cstl_array_at(&s, 4) == 108);
    DIES(cstl_array_at(&s, 5));
    array_stray_checks(&s, &good);
    array_stray_checks(&a, &good);
    cstl_array_slice(&s, 1, 8, &t);         /* up to the underlying end */
    CHECK(cstl_array_size(&t) == 7);
    CHECK(*(int *)cstl_array_at(&t, 6) == 111);
    DIES(cstl_array_slice(&s, 1, 9, &t));
    DIES(cstl_array_slice(&s, 3, 2, &t));
    DIES(cstl_array_slice(&s, 0, SIZE_MAX, &t));
    cstl_array_slice(&t, 7, 7, &t);         /* empty slice at the very end */
    CHECK(cstl_array_size(&t) == 0);
    array_stray_checks(&t, &good);
    DIES(cstl_array_at(&t, 0));
    DIES(cstl_array_slice(&t, 0, 1, &t));
    cstl_array_slice(&t, 0, 0, &t);
    cstl_array_unslice(&t, &t);
    CHECK(cstl_array_size(&t) == 12);
    CHECK(*(int *)cstl_array_at(&t, 11) == 111);
    cstl_array_slice(&s, 2, 3, &s);
    CHECK(cstl_array_size(&s) == 1 && *(int *)cstl_array_at(&s, 0) == 106);

    /* the owner goes away; the slices keep the memory */
    {
        cstl_array_t stray = a;
        cstl_array_reset(&a);
        CHECK(cstl_array_size(&a) == 0 && cstl_array_data(&a) == NULL);
        CHECK(cstl_array_size(&stray) == 12);
        DIES(cstl_array_reset(&stray));
        DIES(cstl_array_at(&stray, 3));
        DIES(cstl_array_unslice(&stray, &a));
    }
    CHECK(*(int *)cstl_array_at(&s, 0) == 106);
    cstl_array_unslice(&s, &a);
    CHECK(cstl_array_size(&a) == 12 && cstl_array_data(&a) == (void *)base);
    cstl_array_reset(&t);
    cstl_array_reset(&s);
    CHECK(*(int *)cstl_array_at(&a, 7) == 107);
    cstl_array_alloc(&a, 0, sizeof(int));   /* zero elements */
    CHECK(cstl_array_size(&a) == 0);
    DIES(cstl_array_at(&a, 0));
    array_stray_checks(&a, &good);
    cstl_array_slice(&a, 0, 0, &s);
    CHECK(cstl_array_size(&s) == 0);
    cstl_array_reset(&s);
    cstl_array_alloc(&a, 5, 0);             /* zero-sized elements */
    CHECK(cstl_array_size(&a) == 5);
    CHECK(cstl_array_at(&a, 4) == cstl_array_data(&a));
    array_stray_checks(&a, &good);
    cstl_array_reset(&a);

    /* state: externally supplied memory */
    for (i = 0; i < 10; i++) {
        ext[i] = (long)(i * i);
    }
    cstl_array_set(&a, ext, 10, sizeof(long));
    CHECK(cstl_array_size(&a) == 10);
    CHECK(cstl_array_data(&a) == (void *)ext);
    CHECK(cstl_array_at(&a, 9) == (void *)&ext[9]);
    array_stray_checks(&a, &good);
    cstl_array_slice(&a, 2, 6, &s);
    CHECK(cstl_array_at(&s, 0) == (void *)&ext[2]);
    array_stray_checks(&s, &good);
    out = &a;
    cstl_array_release(&a, &out);           /* refused: a slice exists */
    CHECK(out == NULL && cstl_array_size(&a) == 10);
    cstl_array_release(&s, &out);
    CHECK(out == NULL && cstl_array_size(&s) == 4);
    cstl_array_reset(&s);
    {
        cstl_array_t stray = a;
        DIES(cstl_array_release(&stray, &out));
        cstl_array_release(&a, &out);
        CHECK(out == (void *)ext);
        CHECK(cstl_array_size(&a) == 0 && cstl_array_data(&a) == NULL);
        DIES(cstl_array_release(&stray, &out));
        DIES(cstl_array_data(&stray));
    }
    CHECK(ext[9] == 81);
    cstl_array_set(&a, ext, 10, sizeof(long));
    cstl_array_set(&a, ext + 1, 9, sizeof(long));   /* set over set */
    CHECK(cstl_array_at(&a, 0) == (void *)&ext[1]);
    cstl_array_release(&a, NULL);
    CHECK(cstl_array_size(&a) == 0);

    array_stray_checks(&good, &good);
    cstl_array_reset(&good);
}

/* ------------------------------------------------------------------ */
/* properly moved objects never abort: model-checked random histories */
/* ------------------------------------------------------------------ */

#define NP 6
#define NBLK 40000

static struct
{
    int hard, soft;
    void * mem;
    int id;
} blk[NBLK];
static int n_blk;

static void histories_smart(const unsigned seed, const int steps)
{
    cstl_unique_ptr_t U[NP];
    cstl_shared_ptr_t S[NP];
    cstl_weak_ptr_t W[NP];
    struct { void * mem; int id; int has_clr; } mu[NP];
    int ms[NP], mw[NP];
    int i, step;

    rnd_state = seed;
    for (i = 0; i < NP; i++) {
        cstl_unique_ptr_init(&U[i]);
        cstl_shared_ptr_init(&S[i]);
        cstl_weak_ptr_init(&W[i]);
        mu[i].mem = NULL; mu[i].id = -1; mu[i].has_clr = 0;
        ms[i] = mw[i] = -1;
    }

#define DROP_HARD(B)                                                    \
    do {                                                                \
        const int b__ = (B);                                            \
        if (b__ >= 0) {                                                 \
            blk[b__].hard--; blk[b__].soft--;                           \
        }                                                               \
    } while (0)
#define DROP_SOFT(B)                                                    \
    do { if ((B) >= 0) { blk[(B)].soft--; } } while (0)

    for (step = 0; step < steps; step++) {
        const unsigned op = rnd() % 17;
        const int x = rnd() % NP, y = rnd() % NP;

        switch (op) {
        case 0: /* unique alloc */
            if (next_id >= MAXPL - 8) {
                break;
            }
            {
                const int with = rnd() % 4 != 0;
                cstl_unique_ptr_alloc(&U[x], sizeof(struct payload),
                                      with ? clr_payload : NULL,
                                      (rnd() & 1) ? PRIV_TAG : NULL);
                mu[x].mem = cstl_unique_ptr_get(&U[x]);
                CHECK(mu[x].mem != NULL);
                payload_stamp(mu[x].mem);
                mu[x].id = payload_id(mu[x].mem);
                mu[x].has_clr = with;
            }
            break;
        case 1: /* unique reset */
            cstl_unique_ptr_reset(&U[x]);
            mu[x].mem = NULL; mu[x].id = -1; mu[x].has_clr = 0;
            break;
        case 2: /* unique release */
            {
                cstl_xtor_func_t * f = NULL;
                void * pv = NULL;
                void * const p = cstl_unique_ptr_release(&U[x], &f, &pv);
                CHECK(p == mu[x].mem);
                CHECK((f == clr_payload) == (mu[x].has_clr != 0));
                if (f != NULL) {
                    f(p, pv);
                }
                free(p);
                mu[x].mem = NULL; mu[x].id = -1; mu[x].has_clr = 0;
            }
            break;
        case 3: /* unique swap */
            {
                cstl_unique_ptr_swap(&U[x], &U[y]);
                if (x != y) {
                    void * const m = mu[x].mem;
                    const int id = mu[x].id, hc = mu[x].has_clr;
                    mu[x] = mu[y];
                    mu[y].mem = m; mu[y].id = id; mu[y].has_clr = hc;
                }
            }
            break;
        case 4: /* shared alloc */
            if (next_id >= MAXPL - 8 || n_blk >= NBLK) {
                break;
            }
            DROP_HARD(ms[x]);
            cstl_shared_ptr_alloc(&S[x], sizeof(struct payload), clr_payload);
            blk[n_blk].mem = cstl_shared_ptr_get(&S[x]);
            CHECK(blk[n_blk].mem != NULL);
            payload_stamp(blk[n_blk].mem);
            blk[n_blk].id = payload_id(blk[n_blk].mem);
            blk[n_blk].hard = blk[n_blk].soft = 1;
            ms[x] = n_blk++;
            break;
        case 5: /* share */
        case 6:
            if (x != y) {
                DROP_HARD(ms[y]);
                cstl_shared_ptr_share(&S[x], &S[y]);
                ms[y] = ms[x];
                if (ms[y] >= 0) {
                    blk[ms[y]].hard++; blk[ms[y]].soft++;
                }
            }
            break;
        case 7: /* shared swap */
            cstl_shared_ptr_swap(&S[x], &S[y]);
            { const int t = ms[x]; ms[x] = ms[y]; ms[y] = t; }
            break;
        case 8: /* shared reset */
        case 9:
            DROP_HARD(ms[x]);
            cstl_shared_ptr_reset(&S[x]);
            ms[x] = -1;
            break;
        case 10: /* weak from */
        case 11:
            DROP_SOFT(mw[x]);
            cstl_weak_ptr_from(&W[x], &S[y]);
            mw[x] = ms[y];
            if (mw[x] >= 0) {
                blk[mw[x]].soft++;
            }
            break;
        case 12: /* weak lock */
        case 13:
            DROP_HARD(ms[y]);
            cstl_weak_ptr_lock(&W[x], &S[y]);
            ms[y] = -1;
            if (mw[x] >= 0 && blk[mw[x]].hard > 0) {
                ms[y] = mw[x];
                blk[mw[x]].hard++; blk[mw[x]].soft++;
            }
            break;
        case 14: /* weak swap */
            cstl_weak_ptr_swap(&W[x], &W[y]);
            { const int t = mw[x]; mw[x] = mw[y]; mw[y] = t; }
            break;
        case 15: /* weak reset */
            DROP_SOFT(mw[x]);
            cstl_weak_ptr_reset(&W[x]);
            mw[x] = -1;
            break;
        default: /* the unique pointers meet the shared ones by swap only
                    through their own kind; here: shared alloc w/o clr */
            DROP_HARD(ms[x]);
            cstl_shared_ptr_alloc(&S[x], 0, clr_payload);
            ms[x] = -1;
            break;
        }

        /* the whole visible state agrees with the model */
        for (i = 0; i < NP; i++) {
            CHECK(cstl_unique_ptr_get(&U[i]) == mu[i].mem);
            if (mu[i].mem != NULL) {
                CHECK(payload_id(mu[i].mem) == mu[i].id);
                CHECK(cleared[mu[i].id] == 0);
            }
            if (ms[i] < 0) {
                CHECK(cstl_shared_ptr_get_const(&S[i]) == NULL);
                CHECK(cstl_shared_ptr_unique(&S[i]));
            } else {
                CHECK(cstl_shared_ptr_get(&S[i]) == blk[ms[i]].mem);
                CHECK(payload_id(blk[ms[i]].mem) == blk[ms[i]].id);
                CHECK(cleared[blk[ms[i]].id] == 0);
                CHECK(blk[ms[i]].hard > 0);
                CHECK(cstl_shared_ptr_unique(&S[i]) == (blk[ms[i]].soft == 1));
            }
            if (mw[i] >= 0) {
                CHECK(blk[mw[i]].soft > 0);
                CHECK(cleared[blk[mw[i]].id] == (blk[mw[i]].hard == 0));
            }
        }
    }

    for (i = 0; i < NP; i++) {
        /* a stray copy of every object, in its final state, still dies */
        if (seed % 8 == 0) {
            cstl_unique_ptr_t cu = U[i];
            cstl_shared_ptr_t cs = S[i];
            cstl_weak_ptr_t cw = W[i];
            DIES(cstl_unique_ptr_reset(&cu));
            DIES(cstl_shared_ptr_reset(&cs));
            DIES(cstl_weak_ptr_reset(&cw));
            DIES_LAX(cstl_weak_ptr_lock(&cw, &S[i]));
        }
    }
    for (i = 0; i < NP; i++) {
        cstl_unique_ptr_reset(&U[i]);
        cstl_weak_ptr_reset(&W[NP - 1 - i]);
        cstl_shared_ptr_reset(&S[i]);
    }
#undef DROP_HARD
#undef DROP_SOFT
}

#define NA 6

static void histories_array(const unsigned seed, const int steps)
{
    cstl_array_t A[NA];
    struct
    {
        int blk;            /* -1: empty */
        size_t off, len;
    } m[NA];
    struct
    {
        int refs, ext;
        size_t nm, sz;
        char * buf;         /* known for ext; learnt for allocated */
    } b[4096];
    int nb = 0, i, step;

    rnd_state = seed;
    for (i = 0; i < NA; i++) {
        cstl_array_init(&A[i]);
        m[i].blk = -1; m[i].off = m[i].len = 0;
    }

    for (step = 0; step < steps && nb < 4090; step++) {
        const unsigned op = rnd() % 8;
        const int x = rnd() % NA, y = rnd() % NA;

        /*
         * the last reference to external memory is always released
         * rather than reset, as the documentation demands
         */
#define DROP(X)                                                         \
        do {                                                            \
            const int k__ = m[(X)].blk;                                 \
            if (k__ >= 0) {                                             \
                if (b[k__].ext && b[k__].refs == 1) {                   \
                    void * o__ = NULL;                                  \
                    cstl_array_release(&A[(X)], &o__);                  \
                    CHECK(o__ == (void *)b[k__].buf);                   \
                    CHECK(cstl_array_size(&A[(X)]) == 0);               \
                    free(o__);                                          \
                }                                                       \
                b[k__].refs--;                                          \
                m[(X)].blk = -1; m[(X)].off = m[(X)].len = 0;           \
            }                                                           \
        } while (0)

        switch (op) {
        case 0: /* alloc */
            {
                const size_t nm = rnd() % 20, sz = rnd() % 9;
                DROP(x);
                cstl_array_alloc(&A[x], nm, sz);
                CHECK(cstl_array_data(&A[x]) != NULL);
                b[nb].refs = 1; b[nb].ext = 0; b[nb].nm = nm; b[nb].sz = sz;
                b[nb].buf = cstl_array_data(&A[x]);
                m[x].blk = nb++; m[x].off = 0; m[x].len = nm;
            }
            break;
        case 1: /* set */
            {
                const size_t nm = rnd() % 20, sz = 1 + rnd() % 8;
                char * const buf = malloc(nm * sz + 1);
                CHECK(buf != NULL);
                DROP(x);
                cstl_array_set(&A[x], buf, nm, sz);
                b[nb].refs = 1; b[nb].ext = 1; b[nb].nm = nm; b[nb].sz = sz;
                b[nb].buf = buf;
                m[x].blk = nb++; m[x].off = 0; m[x].len = nm;
            }
            break;
        case 2: /* slice */
        case 3:
            if (m[x].blk >= 0) {
                const int k = m[x].blk;
                const size_t room = b[k].nm - m[x].off;
                const size_t end = rnd() % (room + 1);
                const size_t beg = rnd() % (end + 1);
                const size_t noff = m[x].off + beg;
                if (x != y) {
                    DROP(y);
                }
                cstl_array_slice(&A[x], beg, end, &A[y]);
                if (x != y) {
                    b[k].refs++;
                }
                m[y].blk = k; m[y].off = noff; m[y].len = end - beg;
            }
            break;
        case 4: /* unslice */
            if (m[x].blk >= 0) {
                const int k = m[x].blk;
                if (x != y) {
                    DROP(y);
                }
                cstl_array_unslice(&A[x], &A[y]);
                if (x != y) {
                    b[k].refs++;
                }
                m[y].blk = k; m[y].off = 0; m[y].len = b[k].nm;
            }
            break;
        case 5: /* release */
            {
                const int k = m[x].blk;
                void * o = &o;
                if (k >= 0 && b[k].ext && b[k].refs == 1) {
                    DROP(x);
                } else {
                    cstl_array_release(&A[x], &o);
                    CHECK(o == NULL);
                }
            }
            break;
        default: /* reset */
            DROP(x);
            cstl_array_reset(&A[x]);
            break;
        }

        for (i = 0; i < NA; i++) {
            CHECK(cstl_array_size(&A[i]) == m[i].len);
            if (m[i].blk < 0) {
                CHECK(cstl_array_data_const(&A[i]) == NULL);
            } else {
                const int k = m[i].blk;
                size_t j;
                CHECK(cstl_array_data(&A[i]) == (void *)b[k].buf);
                for (j = 0; j < m[i].len; j++) {
                    CHECK(cstl_array_at(&A[i], j)
                          == (void *)(b[k].buf + (m[i].off + j) * b[k].sz));
                }
            }
        }
    }

    if (seed % 8 == 0) {
        for (i = 0; i < NA; i++) {
            cstl_array_t c = A[i];
            DIES(cstl_array_reset(&c));
            DIES(cstl_array_data(&c));
            DIES(cstl_array_unslice(&c, &c));
            DIES(cstl_array_slice(&A[i], 0, 0, &c));
        }
    }
    for (i = 0; i < NA; i++) {
        DROP(i);
        cstl_array_reset(&A[i]);
    }
#undef DROP
}

/* ------------------------------------------------------------------ */
/* properly shared objects used from several threads never abort      */
/* ------------------------------------------------------------------ */

#define NTHR 4

struct thr_arg
{
    cstl_shared_ptr_t sp;   /* handed over with share(), not by copying */
    cstl_weak_ptr_t wp;
    unsigned seed;
    unsigned long locked, missed;
};

static void * thr_main(void * const arg)
{
    struct thr_arg * const ta = arg;
    DECLARE_CSTL_SHARED_PTR(mine);
    DECLARE_CSTL_SHARED_PTR(tmp);
    DECLARE_CSTL_WEAK_PTR(w2);
    unsigned s = ta->seed;
    int i;

    for (i = 0; i < 20000; i++) {
        s = s * 1103515245u + 12345u;
        switch ((s >> 16) % 6) {
        case 0:
            cstl_weak_ptr_lock(&ta->wp, &mine);
            if (cstl_shared_ptr_get(&mine) != NULL) {
                ta->locked++;
                if (payload_id(cstl_shared_ptr_get(&mine)) < 0) {
                    _exit(45);
                }
            } else {
                ta->missed++;
            }
            break;
        case 1:
            cstl_shared_ptr_share(&ta->sp, &tmp);
            break;
        case 2:
            cstl_shared_ptr_swap(&mine, &tmp);
            break;
        case 3:
            cstl_weak_ptr_from(&w2, &tmp);
            cstl_weak_ptr_swap(&w2, &ta->wp);
            cstl_weak_ptr_swap(&w2, &ta->wp);
            break;
        case 4:
            cstl_shared_ptr_reset(&tmp);
            (void)cstl_shared_ptr_unique(&ta->sp);
            break;
        default:
            cstl_shared_ptr_reset(&mine);
            break;
        }
        if (i == 15000) {
            /* from here on the memory may die under the weak pointers */
            cstl_shared_ptr_reset(&ta->sp);
        }
    }
    cstl_shared_ptr_reset(&mine);
    cstl_shared_ptr_reset(&tmp);
    cstl_weak_ptr_reset(&w2);
    cstl_weak_ptr_reset(&ta->wp);
    return NULL;
}

static void test_threads(void)
{
    int round;

    for (round = 0; round < 3; round++) {
        DECLARE_CSTL_SHARED_PTR(root);
        struct thr_arg ta[NTHR];
        pthread_t th[NTHR];
        int i, id;

        cstl_shared_ptr_alloc(&root, sizeof(struct payload), clr_payload);
        CHECK(cstl_shared_ptr_get(&root) != NULL);
        payload_stamp(cstl_shared_ptr_get(&root));
        id = payload_id(cstl_shared_ptr_get(&root));

        for (i = 0; i < NTHR; i++) {
            cstl_shared_ptr_init(&ta[i].sp);
            cstl_weak_ptr_init(&ta[i].wp);
            cstl_shared_ptr_share(&root, &ta[i].sp);
            cstl_weak_ptr_from(&ta[i].wp, &root);
            ta[i].seed = 77u * (unsigned)(round + 1) + (unsigned)i;
            ta[i].locked = ta[i].missed = 0;
        }
        cstl_shared_ptr_reset(&root);
        CHECK(cleared[id] == 0);
        for (i = 0; i < NTHR; i++) {
            CHECK(pthread_create(&th[i], NULL, thr_main, &ta[i]) == 0);
        }
        for (i = 0; i < NTHR; i++) {
            CHECK(pthread_join(th[i], NULL) == 0);
        }
        CHECK(cleared[id] == 1);
        for (i = 0; i < NTHR; i++) {
            CHECK(ta[i].locked > 0);
            CHECK(cstl_shared_ptr_get(&ta[i].sp) == NULL);
            /* the objects the threads used are still proper objects */
            cstl_shared_ptr_reset(&ta[i].sp);
            cstl_weak_ptr_reset(&ta[i].wp);
            {
                struct thr_arg c = ta[i];
                DIES(cstl_shared_ptr_reset(&c.sp));
                DIES(cstl_weak_ptr_reset(&c.wp));
            }
        }
    }
}

/* ------------------------------------------------------------------ */
/* several kinds in one aggregate, relocated as a whole               */
/* ------------------------------------------------------------------ */

static void test_relocation(void)
{
    struct holder * h = malloc(sizeof(*h));
    struct holder * moved;
    struct holder local;
    int uid, sid;

    CHECK(h != NULL);
    holder_init(h);
    cstl_guarded_ptr_set(&h->gp, h);
    cstl_unique_ptr_alloc(&h->up, sizeof(struct payload), clr_payload, NULL);
    payload_stamp(cstl_unique_ptr_get(&h->up));
    uid = payload_id(cstl_unique_ptr_get(&h->up));
    cstl_shared_ptr_alloc(&h->sp, sizeof(struct payload), clr_payload);
    payload_stamp(cstl_shared_ptr_get(&h->sp));
    sid = payload_id(cstl_shared_ptr_get(&h->sp));
    cstl_weak_ptr_from(&h->wp, &h->sp);
    cstl_array_alloc(&h->arr, 8, 8);

    /* relocation by memcpy into a bigger block, as realloc might do */
    moved = malloc(2 * sizeof(*moved));
    CHECK(moved != NULL);
    memcpy(&moved[1], h, sizeof(*h));
    local = *h;

    DIES(cstl_guarded_ptr_get(&moved[1].gp));
    DIES(cstl_unique_ptr_reset(&moved[1].up));
    DIES(cstl_unique_ptr_release(&moved[1].up, NULL, NULL));
    DIES(cstl_shared_ptr_reset(&moved[1].sp));
    DIES(cstl_shared_ptr_get(&moved[1].sp));
    DIES(cstl_weak_ptr_reset(&moved[1].wp));
    DIES_LAX(cstl_weak_ptr_lock(&moved[1].wp, &h->sp));
    DIES(cstl_array_reset(&moved[1].arr));
    DIES(cstl_array_at(&moved[1].arr, 0));
    DIES(cstl_unique_ptr_reset(&local.up));
    DIES(cstl_shared_ptr_reset(&local.sp));
    DIES(cstl_weak_ptr_reset(&local.wp));
    DIES(cstl_array_reset(&local.arr));
    DIES(cstl_unique_ptr_swap(&local.up, &moved[1].up));
    DIES(cstl_shared_ptr_swap(&local.sp, &moved[1].sp));
    DIES(cstl_weak_ptr_lock(&local.wp, &moved[1].sp));
    DIES(cstl_array_slice(&local.arr, 0, 1, &moved[1].arr));

    /* the proper way to relocate: init the new place, then swap/share */
    holder_init(&moved[0]);
    cstl_guarded_ptr_copy(&moved[0].gp, &h->gp);
    cstl_unique_ptr_swap(&moved[0].up, &h->up);
    cstl_shared_ptr_swap(&h->sp, &moved[0].sp);
    cstl_weak_ptr_swap(&moved[0].wp, &h->wp);
    cstl_array_unslice(&h->arr, &moved[0].arr);
    cstl_array_reset(&h->arr);
    CHECK(cstl_guarded_ptr_get(&moved[0].gp) == h);
    CHECK(cstl_unique_ptr_get(&h->up) == NULL);
    CHECK(cstl_shared_ptr_get(&h->sp) == NULL);
    CHECK(payload_id(cstl_unique_ptr_get(&moved[0].up)) == uid);
    CHECK(payload_id(cstl_shared_ptr_get(&moved[0].sp)) == sid);
    CHECK(cstl_array_size(&moved[0].arr) == 8);
    cstl_weak_ptr_lock(&moved[0].wp, &h->sp);
    CHECK(payload_id(cstl_shared_ptr_get(&h->sp)) == sid);
    CHECK(!cstl_shared_ptr_unique(&moved[0].sp));
    cstl_shared_ptr_reset(&h->sp);
    memset(h, 0, sizeof(*h));       /* the old place is gone for good */
    free(h);
    CHECK(cleared[uid] == 0 && cleared[sid] == 0);
    cstl_unique_ptr_reset(&moved[0].up);
    CHECK(cleared[uid] == 1);
    CHECK(!cstl_shared_ptr_unique(&moved[0].sp));
    cstl_weak_ptr_reset(&moved[0].wp);
    CHECK(cstl_shared_ptr_unique(&moved[0].sp));
    cstl_array_reset(&moved[0].arr);
    cstl_shared_ptr_reset(&moved[0].sp);
    CHECK(cleared[sid] == 1);
    /* the bitwise copies are still stray after all that */
    DIES(cstl_shared_ptr_reset(&moved[1].sp));
    DIES(cstl_unique_ptr_reset(&local.up));
    DIES(cstl_array_reset(&local.arr));
    free(moved);
}

/* ------------------------------------------------------------------ */
/* every allocation the library makes fails in turn                   */
/* ------------------------------------------------------------------ */

static void test_alloc_failures(void)
{
    long k;
    int prior;

    for (prior = 0; prior < 2; prior++) {
        /* unique */
        for (k = 1; k <= 2; k++) {
            DECLARE_CSTL_UNIQUE_PTR(u);
            const unsigned long before = total_cleared;
            int id = -1;
            long base;

            if (prior) {
                cstl_unique_ptr_alloc(&u, sizeof(struct payload),
                                      clr_payload, PRIV_TAG);
                payload_stamp(cstl_unique_ptr_get(&u));
                id = payload_id(cstl_unique_ptr_get(&u));
            }
            counting = 1; base = outstanding - prior;
            fail_countdown = k;
            cstl_unique_ptr_alloc(&u, sizeof(struct payload),
                                  clr_payload, PRIV_TAG);
            fail_countdown = 0; counting = 0;
            if (prior) {
                CHECK(cleared[id] == 1);
            }
            CHECK(total_cleared == before + (unsigned long)prior);
            if (k == 1) {
                cstl_unique_ptr_t c = u;
                CHECK(cstl_unique_ptr_get(&u) == NULL);
                CHECK(outstanding == base);
                DIES(cstl_unique_ptr_reset(&c));
                DIES(cstl_unique_ptr_get(&c));
                cstl_unique_ptr_reset(&u);
                CHECK(total_cleared == before + (unsigned long)prior);
            } else {
                cstl_unique_ptr_t c = u;
                CHECK(cstl_unique_ptr_get(&u) != NULL);
                CHECK(outstanding == base + 1);
                payload_stamp(cstl_unique_ptr_get(&u));
                DIES(cstl_unique_ptr_reset(&c));
                cstl_unique_ptr_reset(&u);
                CHECK(total_cleared == before + (unsigned long)prior + 1);
            }
        }

        /* shared: the library needs two allocations */
        for (k = 1; k <= 3; k++) {
            DECLARE_CSTL_SHARED_PTR(sp);
            DECLARE_CSTL_SHARED_PTR(other);
            DECLARE_CSTL_WEAK_PTR(wp);
            const unsigned long before = total_cleared;
            int id = -1;
            long base;

            if (prior) {
                cstl_shared_ptr_alloc(&sp, sizeof(struct payload),
                                      clr_payload);
                payload_stamp(cstl_shared_ptr_get(&sp));
                id = payload_id(cstl_shared_ptr_get(&sp));
            }
            counting = 1; base = outstanding - 2 * prior;
            fail_countdown = k;
            cstl_shared_ptr_alloc(&sp, sizeof(struct payload), clr_payload);
            fail_countdown = 0; counting = 0;
            if (prior) {
                CHECK(cleared[id] == 1);
            }
            /* memory the caller never saw is never given to the callback */
            CHECK(total_cleared == before + (unsigned long)prior);
            {
                cstl_shared_ptr_t c = sp;
                DIES(cstl_shared_ptr_reset(&c));
                DIES(cstl_shared_ptr_get(&c));
                DIES(cstl_shared_ptr_unique(&c));
                DIES(cstl_shared_ptr_share(&c, &other));
                DIES(cstl_weak_ptr_from(&wp, &c));
            }
            if (k <= 2) {
                CHECK(cstl_shared_ptr_get(&sp) == NULL);
                CHECK(cstl_shared_ptr_unique(&sp));
                CHECK(outstanding == base);
                cstl_shared_ptr_share(&sp, &other);
                CHECK(cstl_shared_ptr_get(&other) == NULL);
                cstl_weak_ptr_from(&wp, &sp);
                cstl_weak_ptr_lock(&wp, &other);
                CHECK(cstl_shared_ptr_get(&other) == NULL);
                cstl_shared_ptr_reset(&sp);
                CHECK(total_cleared == before + (unsigned long)prior);
            } else {
                CHECK(cstl_shared_ptr_get(&sp) != NULL);
                CHECK(cstl_shared_ptr_unique(&sp));
                CHECK(outstanding == base + 2);
                payload_stamp(cstl_shared_ptr_get(&sp));
                cstl_weak_ptr_from(&wp, &sp);
                cstl_weak_ptr_lock(&wp, &other);
                CHECK(cstl_shared_ptr_get(&other)
                      == cstl_shared_ptr_get(&sp));
                cstl_shared_ptr_reset(&sp);
                cstl_weak_ptr_reset(&wp);
                CHECK(total_cleared == before + (unsigned long)prior);
                counting = 1;
                cstl_shared_ptr_reset(&other);
                counting = 0;
                CHECK(outstanding == base);
                CHECK(total_cleared == before + (unsigned long)prior + 1);
            }
        }

        /* array, allocated and externally supplied */
        for (k = 1; k <= 3; k++) {
            int ext;
            for (ext = 0; ext < 2; ext++) {
                DECLARE_CSTL_ARRAY(a);
                DECLARE_CSTL_ARRAY(s);
                static double mem[6];
                long base;

                if (prior) {
                    cstl_array_alloc(&a, 3, 3);
                    cstl_array_slice(&a, 1, 2, &s);
                }
                counting = 1; base = outstanding;
                fail_countdown = k;
                if (ext) {
                    cstl_array_set(&a, mem, 6, sizeof(mem[0]));
                } else {
                    cstl_array_alloc(&a, 6, sizeof(mem[0]));
                }
                fail_countdown = 0; counting = 0;
                if (prior) {
                    /* the slice still holds the former memory */
                    CHECK(cstl_array_size(&s) == 1);
                    CHECK(cstl_array_at(&s, 0) != NULL);
                }
                {
                    cstl_array_t c = a;
                    DIES(cstl_array_reset(&c));
                    DIES(cstl_array_data(&c));
                    DIES(cstl_array_release(&c, NULL));
                    DIES(cstl_array_unslice(&s, &c));
                }
                if (k <= 2) {
                    void * out = &a;
                    CHECK(cstl_array_size(&a) == 0);
                    CHECK(cstl_array_data(&a) == NULL);
                    CHECK(outstanding == base);
                    cstl_array_release(&a, &out);
                    CHECK(out == NULL);
                    DIES(cstl_array_at(&a, 0));
                    cstl_array_reset(&a);
                } else {
                    void * out = NULL;
                    CHECK(cstl_array_size(&a) == 6);
                    CHECK(outstanding == base + 2);
                    CHECK(cstl_array_at(&a, 5) == (void *)
                          ((char *)cstl_array_data(&a) + 5 * sizeof(mem[0])));
                    CHECK((cstl_array_data(&a) == (void *)mem) == (ext != 0));
                    counting = 1;
                    cstl_array_release(&a, &out);
                    CHECK(out == (ext ? (void *)mem : NULL));
                    cstl_array_reset(&a);
                    counting = 0;
                    CHECK(outstanding == base);
                }
                cstl_array_reset(&s);
            }
        }
    }
}

int main(void)
{
    unsigned seed;

    test_guarded();
    test_unique();
    test_shared_weak();
    test_array();
    test_relocation();
    test_alloc_failures();
    for (seed = 1; seed <= 40; seed++) {
        histories_smart(seed * 7919u, 1500);
        histories_array(seed * 104729u, 400);
    }
    test_threads();

    printf("C20: %lu checks, %lu failed\n", n_checks, n_failed);
    return n_failed == 0 ? 0 : 1;
}
