/*
 * C05: shared memory is destroyed exactly once, exactly when its last
 * owner lets go (and the unique pointer gives the same clear-then-free).
 *
 * Standalone model-based test. Only the public API of cstl/memory.h is
 * used. malloc() and free() are observed with the linker's --wrap so that
 * the *moment* of every release, double releases, leaks and allocation
 * failures can be checked:
 *
 *   gcc -std=c99 -O1 -Iinclude -Wl,--wrap=malloc,--wrap=free \
 *       -o test test.c build/libcstl.a -lm -lpthread
 *
 * Parts:
 *   1. exhaustive operation sequences over small pools
 *   2. seeded random histories over a larger pool (shared, weak, unique)
 *   3. boundary values
 *   4. threads: share / lock / reset racing with the last owner's reset
 */
#define _POSIX_C_SOURCE 200809L

#include "cstl/memory.h"

#include <stdio.h>
#include <stdlib.h>
#include <string.h>
#include <stdint.h>
#include <stdatomic.h>
#include <pthread.h>

#ifndef EMPHASIS
#define EMPHASIS 2
#endif

static const char * g_phase = "init";
static long g_seq = 0;
static int g_step = 0;

#define CHECK(c)                                                        \
    do {                                                                \
        if (!(c)) {                                                     \
            fprintf(stderr, "FAIL %s:%d: %s [phase=%s seq=%ld step=%d]\n", \
                    __FILE__, __LINE__, #c, g_phase, g_seq, g_step);    \
            exit(1);                                                    \
        }                                                               \
    } while (0)

/* ------------------------------------------------------------------ */
/* allocation tracker                                                   */
/* ------------------------------------------------------------------ */

void * __real_malloc(size_t);
void __real_free(void *);
void * __wrap_malloc(size_t);
void __wrap_free(void *);

#define TRK_MAX 4096
static pthread_mutex_t trk_mu = PTHREAD_MUTEX_INITIALIZER;
static struct { void * p; size_t n; } trk[TRK_MAX];
static int trk_n = 0;
static long fail_countdown = -1;    /* >0: fail the n-th malloc from now */
static int fail_fired = 0;
static int model_on = 0;            /* sequential model consulted on free */

static void model_on_free(void *);

static int trk_find(const void * const p)
{
    int i;
    for (i = 0; i < trk_n; i++) {
        if (trk[i].p == p) {
            return i;
        }
    }
    return -1;
}

void * __wrap_malloc(const size_t n)
{
    void * p;
    pthread_mutex_lock(&trk_mu);
    if (fail_countdown > 0 && --fail_countdown == 0) {
        fail_countdown = -1;
        fail_fired = 1;
        pthread_mutex_unlock(&trk_mu);
        return NULL;
    }
    p = __real_malloc(n);
    if (p != NULL) {
        CHECK(trk_n < TRK_MAX);
        CHECK(trk_find(p) < 0);
        trk[trk_n].p = p;
        trk[trk_n].n = n;
        trk_n++;
    }
    pthread_mutex_unlock(&trk_mu);
    return p;
}

void __wrap_free(void * const p)
{
    int i;
    if (p == NULL) {
        return;
    }
    pthread_mutex_lock(&trk_mu);
    i = trk_find(p);
    CHECK(i >= 0);              /* never a double or a wild free */
    if (model_on) {
        model_on_free(p);
    }
    trk[i] = trk[trk_n - 1];
    trk_n--;
    pthread_mutex_unlock(&trk_mu);
    __real_free(p);
}

static int trk_live(const void * const p, size_t * const n)
{
    int i, r;
    pthread_mutex_lock(&trk_mu);
    i = trk_find(p);
    r = (i >= 0);
    if (r && n != NULL) {
        *n = trk[i].n;
    }
    pthread_mutex_unlock(&trk_mu);
    return r;
}

static int trk_count(void)
{
    int n;
    pthread_mutex_lock(&trk_mu);
    n = trk_n;
    pthread_mutex_unlock(&trk_mu);
    return n;
}

/* ------------------------------------------------------------------ */
/* the world: pools of objects and the model                            */
/* ------------------------------------------------------------------ */

#define MAXS 6
#define MAXW 5
#define MAXU 4
#define MAXA 1024

/* some objects use the static initialisers, the others the init functions */
static cstl_shared_ptr_t S[MAXS] = {
    CSTL_SHARED_PTR_INITIALIZER(S[0]),
    CSTL_SHARED_PTR_INITIALIZER(S[1]),
    CSTL_SHARED_PTR_INITIALIZER(S[2]),
};
static cstl_weak_ptr_t W[MAXW] = {
    CSTL_WEAK_PTR_INITIALIZER(W[0]),
    CSTL_WEAK_PTR_INITIALIZER(W[1]),
};
static cstl_unique_ptr_t U[MAXU] = {
    CSTL_UNIQUE_PTR_INITIALIZER(U[0]),
    CSTL_UNIQUE_PTR_INITIALIZER(U[1]),
};

static int NS, NW, NU;

struct arec
{
    void * mem;
    size_t sz;
    int kind;           /* 0: shared, 1: unique */
    int hard, soft;     /* model: owners; owners + weak */
    int has_clr;
    int clr_calls;
    int freed;
    unsigned char pat;
    void * priv;
};
static struct arec A[MAXA];
static int nA;
static int s_t[MAXS], w_t[MAXW], u_t[MAXU];
static int expect_destroy = -1;
static int busy_s = -1;         /* pool object the current op is modifying */
static long total_ops = 0, total_destroys = 0, total_reentrant = 0;

static int find_live_alloc(const void * const p)
{
    int a;
    for (a = nA - 1; a >= 0; a--) {
        if (A[a].mem == p && !A[a].freed) {
            return a;
        }
    }
    return -1;
}

/* called from the free() hook, with the tracker mutex held */
static void model_on_free(void * const p)
{
    const int a = find_live_alloc(p);
    if (a >= 0) {
        /* managed memory: only now, and only after its clear ran */
        CHECK(a == expect_destroy);
        CHECK(A[a].hard == 0);
        CHECK(!A[a].has_clr || A[a].clr_calls == 1);
        A[a].freed = 1;
        total_destroys++;
    }
}

static void check_pattern(const struct arec * const r)
{
    const unsigned char * const b = r->mem;
    size_t i;
    const size_t n = r->sz < 4096 ? r->sz : 4096;
    for (i = 0; i < n; i++) {
        CHECK(b[i] == r->pat);
    }
    if (r->sz > 0) {
        CHECK(b[r->sz - 1] == r->pat);
    }
}

/*
 * The clear callback. It verifies that it is the expected (and the first)
 * destruction of this allocation, that the memory is still allocated and
 * intact, and then uses the library re-entrantly on OTHER objects.
 */
static void seq_clear(void * const obj, void * const priv)
{
    const int a = find_live_alloc(obj);
    const long saved = fail_countdown;
    int i, j;

    CHECK(a >= 0);
    CHECK(a == expect_destroy);
    CHECK(A[a].has_clr);
    CHECK(A[a].clr_calls == 0);
    CHECK(A[a].hard == 0);
    CHECK(trk_live(obj, NULL));
    if (A[a].kind == 1) {
        CHECK(priv == A[a].priv);
    }
    check_pattern(&A[a]);
    A[a].clr_calls = 1;

    fail_countdown = -1;
    {
        /* unrelated objects, allocated and released inside the callback */
        DECLARE_CSTL_SHARED_PTR(t1);
        DECLARE_CSTL_SHARED_PTR(t2);
        DECLARE_CSTL_WEAK_PTR(tw);
        DECLARE_CSTL_UNIQUE_PTR(tu);
        const int before = trk_count();

        cstl_shared_ptr_alloc(&t1, 16, NULL);
        CHECK(cstl_shared_ptr_get(&t1) != NULL);
        CHECK(cstl_shared_ptr_unique(&t1));
        cstl_shared_ptr_share(&t1, &t2);
        CHECK(cstl_shared_ptr_get(&t1) == cstl_shared_ptr_get(&t2));
        CHECK(!cstl_shared_ptr_unique(&t1));
        cstl_weak_ptr_from(&tw, &t2);
        cstl_shared_ptr_reset(&t1);
        cstl_shared_ptr_reset(&t2);
        cstl_weak_ptr_lock(&tw, &t1);
        CHECK(cstl_shared_ptr_get(&t1) == NULL);
        cstl_weak_ptr_reset(&tw);
        cstl_unique_ptr_alloc(&tu, 8, NULL, NULL);
        CHECK(cstl_unique_ptr_get(&tu) != NULL);
        cstl_unique_ptr_reset(&tu);
        CHECK(trk_count() == before);

        if (A[a].kind == 0) {
            /* no owner exists any more: a weak reference must not lock */
            for (j = 0; j < NW; j++) {
                if (w_t[j] == a) {
                    cstl_weak_ptr_lock(&W[j], &t1);
                    CHECK(cstl_shared_ptr_get(&t1) == NULL);
                    CHECK(cstl_shared_ptr_unique(&t1));
                    total_reentrant++;
                }
            }
        }
        /* other, live allocations are fully usable from in here */
        for (i = 0; i < NS; i++) {
            if (i != busy_s && s_t[i] >= 0) {
                const int o = s_t[i];
                CHECK(o != a);
                CHECK(cstl_shared_ptr_get(&S[i]) == A[o].mem);
                cstl_weak_ptr_from(&tw, &S[i]);
                CHECK(!cstl_shared_ptr_unique(&S[i]));
                cstl_weak_ptr_lock(&tw, &t1);
                CHECK(cstl_shared_ptr_get(&t1) == A[o].mem);
                cstl_shared_ptr_share(&t1, &t2);
                CHECK(cstl_shared_ptr_get(&t2) == A[o].mem);
                cstl_shared_ptr_reset(&t1);
                cstl_weak_ptr_reset(&tw);
                cstl_shared_ptr_reset(&t2);
                CHECK(cstl_shared_ptr_unique(&S[i]) == (A[o].soft == 1));
                CHECK(A[o].clr_calls == 0 && !A[o].freed);
                total_reentrant++;
            }
        }
        CHECK(trk_count() == before);
    }
    fail_countdown = saved;
}

static void world_init(const int ns, const int nw, const int nu)
{
    int i;
    NS = ns;
    NW = nw;
    NU = nu;
    nA = 0;
    expect_destroy = -1;
    busy_s = -1;
    for (i = 0; i < MAXS; i++) {
        s_t[i] = -1;
    }
    for (i = 0; i < MAXW; i++) {
        w_t[i] = -1;
    }
    for (i = 0; i < MAXU; i++) {
        u_t[i] = -1;
    }
    CHECK(trk_count() == 0);
}

static void post_destroy(void)
{
    if (expect_destroy >= 0) {
        const struct arec * const r = &A[expect_destroy];
        /* not later than the operation that dropped the last owner */
        CHECK(r->freed);
        CHECK(r->clr_calls == (r->has_clr ? 1 : 0));
        expect_destroy = -1;
    }
}

static void verify(const int probe)
{
    int i, j, a, blocks = 0, mems = 0;
    DECLARE_CSTL_SHARED_PTR(t);

    for (i = 0; i < NS; i++) {
        const void * const p = cstl_shared_ptr_get_const(&S[i]);
        a = s_t[i];
        if (a < 0) {
            CHECK(p == NULL);
            CHECK(cstl_shared_ptr_unique(&S[i]));
        } else {
            CHECK(p == A[a].mem);
            CHECK(cstl_shared_ptr_get(&S[i]) == A[a].mem);
            CHECK(cstl_shared_ptr_unique(&S[i]) == (A[a].soft == 1));
        }
    }
    for (i = 0; i < NU; i++) {
        a = u_t[i];
        CHECK(cstl_unique_ptr_get(&U[i]) == (a < 0 ? NULL : A[a].mem));
        CHECK(cstl_unique_ptr_get_const(&U[i]) == (a < 0 ? NULL : A[a].mem));
    }
    for (a = 0; a < nA; a++) {
        CHECK(A[a].hard >= 0 && A[a].soft >= A[a].hard);
        CHECK(A[a].freed == (A[a].hard == 0));
        CHECK(A[a].clr_calls == ((A[a].has_clr && A[a].hard == 0) ? 1 : 0));
        if (A[a].hard > 0) {
            mems++;
            CHECK(trk_live(A[a].mem, NULL));
            check_pattern(&A[a]);
        }
        if (A[a].kind == 0 && A[a].soft > 0) {
            blocks++;
        }
    }
    /* nothing leaked, nothing released early: memory + bookkeeping */
    CHECK(trk_count() == mems + blocks);

    if (probe) {
        /* look through the weak pointers without changing anything */
        for (j = 0; j < NW; j++) {
            a = w_t[j];
            cstl_weak_ptr_lock(&W[j], &t);
            if (a >= 0 && A[a].hard > 0) {
                CHECK(cstl_shared_ptr_get(&t) == A[a].mem);
                CHECK(!cstl_shared_ptr_unique(&t));
            } else {
                CHECK(cstl_shared_ptr_get(&t) == NULL);
                CHECK(cstl_shared_ptr_unique(&t));
            }
            cstl_shared_ptr_reset(&t);
        }
        CHECK(trk_count() == mems + blocks);
        for (a = 0; a < nA; a++) {
            CHECK(A[a].freed == (A[a].hard == 0));
        }
    }
}

/* model transitions */
static void m_drop_shared(const int i)
{
    const int a = s_t[i];
    if (a >= 0) {
        s_t[i] = -1;
        A[a].hard--;
        A[a].soft--;
        if (A[a].hard == 0) {
            CHECK(expect_destroy < 0);
            expect_destroy = a;
        }
    }
}

static void m_drop_weak(const int j)
{
    const int a = w_t[j];
    if (a >= 0) {
        w_t[j] = -1;
        A[a].soft--;
    }
}

static int m_new(void * const mem, const size_t sz, const int kind,
                 const int has_clr, void * const priv)
{
    const int a = nA;
    size_t got = 0;
    CHECK(nA < MAXA);
    nA++;
    A[a].mem = mem;
    A[a].sz = sz;
    A[a].kind = kind;
    A[a].hard = 1;
    A[a].soft = 1;
    A[a].has_clr = has_clr;
    A[a].clr_calls = 0;
    A[a].freed = 0;
    A[a].pat = (unsigned char)(0x31 + 7 * a);
    A[a].priv = priv;
    CHECK(trk_live(mem, &got));
    CHECK(got >= sz);
    memset(mem, A[a].pat, sz);
    return a;
}

enum {
    K_S_ALLOC, K_S_SHARE, K_S_SWAP, K_S_RESET,
    K_W_FROM, K_W_LOCK, K_W_RESET, K_W_SWAP,
    K_U_ALLOC, K_U_RESET, K_U_SWAP, K_U_RELEASE,
    K_COUNT
};

/* allocation flavours */
enum {
    V_CLR,      /* 24 bytes with a clear function */
    V_NOCLR1,   /* 1 byte, no clear function */
    V_ZERO,     /* size 0: only a reset */
    V_FAIL1,    /* first malloc of the call fails */
    V_FAIL2,    /* second malloc of the call fails */
    V_BIG,      /* 1 MiB */
    V_HUGE,     /* malloc itself refuses */
    V_COUNT
};

struct op { int kind, x, y, v; };

static void variant(const int v, size_t * const sz, int * const has_clr,
                    long * const fail)
{
    *sz = 24;
    *has_clr = 1;
    *fail = -1;
    switch (v) {
    case V_CLR: break;
    case V_NOCLR1: *sz = 1; *has_clr = 0; break;
    case V_ZERO: *sz = 0; break;
    case V_FAIL1: *fail = 1; *sz = 40; break;
    case V_FAIL2: *fail = 2; *sz = 40; break;
    case V_BIG: *sz = (size_t)1 << 20; break;
    case V_HUGE: *sz = SIZE_MAX - 64; break;
    default: CHECK(0);
    }
}

static void apply(const struct op * const o)
{
    size_t sz;
    int has_clr, a;
    long fail;
    void * p;

    total_ops++;
    busy_s = -1;
    switch (o->kind) {
    case K_S_ALLOC:
        variant(o->v, &sz, &has_clr, &fail);
        busy_s = o->x;
        m_drop_shared(o->x);
        fail_fired = 0;
        fail_countdown = fail;
        cstl_shared_ptr_alloc(&S[o->x], sz, has_clr ? seq_clear : NULL);
        fail_countdown = -1;
        post_destroy();
        p = cstl_shared_ptr_get(&S[o->x]);
        if (sz == 0 || fail_fired || o->v == V_HUGE) {
            CHECK(p == NULL);
            CHECK(cstl_shared_ptr_unique(&S[o->x]));
        } else {
            CHECK(p != NULL);
            CHECK(cstl_shared_ptr_unique(&S[o->x]));
            s_t[o->x] = m_new(p, sz, 0, has_clr, NULL);
        }
        break;
    case K_S_SHARE:
        busy_s = o->y;
        m_drop_shared(o->y);
        a = s_t[o->x];
        cstl_shared_ptr_share(&S[o->x], &S[o->y]);
        post_destroy();
        if (a >= 0) {
            s_t[o->y] = a;
            A[a].hard++;
            A[a].soft++;
        }
        break;
    case K_S_SWAP:
        cstl_shared_ptr_swap(&S[o->x], &S[o->y]);
        a = s_t[o->x];
        s_t[o->x] = s_t[o->y];
        s_t[o->y] = a;
        break;
    case K_S_RESET:
        busy_s = o->x;
        m_drop_shared(o->x);
        cstl_shared_ptr_reset(&S[o->x]);
        post_destroy();
        break;
    case K_W_FROM:
        m_drop_weak(o->x);
        cstl_weak_ptr_from(&W[o->x], &S[o->y]);
        a = s_t[o->y];
        if (a >= 0) {
            w_t[o->x] = a;
            A[a].soft++;
        }
        break;
    case K_W_LOCK:
        busy_s = o->y;
        m_drop_shared(o->y);
        cstl_weak_ptr_lock(&W[o->x], &S[o->y]);
        post_destroy();
        a = w_t[o->x];
        if (a >= 0 && A[a].hard > 0) {
            s_t[o->y] = a;
            A[a].hard++;
            A[a].soft++;
        }
        break;
    case K_W_RESET:
        m_drop_weak(o->x);
        cstl_weak_ptr_reset(&W[o->x]);
        break;
    case K_W_SWAP:
        cstl_weak_ptr_swap(&W[o->x], &W[o->y]);
        a = w_t[o->x];
        w_t[o->x] = w_t[o->y];
        w_t[o->y] = a;
        break;
    case K_U_ALLOC:
        variant(o->v, &sz, &has_clr, &fail);
        if (fail == 2) {
            fail = 1;   /* there is only one allocation to fail */
        }
        a = u_t[o->x];
        if (a >= 0) {
            u_t[o->x] = -1;
            A[a].hard = A[a].soft = 0;
            expect_destroy = a;
        }
        fail_fired = 0;
        fail_countdown = fail;
        cstl_unique_ptr_alloc(&U[o->x], sz,
                              has_clr ? seq_clear : NULL, &A[nA]);
        fail_countdown = -1;
        post_destroy();
        p = cstl_unique_ptr_get(&U[o->x]);
        if (sz == 0 || fail_fired || o->v == V_HUGE) {
            CHECK(p == NULL);
        } else {
            CHECK(p != NULL);
            u_t[o->x] = m_new(p, sz, 1, has_clr, &A[nA]);
        }
        break;
    case K_U_RESET:
        a = u_t[o->x];
        if (a >= 0) {
            u_t[o->x] = -1;
            A[a].hard = A[a].soft = 0;
            expect_destroy = a;
        }
        cstl_unique_ptr_reset(&U[o->x]);
        post_destroy();
        break;
    case K_U_SWAP:
        cstl_unique_ptr_swap(&U[o->x], &U[o->y]);
        a = u_t[o->x];
        u_t[o->x] = u_t[o->y];
        u_t[o->y] = a;
        break;
    case K_U_RELEASE: {
        cstl_xtor_func_t * clr = (cstl_xtor_func_t *)NULL;
        void * priv = &clr;
        const int before = trk_count();
        a = u_t[o->x];
        if (o->v) {
            p = cstl_unique_ptr_release(&U[o->x], NULL, NULL);
        } else {
            p = cstl_unique_ptr_release(&U[o->x], &clr, &priv);
        }
        /* releasing neither clears nor frees */
        CHECK(trk_count() == before);
        CHECK(cstl_unique_ptr_get(&U[o->x]) == NULL);
        if (a < 0) {
            CHECK(p == NULL);
            if (!o->v) {
                CHECK(clr == NULL && priv == NULL);
            }
        } else {
            CHECK(p == A[a].mem);
            CHECK(A[a].clr_calls == 0 && !A[a].freed);
            if (!o->v) {
                CHECK((clr != NULL) == (A[a].has_clr != 0));
                CHECK(priv == A[a].priv);
            }
            /* now the caller's job */
            u_t[o->x] = -1;
            A[a].hard = A[a].soft = 0;
            expect_destroy = a;
            if (A[a].has_clr) {
                seq_clear(p, A[a].priv);
            }
            free(p);
            post_destroy();
        }
        /* and a following reset has nothing to do */
        cstl_unique_ptr_reset(&U[o->x]);
        CHECK(cstl_unique_ptr_get(&U[o->x]) == NULL);
        break;
    }
    default:
        CHECK(0);
    }
    busy_s = -1;
    CHECK(expect_destroy < 0);
}

static void world_finish(void)
{
    struct op o;
    int i, a;
    /* let go of everything, weak references last for half of the runs */
    o.y = 0;
    o.v = 0;
    if (g_seq & 1) {
        for (i = 0; i < NW; i++) {
            o.kind = K_W_RESET;
            o.x = i;
            apply(&o);
            verify(0);
        }
    }
    for (i = NS - 1; i >= 0; i--) {
        o.kind = K_S_RESET;
        o.x = i;
        apply(&o);
        verify(0);
    }
    for (i = 0; i < NW; i++) {
        o.kind = K_W_RESET;
        o.x = i;
        apply(&o);
    }
    for (i = 0; i < NU; i++) {
        o.kind = K_U_RESET;
        o.x = i;
        apply(&o);
    }
    verify(1);
    for (a = 0; a < nA; a++) {
        CHECK(A[a].freed && A[a].hard == 0 && A[a].soft == 0);
        CHECK(A[a].clr_calls == (A[a].has_clr ? 1 : 0));
    }
    CHECK(trk_count() == 0);        /* a full reset leaks nothing */
}

/* ------------------------------------------------------------------ */
/* 1. exhaustive                                                        */
/* ------------------------------------------------------------------ */

#define MAXOPS 128
static struct op ops[MAXOPS];
static int nops;

static void add_op(const int kind, const int x, const int y, const int v)
{
    CHECK(nops < MAXOPS);
    ops[nops].kind = kind;
    ops[nops].x = x;
    ops[nops].y = y;
    ops[nops].v = v;
    nops++;
}

static void build_ops(const int ns, const int nw, const int nu,
                      const int * const vs, const int nvs, const int selfswap)
{
    int i, j, k;
    nops = 0;
    for (i = 0; i < ns; i++) {
        for (k = 0; k < nvs; k++) {
            add_op(K_S_ALLOC, i, 0, vs[k]);
        }
        add_op(K_S_RESET, i, 0, 0);
        for (j = 0; j < ns; j++) {
            if (i != j) {
                add_op(K_S_SHARE, i, j, 0);
            }
            if (i < j || (selfswap && i == j)) {
                add_op(K_S_SWAP, i, j, 0);
            }
        }
    }
    for (j = 0; j < nw; j++) {
        add_op(K_W_RESET, j, 0, 0);
        for (i = 0; i < ns; i++) {
            add_op(K_W_FROM, j, i, 0);
            add_op(K_W_LOCK, j, i, 0);
        }
        for (k = j + 1; k < nw; k++) {
            add_op(K_W_SWAP, j, k, 0);
        }
    }
    for (i = 0; i < nu; i++) {
        for (k = 0; k < nvs; k++) {
            if (vs[k] != V_FAIL2) {
                add_op(K_U_ALLOC, i, 0, vs[k]);
            }
        }
        add_op(K_U_RESET, i, 0, 0);
        add_op(K_U_RELEASE, i, 0, 0);
        add_op(K_U_RELEASE, i, 0, 1);
        for (j = i; j < nu; j++) {
            if (i < j || selfswap) {
                add_op(K_U_SWAP, i, j, 0);
            }
        }
    }
}

static void exhaustive(const char * const name,
                       const int ns, const int nw, const int nu,
                       const int * const vs, const int nvs,
                       const int selfswap, const int depth)
{
    int idx[16];
    int d, i;
    long count = 0;

    build_ops(ns, nw, nu, vs, nvs, selfswap);
    g_phase = name;
    CHECK(depth <= 16);
    for (d = 0; d < depth; d++) {
        idx[d] = 0;
    }
    for (;;) {
        g_seq = count;
        world_init(ns, nw, nu);
        for (d = 0; d < depth; d++) {
            g_step = d;
            apply(&ops[idx[d]]);
            verify(d == depth - 1);
        }
        g_step = depth;
        world_finish();
        count++;

        for (i = depth - 1; i >= 0; i--) {
            if (++idx[i] < nops) {
                break;
            }
            idx[i] = 0;
        }
        if (i < 0) {
            break;
        }
    }
    printf("%-28s %2d ops, depth %d: %ld histories\n",
           name, nops, depth, count);
}

/* ------------------------------------------------------------------ */
/* 2. seeded random                                                     */
/* ------------------------------------------------------------------ */

static uint64_t rng_s;
static uint32_t rnd(void)
{
    rng_s ^= rng_s << 13;
    rng_s ^= rng_s >> 7;
    rng_s ^= rng_s << 17;
    return (uint32_t)(rng_s >> 16);
}
static int rn(const int n)
{
    return (int)(rnd() % (uint32_t)n);
}

static void random_histories(const int seeds, const int len)
{
    int s, t;
    g_phase = "random";
    for (s = 1; s <= seeds; s++) {
        g_seq = s;
        rng_s = 0x9e3779b97f4a7c15ull * (uint64_t)s + 12345;
        world_init(MAXS, MAXW, MAXU);
        for (t = 0; t < len; t++) {
            struct op o;
            const int r = rn(100);
            static const int vmix[] = {
                V_CLR, V_CLR, V_CLR, V_CLR, V_NOCLR1, V_NOCLR1,
                V_ZERO, V_FAIL1, V_FAIL2, V_BIG, V_HUGE, V_CLR,
            };
            g_step = t;
            o.v = 0;
            o.x = o.y = 0;
            if (r < 14) {
                o.kind = K_S_ALLOC;
                o.x = rn(NS);
                o.v = vmix[rn((int)(sizeof(vmix) / sizeof(vmix[0])))];
            } else if (r < 32) {
                o.kind = K_S_SHARE;
                o.x = rn(NS);
                o.y = (o.x + 1 + rn(NS - 1)) % NS;
            } else if (r < 40) {
                o.kind = K_S_SWAP;
                o.x = rn(NS);
                o.y = rn(NS);
            } else if (r < 54) {
                o.kind = K_S_RESET;
                o.x = rn(NS);
            } else if (r < 64) {
                o.kind = K_W_FROM;
                o.x = rn(NW);
                o.y = rn(NS);
            } else if (r < 76) {
                o.kind = K_W_LOCK;
                o.x = rn(NW);
                o.y = rn(NS);
            } else if (r < 82) {
                o.kind = K_W_RESET;
                o.x = rn(NW);
            } else if (r < 86) {
                o.kind = K_W_SWAP;
                o.x = rn(NW);
                o.y = rn(NW);
            } else if (r < 91) {
                o.kind = K_U_ALLOC;
                o.x = rn(NU);
                o.v = vmix[rn((int)(sizeof(vmix) / sizeof(vmix[0])))];
            } else if (r < 94) {
                o.kind = K_U_RESET;
                o.x = rn(NU);
            } else if (r < 97) {
                o.kind = K_U_SWAP;
                o.x = rn(NU);
                o.y = rn(NU);
            } else {
                o.kind = K_U_RELEASE;
                o.x = rn(NU);
                o.v = rn(2);
            }
            apply(&o);
            verify((t & 3) == 0);
        }
        g_step = len;
        world_finish();
    }
    printf("%-28s %d seeds x %d operations\n", "random", seeds, len);
}

/* ------------------------------------------------------------------ */
/* 3. boundary values and long chains                                   */
/* ------------------------------------------------------------------ */

static int simple_calls;
static void * simple_obj;
static void simple_clear(void * const obj, void * const priv)
{
    simple_calls++;
    simple_obj = obj;
    CHECK(trk_live(obj, NULL));
    (void)priv;
}

static void boundaries(void)
{
    enum { N = 300 };
    static cstl_shared_ptr_t sp[N];
    static cstl_weak_ptr_t wp[N];
    DECLARE_CSTL_SHARED_PTR(a);
    DECLARE_CSTL_SHARED_PTR(b);
    DECLARE_CSTL_WEAK_PTR(w);
    DECLARE_CSTL_UNIQUE_PTR(u);
    DECLARE_CSTL_UNIQUE_PTR(u2);
    void * p;
    int i;

    g_phase = "boundaries";
    g_seq = 0;
    CHECK(trk_count() == 0);

    /* operations on empty pointers are harmless and allocate nothing */
    cstl_shared_ptr_reset(&a);
    cstl_shared_ptr_share(&a, &b);
    cstl_shared_ptr_swap(&a, &b);
    cstl_weak_ptr_from(&w, &a);
    cstl_weak_ptr_lock(&w, &b);
    cstl_weak_ptr_reset(&w);
    cstl_weak_ptr_swap(&w, &w);
    cstl_unique_ptr_reset(&u);
    cstl_unique_ptr_swap(&u, &u2);
    CHECK(cstl_unique_ptr_release(&u, NULL, NULL) == NULL);
    CHECK(cstl_shared_ptr_get(&a) == NULL && cstl_shared_ptr_get(&b) == NULL);
    CHECK(cstl_shared_ptr_unique(&a) && cstl_shared_ptr_unique(&b));
    CHECK(trk_count() == 0);

    /* a long chain of owners and weak references to one allocation */
    simple_calls = 0;
    for (i = 0; i < N; i++) {
        cstl_shared_ptr_init(&sp[i]);
        cstl_weak_ptr_init(&wp[i]);
    }
    cstl_shared_ptr_alloc(&sp[0], 1, simple_clear);
    p = cstl_shared_ptr_get(&sp[0]);
    CHECK(p != NULL);
    CHECK(trk_count() == 2);
    for (i = 1; i < N; i++) {
        cstl_shared_ptr_share(&sp[i - 1], &sp[i]);
        cstl_weak_ptr_from(&wp[i], &sp[i]);
        CHECK(cstl_shared_ptr_get(&sp[i]) == p);
        CHECK(!cstl_shared_ptr_unique(&sp[i]));
    }
    for (i = 0; i < N - 1; i++) {
        g_step = i;
        cstl_shared_ptr_reset(&sp[i]);
        CHECK(simple_calls == 0 && trk_live(p, NULL));
        CHECK(cstl_shared_ptr_get(&sp[N - 1]) == p);
    }
    /* owners can be regained through any weak reference */
    for (i = 1; i < N; i++) {
        cstl_weak_ptr_lock(&wp[i], &sp[0]);
        CHECK(cstl_shared_ptr_get(&sp[0]) == p);
    }
    cstl_shared_ptr_reset(&sp[0]);
    CHECK(simple_calls == 0);
    for (i = 1; i < N; i++) {
        if (i & 1) {
            cstl_weak_ptr_reset(&wp[i]);
        }
    }
    CHECK(!cstl_shared_ptr_unique(&sp[N - 1]));
    CHECK(trk_count() == 2);
    cstl_shared_ptr_reset(&sp[N - 1]);
    CHECK(simple_calls == 1 && simple_obj == p);
    CHECK(trk_count() == 1);            /* only the bookkeeping is left */
    for (i = 1; i < N; i++) {
        cstl_weak_ptr_lock(&wp[i], &sp[i]);
        CHECK(cstl_shared_ptr_get(&sp[i]) == NULL);
    }
    for (i = 1; i < N; i++) {
        /* the even ones still refer to the bookkeeping; N - 2 is the last */
        CHECK(trk_count() == (i <= N - 2 ? 1 : 0));
        cstl_weak_ptr_reset(&wp[i]);
    }
    CHECK(trk_count() == 0);
    CHECK(simple_calls == 1);

    /* unique() counts weak references too, and recovers */
    cstl_shared_ptr_alloc(&a, sizeof(int), NULL);
    CHECK(cstl_shared_ptr_unique(&a));
    cstl_weak_ptr_from(&w, &a);
    CHECK(!cstl_shared_ptr_unique(&a));
    cstl_weak_ptr_from(&w, &a);             /* re-target to the same */
    CHECK(!cstl_shared_ptr_unique(&a));
    cstl_weak_ptr_reset(&w);
    CHECK(cstl_shared_ptr_unique(&a));
    cstl_shared_ptr_share(&a, &b);
    cstl_shared_ptr_share(&a, &b);          /* share again into an owner */
    CHECK(!cstl_shared_ptr_unique(&a) && !cstl_shared_ptr_unique(&b));
    CHECK(trk_count() == 2);
    cstl_shared_ptr_reset(&a);
    CHECK(cstl_shared_ptr_unique(&b));
    /* locking into the very last owner ends the allocation first */
    cstl_weak_ptr_from(&w, &b);
    cstl_weak_ptr_lock(&w, &b);
    CHECK(cstl_shared_ptr_get(&b) == NULL);
    CHECK(trk_count() == 1);
    cstl_weak_ptr_reset(&w);
    CHECK(trk_count() == 0);

    /* unique pointers: clear sees the private pointer, then free */
    simple_calls = 0;
    cstl_unique_ptr_alloc(&u, 1, simple_clear, &u);
    p = cstl_unique_ptr_get(&u);
    CHECK(p != NULL && trk_count() == 1);
    cstl_unique_ptr_swap(&u, &u2);
    CHECK(cstl_unique_ptr_get(&u) == NULL && cstl_unique_ptr_get(&u2) == p);
    cstl_unique_ptr_reset(&u);
    CHECK(simple_calls == 0 && trk_count() == 1);
    cstl_unique_ptr_alloc(&u2, 64, NULL, NULL);  /* re-target an owner */
    CHECK(simple_calls == 1 && simple_obj == p);
    CHECK(trk_count() == 1);
    cstl_unique_ptr_alloc(&u2, 0, simple_clear, NULL);
    CHECK(cstl_unique_ptr_get(&u2) == NULL);
    CHECK(simple_calls == 1 && trk_count() == 0);
    cstl_unique_ptr_reset(&u2);
    CHECK(simple_calls == 1);

    printf("%-28s ok\n", "boundaries");
}

/* ------------------------------------------------------------------ */
/* 4. threads                                                           */
/* ------------------------------------------------------------------ */

#define NT 6
#define TA 4
#define T_LIVE 0x600df00du
#define T_DEAD 0xdeadbeefu

struct thdr { int idx; unsigned magic; };

static cstl_shared_ptr_t th_src[TA];
static void * th_addr[TA];
static atomic_int th_clr[TA];
static atomic_long th_locked, th_missed;
static pthread_barrier_t th_bar;
static int th_rounds;

static void th_clear(void * const obj, void * const priv)
{
    struct thdr * const h = obj;
    (void)priv;
    CHECK(h->magic == T_LIVE);
    CHECK(h->idx >= 0 && h->idx < TA);
    CHECK(obj == th_addr[h->idx]);
    h->magic = T_DEAD;
    atomic_fetch_add(&th_clr[h->idx], 1);
}

static void th_check_owner(cstl_shared_ptr_t * const s, const int a)
{
    const struct thdr * const h = cstl_shared_ptr_get_const(s);
    CHECK(h == th_addr[a]);
    CHECK(h->magic == T_LIVE);
    CHECK(h->idx == a);
    CHECK(atomic_load(&th_clr[a]) == 0);
}

static void * th_worker(void * const arg)
{
    const int me = (int)(intptr_t)arg;
    uint64_t x = 0x2545f4914f6cdd1dull * (uint64_t)(me + 1);
    int r, a, k;

    for (r = 0; r < th_rounds; r++) {
        cstl_weak_ptr_t w[TA];
        cstl_shared_ptr_t s[2];

        cstl_shared_ptr_init(&s[0]);
        cstl_shared_ptr_init(&s[1]);
        for (a = 0; a < TA; a++) {
            cstl_weak_ptr_init(&w[a]);
        }

        pthread_barrier_wait(&th_bar);  /* allocations are published */

        /* phase A: the main thread still owns everything */
        for (a = 0; a < TA; a++) {
            cstl_weak_ptr_from(&w[a], &th_src[a]);
        }
        for (k = 0; k < 200; k++) {
            x ^= x << 13; x ^= x >> 7; x ^= x << 17;
            a = (int)((x >> 20) % TA);
            switch ((x >> 40) % 5) {
            case 0:
                cstl_shared_ptr_share(&th_src[a], &s[0]);
                th_check_owner(&s[0], a);
                break;
            case 1:
                cstl_weak_ptr_lock(&w[a], &s[1]);
                th_check_owner(&s[1], a);
                break;
            case 2:
                cstl_shared_ptr_swap(&s[0], &s[1]);
                break;
            case 3:
                cstl_shared_ptr_reset(&s[(x >> 50) & 1]);
                break;
            default:
                cstl_weak_ptr_from(&w[a], &th_src[a]);
                break;
            }
        }

        pthread_barrier_wait(&th_bar);

        /* phase B: the main thread lets go while we lock and reset */
        for (k = 0; k < 400; k++) {
            x ^= x << 13; x ^= x >> 7; x ^= x << 17;
            a = (int)((x >> 20) % TA);
            switch ((x >> 40) % 4) {
            case 0:
            case 1:
                cstl_weak_ptr_lock(&w[a], &s[k & 1]);
                if (cstl_shared_ptr_get(&s[k & 1]) != NULL) {
                    th_check_owner(&s[k & 1], a);
                    atomic_fetch_add(&th_locked, 1);
                } else {
                    atomic_fetch_add(&th_missed, 1);
                }
                break;
            case 2:
                cstl_shared_ptr_share(&s[0], &s[1]);
                break;
            default:
                cstl_shared_ptr_reset(&s[(x >> 50) & 1]);
                break;
            }
        }
        cstl_shared_ptr_reset(&s[0]);
        cstl_shared_ptr_reset(&s[1]);

        pthread_barrier_wait(&th_bar);  /* no owners are left anywhere */

        for (a = 0; a < TA; a++) {
            cstl_weak_ptr_lock(&w[a], &s[0]);
            CHECK(cstl_shared_ptr_get(&s[0]) == NULL);
            cstl_weak_ptr_reset(&w[a]);
        }

        pthread_barrier_wait(&th_bar);  /* everything has been dropped */
    }
    return NULL;
}

static void threads(const int rounds)
{
    pthread_t t[NT];
    int i, r, a;

    g_phase = "threads";
    model_on = 0;
    th_rounds = rounds;
    CHECK(trk_count() == 0);
    CHECK(pthread_barrier_init(&th_bar, NULL, NT + 1) == 0);
    for (a = 0; a < TA; a++) {
        cstl_shared_ptr_init(&th_src[a]);
    }
    for (i = 0; i < NT; i++) {
        CHECK(pthread_create(&t[i], NULL, th_worker,
                             (void *)(intptr_t)i) == 0);
    }
    for (r = 0; r < rounds; r++) {
        g_seq = r;
        for (a = 0; a < TA; a++) {
            struct thdr * h;
            atomic_store(&th_clr[a], 0);
            cstl_shared_ptr_alloc(&th_src[a], sizeof(*h), th_clear);
            h = cstl_shared_ptr_get(&th_src[a]);
            CHECK(h != NULL);
            h->idx = a;
            h->magic = T_LIVE;
            th_addr[a] = h;
        }
        pthread_barrier_wait(&th_bar);
        pthread_barrier_wait(&th_bar);
        for (a = 0; a < TA; a++) {
            cstl_shared_ptr_reset(&th_src[a]);
            CHECK(cstl_shared_ptr_get(&th_src[a]) == NULL);
        }
        pthread_barrier_wait(&th_bar);
        for (a = 0; a < TA; a++) {
            CHECK(atomic_load(&th_clr[a]) == 1);
            CHECK(!trk_live(th_addr[a], NULL));
        }
        pthread_barrier_wait(&th_bar);
        CHECK(trk_count() == 0);
    }
    for (i = 0; i < NT; i++) {
        CHECK(pthread_join(t[i], NULL) == 0);
    }
    pthread_barrier_destroy(&th_bar);
    printf("%-28s %d rounds, %d threads: %ld late locks won, %ld lost\n",
           "threads", rounds, NT,
           (long)atomic_load(&th_locked), (long)atomic_load(&th_missed));
}

/* ------------------------------------------------------------------ */

int main(void)
{
    static const int v_plain[] = { V_CLR };
    static const int v_fail[] = { V_CLR, V_FAIL2 };
    static const int v_all[] = { V_CLR, V_NOCLR1, V_ZERO, V_FAIL1, V_FAIL2 };
    static const int v_uniq[] = { V_CLR, V_NOCLR1, V_ZERO, V_FAIL1 };
    int i;

    for (i = 3; i < MAXS; i++) {
        cstl_shared_ptr_init(&S[i]);
    }
    for (i = 2; i < MAXW; i++) {
        cstl_weak_ptr_init(&W[i]);
    }
    for (i = 2; i < MAXU; i++) {
        cstl_unique_ptr_init(&U[i]);
    }

    model_on = 1;
    exhaustive("exhaustive 2 shared 2 weak", 2, 2, 0, v_plain, 1, 0, 5);
    exhaustive("exhaustive 3 shared 1 weak", 3, 1, 0, v_fail, 2, 0, 4);
    exhaustive("exhaustive alloc flavours", 2, 1, 0, v_all, 5, 1, 4);
    exhaustive("exhaustive unique", 0, 0, 2, v_uniq, 4, 1, 5);
    exhaustive("exhaustive mixed", 2, 1, 1, v_plain, 1, 0, 4);
    random_histories(EMPHASIS == 2 ? 400 : 300, 500);
    model_on = 0;
    boundaries();
    threads(EMPHASIS == 3 ? 600 : 300);

    printf("operations %ld, destructions %ld, re-entrant probes %ld\n",
           total_ops, total_destroys, total_reentrant);
    printf("C05 ok\n");
    return 0;
}
