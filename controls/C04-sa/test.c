/*
 * C04: hash enumeration and clear reach every element exactly once,
 * even mid-rehash.  Uses only the public API of cstl/hash.h.
 *
 * Parts:
 *  1. small-scope closure: every (element count, key pattern, old
 *     geometry, new geometry, number of incremental steps, inserts and
 *     erases during the rehash) crossed with every enumeration entry
 *     point (foreach_const, foreach, each with early stop, foreach that
 *     erases and frees the visited element, clear with and without a
 *     callback, re-use after clear)
 *  2. callbacks that work on OTHER hash objects of a different element type
 *  3. allocation failure of a resize leaves the table undisturbed
 *  4. seeded random histories over two tables, incl. swap
 */

#include "cstl/hash.h"

#include <stdio.h>
#include <stdlib.h>
#include <string.h>
#include <stdint.h>

#define CHECK(C)                                                        \
    do {                                                                \
        if (!(C)) {                                                     \
            fprintf(stderr, "FAIL %s:%d: %s\n", __FILE__, __LINE__, #C); \
            exit(1);                                                    \
        }                                                               \
    } while (0)

#define NSLOT 600

struct elem
{
    char lead[3];
    int id;
    size_t key;
    unsigned int touched;
    struct cstl_hash_node hn;
    char trail;
};

/* second element type: node at offset 0 */
struct other
{
    struct cstl_hash_node hn;
    int id;
};

struct model
{
    struct cstl_hash h;
    struct elem * slot[NSLOT];
    size_t nlive;
};

static long g_allocs, g_frees;

/* ---- hash functions ---- */

static size_t hash_rev(const size_t k, const size_t m)
{
    return (m - 1) - (k % m);
}

static size_t hash_zero(const size_t k, const size_t m)
{
    (void)k; (void)m;
    return 0;
}

static size_t hash_last(const size_t k, const size_t m)
{
    (void)k;
    return m - 1;
}

static size_t hash_mix(const size_t k, const size_t m)
{
    size_t x = k * (size_t)2654435761u;
    x ^= x >> 13;
    return x % m;
}

/* ---- deterministic prng ---- */

static uint32_t g_rng = 1;
static uint32_t rnd(void)
{
    g_rng ^= g_rng << 13;
    g_rng ^= g_rng >> 17;
    g_rng ^= g_rng << 5;
    return g_rng;
}

/* ---- model ---- */

static void model_init(struct model * const m, const int how)
{
    memset(m, 0x5a, sizeof(*m));
    if (how == 0) {
        cstl_hash_init(&m->h, offsetof(struct elem, hn));
    } else {
        const struct cstl_hash t = CSTL_HASH_INITIALIZER(struct elem, hn);
        m->h = t;
    }
    memset(m->slot, 0, sizeof(m->slot));
    m->nlive = 0;
    CHECK(cstl_hash_size(&m->h) == 0);
}

static int model_free_slot(const struct model * const m)
{
    int i;
    for (i = 0; i < NSLOT; i++) {
        if (m->slot[i] == NULL) {
            return i;
        }
    }
    CHECK(!"no slot");
    return -1;
}

static struct elem * model_insert(struct model * const m, const size_t key)
{
    const int id = model_free_slot(m);
    struct elem * const e = malloc(sizeof(*e));
    CHECK(e != NULL);
    g_allocs++;
    memset(e, 0xc3, sizeof(*e));
    e->id = id;
    e->key = key;
    e->touched = 0;
    m->slot[id] = e;
    m->nlive++;
    cstl_hash_insert(&m->h, key, e);
    CHECK(cstl_hash_size(&m->h) == m->nlive);
    return e;
}

static void elem_free(struct elem * const e)
{
    /* poison, so that a late look at the node is noticed */
    memset(e, 0xee, sizeof(*e));
    free(e);
    g_frees++;
}

static void model_erase(struct model * const m, const int id)
{
    struct elem * const e = m->slot[id];
    CHECK(e != NULL);
    cstl_hash_erase(&m->h, e);
    m->slot[id] = NULL;
    m->nlive--;
    CHECK(cstl_hash_size(&m->h) == m->nlive);
    elem_free(e);
}

/* ---- find ---- */

static int find_by_id(const void * const e, void * const p)
{
    return ((const struct elem *)e)->id == *(const int *)p;
}

static int find_never(const void * const e, void * const p)
{
    (void)e;
    *(size_t *)p += 1;
    return 0;
}

static void model_check_find(struct model * const m, const size_t key)
{
    size_t want = 0, got = 0;
    int i, first = -1;
    void * r;

    for (i = 0; i < NSLOT; i++) {
        if (m->slot[i] != NULL && m->slot[i]->key == key) {
            if (first < 0) {
                first = i;
            }
            want++;
        }
    }

    r = cstl_hash_find(&m->h, key, NULL, NULL);
    if (want == 0) {
        CHECK(r == NULL);
    } else {
        const struct elem * const e = r;
        CHECK(e != NULL);
        CHECK(e->id >= 0 && e->id < NSLOT && m->slot[e->id] == e);
        CHECK(e->key == key);
    }

    /* the visit function sees every element with that key once */
    r = cstl_hash_find(&m->h, key, find_never, &got);
    CHECK(r == NULL);
    CHECK(got == want);

    if (want > 0) {
        r = cstl_hash_find(&m->h, key, find_by_id, &first);
        CHECK(r == m->slot[first]);
    }
}

/* ---- enumeration ---- */

struct vctx
{
    struct model * m;
    unsigned char seen[NSLOT];
    size_t calls;
    size_t stop_at;
    int stop_val;
    /* erase mode for the non-const visit: 0 none, 1 all, 2 odd ids, 3 even */
    int erase;
    /* other containers the callback plays with */
    struct cstl_hash * oh;
};

static void vctx_init(struct vctx * const c, struct model * const m)
{
    memset(c, 0, sizeof(*c));
    c->m = m;
}

static void other_add(struct cstl_hash * const oh, const int id)
{
    struct other * const o = malloc(sizeof(*o));
    CHECK(o != NULL);
    g_allocs++;
    o->id = id;
    cstl_hash_insert(oh, (size_t)id, o);
}

static int cvisit(const void * const e, void * const p)
{
    struct vctx * const c = p;
    const struct elem * const el = e;

    CHECK(el != NULL);
    CHECK(el->id >= 0 && el->id < NSLOT);
    CHECK(c->m->slot[el->id] == el);
    CHECK(c->seen[el->id] == 0);
    c->seen[el->id] = 1;
    c->calls++;

    if (c->oh != NULL) {
        /* uses another table; also moves that one's rehash along */
        CHECK(cstl_hash_find(c->oh, (size_t)el->id, NULL, NULL) == NULL);
        other_add(c->oh, el->id);
    }

    if (c->stop_at != 0 && c->calls == c->stop_at) {
        return c->stop_val;
    }
    return 0;
}

static int mvisit(void * const e, void * const p)
{
    struct vctx * const c = p;
    struct elem * const el = e;
    int res = 0;
    int id;

    CHECK(el != NULL);
    id = el->id;
    CHECK(id >= 0 && id < NSLOT);
    CHECK(c->m->slot[id] == el);
    CHECK(c->seen[id] == 0);
    c->seen[id] = 1;
    c->calls++;

    /* the element may be altered (not the key) */
    el->touched++;
    el->trail = (char)c->calls;

    if (c->oh != NULL) {
        CHECK(cstl_hash_find(c->oh, (size_t)id, NULL, NULL) == NULL);
        other_add(c->oh, id);
    }

    if (c->stop_at != 0 && c->calls == c->stop_at) {
        res = c->stop_val;
    }

    if (c->erase == 1
        || (c->erase == 2 && (id & 1) != 0)
        || (c->erase == 3 && (id & 1) == 0)) {
        model_erase(c->m, id);
    }

    return res;
}

static void vctx_expect_all(const struct vctx * const c,
                            struct elem * const * const before,
                            const size_t nbefore)
{
    int i;
    CHECK(c->calls == nbefore);
    for (i = 0; i < NSLOT; i++) {
        CHECK(c->seen[i] == (before[i] != NULL));
    }
}

/* read-only: full enumeration plus early stops */
static void check_const(struct model * const m)
{
    struct vctx c;
    size_t k;

    CHECK(cstl_hash_size(&m->h) == m->nlive);

    vctx_init(&c, m);
    CHECK(cstl_hash_foreach_const(&m->h, cvisit, &c) == 0);
    vctx_expect_all(&c, m->slot, m->nlive);

    for (k = 1; k <= m->nlive; k++) {
        const int val = (k & 1) ? (int)(1000 + k) : -(int)k;
        if (k > 3 && k != m->nlive / 2 && k + 1 < m->nlive) {
            continue;
        }
        vctx_init(&c, m);
        c.stop_at = k;
        c.stop_val = val;
        CHECK(cstl_hash_foreach_const(&m->h, cvisit, &c) == val);
        CHECK(c.calls == k);
    }
}

/* forces the rehash */
static void check_mut(struct model * const m)
{
    struct vctx c;
    int i;

    for (i = 0; i < NSLOT; i++) {
        if (m->slot[i] != NULL) {
            m->slot[i]->touched = 0;
        }
    }

    vctx_init(&c, m);
    CHECK(cstl_hash_foreach(&m->h, mvisit, &c) == 0);
    vctx_expect_all(&c, m->slot, m->nlive);

    for (i = 0; i < NSLOT; i++) {
        if (m->slot[i] != NULL) {
            CHECK(m->slot[i]->touched == 1);
        }
    }
}

static void check_mut_stop(struct model * const m, const size_t k)
{
    struct vctx c;
    vctx_init(&c, m);
    c.stop_at = k;
    c.stop_val = 77;
    if (k >= 1 && k <= m->nlive) {
        CHECK(cstl_hash_foreach(&m->h, mvisit, &c) == 77);
        CHECK(c.calls == k);
    } else {
        CHECK(cstl_hash_foreach(&m->h, mvisit, &c) == 0);
        CHECK(c.calls == m->nlive);
    }
}

static void check_all_keys(struct model * const m)
{
    int i;
    for (i = 0; i < NSLOT; i++) {
        if (m->slot[i] != NULL) {
            model_check_find(m, m->slot[i]->key);
        }
    }
}

/* foreach whose callback erases and frees the visited element */
static void check_mut_erase(struct model * const m, const int mode,
                            const size_t stop_at)
{
    struct vctx c;
    struct elem * before[NSLOT];
    const size_t nbefore = m->nlive;
    size_t expect_left = 0;
    int i, res;

    memcpy(before, m->slot, sizeof(before));

    vctx_init(&c, m);
    c.erase = mode;
    c.stop_at = stop_at;
    c.stop_val = -5;
    res = cstl_hash_foreach(&m->h, mvisit, &c);

    if (stop_at >= 1 && stop_at <= nbefore) {
        CHECK(res == -5);
        CHECK(c.calls == stop_at);
    } else {
        CHECK(res == 0);
        vctx_expect_all(&c, before, nbefore);
    }

    /* exactly the visited ones that matched the mode are gone */
    for (i = 0; i < NSLOT; i++) {
        int gone = 0;
        if (before[i] != NULL && c.seen[i]) {
            gone = (mode == 1
                    || (mode == 2 && (i & 1) != 0)
                    || (mode == 3 && (i & 1) == 0));
        }
        if (before[i] != NULL && !gone) {
            CHECK(m->slot[i] == before[i]);
            expect_left++;
        } else {
            CHECK(m->slot[i] == NULL);
        }
    }
    CHECK(m->nlive == expect_left);
    CHECK(cstl_hash_size(&m->h) == expect_left);

    check_const(m);
    check_all_keys(m);
}

/* ---- clear ---- */

static struct model * g_clear_m;
static size_t g_clear_calls;
static struct cstl_hash * g_clear_oh;

static void clear_cb(void * const e, void * const p)
{
    struct elem * const el = e;
    int id;
    (void)p;

    CHECK(el != NULL);
    id = el->id;
    CHECK(id >= 0 && id < NSLOT);
    /* exactly once: the slot is emptied the first time */
    CHECK(g_clear_m->slot[id] == el);
    g_clear_m->slot[id] = NULL;
    g_clear_m->nlive--;
    g_clear_calls++;

    if (g_clear_oh != NULL) {
        /* another container: drop the twin held there */
        struct other * const o =
            cstl_hash_find(g_clear_oh, (size_t)id, NULL, NULL);
        CHECK(o != NULL && o->id == id);
        cstl_hash_erase(g_clear_oh, o);
        CHECK(cstl_hash_find(g_clear_oh, (size_t)id, NULL, NULL) == NULL);
        free(o);
        g_frees++;
    }

    /* ownership passes here: free it */
    elem_free(el);
}

static void model_clear_cb(struct model * const m)
{
    const size_t n = m->nlive;
    g_clear_m = m;
    g_clear_calls = 0;
    cstl_hash_clear(&m->h, clear_cb);
    CHECK(g_clear_calls == n);
    CHECK(m->nlive == 0);
    CHECK(cstl_hash_size(&m->h) == 0);
    g_clear_m = NULL;
}

static void model_clear_null(struct model * const m)
{
    int i;
    cstl_hash_clear(&m->h, NULL);
    CHECK(cstl_hash_size(&m->h) == 0);
    /* the elements were never handed over: still ours, still intact */
    for (i = 0; i < NSLOT; i++) {
        if (m->slot[i] != NULL) {
            CHECK(m->slot[i]->id == i);
            elem_free(m->slot[i]);
            m->slot[i] = NULL;
            m->nlive--;
        }
    }
    CHECK(m->nlive == 0);
}

/* after a clear: empty, and reusable after a fresh resize */
static void check_reuse(struct model * const m, const size_t count,
                        cstl_hash_func_t * const hf)
{
    struct vctx c;
    size_t i;

    CHECK(cstl_hash_size(&m->h) == 0);
    /* an empty, cleared table enumerates nothing */
    vctx_init(&c, m);
    CHECK(cstl_hash_foreach_const(&m->h, cvisit, &c) == 0);
    CHECK(c.calls == 0);
    CHECK(cstl_hash_foreach(&m->h, mvisit, &c) == 0);
    CHECK(c.calls == 0);
    /* clearing again is harmless */
    g_clear_m = m;
    g_clear_calls = 0;
    cstl_hash_clear(&m->h, clear_cb);
    CHECK(g_clear_calls == 0);

    cstl_hash_resize(&m->h, count, hf);
    vctx_init(&c, m);
    CHECK(cstl_hash_foreach_const(&m->h, cvisit, &c) == 0);
    CHECK(c.calls == 0);

    for (i = 0; i < 5; i++) {
        model_insert(m, i * 3);
    }
    check_const(m);
    check_all_keys(m);
    cstl_hash_resize(&m->h, count + 3, NULL);
    model_check_find(m, 3);
    check_const(m);
    check_mut(m);
    check_const(m);
    model_clear_cb(m);
    CHECK(cstl_hash_size(&m->h) == 0);
}

/* ---- part 1: small scope closure ---- */

struct scen
{
    int n, keymode;
    size_t c0, c1;
    cstl_hash_func_t * h0, * h1;
    int steps, mid_ins, mid_erase, init;
};

static size_t scen_key(const int keymode, const int i)
{
    static const size_t edge[] = {
        0, SIZE_MAX, 1, SIZE_MAX - 1, SIZE_MAX / 2, SIZE_MAX / 2 + 1, 2, 4
    };
    switch (keymode) {
    case 0: return (size_t)i;
    case 1: return (size_t)(i / 2);               /* duplicates */
    case 2: return edge[i % 8];
    default: return (size_t)i * 5 + 1;
    }
}

static void scen_build(struct model * const m, const struct scen * const s)
{
    int i;

    model_init(m, s->init);
    cstl_hash_resize(&m->h, s->c0, s->h0);
    for (i = 0; i < s->n; i++) {
        model_insert(m, scen_key(s->keymode, i));
    }
    /* pending rehash, if the geometry differs */
    cstl_hash_resize(&m->h, s->c1, s->h1);

    for (i = 0; i < s->steps; i++) {
        /* each lookup cleans a few buckets */
        model_check_find(m, scen_key(s->keymode, i));
    }
    if (s->mid_ins) {
        model_insert(m, scen_key(s->keymode, s->n));
        model_insert(m, scen_key(s->keymode, 0));
    }
    if (s->mid_erase && m->nlive > 0) {
        for (i = 0; i < NSLOT; i++) {
            if (m->slot[i] != NULL) {
                model_erase(m, i);
                break;
            }
        }
    }
}

static void scen_teardown(struct model * const m)
{
    model_clear_null(m);
}

#define NTESTS 12

static void scen_test(const struct scen * const s, const int t)
{
    struct model m;

    scen_build(&m, s);

    switch (t) {
    case 0:
        /* const enumeration is repeatable and disturbs nothing */
        check_const(&m);
        check_const(&m);
        check_all_keys(&m);
        check_const(&m);
        break;
    case 1:
        check_mut(&m);
        check_const(&m);
        check_all_keys(&m);
        break;
    case 2:
        check_mut_stop(&m, 1);
        check_mut_stop(&m, m.nlive);
        check_mut_stop(&m, m.nlive / 2);
        check_const(&m);
        break;
    case 3:
        check_mut_erase(&m, 1, 0);
        CHECK(m.nlive == 0);
        /* still usable */
        model_insert(&m, 9);
        model_insert(&m, 0);
        check_const(&m);
        check_mut(&m);
        break;
    case 4:
        check_mut_erase(&m, 2, 0);
        check_mut(&m);
        break;
    case 5:
        check_mut_erase(&m, 3, 0);
        check_mut_erase(&m, 2, 0);
        CHECK(m.nlive == 0);
        break;
    case 6:
        check_mut_erase(&m, 1, (m.nlive + 1) / 2);
        check_mut(&m);
        break;
    case 7:
        check_const(&m);
        model_clear_cb(&m);
        check_reuse(&m, s->c0, s->h1);
        break;
    case 8:
        model_clear_cb(&m);
        check_reuse(&m, s->c1 + 1, NULL);
        break;
    case 9:
        /* no callback: nothing is handed over, table empty */
        cstl_hash_clear(&m.h, NULL);
        CHECK(cstl_hash_size(&m.h) == 0);
        {
            /* put the very same elements into the re-sized table */
            int i;
            size_t n = 0;
            cstl_hash_resize(&m.h, s->c1, s->h0);
            for (i = 0; i < NSLOT; i++) {
                if (m.slot[i] != NULL) {
                    cstl_hash_insert(&m.h, m.slot[i]->key, m.slot[i]);
                    n++;
                }
            }
            CHECK(n == m.nlive);
            check_const(&m);
            check_all_keys(&m);
            model_clear_cb(&m);
        }
        break;
    case 10:
        /* a second resize while the first is pending, then everything */
        cstl_hash_resize(&m.h, s->c0 + s->c1, hash_mix);
        check_const(&m);
        model_check_find(&m, 1);
        check_const(&m);
        cstl_hash_resize(&m.h, 1, NULL);
        check_const(&m);
        check_mut(&m);
        model_clear_cb(&m);
        break;
    case 11:
        /* finish the rehash one lookup at a time, checking throughout */
        {
            int i;
            for (i = 0; i < 12; i++) {
                model_check_find(&m, (size_t)i);
                check_const(&m);
            }
            cstl_hash_shrink_to_fit(&m.h);
            check_const(&m);
            cstl_hash_rehash(&m.h);
            check_const(&m);
            check_mut_erase(&m, 2, 0);
        }
        break;
    default:
        CHECK(0);
    }

    scen_teardown(&m);
}

static void part1(void)
{
    static cstl_hash_func_t * const hf[] = {
        cstl_hash_div, cstl_hash_mul, hash_rev, NULL
    };
    struct scen s;
    long scenarios = 0;
    int h0, h1;

    for (s.n = 0; s.n <= 6; s.n++) {
        for (s.c0 = 1; s.c0 <= 5; s.c0++) {
            for (s.c1 = 1; s.c1 <= 5; s.c1++) {
                for (h0 = 0; h0 < 4; h0++) {
                    for (h1 = 0; h1 < 4; h1++) {
                        s.h0 = hf[h0];
                        s.h1 = hf[h1];
                        for (s.steps = 0; s.steps <= 3; s.steps++) {
                            int mid, t;
                            for (mid = 0; mid < 4; mid++) {
                                s.mid_ins = mid & 1;
                                s.mid_erase = mid >> 1;
                                s.keymode = (int)(scenarios % 4);
                                s.init = (int)((scenarios / 4) % 2);
                                for (t = 0; t < NTESTS; t++) {
                                    scen_test(&s, t);
                                }
                                scenarios++;
                            }
                        }
                    }
                }
            }
        }
    }

    /* a few bigger geometries, degenerate hash functions */
    {
        static cstl_hash_func_t * const hg[] = {
            hash_zero, hash_last, hash_mix, cstl_hash_mul, cstl_hash_div
        };
        static const size_t cs[] = { 1, 2, 7, 16, 31, 64 };
        int a, b, x, y, t;
        for (a = 0; a < 6; a++) {
            for (b = 0; b < 6; b++) {
                for (x = 0; x < 5; x++) {
                    for (y = 0; y < 5; y++) {
                        s.n = 40;
                        s.keymode = (a + b + x + y) % 4;
                        s.c0 = cs[a];
                        s.c1 = cs[b];
                        s.h0 = hg[x];
                        s.h1 = hg[y];
                        s.mid_ins = (a + y) & 1;
                        s.mid_erase = (b + x) & 1;
                        s.init = (a + x) & 1;
                        for (s.steps = 0; s.steps <= 20; s.steps += 5) {
                            for (t = 0; t < NTESTS; t++) {
                                scen_test(&s, t);
                            }
                            scenarios++;
                        }
                    }
                }
            }
        }
    }

    printf("part1: %ld scenarios x %d tests\n", scenarios, NTESTS);
}

/* ---- part 2: callbacks that use other containers ---- */

static int other_count(const void * const e, void * const p)
{
    const struct other * const o = e;
    unsigned char * const seen = p;
    CHECK(o->id >= 0 && o->id < NSLOT);
    CHECK(seen[o->id] == 0);
    seen[o->id] = 1;
    return 0;
}

static void other_free(void * const e, void * const p)
{
    (void)p;
    free(e);
    g_frees++;
}

static void part2(void)
{
    int round;

    for (round = 0; round < 40; round++) {
        struct model m;
        DECLARE_CSTL_HASH(oh, struct other, hn);
        struct vctx c;
        unsigned char seen[NSLOT];
        int i;
        const int n = 1 + round * 3;

        model_init(&m, round & 1);
        cstl_hash_resize(&m.h, 3 + (size_t)round % 5, cstl_hash_div);
        for (i = 0; i < n; i++) {
            model_insert(&m, (size_t)(i * 7 % 11));
        }
        /* both tables sit in the middle of a rehash */
        cstl_hash_resize(&m.h, (round & 2) ? 2 : 17, cstl_hash_mul);
        for (i = 0; i < round % 4; i++) {
            model_check_find(&m, (size_t)i);
        }

        cstl_hash_resize(&oh, 4, hash_rev);
        other_add(&oh, NSLOT - 1);
        other_add(&oh, NSLOT - 2);
        cstl_hash_resize(&oh, (round & 4) ? 1 : 9, NULL);

        /* enumerate one table, fill the other from inside the callback */
        vctx_init(&c, &m);
        c.oh = &oh;
        if (round % 3 == 0) {
            CHECK(cstl_hash_foreach(&m.h, mvisit, &c) == 0);
        } else {
            CHECK(cstl_hash_foreach_const(&m.h, cvisit, &c) == 0);
        }
        vctx_expect_all(&c, m.slot, m.nlive);
        CHECK(cstl_hash_size(&oh) == m.nlive + 2);

        memset(seen, 0, sizeof(seen));
        CHECK(cstl_hash_foreach_const(&oh, other_count, seen) == 0);
        for (i = 0; i < NSLOT - 2; i++) {
            CHECK(seen[i] == (m.slot[i] != NULL));
        }
        CHECK(seen[NSLOT - 1] && seen[NSLOT - 2]);

        /* again mid-rehash; clear one table, its callback edits the other */
        cstl_hash_resize(&m.h, 5, hash_mix);
        model_check_find(&m, 2);
        cstl_hash_resize(&oh, 6, cstl_hash_div);
        g_clear_oh = &oh;
        model_clear_cb(&m);
        g_clear_oh = NULL;
        CHECK(cstl_hash_size(&oh) == 2);

        memset(seen, 0, sizeof(seen));
        CHECK(cstl_hash_foreach_const(&oh, other_count, seen) == 0);
        for (i = 0; i < NSLOT - 2; i++) {
            CHECK(seen[i] == 0);
        }
        CHECK(seen[NSLOT - 1] && seen[NSLOT - 2]);

        cstl_hash_clear(&oh, other_free);
        CHECK(cstl_hash_size(&oh) == 0);
        check_reuse(&m, 2, NULL);
        scen_teardown(&m);
    }
    printf("part2: ok\n");
}

/* ---- part 3: a resize that cannot get memory changes nothing ---- */

static void part3(void)
{
    struct model m;
    int i;

    model_init(&m, 1);
    cstl_hash_resize(&m.h, 4, cstl_hash_div);
    for (i = 0; i < 30; i++) {
        model_insert(&m, (size_t)i);
    }
    cstl_hash_resize(&m.h, 11, NULL);
    model_check_find(&m, 3);

    /* zero does nothing */
    cstl_hash_resize(&m.h, 0, hash_zero);
    check_const(&m);

    /* this many buckets cannot be had; table must be undisturbed */
    cstl_hash_resize(&m.h, SIZE_MAX / 64, hash_zero);
    check_const(&m);
    check_all_keys(&m);
    CHECK(cstl_hash_load(&m.h) > 30.0f / 11 - .01f
          && cstl_hash_load(&m.h) < 30.0f / 11 + .01f);
    cstl_hash_resize(&m.h, SIZE_MAX / 64, NULL);
    check_const(&m);
    check_mut(&m);
    check_mut_erase(&m, 2, 0);
    cstl_hash_resize(&m.h, 3, NULL);
    check_const(&m);
    cstl_hash_resize(&m.h, SIZE_MAX / 64 - 1, cstl_hash_mul);
    check_const(&m);
    model_clear_cb(&m);
    check_reuse(&m, 8, NULL);
    scen_teardown(&m);
    printf("part3: ok\n");
}

/* ---- part 4: seeded random histories ---- */

static size_t rnd_key(const int mode)
{
    switch (mode) {
    case 0: return rnd() % 16;
    case 1: return rnd() % 1000;
    case 2: return (rnd() & 1) ? SIZE_MAX - rnd() % 4 : rnd() % 4;
    default: return ((size_t)rnd() << 16) ^ rnd();
    }
}

static cstl_hash_func_t * rnd_hash(void)
{
    switch (rnd() % 8) {
    case 0: return cstl_hash_div;
    case 1: return cstl_hash_mul;
    case 2: return hash_rev;
    case 3: return hash_mix;
    case 4: return (rnd() % 4 == 0) ? hash_zero : hash_mix;
    case 5: return (rnd() % 4 == 0) ? hash_last : cstl_hash_div;
    default: return NULL;
    }
}

static int rnd_live(const struct model * const m)
{
    int i, k;
    if (m->nlive == 0) {
        return -1;
    }
    k = (int)(rnd() % m->nlive);
    for (i = 0; i < NSLOT; i++) {
        if (m->slot[i] != NULL && k-- == 0) {
            return i;
        }
    }
    CHECK(0);
    return -1;
}

static void history(const uint32_t seed, const int nops)
{
    struct model ms[2];
    const int keymode = (int)(seed % 4);
    int op;

    g_rng = seed * 2654435761u + 1;
    if (g_rng == 0) {
        g_rng = 1;
    }

    model_init(&ms[0], 0);
    model_init(&ms[1], 1);
    cstl_hash_resize(&ms[0].h, 1 + rnd() % 8, rnd_hash());
    cstl_hash_resize(&ms[1].h, 1 + rnd() % 8, rnd_hash());

    for (op = 0; op < nops; op++) {
        struct model * const m = &ms[rnd() % 2];
        const unsigned int r = rnd() % 100;

        if (r < 30) {
            if (m->nlive < NSLOT / 2) {
                model_insert(m, rnd_key(keymode));
            }
        } else if (r < 45) {
            const int id = rnd_live(m);
            if (id >= 0) {
                model_erase(m, id);
            }
        } else if (r < 60) {
            const int id = rnd_live(m);
            model_check_find(
                m, (id >= 0 && (rnd() & 1)) ? m->slot[id]->key
                : rnd_key(keymode));
        } else if (r < 75) {
            size_t cnt;
            switch (rnd() % 4) {
            case 0: cnt = 1 + rnd() % 4; break;
            case 1: cnt = 1 + rnd() % 40; break;
            case 2: cnt = 1 + m->nlive; break;
            default: cnt = 1 + rnd() % 300; break;
            }
            cstl_hash_resize(&m->h, cnt, rnd_hash());
        } else if (r < 78) {
            cstl_hash_rehash(&m->h);
        } else if (r < 81) {
            cstl_hash_shrink_to_fit(&m->h);
        } else if (r < 86) {
            check_mut(m);
        } else if (r < 90) {
            check_mut_erase(m, 2 + (int)(rnd() % 2),
                            (rnd() & 1) ? 0 : 1 + rnd() % (m->nlive + 1));
        } else if (r < 92) {
            check_mut_stop(m, 1 + rnd() % (m->nlive + 1));
        } else if (r < 95) {
            /* swap the two tables, models follow */
            struct elem * t[NSLOT];
            size_t n;
            cstl_hash_swap(&ms[0].h, &ms[1].h);
            memcpy(t, ms[0].slot, sizeof(t));
            memcpy(ms[0].slot, ms[1].slot, sizeof(t));
            memcpy(ms[1].slot, t, sizeof(t));
            n = ms[0].nlive;
            ms[0].nlive = ms[1].nlive;
            ms[1].nlive = n;
            check_const(&ms[0]);
            check_const(&ms[1]);
        } else if (r < 98) {
            if (rnd() & 1) {
                model_clear_cb(m);
            } else {
                model_clear_null(m);
            }
            if (rnd() & 1) {
                /* also legal: re-initialise a cleared object */
                cstl_hash_init(&m->h, offsetof(struct elem, hn));
            }
            cstl_hash_resize(&m->h, 1 + rnd() % 12, rnd_hash());
        } else {
            /* move one element from one table to the other */
            struct model * const o = (m == &ms[0]) ? &ms[1] : &ms[0];
            const int id = rnd_live(m);
            if (id >= 0 && o->nlive < NSLOT / 2) {
                struct elem * const e = m->slot[id];
                const int nid = model_free_slot(o);
                cstl_hash_erase(&m->h, e);
                m->slot[id] = NULL;
                m->nlive--;
                e->id = nid;
                o->slot[nid] = e;
                o->nlive++;
                cstl_hash_insert(&o->h, e->key, e);
            }
        }

        /* the read-only enumeration is checked after every step */
        check_const(&ms[0]);
        check_const(&ms[1]);
    }

    check_all_keys(&ms[0]);
    check_all_keys(&ms[1]);
    model_clear_cb(&ms[0]);
    model_clear_null(&ms[1]);
    check_reuse(&ms[0], 3, NULL);
    check_reuse(&ms[1], 1, hash_rev);
}

static void part4(void)
{
    uint32_t seed;
    for (seed = 1; seed <= 300; seed++) {
        history(seed, 400);
    }
    for (seed = 1000; seed < 1010; seed++) {
        history(seed, 5000);
    }
    printf("part4: ok\n");
}

int main(void)
{
    part1();
    part2();
    part3();
    part4();
    CHECK(g_allocs == g_frees);
    printf("C04 ok (%ld elements allocated and freed)\n", g_allocs);
    return 0;
}
