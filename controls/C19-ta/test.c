/*
 * C19: rehash is incremental, finishes in bounded operations, lands
 * where requested.
 *
 * Public API only. Every hash function handed to the table logs its
 * calls, which is the only window onto the rehash that the API offers:
 *
 *  - right after a satisfiable resize(n, f), also one issued while an
 *    earlier rehash is pending, cstl_hash_load() == size / n
 *  - while a rehash is pending a keyed operation consults the previous
 *    geometry once, for its own key; every other call uses the requested
 *    geometry; the keys relocated by one operation are the contents of
 *    at most three buckets (a cover by three bucket indices must exist,
 *    with multiplicities)
 *  - no more keyed operations see a pending rehash than the table had
 *    buckets when the resize was requested
 *  - once finished, every keyed operation makes exactly one call, with
 *    (key, n) and the function most recently requested (NULL keeps it)
 *  - a resize that cannot be satisfied (realloc fails; linked with
 *    -Wl,--wrap=realloc) leaves everything undisturbed
 *
 * plus the functional contract (find/erase/foreach/size) throughout.
 * Small scope: every sequence of DEPTH operations from several start
 * states. Beyond it: seeded random histories.
 */

#include "cstl/hash.h"

#include <stdio.h>
#include <stdlib.h>
#include <string.h>

#define FAIL(...)                                                       \
    do {                                                                \
        fprintf(stderr, "FAIL line %d [%s]: ", __LINE__, ctx);          \
        fprintf(stderr, __VA_ARGS__);                                   \
        fprintf(stderr, "\n");                                          \
        exit(1);                                                        \
    } while (0)
#define CHECK(C) do { if (!(C)) FAIL("%s", #C); } while (0)

static char ctx[128] = "start";

/* ------------------------------------------------------------------ */
/* allocation failure injection                                        */

void * __real_realloc(void *, size_t);
static int fail_realloc;
static unsigned long realloc_fails;

void * __wrap_realloc(void * const p, const size_t n)
{
    if (fail_realloc != 0 && n != 0) {
        realloc_fails++;
        return NULL;
    }
    return __real_realloc(p, n);
}

/* ------------------------------------------------------------------ */
/* keys                                                                */

#define NK 128u
static size_t KV(const unsigned kj)
{
    return (kj < 120) ? (size_t)kj : SIZE_MAX - (kj - 120);
}

static unsigned KJ(const size_t k)
{
    if (k < 120) {
        return (unsigned)k;
    }
    CHECK(SIZE_MAX - k < 8);
    return 120 + (unsigned)(SIZE_MAX - k);
}

/* ------------------------------------------------------------------ */
/* an unrelated table of another element type, used from callbacks     */

#define NSALT 8u
struct salt_ent
{
    size_t salt;
    char pad[3];
    struct cstl_hash_node hn;
};
static struct salt_ent salts[NSALT];
static DECLARE_CSTL_HASH(aux, struct salt_ent, hn);
static unsigned long aux_lookups;

static size_t aux_salt(const size_t i)
{
    struct salt_ent * const s = cstl_hash_find(&aux, i, NULL, NULL);
    CHECK(s == &salts[i]);
    aux_lookups++;
    return s->salt;
}

static void aux_setup(const unsigned seed)
{
    static int once;
    if (once == 0) {
        unsigned i;
        once = 1;
        cstl_hash_resize(&aux, 5, cstl_hash_div);
        for (i = 0; i < NSALT; i++) {
            salts[i].salt = (i * 37 + 11) % 23;
            cstl_hash_insert(&aux, i, &salts[i]);
        }
    }
    /* leaves a rehash pending that nested lookups work off */
    cstl_hash_resize(&aux, 3 + seed % 11,
                     (seed & 1) ? cstl_hash_mul : cstl_hash_div);
    CHECK(cstl_hash_size(&aux) == NSALT);
}

/* ------------------------------------------------------------------ */
/* logging hash functions                                              */

#define NF 5
static size_t hv(const int f, const size_t k, const size_t m)
{
    switch (f) {
    case 0: return k % m;
    case 1: return (k * 7 + 3) % m;
    case 2: return (k / 2) % m;
    case 3: return 0;
    case 4: return (k % 1000 + ((k % NSALT) * 37 + 11) % 23) % m;
    }
    abort();
}

struct call { int f; size_t k, m; };
#define MAXCALLS (1u << 16)
static struct call calls[MAXCALLS];
static size_t ncalls;
static unsigned long total_calls;

static void logcall(const int f, const size_t k, const size_t m)
{
    CHECK(m != 0);
    CHECK(ncalls < MAXCALLS);
    calls[ncalls].f = f;
    calls[ncalls].k = k;
    calls[ncalls].m = m;
    ncalls++;
    total_calls++;
}

static size_t F0(size_t k, size_t m) { logcall(0, k, m); return hv(0, k, m); }
static size_t F1(size_t k, size_t m) { logcall(1, k, m); return hv(1, k, m); }
static size_t F2(size_t k, size_t m) { logcall(2, k, m); return hv(2, k, m); }
static size_t F3(size_t k, size_t m) { logcall(3, k, m); return hv(3, k, m); }
static size_t F4(size_t k, size_t m)
{
    logcall(4, k, m);
    return (k % 1000 + aux_salt(k % NSALT)) % m;
}
static cstl_hash_func_t * const FN[NF] = { F0, F1, F2, F3, F4 };

/* ------------------------------------------------------------------ */
/* elements and the model                                              */

struct elem
{
    int id;
    int in;
    unsigned kj;
    unsigned seen;
    struct cstl_hash_node hn;
    int tail;
};

#define MAXE 400
static struct elem pool[MAXE];
static int npool = MAXE;
static size_t keycount[NK];

static struct cstl_hash tabs[2] = {
    CSTL_HASH_INITIALIZER(struct elem, hn),
    CSTL_HASH_INITIALIZER(struct elem, hn),
};
static int ti;
#define H (&tabs[ti])

static struct
{
    int init, pending;
    int cf; size_t cn;          /* geometry before the pending rehash */
    int tf; size_t tn;          /* requested geometry */
    size_t bold, pops;          /* buckets at the request, pending ops seen */
    size_t size;
} M;

static unsigned long n_pending_ops, n_finished_ops, n_resizes, n_reloc,
    n_resize_pending, n_failed_resize, max_reloc;

static void expect_size_load(void)
{
    CHECK(cstl_hash_size(H) == M.size);
    if (M.init) {
        const float want = (float)M.size / M.tn;
        const float got = cstl_hash_load(H);
        if (got != want) {
            FAIL("load %f, want %zu/%zu = %f", got, M.size, M.tn, want);
        }
    }
}

/* every logged call must use the requested geometry and an existing key */
static void expect_all_target(void)
{
    size_t i;
    for (i = 0; i < ncalls; i++) {
        CHECK(calls[i].f == M.tf && calls[i].m == M.tn);
        CHECK(keycount[KJ(calls[i].k)] > 0);
    }
}

static size_t dk[MAXCALLS], dcnt[MAXCALLS], dmult[MAXCALLS];

static int cover_ok(const size_t nd, size_t * const set, const int ns)
{
    size_t i;
    for (i = 0; i < nd; i++) {
        const size_t o = hv(M.cf, dk[i], M.cn), w = hv(M.tf, dk[i], M.tn);
        size_t c = 0;
        int s;
        for (s = 0; s < ns; s++) {
            if (set[s] == o || set[s] == w) {
                c++;
            }
        }
        if (dcnt[i] > dmult[i] * c) {
            size_t cand[2];
            int j;
            if (ns == 3) {
                return 0;
            }
            cand[0] = o;
            cand[1] = w;
            for (j = 0; j < 2; j++) {
                int dup = 0;
                /* only buckets that existed before the request get dirty */
                if (cand[j] >= M.cn) {
                    continue;
                }
                for (s = 0; s < ns; s++) {
                    dup |= (set[s] == cand[j]);
                }
                if (dup || (j == 1 && cand[1] == cand[0])) {
                    continue;
                }
                set[ns] = cand[j];
                if (cover_ok(nd, set, ns + 1)) {
                    return 1;
                }
            }
            return 0;
        }
    }
    return 1;
}

/*
 * called after a keyed operation on key k; keycount[] must still
 * describe the table as it was when the operation started
 */
static void check_keyed(const size_t k)
{
    size_t i, nold = 0, nd = 0, nr = 0, set[3];
    int own = 0;

    if (!M.pending) {
        if (ncalls != 1) {
            FAIL("finished table: %zu hash calls for one operation", ncalls);
        }
        CHECK(calls[0].f == M.tf && calls[0].k == k && calls[0].m == M.tn);
        n_finished_ops++;
        return;
    }

    for (i = 0; i < ncalls; i++) {
        if (calls[i].f == M.cf && calls[i].m == M.cn) {
            CHECK(calls[i].k == k);
            nold++;
        } else if (calls[i].f == M.tf && calls[i].m == M.tn) {
            size_t j;
            if (calls[i].k == k && own == 0) {
                /* the operation's own lookup */
                own = 1;
                continue;
            }
            nr++;
            for (j = 0; j < nd && dk[j] != calls[i].k; j++)
                ;
            if (j == nd) {
                dk[nd] = calls[i].k;
                dcnt[nd] = 0;
                dmult[nd] = keycount[KJ(calls[i].k)];
                nd++;
            }
            dcnt[j]++;
        } else {
            FAIL("call with (f%d, m=%zu); previous (f%d, %zu), "
                 "requested (f%d, %zu)", calls[i].f, calls[i].m,
                 M.cf, M.cn, M.tf, M.tn);
        }
    }

    if (nold == 0) {
        /* the rehash finished during an earlier operation */
        CHECK(ncalls == 1 && own == 1);
        M.pending = 0;
        M.cf = M.tf;
        M.cn = M.tn;
        n_finished_ops++;
        return;
    }

    CHECK(nold == 1);
    CHECK(own == 1);
    M.pops++;
    n_pending_ops++;
    if (M.pops > M.bold) {
        FAIL("rehash still pending at keyed operation %zu after a resize "
             "of a table with %zu buckets", M.pops, M.bold);
    }

    n_reloc += nr;
    if (nr > max_reloc) {
        max_reloc = nr;
    }
    if (!cover_ok(nd, set, 0)) {
        FAIL("%zu relocations (%zu keys) in one operation are not the "
             "contents of three buckets", nr, nd);
    }
}

/* ------------------------------------------------------------------ */
/* operations                                                          */

static void do_resize(const size_t n, const int f, const int inject)
{
    const int ef = (f >= 0) ? f : M.tf;
    const float before = M.init ? cstl_hash_load(H) : 0;
    int failed = 0;

    CHECK(M.init || f >= 0);

    ncalls = 0;
    fail_realloc = inject;
    cstl_hash_resize(H, n, (f >= 0) ? FN[f] : NULL);
    fail_realloc = 0;
    n_resizes++;

    if (n == 0 || (M.init && n == M.tn && ef == M.tf)) {
        /* nothing to do */
        CHECK(ncalls == 0);
        expect_size_load();
        return;
    }

    if (inject) {
        /* only injected where the outcome shows in the load */
        CHECK(M.init && M.size > 0 && n != M.tn);
        if (cstl_hash_load(H) != (float)M.size / n) {
            failed = 1;
        }
    }

    if (failed) {
        /* undisturbed */
        CHECK(ncalls == 0);
        CHECK(cstl_hash_load(H) == before);
        expect_size_load();
        n_failed_resize++;
        return;
    }

    /* an earlier rehash may have been forced to finish, nothing else */
    expect_all_target();
    if (!M.init) {
        CHECK(ncalls == 0);
        M.init = 1;
        M.pending = 0;
        M.cf = M.tf = ef;
        M.cn = M.tn = n;
    } else {
        if (M.pending) {
            n_resize_pending++;
        } else {
            CHECK(ncalls == 0);
        }
        M.cf = M.tf;
        M.cn = M.tn;
        M.tf = ef;
        M.tn = n;
        M.pending = 1;
        M.bold = M.cn;
        M.pops = 0;
    }
    expect_size_load();
}

static struct elem * free_elem(void)
{
    int i;
    for (i = 0; i < npool; i++) {
        if (!pool[i].in) {
            return &pool[i];
        }
    }
    return NULL;
}

static void op_insert(const unsigned kj)
{
    struct elem * const e = free_elem();
    if (e == NULL) {
        return;
    }
    e->kj = kj;
    ncalls = 0;
    cstl_hash_insert(H, KV(kj), e);
    check_keyed(KV(kj));
    e->in = 1;
    keycount[kj]++;
    M.size++;
    expect_size_load();
}

static unsigned epoch;
struct fv
{
    unsigned kj;
    const struct elem * target;
    unsigned visits;
    int stop_after;
    int ret;
};

static int find_visit(const void * const p, void * const q)
{
    const struct elem * const e = p;
    struct fv * const v = q;

    CHECK(e >= pool && e < pool + MAXE && e == &pool[e->id]);
    CHECK(e->in && e->kj == v->kj);
    CHECK(e->seen != epoch);
    ((struct elem *)e)->seen = epoch;
    v->visits++;
    /* a callback working on another container */
    (void)aux_salt(e->id % NSALT);
    return e == v->target;
}

static void op_find(const unsigned kj, const int mode)
{
    struct fv v;
    void * r;

    v.kj = kj;
    v.target = NULL;
    v.visits = 0;
    epoch++;

    if (mode == 2) {
        /* look for one particular element among those with this key */
        int i, want = (int)(keycount[kj] / 2);
        for (i = 0; i < npool; i++) {
            if (pool[i].in && pool[i].kj == kj && want-- == 0) {
                v.target = &pool[i];
                break;
            }
        }
    }

    ncalls = 0;
    if (mode == 0) {
        r = cstl_hash_find(H, KV(kj), NULL, NULL);
    } else {
        r = cstl_hash_find(H, KV(kj), find_visit, &v);
    }
    check_keyed(KV(kj));

    if (mode == 0) {
        if (keycount[kj] == 0) {
            CHECK(r == NULL);
        } else {
            const struct elem * const e = r;
            CHECK(e != NULL && e >= pool && e < pool + MAXE);
            CHECK(e == &pool[e->id] && e->in && e->kj == kj);
        }
    } else if (v.target == NULL) {
        /* nothing accepted: every element with the key is offered once */
        CHECK(r == NULL);
        CHECK(v.visits == keycount[kj]);
    } else {
        CHECK(r == v.target);
        CHECK(v.visits >= 1 && v.visits <= keycount[kj]);
    }
    expect_size_load();
}

static void op_erase(struct elem * const e)
{
    if (e == NULL || !e->in) {
        return;
    }
    ncalls = 0;
    cstl_hash_erase(H, e);
    check_keyed(KV(e->kj));
    e->in = 0;
    keycount[e->kj]--;
    M.size--;
    expect_size_load();
}

static struct elem * nth_in(size_t n, const int from_end)
{
    int i;
    if (M.size == 0) {
        return NULL;
    }
    n %= M.size;
    for (i = 0; i < npool; i++) {
        struct elem * const e = &pool[from_end ? npool - 1 - i : i];
        if (e->in && n-- == 0) {
            return e;
        }
    }
    return NULL;
}

static void op_rehash(void)
{
    ncalls = 0;
    cstl_hash_rehash(H);
    if (M.init && M.pending) {
        expect_all_target();
        M.pending = 0;
        M.cf = M.tf;
        M.cn = M.tn;
    } else {
        CHECK(ncalls == 0);
    }
    expect_size_load();
}

static void op_shrink(void)
{
    ncalls = 0;
    cstl_hash_shrink_to_fit(H);
    if (M.init && M.pending) {
        /* may or may not have had to finish the rehash */
        expect_all_target();
    } else {
        CHECK(ncalls == 0);
    }
    expect_size_load();
}

struct cv { size_t visits; size_t stop_at; };

static int const_visit(const void * const p, void * const q)
{
    const struct elem * const e = p;
    struct cv * const v = q;
    CHECK(e >= pool && e < pool + MAXE && e == &pool[e->id]);
    CHECK(e->in);
    CHECK(e->seen != epoch);
    ((struct elem *)e)->seen = epoch;
    v->visits++;
    return (v->visits == v->stop_at) ? 7 : 0;
}

static void op_foreach_const(const size_t stop_at)
{
    struct cv v;
    int r;

    v.visits = 0;
    v.stop_at = stop_at;
    epoch++;
    ncalls = 0;
    r = cstl_hash_foreach_const(H, const_visit, &v);
    CHECK(ncalls == 0);
    if (stop_at != 0 && stop_at <= M.size) {
        CHECK(r == 7 && v.visits == stop_at);
    } else {
        CHECK(r == 0 && v.visits == M.size);
    }
    expect_size_load();
}

struct mv { size_t visits; int erase_mod; };

static int mut_visit(void * const p, void * const q)
{
    struct elem * const e = p;
    struct mv * const v = q;
    CHECK(e >= pool && e < pool + MAXE && e == &pool[e->id]);
    CHECK(e->in);
    CHECK(e->seen != epoch);
    e->seen = epoch;
    v->visits++;
    if (v->erase_mod != 0 && e->id % v->erase_mod == 0) {
        /* removing the current object is allowed */
        const size_t before = ncalls;
        cstl_hash_erase(H, e);
        /* the rehash was forced to finish: exactly one lookup */
        CHECK(ncalls == before + 1);
        CHECK(calls[before].f == M.tf && calls[before].m == M.tn
              && calls[before].k == KV(e->kj));
        e->in = 0;
        M.size--;
        /* keycount is adjusted afterwards; see op_foreach */
    }
    return 0;
}

static void op_foreach(const int erase_mod)
{
    struct mv v;
    const size_t size = M.size;
    int i, r;

    v.visits = 0;
    v.erase_mod = erase_mod;
    epoch++;
    ncalls = 0;
    r = cstl_hash_foreach(H, mut_visit, &v);
    CHECK(r == 0 && v.visits == size);
    if (M.init) {
        expect_all_target();
        M.pending = 0;
        M.cf = M.tf;
        M.cn = M.tn;
    } else {
        CHECK(ncalls == 0);
    }
    memset(keycount, 0, sizeof(keycount));
    for (i = 0; i < npool; i++) {
        if (pool[i].in) {
            keycount[pool[i].kj]++;
        }
    }
    expect_size_load();
}

static size_t clr_count;
static void clr(void * const p, void * const x)
{
    struct elem * const e = p;
    (void)x;
    CHECK(e >= pool && e < pool + MAXE && e == &pool[e->id]);
    CHECK(e->in);
    e->in = 0;
    clr_count++;
}

static void op_clear(const int reinit)
{
    int i;
    clr_count = 0;
    ncalls = 0;
    cstl_hash_clear(H, clr);
    CHECK(ncalls == 0);
    CHECK(clr_count == M.size);
    CHECK(cstl_hash_size(H) == 0);
    for (i = 0; i < npool; i++) {
        CHECK(!pool[i].in);
    }
    memset(keycount, 0, sizeof(keycount));
    memset(&M, 0, sizeof(M));
    if (reinit) {
        cstl_hash_init(H, offsetof(struct elem, hn));
    }
}

/* the other object is always in its initialised state */
static void op_swap(void)
{
    ncalls = 0;
    cstl_hash_swap(&tabs[0], &tabs[1]);
    CHECK(ncalls == 0);
    CHECK(cstl_hash_size(H) == 0);
    ti = !ti;
    expect_size_load();
}

static void reset_all(void)
{
    int i;
    op_clear(0);
    for (i = 0; i < MAXE; i++) {
        pool[i].id = i;
        pool[i].in = 0;
        pool[i].seen = 0;
    }
}

/*
 * drive the table until the rehash is over, then every element must be
 * found with a single call using the requested geometry
 */
static void verify_all(void)
{
    int i;

    op_foreach_const(0);
    for (i = 0; i < npool; i++) {
        if (pool[i].in) {
            struct fv v;
            void * r;
            v.kj = pool[i].kj;
            v.target = &pool[i];
            v.visits = 0;
            epoch++;
            ncalls = 0;
            r = cstl_hash_find(H, KV(v.kj), find_visit, &v);
            check_keyed(KV(v.kj));
            CHECK(r == &pool[i]);
        }
    }
    op_rehash();
    for (i = 0; i < npool; i++) {
        if (pool[i].in) {
            ncalls = 0;
            CHECK(cstl_hash_find(H, KV(pool[i].kj), NULL, NULL) != NULL);
            CHECK(ncalls == 1 && calls[0].f == M.tf && calls[0].m == M.tn
                  && calls[0].k == KV(pool[i].kj));
        }
    }
    for (i = 0; i < 8; i++) {
        if (M.init && keycount[100 + i] == 0) {
            ncalls = 0;
            CHECK(cstl_hash_find(H, KV(100 + i), NULL, NULL) == NULL);
            CHECK(ncalls == 1 && calls[0].f == M.tf && calls[0].m == M.tn);
        }
    }
    op_foreach_const(0);
}

/* ------------------------------------------------------------------ */
/* small scope: every sequence of DEPTH operations                     */

enum { O_RESIZE, O_INSERT, O_FIND, O_FINDALL, O_ERASE, O_REHASH,
       O_CONST, O_SHRINK };
struct op { int kind; size_t a; int b; };

static struct op alpha[64];
static int nalpha;

static void build_alphabet(void)
{
    static const size_t ns[] = { 1, 2, 3, 5 };
    static const int fs[] = { -1, 0, 1 };
    static const unsigned ik[] = { 0, 1, 4 };
    static const unsigned fk[] = { 0, 1, 5 };
    unsigned i, j;

    for (i = 0; i < 4; i++) {
        for (j = 0; j < 3; j++) {
            alpha[nalpha].kind = O_RESIZE;
            alpha[nalpha].a = ns[i];
            alpha[nalpha].b = fs[j];
            nalpha++;
        }
    }
    for (i = 0; i < 3; i++) {
        alpha[nalpha].kind = O_INSERT;
        alpha[nalpha++].a = ik[i];
    }
    for (i = 0; i < 3; i++) {
        alpha[nalpha].kind = O_FIND;
        alpha[nalpha++].a = fk[i];
    }
    alpha[nalpha].kind = O_FINDALL; alpha[nalpha++].a = 1;
    alpha[nalpha].kind = O_ERASE; alpha[nalpha++].b = 0;
    alpha[nalpha].kind = O_ERASE; alpha[nalpha++].b = 1;
    alpha[nalpha++].kind = O_REHASH;
    alpha[nalpha++].kind = O_CONST;
    alpha[nalpha++].kind = O_SHRINK;
}

static void apply(const struct op * const o)
{
    switch (o->kind) {
    case O_RESIZE: do_resize(o->a, o->b, 0); break;
    case O_INSERT: op_insert((unsigned)o->a); break;
    case O_FIND: op_find((unsigned)o->a, 0); break;
    case O_FINDALL: op_find((unsigned)o->a, 1); break;
    case O_ERASE: op_erase(nth_in(0, o->b)); break;
    case O_REHASH: op_rehash(); break;
    case O_CONST: op_foreach_const(0); break;
    case O_SHRINK: op_shrink(); break;
    }
}

#define NSTART 6
static void start_state(const int s)
{
    static const unsigned k6[] = { 0, 1, 2, 3, 4, 1 };
    unsigned i;

    reset_all();
    switch (s) {
    case 0:
        do_resize(3, 0, 0);
        break;
    case 1:
        do_resize(3, 0, 0);
        for (i = 0; i < 3; i++) op_insert(i);
        break;
    case 2:
        do_resize(3, 1, 0);
        for (i = 0; i < 6; i++) op_insert(k6[i]);
        break;
    case 3:
        /* in the middle of a growing rehash */
        do_resize(3, 0, 0);
        for (i = 0; i < 6; i++) op_insert(k6[i]);
        do_resize(4, 1, 0);
        break;
    case 4:
        /* everything in one bucket, about to shrink */
        do_resize(4, 3, 0);
        for (i = 0; i < 5; i++) op_insert(k6[i]);
        do_resize(2, 0, 0);
        op_find(1, 0);
        break;
    case 5:
        /* no elements, rehash pending over 5 buckets */
        do_resize(5, 0, 0);
        do_resize(2, 1, 0);
        break;
    }
}

static unsigned long n_sequences;

static void small_scope(const int depth)
{
    int idx[8], s, d;

    npool = 12;
    for (s = 0; s < NSTART; s++) {
        for (d = 0; d < depth; d++) idx[d] = 0;
        for (;;) {
            start_state(s);
            snprintf(ctx, sizeof(ctx), "small s=%d ops=%d,%d,%d,%d", s,
                     idx[0], idx[1], depth > 2 ? idx[2] : -1,
                     depth > 3 ? idx[3] : -1);
            for (d = 0; d < depth; d++) {
                apply(&alpha[idx[d]]);
            }
            verify_all();
            n_sequences++;

            for (d = depth - 1; d >= 0; d--) {
                if (++idx[d] < nalpha) break;
                idx[d] = 0;
            }
            if (d < 0) break;
        }
    }
    npool = MAXE;
}

/* ------------------------------------------------------------------ */
/* directed: the bound on pending operations is reached and honoured   */

static void directed_bounds(void)
{
    static const size_t sizes[] = { 1, 2, 3, 4, 7, 8, 16, 31, 64, 100 };
    unsigned a, b, fill, kind;
    int fo, fn;

    for (a = 0; a < 10; a++)
    for (b = 0; b < 10; b++)
    for (fo = 0; fo < NF; fo++)
    for (fn = 0; fn < NF; fn++)
    for (fill = 0; fill < 3; fill++)
    for (kind = 0; kind < 3; kind++) {
        const size_t no = sizes[a], nn = sizes[b];
        size_t i, nfill = (fill == 0) ? 0 : (fill == 1) ? no : 3 * no + 5;
        if (no == nn && fo == fn) continue;
        if (nfill > MAXE - 110) nfill = MAXE - 110;

        snprintf(ctx, sizeof(ctx), "directed %zu/f%d -> %zu/f%d fill %zu "
                 "kind %u", no, fo, nn, fn, nfill, kind);
        reset_all();
        do_resize(no, fo, 0);
        for (i = 0; i < nfill; i++) op_insert((unsigned)((i * 5) % 97));
        do_resize(nn, fn, 0);
        CHECK(M.pending && M.bold == no);
        /* exactly as many keyed operations as there were buckets */
        for (i = 0; i < no; i++) {
            switch (kind) {
            case 0: op_find(110, 0); break;     /* a key never present */
            case 1: op_insert((unsigned)(i % 97)); break;
            case 2:
                if (M.size > 0) op_erase(nth_in(i * 7, (int)(i & 1)));
                else op_find((unsigned)(i % 97), 1);
                break;
            }
        }
        /* now the rehash must be over: one call per lookup */
        M.pending = 0;
        M.cf = M.tf;
        M.cn = M.tn;
        for (i = 0; i < 5; i++) op_find((unsigned)(i * 13 % 97), 0);
        verify_all();
    }
}

/* resize requests piled up while a rehash is pending */
static void directed_pileup(void)
{
    size_t i;
    int r;

    snprintf(ctx, sizeof(ctx), "pileup");
    reset_all();
    do_resize(16, 0, 0);
    for (i = 0; i < 100; i++) op_insert((unsigned)(i % 60));
    for (r = 0; r < 50; r++) {
        /* growing, shrinking, same size other function, back, repeated */
        do_resize(20, -1, 0);
        op_find(3, 0);
        do_resize(9, 1, 0);
        do_resize(9, 2, 0);
        op_find(4, 2);
        do_resize(9, 1, 0);
        do_resize(9, 1, 0);
        do_resize(9, -1, 0);
        do_resize(0, 3, 0);
        do_resize(23, 4, 0);
        op_insert((unsigned)(r % 60));
        op_erase(nth_in((size_t)r, 0));
        do_resize(16, 0, 0);
        do_resize(16, 0, 0);
        op_find(5, 1);
        do_resize(1, -1, 0);
        do_resize(16, -1, 0);
    }
    verify_all();
}

/* the built-in functions and the default of the very first resize */
static void directed_builtin(void)
{
    DECLARE_CSTL_HASH(b, struct elem, hn);
    size_t i;

    snprintf(ctx, sizeof(ctx), "builtin");
    reset_all();
    cstl_hash_resize(&b, 0, NULL);
    cstl_hash_resize(&b, 8, NULL);
    for (i = 0; i < 50; i++) {
        pool[i].kj = (unsigned)i;
        cstl_hash_insert(&b, i * 3, &pool[i]);
    }
    CHECK(cstl_hash_load(&b) == (float)50 / 8);
    cstl_hash_resize(&b, 13, cstl_hash_div);
    CHECK(cstl_hash_load(&b) == (float)50 / 13);
    for (i = 0; i < 50; i += 7) {
        CHECK(cstl_hash_find(&b, i * 3, NULL, NULL) == &pool[i]);
    }
    cstl_hash_resize(&b, 5, NULL);
    CHECK(cstl_hash_load(&b) == (float)50 / 5);
    CHECK(cstl_hash_find(&b, 1, NULL, NULL) == NULL);
    ncalls = 0;
    cstl_hash_resize(&b, 7, F0);
    CHECK(cstl_hash_load(&b) == (float)50 / 7);
    /* 5 buckets: after 5 keyed operations the rehash is over */
    for (i = 0; i < 5; i++) {
        CHECK(cstl_hash_find(&b, i * 3, NULL, NULL) == &pool[i]);
    }
    for (i = 0; i < 50; i++) {
        ncalls = 0;
        CHECK(cstl_hash_find(&b, i * 3, NULL, NULL) == &pool[i]);
        CHECK(ncalls == 1 && calls[0].f == 0 && calls[0].m == 7
              && calls[0].k == i * 3);
    }
    /* NULL keeps the function requested last, also a pending one */
    cstl_hash_resize(&b, 11, F1);
    cstl_hash_resize(&b, 4, NULL);
    CHECK(cstl_hash_load(&b) == (float)50 / 4);
    cstl_hash_rehash(&b);
    for (i = 0; i < 50; i++) {
        ncalls = 0;
        CHECK(cstl_hash_find(&b, i * 3, NULL, NULL) == &pool[i]);
        CHECK(ncalls == 1 && calls[0].f == 1 && calls[0].m == 4
              && calls[0].k == i * 3);
    }
    cstl_hash_clear(&b, NULL);
    CHECK(cstl_hash_size(&b) == 0);
}

/* ------------------------------------------------------------------ */
/* seeded random histories                                             */

static unsigned long long rs;
static unsigned rnd(void)
{
    rs ^= rs << 13;
    rs ^= rs >> 7;
    rs ^= rs << 17;
    return (unsigned)(rs >> 11);
}

static size_t rnd_size(const size_t maxn)
{
    switch (rnd() % 8) {
    case 0: return 1;
    case 1: return maxn;
    case 2: return M.cn;        /* back to the previous size */
    case 3: return M.tn;        /* same size, maybe another function */
    case 4: return M.tn + 1;
    case 5: return (M.tn > 1) ? M.tn - 1 : 2;
    default: return 1 + rnd() % maxn;
    }
}

static void random_history(const unsigned seed, const unsigned nops)
{
    static const size_t maxns[] = { 3, 8, 16, 64, 257 };
    const size_t maxn = maxns[seed % 5];
    const unsigned keyspan = (seed % 3 == 0) ? 10 : (seed % 3 == 1) ? 60 : NK;
    const unsigned resize_w = 3 + (seed % 4) * 6;
    unsigned i;

    rs = 0x9E3779B97F4A7C15ull ^ ((unsigned long long)seed << 20) ^ seed;
    reset_all();
    aux_setup(seed);
    npool = (seed % 2) ? MAXE : 60;
    do_resize(1 + rnd() % maxn, (int)(rnd() % NF), 0);

    for (i = 0; i < nops; i++) {
        const unsigned r = rnd() % 100;
        snprintf(ctx, sizeof(ctx), "random seed %u op %u", seed, i);

        if (!M.init) {
            do_resize(1 + rnd() % maxn, (int)(rnd() % NF), 0);
        } else if (r < resize_w) {
            const size_t n = rnd_size(maxn);
            const int f = (int)(rnd() % (NF + 2)) - 2;
            const int inject =
                (rnd() % 6 == 0) && M.size > 0 && n != M.tn && n != 0;
            do_resize(n, (f < 0) ? -1 : f, inject);
            if (rnd() % 4 == 0) {
                /* repeated */
                do_resize(n, (f < 0) ? -1 : f, 0);
            }
        } else if (r < resize_w + 1) {
            do_resize(0, (int)(rnd() % NF), 0);
        } else if (r < 45) {
            op_insert(rnd() % keyspan);
        } else if (r < 68) {
            op_find(rnd() % keyspan, (int)(rnd() % 3));
        } else if (r < 90) {
            op_erase(nth_in(rnd(), (int)(rnd() & 1)));
        } else if (r < 92) {
            op_foreach_const((rnd() & 1) ? 0 : 1 + rnd() % 20);
        } else if (r < 94) {
            op_shrink();
        } else if (r < 95) {
            op_rehash();
        } else if (r < 96) {
            op_foreach((rnd() & 1) ? 0 : 2 + (int)(rnd() % 5));
        } else if (r < 98) {
            op_swap();
        } else if (r < 99) {
            if (rnd() % 4 == 0) {
                op_clear((int)(rnd() & 1));
            }
        } else {
            verify_all();
        }
    }
    verify_all();
    npool = MAXE;
}

int main(void)
{
    unsigned seed;

    build_alphabet();
    reset_all();
    aux_setup(1);

    directed_builtin();
    directed_pileup();
    directed_bounds();
    small_scope(4);
    for (seed = 1; seed <= 300; seed++) {
        random_history(seed, 2500);
    }
    reset_all();
    cstl_hash_clear(&aux, NULL);

    CHECK(n_pending_ops > 10000 && n_finished_ops > 10000);
    CHECK(n_resize_pending > 1000 && n_reloc > 10000);
    CHECK(aux_lookups > 1000);

    printf("C19 ok: %lu sequences, %lu resizes (%lu during a pending "
           "rehash, %lu refused), %lu pending ops, %lu finished ops, "
           "%lu relocations (max %lu in one op), %lu hash calls, "
           "%lu injected allocation failures\n",
           n_sequences, n_resizes, n_resize_pending, n_failed_resize,
           n_pending_ops, n_finished_ops, n_reloc, max_reloc, total_calls,
           realloc_fails);
    return 0;
}
