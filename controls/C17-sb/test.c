/*
 * C17: bucket selection is fail-stop.
 *
 *  1. cstl_hash_div()/cstl_hash_mul() return a value in [0, m) for every
 *     key and every table size m >= 1.
 *  2. tables that use the built-in hashes (and well behaved caller-supplied
 *     ones) never abort, whatever the history of inserts, finds, erases,
 *     resizes, partial/complete rehashes, shrinks, swaps and clears.
 *  3. a caller-supplied hash that returns m, m + 1 or SIZE_MAX makes the
 *     keyed operation that invoked it (insert, find, erase) die by SIGABRT,
 *     both when the function is the table's current one and when it is the
 *     one of a pending rehash.
 *
 * Only the public API is used.
 */
#define _POSIX_C_SOURCE 200809L

#include "cstl/hash.h"

#include <stdio.h>
#include <stdlib.h>
#include <stdint.h>
#include <string.h>
#include <signal.h>
#include <unistd.h>
#include <sys/types.h>
#include <sys/wait.h>
#include <sys/resource.h>

static unsigned long nchecks;

#define CHECK(COND)                                                     \
    do {                                                                \
        nchecks++;                                                      \
        if (!(COND)) {                                                  \
            fprintf(stderr, "%s:%d: check failed: %s\n",                \
                    __FILE__, __LINE__, #COND);                         \
            fflush(stderr);                                             \
            _exit(1);                                                   \
        }                                                               \
    } while (0)

/* ------------------------------------------------------------------ */
/* prng                                                               */

static uint64_t rng_state = UINT64_C(0x9e3779b97f4a7c15);

static uint64_t rnd(void)
{
    uint64_t x = rng_state;
    x ^= x << 13;
    x ^= x >> 7;
    x ^= x << 17;
    rng_state = x;
    return x * UINT64_C(0x2545f4914f6cdd1d);
}

static size_t rnd_below(const size_t n)
{
    return (size_t)(rnd() % n);
}

/* ------------------------------------------------------------------ */
/* part 1: range of the built-in hashes                               */

static const size_t boundary_keys[] = {
    0, 1, 2, 3, 4, 5, 7, 8, 9, 15, 16, 17, 31, 32, 33, 63, 64, 65,
    99, 100, 127, 128, 255, 256, 1000, 4095, 4096, 65535, 65536, 65537,
    ((size_t)1 << 23) - 1, ((size_t)1 << 23), ((size_t)1 << 23) + 1,
    ((size_t)1 << 24) - 1, ((size_t)1 << 24), ((size_t)1 << 24) + 1,
    ((size_t)1 << 24) + 2, ((size_t)1 << 24) + 3,
    ((size_t)1 << 25) - 1, ((size_t)1 << 25), ((size_t)1 << 25) + 1,
    ((size_t)1 << 31) - 1, ((size_t)1 << 31), ((size_t)1 << 31) + 1,
    SIZE_MAX, SIZE_MAX - 1, SIZE_MAX - 2, SIZE_MAX / 2, SIZE_MAX / 2 + 1,
    SIZE_MAX / 3, SIZE_MAX / 5, SIZE_MAX - (SIZE_MAX >> 24),
    SIZE_MAX - (SIZE_MAX >> 25), SIZE_MAX - (SIZE_MAX >> 23),
};
#define N_BOUNDARY_KEYS (sizeof(boundary_keys) / sizeof(boundary_keys[0]))

static void check_range_for_size(const size_t m)
{
    size_t i;

    for (i = 0; i < N_BOUNDARY_KEYS; i++) {
        const size_t k = boundary_keys[i];
        CHECK(cstl_hash_div(k, m) < m);
        CHECK(cstl_hash_mul(k, m) < m);
        CHECK(cstl_hash_div(k, m) == k % m);
    }
    for (i = 0; i < 48; i++) {
        const size_t k = (size_t)rnd();
        const size_t ks = k >> rnd_below(sizeof(size_t) * 8);
        CHECK(cstl_hash_div(k, m) < m);
        CHECK(cstl_hash_mul(k, m) < m);
        CHECK(cstl_hash_div(ks, m) < m);
        CHECK(cstl_hash_mul(ks, m) < m);
    }
}

static void part1_builtin_range(void)
{
    size_t m, k;
    unsigned int b;

    /* every small table size */
    for (m = 1; m <= 2100; m++) {
        check_range_for_size(m);
    }

    /* around every power of two, where size_t -> float rounds */
    for (b = 1; b < sizeof(size_t) * 8; b++) {
        const size_t p = (size_t)1 << b;
        int d;
        for (d = -5; d <= 5; d++) {
            m = p + (size_t)d;
            if (m >= 1) {
                check_range_for_size(m);
            }
        }
        /* sizes just under the next power: they round up to it */
        if (b >= 25) {
            check_range_for_size(p + (p - 1));
            check_range_for_size(p + (p - 1) - (p >> 24));
            check_range_for_size(p + (p - 1) - (p >> 23));
            check_range_for_size(p + (p >> 24));
            check_range_for_size(p + (p >> 24) + 1);
            check_range_for_size(p + (p >> 23) - 1);
        }
    }
    check_range_for_size(SIZE_MAX);
    check_range_for_size(SIZE_MAX - 1);
    check_range_for_size(SIZE_MAX / 2);
    check_range_for_size(SIZE_MAX / 3);

    /* random sizes of every magnitude */
    for (b = 0; b < 4000; b++) {
        m = (size_t)rnd();
        m >>= rnd_below(sizeof(size_t) * 8);
        if (m == 0) {
            m = 1;
        }
        check_range_for_size(m);
    }

    /*
     * a dense run of keys: with 24 bits of precision, consecutive small
     * keys walk through a large share of the fractions phi * k can have
     */
    for (k = 0; k < 300000; k++) {
        CHECK(cstl_hash_mul(k, 1) == 0);
        CHECK(cstl_hash_mul(k, 2) < 2);
        CHECK(cstl_hash_mul(k, 3) < 3);
        CHECK(cstl_hash_mul(k, 7) < 7);
        CHECK(cstl_hash_mul(k, 1000) < 1000);
        CHECK(cstl_hash_mul(k, ((size_t)1 << 24) + 3) < ((size_t)1 << 24) + 3);
        CHECK(cstl_hash_mul(k, SIZE_MAX) < SIZE_MAX);
        CHECK(cstl_hash_div(k, 1) == 0);
        CHECK(cstl_hash_div(k, 977) < 977);
    }
    /* keys in the region where phi * k has a coarse grid */
    for (k = ((size_t)1 << 22); k < ((size_t)1 << 22) + 200000; k++) {
        CHECK(cstl_hash_mul(k, 1) == 0);
        CHECK(cstl_hash_mul(k, 5) < 5);
        CHECK(cstl_hash_mul(k, 33554431) < 33554431);
    }
}

/* ------------------------------------------------------------------ */
/* part 2: tables with well behaved hashes never abort                */

/* first element type: node in the middle of the object */
struct item
{
    int v;
    size_t key;
    int in;
    struct cstl_hash_node hn;
    int seen;
};

/* second element type: node first, other size */
struct thing
{
    struct cstl_hash_node hn;
    double d;
    size_t key;
    char in;
    char seen;
};

/* an auxiliary table that one of the hash functions consults */
struct aux
{
    struct cstl_hash_node hn;
    size_t salt;
};
static struct cstl_hash aux_table = CSTL_HASH_INITIALIZER(struct aux, hn);
static struct aux aux_items[16];

static void aux_setup(void)
{
    size_t i;
    cstl_hash_resize(&aux_table, 5, cstl_hash_div);
    for (i = 0; i < 16; i += 2) {
        aux_items[i].salt = i * 7 + 1;
        cstl_hash_insert(&aux_table, i, &aux_items[i]);
    }
}

static size_t good_hash_xor(const size_t k, const size_t m)
{
    return (k ^ (k >> 17) ^ (k << 5)) % m;
}

static size_t good_hash_last(const size_t k, const size_t m)
{
    /* always the last bucket or the first */
    return (k & 1) ? m - 1 : 0;
}

static size_t good_hash_aux(const size_t k, const size_t m)
{
    /* a hash function that itself uses another container */
    const struct aux * const a = cstl_hash_find(&aux_table, k % 16, NULL, NULL);
    return (k + (a != NULL ? a->salt : 0)) % m;
}

static cstl_hash_func_t * const good_hashes[] = {
    NULL, cstl_hash_div, cstl_hash_mul,
    good_hash_xor, good_hash_last, good_hash_aux,
    cstl_hash_mul, cstl_hash_div,
};
#define N_GOOD_HASHES (sizeof(good_hashes) / sizeof(good_hashes[0]))

static size_t pick_key(void)
{
    size_t k;

    switch (rnd_below(4)) {
    case 0:
        return rnd_below(40);
    case 1:
        return boundary_keys[rnd_below(N_BOUNDARY_KEYS)];
    case 2:
        return (size_t)rnd();
    default:
        k = (size_t)rnd();
        return k >> rnd_below(sizeof(size_t) * 8);
    }
}

static size_t pick_count(void)
{
    switch (rnd_below(6)) {
    case 0:
        return 1;
    case 1:
        return 1 + rnd_below(4);
    case 2:
        return 1 + rnd_below(2000);
    default:
        return 1 + rnd_below(70);
    }
}

#define N_ITEMS 160

static int is_target(const void * const e, void * const p)
{
    return e == p;
}

static int item_count_visit(const void * const e, void * const p)
{
    const struct item * const it = e;
    CHECK(it->in == 1);
    *(size_t *)p += 1;
    return 0;
}

static int item_mark_visit(void * const e, void * const p)
{
    struct item * const it = e;
    (void)p;
    CHECK(it->in == 1);
    CHECK(it->seen == 0);
    it->seen = 1;
    return 0;
}

struct erase_some
{
    struct cstl_hash * h;
    size_t erased;
};

static int item_erase_some_visit(void * const e, void * const p)
{
    struct erase_some * const es = p;
    struct item * const it = e;
    if ((it->key ^ (size_t)it->v) & 1) {
        cstl_hash_erase(es->h, it);
        it->in = 0;
        es->erased++;
    }
    return 0;
}

static void item_clear_cb(void * const e, void * const p)
{
    struct item * const it = e;
    (void)p;
    CHECK(it->in == 1);
    it->in = 0;
}

static int thing_count_visit(const void * const e, void * const p)
{
    const struct thing * const t = e;
    CHECK(t->in == 1);
    *(size_t *)p += 1;
    return 0;
}

static void thing_clear_cb(void * const e, void * const p)
{
    struct thing * const t = e;
    (void)p;
    CHECK(t->in == 1);
    t->in = 0;
}

static void verify_items(struct cstl_hash * const h,
                         struct item * const items, const size_t live)
{
    size_t i, c;

    CHECK(cstl_hash_size(h) == live);
    c = 0;
    CHECK(cstl_hash_foreach_const(h, item_count_visit, &c) == 0);
    CHECK(c == live);

    for (i = 0; i < N_ITEMS; i++) {
        struct item * const it = &items[i];
        void * const f = cstl_hash_find(h, it->key, is_target, it);
        if (it->in) {
            const struct item * g;
            CHECK(f == it);
            g = cstl_hash_find(h, it->key, NULL, NULL);
            CHECK(g != NULL && g->in == 1 && g->key == it->key);
        } else {
            CHECK(f == NULL);
        }
    }
}

static void part2_one_history(const unsigned int steps)
{
    struct cstl_hash h1 = CSTL_HASH_INITIALIZER(struct item, hn);
    struct cstl_hash h2;
    struct cstl_hash ht;
    struct item * const items1 = calloc(N_ITEMS, sizeof(*items1));
    struct item * const items2 = calloc(N_ITEMS, sizeof(*items2));
    struct thing * const things = calloc(N_ITEMS, sizeof(*things));
    struct item * its[2];
    struct cstl_hash * hs[2];
    size_t live[2] = { 0, 0 };
    size_t tlive = 0;
    unsigned int s;
    size_t i;

    CHECK(items1 != NULL && items2 != NULL && things != NULL);

    cstl_hash_init(&h2, offsetof(struct item, hn));
    cstl_hash_init(&ht, offsetof(struct thing, hn));

    for (i = 0; i < N_ITEMS; i++) {
        items1[i].v = (int)i;
        items2[i].v = (int)(i + 1000);
        things[i].d = (double)i;
    }

    its[0] = items1;
    its[1] = items2;
    hs[0] = &h1;
    hs[1] = &h2;

    cstl_hash_resize(&h1, pick_count(), good_hashes[rnd_below(N_GOOD_HASHES)]);
    cstl_hash_resize(&h2, pick_count(), NULL);
    cstl_hash_resize(&ht, pick_count(), cstl_hash_mul);

    for (s = 0; s < steps; s++) {
        const unsigned int w = (unsigned int)rnd_below(2);
        struct cstl_hash * const h = hs[w];
        struct item * const items = its[w];
        const unsigned int op = (unsigned int)rnd_below(100);

        if (op < 30) {
            /* insert */
            struct item * const it = &items[rnd_below(N_ITEMS)];
            if (!it->in) {
                it->key = pick_key();
                cstl_hash_insert(h, it->key, it);
                it->in = 1;
                live[w]++;
            }
        } else if (op < 48) {
            /* erase */
            struct item * const it = &items[rnd_below(N_ITEMS)];
            if (it->in) {
                cstl_hash_erase(h, it);
                it->in = 0;
                live[w]--;
                CHECK(cstl_hash_find(h, it->key, is_target, it) == NULL);
            }
        } else if (op < 66) {
            /* find */
            struct item * const it = &items[rnd_below(N_ITEMS)];
            void * const f = cstl_hash_find(h, it->key, is_target, it);
            CHECK(f == (it->in ? it : NULL));
            (void)cstl_hash_find(h, pick_key(), NULL, NULL);
        } else if (op < 78) {
            /* resize, possibly several in a row while one is pending */
            unsigned int r = 1 + (unsigned int)rnd_below(3);
            while (r-- > 0) {
                cstl_hash_resize(h, pick_count(),
                                 good_hashes[rnd_below(N_GOOD_HASHES)]);
                if (rnd_below(2)) {
                    (void)cstl_hash_find(h, pick_key(), NULL, NULL);
                }
            }
            CHECK(cstl_hash_size(h) == live[w]);
        } else if (op < 81) {
            cstl_hash_resize(h, 0, cstl_hash_div);
        } else if (op < 84) {
            cstl_hash_rehash(h);
        } else if (op < 87) {
            cstl_hash_shrink_to_fit(h);
        } else if (op < 90) {
            /* foreach visits every element exactly once */
            for (i = 0; i < N_ITEMS; i++) {
                items[i].seen = 0;
            }
            CHECK(cstl_hash_foreach(h, item_mark_visit, NULL) == 0);
            for (i = 0; i < N_ITEMS; i++) {
                CHECK(items[i].seen == items[i].in);
            }
        } else if (op < 92) {
            struct erase_some es;
            es.h = h;
            es.erased = 0;
            CHECK(cstl_hash_foreach(h, item_erase_some_visit, &es) == 0);
            live[w] -= es.erased;
        } else if (op < 94) {
            /* same element type: swap the two tables */
            size_t tl;
            struct item * ti;
            cstl_hash_swap(&h1, &h2);
            tl = live[0]; live[0] = live[1]; live[1] = tl;
            ti = its[0]; its[0] = its[1]; its[1] = ti;
        } else if (op < 95) {
            /* clear and start over, sometimes without a callback */
            if (rnd_below(2)) {
                cstl_hash_clear(h, item_clear_cb);
            } else {
                cstl_hash_clear(h, NULL);
                for (i = 0; i < N_ITEMS; i++) {
                    items[i].in = 0;
                }
            }
            live[w] = 0;
            CHECK(cstl_hash_size(h) == 0);
            cstl_hash_resize(h, pick_count(),
                             good_hashes[rnd_below(N_GOOD_HASHES)]);
        } else if (op < 97) {
            verify_items(hs[w], its[w], live[w]);
        } else {
            /* the table of the other element type */
            struct thing * const t = &things[rnd_below(N_ITEMS)];
            size_t c = 0;
            if (!t->in) {
                t->key = pick_key();
                cstl_hash_insert(&ht, t->key, t);
                t->in = 1;
                tlive++;
            } else {
                CHECK(cstl_hash_find(&ht, t->key, is_target, t) == t);
                cstl_hash_erase(&ht, t);
                t->in = 0;
                tlive--;
            }
            if (rnd_below(3) == 0) {
                cstl_hash_resize(&ht, pick_count(),
                                 good_hashes[rnd_below(N_GOOD_HASHES)]);
            }
            CHECK(cstl_hash_foreach_const(&ht, thing_count_visit, &c) == 0);
            CHECK(c == tlive);
            CHECK(cstl_hash_size(&ht) == tlive);
        }
    }

    verify_items(hs[0], its[0], live[0]);
    verify_items(hs[1], its[1], live[1]);

    for (i = 0; i < N_ITEMS; i++) {
        if (things[i].in) {
            CHECK(cstl_hash_find(&ht, things[i].key, is_target, &things[i])
                  == &things[i]);
        }
    }

    cstl_hash_clear(&h1, item_clear_cb);
    cstl_hash_clear(&h2, item_clear_cb);
    cstl_hash_clear(&ht, thing_clear_cb);
    for (i = 0; i < N_ITEMS; i++) {
        CHECK(items1[i].in == 0 && items2[i].in == 0 && things[i].in == 0);
    }
    CHECK(cstl_hash_size(&h1) == 0 && cstl_hash_size(&h2) == 0);
    /* a cleared table needs nothing more; clearing again is harmless */
    cstl_hash_clear(&h1, NULL);

    free(items1);
    free(items2);
    free(things);
}

/*
 * grow and shrink step by step with elements whose keys are the boundary
 * keys, finding all of them after every single keyed operation, so that
 * every stage of an incremental rehash is looked at
 */
static void part2_stepwise(cstl_hash_func_t * const f1,
                           cstl_hash_func_t * const f2)
{
    static const size_t sizes[] = {
        1, 2, 1, 3, 17, 4, 64, 63, 65, 1, 1000, 999, 7, 7, 128, 2, 33, 1,
    };
    DECLARE_CSTL_HASH(h, struct item, hn);
    struct item * const items = calloc(N_BOUNDARY_KEYS, sizeof(*items));
    size_t s, i, j;

    CHECK(items != NULL);
    cstl_hash_resize(&h, 3, f1);
    for (i = 0; i < N_BOUNDARY_KEYS; i++) {
        items[i].key = boundary_keys[i];
        items[i].in = 1;
        cstl_hash_insert(&h, items[i].key, &items[i]);
    }

    for (s = 0; s < sizeof(sizes) / sizeof(sizes[0]); s++) {
        cstl_hash_resize(&h, sizes[s], (s & 1) ? f2 : f1);
        CHECK(cstl_hash_size(&h) == N_BOUNDARY_KEYS);
        for (i = 0; i < N_BOUNDARY_KEYS; i++) {
            CHECK(cstl_hash_find(&h, items[i].key, is_target, &items[i])
                  == &items[i]);
            if (i % 9 == 0) {
                size_t c = 0;
                cstl_hash_foreach_const(&h, item_count_visit, &c);
                CHECK(c == N_BOUNDARY_KEYS);
            }
            if (i % 13 == 5) {
                /* take one out and put it back mid-rehash */
                j = (i * 7) % N_BOUNDARY_KEYS;
                cstl_hash_erase(&h, &items[j]);
                CHECK(cstl_hash_find(&h, items[j].key, is_target, &items[j])
                      == NULL);
                cstl_hash_insert(&h, items[j].key, &items[j]);
            }
            if (s % 5 == 4 && i == N_BOUNDARY_KEYS / 2) {
                cstl_hash_shrink_to_fit(&h);
            }
        }
    }
    cstl_hash_clear(&h, item_clear_cb);
    for (i = 0; i < N_BOUNDARY_KEYS; i++) {
        CHECK(items[i].in == 0);
    }
    free(items);
}

/* ------------------------------------------------------------------ */
/* part 3: out-of-range hashes abort the operation that invoked them  */

static volatile int bad_armed;
static volatile size_t bad_kind;       /* 0: m, 1: m + 1, 2: SIZE_MAX */
static volatile int bad_only_key_set;
static volatile size_t bad_only_key;
static volatile size_t bad_min_size;   /* only misbehave for m >= this */

static size_t treacherous_hash(const size_t k, const size_t m)
{
    if (bad_armed && m >= bad_min_size
        && (!bad_only_key_set || k == bad_only_key)) {
        switch (bad_kind) {
        case 0:
            return m;
        case 1:
            return m + 1;
        default:
            return SIZE_MAX;
        }
    }
    return (k * 31 + 7) % m;
}

enum entry { E_INSERT, E_FIND, E_FIND_VISIT, E_ERASE, N_ENTRIES };
enum place { P_CURRENT, P_PENDING, P_CURRENT_ONE_KEY, P_PENDING_ONE_KEY,
             N_PLACES };

/*
 * returns (in the child only) after having built the scenario and run
 * the operation. if @arm is zero the hash behaves and the operation
 * must simply return.
 */
static void scenario(const enum entry en, const enum place pl,
                     const size_t kind, const size_t m, const int arm)
{
    DECLARE_CSTL_HASH(h, struct item, hn);
    static struct item items[24];
    static struct item extra;
    const size_t nitems = sizeof(items) / sizeof(items[0]);
    const size_t special = 424242;
    size_t i;

    bad_armed = 0;
    bad_kind = kind;
    bad_only_key_set = 0;
    bad_min_size = 0;

    memset(items, 0, sizeof(items));
    memset(&extra, 0, sizeof(extra));

    switch (pl) {
    case P_CURRENT:
    case P_CURRENT_ONE_KEY:
        /* the treacherous function is the table's settled function */
        cstl_hash_resize(&h, m, treacherous_hash);
        for (i = 0; i < nitems; i++) {
            items[i].key = (i == 0) ? special : i * 3;
            cstl_hash_insert(&h, items[i].key, &items[i]);
        }
        cstl_hash_rehash(&h);
        break;
    case P_PENDING:
    case P_PENDING_ONE_KEY:
        /* a good function now, the treacherous one is being moved to */
        cstl_hash_resize(&h, (m > 3) ? m - 3 : m + 2, cstl_hash_div);
        for (i = 0; i < nitems; i++) {
            items[i].key = (i == 0) ? special : i * 3;
            cstl_hash_insert(&h, items[i].key, &items[i]);
        }
        cstl_hash_rehash(&h);
        /* the function only misbehaves from the new size upwards */
        bad_min_size = m;
        break;
    default:
        _exit(3);
    }

    if (pl == P_CURRENT_ONE_KEY || pl == P_PENDING_ONE_KEY) {
        bad_only_key_set = 1;
        bad_only_key = special;
        if (en == E_ERASE) {
            /* the only element with the special key is items[0] */
            ;
        } else {
            /*
             * take the element with the special key out first, so
             * that nothing but the operation itself hashes that key
             */
            cstl_hash_erase(&h, &items[0]);
        }
    }

    if (pl == P_PENDING || pl == P_PENDING_ONE_KEY) {
        /* arm before the resize; the resize itself hashes nothing */
        bad_armed = arm;
        cstl_hash_resize(&h, m, treacherous_hash);
    } else {
        bad_armed = arm;
    }

    switch (en) {
    case E_INSERT:
        extra.key = special;
        cstl_hash_insert(&h, extra.key, &extra);
        break;
    case E_FIND:
        (void)cstl_hash_find(&h, special, NULL, NULL);
        break;
    case E_FIND_VISIT:
        (void)cstl_hash_find(&h, special, is_target, &items[0]);
        break;
    case E_ERASE:
        cstl_hash_erase(&h, &items[0]);
        break;
    default:
        _exit(3);
    }

    /* only reached if the operation returned */
    bad_armed = 0;
    bad_only_key_set = 0;
    cstl_hash_clear(&h, NULL);
}

/* how did the child end? 0: exit(0), 1: SIGABRT, 2: anything else */
static int run_child(const enum entry en, const enum place pl,
                     const size_t kind, const size_t m, const int arm)
{
    int status;
    pid_t pid;

    fflush(NULL);
    pid = fork();
    CHECK(pid >= 0);
    if (pid == 0) {
        /* make sure SIGABRT has its default, deadly, disposition */
        struct rlimit rl;
        rl.rlim_cur = rl.rlim_max = 0;
        setrlimit(RLIMIT_CORE, &rl);
        signal(SIGABRT, SIG_DFL);
        scenario(en, pl, kind, m, arm);
        _exit(0);
    }
    CHECK(waitpid(pid, &status, 0) == pid);
    if (WIFEXITED(status) && WEXITSTATUS(status) == 0) {
        return 0;
    }
    if (WIFSIGNALED(status) && WTERMSIG(status) == SIGABRT) {
        return 1;
    }
    fprintf(stderr, "child: unexpected status 0x%x\n", (unsigned)status);
    return 2;
}

static void part3_bad_hashes(void)
{
    static const size_t sizes[] = { 1, 2, 5, 32, 33, 1000 };
    size_t si, kind;
    int en, pl;

    for (si = 0; si < sizeof(sizes) / sizeof(sizes[0]); si++) {
        for (en = 0; en < N_ENTRIES; en++) {
            for (pl = 0; pl < N_PLACES; pl++) {
                /* control: the same history with a behaving hash */
                CHECK(run_child((enum entry)en, (enum place)pl,
                                0, sizes[si], 0) == 0);
                for (kind = 0; kind < 3; kind++) {
                    CHECK(run_child((enum entry)en, (enum place)pl,
                                    kind, sizes[si], 1) == 1);
                }
            }
        }
    }
}

/* a hash that is bad for one key only leaves every other key usable */
static void part3_other_keys_unaffected(void)
{
    DECLARE_CSTL_HASH(h, struct item, hn);
    static struct item items[50];
    size_t i;

    bad_kind = 2;
    bad_min_size = 0;
    bad_only_key_set = 1;
    bad_only_key = 999999;
    bad_armed = 1;

    cstl_hash_resize(&h, 11, treacherous_hash);
    for (i = 0; i < 50; i++) {
        items[i].key = i * 5;
        items[i].in = 1;
        cstl_hash_insert(&h, items[i].key, &items[i]);
    }
    cstl_hash_resize(&h, 29, NULL);
    for (i = 0; i < 50; i++) {
        CHECK(cstl_hash_find(&h, items[i].key, is_target, &items[i])
              == &items[i]);
    }
    cstl_hash_resize(&h, 6, treacherous_hash);
    for (i = 0; i < 50; i += 2) {
        cstl_hash_erase(&h, &items[i]);
        items[i].in = 0;
    }
    for (i = 0; i < 50; i++) {
        CHECK(cstl_hash_find(&h, items[i].key, is_target, &items[i])
              == (items[i].in ? &items[i] : NULL));
    }
    cstl_hash_clear(&h, NULL);

    bad_armed = 0;
    bad_only_key_set = 0;
}

int main(void)
{
    unsigned int r;

    part1_builtin_range();

    aux_setup();
    for (r = 0; r < 60; r++) {
        rng_state = UINT64_C(0x1234567) * (r + 1) + 0x9e37;
        part2_one_history(2500);
    }
    part2_stepwise(cstl_hash_mul, cstl_hash_div);
    part2_stepwise(cstl_hash_div, cstl_hash_mul);
    part2_stepwise(cstl_hash_mul, cstl_hash_mul);
    part2_stepwise(good_hash_aux, good_hash_last);
    part2_stepwise(good_hash_last, cstl_hash_mul);

    part3_bad_hashes();
    part3_other_keys_unaffected();

    cstl_hash_clear(&aux_table, NULL);

    printf("C17 ok: %lu checks\n", nchecks);
    return 0;
}
