/*
 * C17 / change c: caller-supplied hash functions that return m, m+1 or
 * SIZE_MAX must abort insert/find/erase (and the forced rehash paths), both
 * in the steady state and while a rehash is pending with the bad function as
 * the old or as the new one; well-behaved ones must keep working, including
 * when the old and the new bucket of a key coincide.
 *
 * build (from the worktree root, after `make build`):
 *   gcc -std=c99 -D_POSIX_C_SOURCE=199309L -Wall -Wextra -Iinclude -o _keep/c/test _keep/c/test.c build/libcstl.a -lm
 * run:
 *   ./_keep/c/test
 */
#include "cstl/hash.h"

#include <stdio.h>
#include <stdlib.h>
#include <stdint.h>
#include <signal.h>
#include <unistd.h>
#include <sys/types.h>
#include <sys/wait.h>

#define CHECK(X)                                                        \
    do {                                                                \
        if (!(X)) {                                                     \
            printf("FAIL %s:%d: %s\n", __FILE__, __LINE__, #X);         \
            exit(1);                                                    \
        }                                                               \
    } while (0)

struct item
{
    size_t k;
    struct cstl_hash_node hn;
};

#define N 40
static struct item it[N], extra;

/* ---- hash functions under the test's control ---- */

static size_t bad_off;          /* what a misbehaving function adds to m */
static long good_calls;         /* calls answered properly before going bad */
static unsigned long ncalls;

static size_t bad_value(const size_t m)
{
    return bad_off == SIZE_MAX ? SIZE_MAX : m + bad_off;
}

static size_t h_mod(const size_t k, const size_t m)
{
    ncalls++;
    return k % m;
}

static size_t h_third(const size_t k, const size_t m)
{
    ncalls++;
    return (k / 3) % m;
}

static size_t h_zero(const size_t k, const size_t m)
{
    (void)k; (void)m;
    ncalls++;
    return 0;
}

/* proper (like h_mod) for the first good_calls calls, then out of range */
static size_t h_turns_bad(const size_t k, const size_t m)
{
    ncalls++;
    if (good_calls > 0) {
        good_calls--;
        return k % m;
    }
    return bad_value(m);
}

/* ---- running something in a child and looking at how it ended ---- */

typedef void action_t(struct cstl_hash *);

static int ends_in_abort(action_t * const act, struct cstl_hash * const h)
{
    int st;
    const pid_t pid = fork();
    CHECK(pid >= 0);
    if (pid == 0) {
        act(h);
        _exit(0);
    }
    CHECK(waitpid(pid, &st, 0) == pid);
    if (WIFSIGNALED(st)) {
        /* anything but SIGABRT (a wild access, say) is a failure */
        CHECK(WTERMSIG(st) == SIGABRT);
        return 1;
    }
    CHECK(WIFEXITED(st) && WEXITSTATUS(st) == 0);
    return 0;
}

static void act_insert(struct cstl_hash * const h)
{
    cstl_hash_insert(h, extra.k, &extra);
}
static void act_find_present(struct cstl_hash * const h)
{
    cstl_hash_find(h, it[7].k, NULL, NULL);
}
static void act_find_absent(struct cstl_hash * const h)
{
    cstl_hash_find(h, 999983, NULL, NULL);
}
static void act_erase(struct cstl_hash * const h)
{
    cstl_hash_erase(h, &it[11]);
}
static void act_rehash(struct cstl_hash * const h)
{
    cstl_hash_rehash(h);
}
static int visit_nothing(void * const e, void * const p)
{
    (void)e; (void)p;
    return 0;
}
static void act_foreach(struct cstl_hash * const h)
{
    cstl_hash_foreach(h, visit_nothing, NULL);
}
static void act_resize_again(struct cstl_hash * const h)
{
    /* has to finish the pending rehash first */
    cstl_hash_resize(h, 29, h_mod);
}

static action_t * const keyed[] = {
    act_insert, act_find_present, act_find_absent, act_erase,
};
#define NKEYED (sizeof(keyed) / sizeof(*keyed))

static void fill(struct cstl_hash * const h,
                 const size_t buckets, cstl_hash_func_t * const f)
{
    unsigned int i;
    cstl_hash_init(h, offsetof(struct item, hn));
    cstl_hash_resize(h, buckets, f);
    for (i = 0; i < N; i++) {
        it[i].k = 5 * i + 1;
        cstl_hash_insert(h, it[i].k, &it[i]);
    }
    extra.k = 424242;
}

static void check_all_present(struct cstl_hash * const h)
{
    unsigned int i;
    for (i = 0; i < N; i++) {
        CHECK(cstl_hash_find(h, it[i].k, NULL, NULL) == &it[i]);
    }
    CHECK(cstl_hash_size(h) == N);
}

static void bad_function_scenarios(void)
{
    static const size_t offs[] = { 0, 1, SIZE_MAX };
    struct cstl_hash h;
    unsigned int o, a;

    for (o = 0; o < sizeof(offs) / sizeof(*offs); o++) {
        bad_off = offs[o];

        /* steady state: the table's only function goes bad */
        good_calls = N;
        fill(&h, 16, h_turns_bad);
        CHECK(good_calls == 0);
        for (a = 0; a < NKEYED; a++) {
            CHECK(ends_in_abort(keyed[a], &h));
        }
        /* not keyed, no hash call: unaffected */
        CHECK(!ends_in_abort(act_rehash, &h));
        CHECK(!ends_in_abort(act_foreach, &h));
        cstl_hash_clear(&h, NULL);

        /* pending rehash, the NEW function is bad from the start */
        fill(&h, 16, h_mod);
        good_calls = 0;
        cstl_hash_resize(&h, 24, h_turns_bad);
        for (a = 0; a < NKEYED; a++) {
            CHECK(ends_in_abort(keyed[a], &h));
        }
        CHECK(ends_in_abort(act_rehash, &h));
        CHECK(ends_in_abort(act_foreach, &h));
        CHECK(ends_in_abort(act_resize_again, &h));
        cstl_hash_clear(&h, NULL);

        /* pending rehash (shrinking), the NEW function goes bad a bit later */
        fill(&h, 16, h_mod);
        good_calls = 1;
        cstl_hash_resize(&h, 6, h_turns_bad);
        for (a = 0; a < NKEYED; a++) {
            CHECK(ends_in_abort(keyed[a], &h));
        }
        CHECK(ends_in_abort(act_rehash, &h));
        cstl_hash_clear(&h, NULL);

        /* pending rehash, the OLD function has gone bad, the new one is fine */
        good_calls = N;
        fill(&h, 16, h_turns_bad);
        CHECK(good_calls == 0);
        cstl_hash_resize(&h, 24, h_mod);
        for (a = 0; a < NKEYED; a++) {
            CHECK(ends_in_abort(keyed[a], &h));
        }
        /* the sweep only consults the new function, so it can finish */
        CHECK(!ends_in_abort(act_rehash, &h));
        cstl_hash_rehash(&h);
        check_all_present(&h);
        cstl_hash_clear(&h, NULL);
    }
}

static int count_visit(const void * const e, void * const p)
{
    (void)e;
    ++*(unsigned int *)p;
    return 0;
}

static void good_function_scenarios(void)
{
    static cstl_hash_func_t * const fn[] = { h_mod, h_third, h_zero };
    static const size_t sz[] = { 16, 16, 24, 5, 1, 40, 40, 7 };
    struct cstl_hash h;
    unsigned int f, s, i, n;

    fill(&h, 16, h_mod);
    for (s = 0; s < sizeof(sz) / sizeof(*sz); s++) {
        for (f = 0; f < sizeof(fn) / sizeof(*fn); f++) {
            /*
             * same size with another function, another size with the same
             * function, ...: for many keys old and new bucket coincide
             */
            cstl_hash_resize(&h, sz[s], fn[f]);
            n = 0;
            cstl_hash_foreach_const(&h, count_visit, &n);
            CHECK(n == N);
            /* a few keyed operations while the rehash is pending */
            cstl_hash_insert(&h, extra.k, &extra);
            CHECK(cstl_hash_find(&h, extra.k, NULL, NULL) == &extra);
            CHECK(cstl_hash_find(&h, it[3].k, NULL, NULL) == &it[3]);
            cstl_hash_erase(&h, &extra);
            CHECK(cstl_hash_find(&h, extra.k, NULL, NULL) == NULL);
            cstl_hash_erase(&h, &it[3]);
            CHECK(cstl_hash_find(&h, it[3].k, NULL, NULL) == NULL);
            cstl_hash_insert(&h, it[3].k, &it[3]);
            for (i = 0; i < N; i++) {
                CHECK(cstl_hash_find(&h, it[i].k, NULL, NULL) == &it[i]);
            }
            n = 0;
            cstl_hash_foreach_const(&h, count_visit, &n);
            CHECK(n == N);
            check_all_present(&h);
        }
    }
    CHECK(ncalls > 0);
    cstl_hash_clear(&h, NULL);
}

int main(void)
{
    good_function_scenarios();
    bad_function_scenarios();
    printf("ok\n");
    return 0;
}
